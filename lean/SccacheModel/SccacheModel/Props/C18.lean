import SccacheModel.Proofs.Sched
import SccacheModel.Proofs.SchedWitness

/-! # C18 — scheduler job bookkeeping stays consistent under every message interleaving

Model: `SchedM.Sched` (`Model/Sched.lean`): `jobs`, per-server `assigned` / `unclaimed` / `cpus` / `nonce` / last error,
the job counter; the allocation handler as **three steps** (`allocChoose` under the servers lock with the exact
rational form of `load_weight` and the admissible-choice set, the unlocked assignment call, `allocRecordFixed` /
`allocFail`), heartbeat (same / fresh nonce), update with the transition table and owner check, status; time frozen.
Tie: hook H6 (`verif_driver` inside the `sccache-dist` crate: real `Scheduler`, nested handler calls inside a
scripted `do_assign_job`) + `modeld sched`; the server choice is acceptance-checked (hash-map order). -/

namespace C18
open SchedM SchedM.Sched

/-- `scheduler_consistent`: for **every** sequence of messages — allocations split into their three steps with
    anything in between (other allocations, heartbeats with the same or a fresh nonce, job-state updates with every
    state from every server, failed assignments) — every live job is listed by its registered server, job ids are
    fresh, no server lists more jobs than `cpus + 1 + cpus/8`, the scheduler is not poisoned, and no update panics. -/
theorem scheduler_consistent (msgs : List WAct) :
    let c := (msgs.foldl wstep (({} : Sched), [])).1
    (∀ job ∈ c.jobs, ∃ v, c.findSrv job.server = some v ∧ job.id ∈ v.assigned) ∧
    (∀ job ∈ c.jobs, job.id < c.jobCount) ∧
    (∀ s v, c.findSrv s = some v → v.assigned.length ≤ capOf v.cpus) ∧
    c.poisoned = false ∧
    (∀ j s st, (c.update j s st).2 ≠ .panic) := by
  have h := Sched.scheduler_consistent msgs
  exact ⟨h.1.attributed, h.1.freshJobs, h.1.capacity, h.1.notPoisoned, h.2⟩

/-- `transitions_only`: an accepted job-state update is one of pending→ready, ready→started, started→complete and
    comes from the server the job is attributed to — in every state, reachable or not. -/
theorem transitions_only (c : Sched) (j s : Nat) (st : JState) (h : (c.update j s st).2 = .ok) :
    ∃ job ∈ c.jobs, job.id = j ∧ job.server = s ∧
      ((job.state = .pending ∧ st = .ready) ∨ (job.state = .ready ∧ st = .started) ∨ (job.state = .started ∧ st = .complete)) := by
  unfold update at h
  cases hf : c.jobs.find? (·.id == j) with
  | none => simp [hf] at h
  | some job =>
    have hmem : job ∈ c.jobs := List.mem_of_find?_eq_some hf
    have hid : job.id = j := by simpa using List.find?_some hf
    simp only [hf] at h
    by_cases hs : (job.server != s) = true
    · simp [hs] at h
    · have hs' : job.server = s := by simpa using hs
      refine ⟨job, hmem, hid, hs', ?_⟩
      simp only [hs] at h
      cases hjs : job.state <;> cases st <;> simp [hjs] at h ⊢

/-- `in_progress_eq`: the status report counts exactly the live jobs -/
theorem in_progress_eq (c : Sched) : c.status.2.2 = c.jobs.length := rfl

/-- non-vacuity: a reachable state with a recorded job on a registered server (the invariant talks about something) -/
example : let c := ([WAct.heartbeat 0 1 2, .choose (some 0), .record 0 0 .ready].foldl wstep (({} : Sched), [])).1
    c.jobs.map (·.id) = [0] ∧ c.servers.map (·.assigned) = [[0]] := by decide

/-- F-C18-a (negative, kernel-checked, **pinned** third step `allocRecord`): a heartbeat with a fresh nonce between
    choice and recording leaves a job attributed to a server that does not list it, and its `Complete` update panics.
    Repaired in /repo by a `fix:` commit; `scheduler_consistent` above is about the repaired step. -/
theorem pinned_panic_witness : witness.2 = .panic ∧ witness.1.poisoned = true := sched_panic_witness

/-- the capacity bound of the model is the `cores_plus_slack` formula of sccache-dist/main.rs **as it is now** (regenerated) -/
theorem capacity_formula_is_source_formula : (∀ c, capOf c = GenC.capOf c) ∧ GenC.maxPerCoreLoad = 2 :=
  SchedM.Sched.capacity_matches_source

end C18
