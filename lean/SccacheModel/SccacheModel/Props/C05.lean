import SccacheModel.Model.RustKey
import SccacheModel.Proofs.RustArgs
import SccacheModel.Gen.RustArgs

/-! # C05 — wrapped rustc compiles are identical to direct ones and keyed on all inputs

Model: `RustKeyM` (`Model/RustKey.lean`): the pre-image `RustHasher::generate_hash_key` feeds to the digest — version
tag, sysroot shared-library digests, the argument string (arguments with `--extern`, `-L`, `--out-dir` and a json
`--target` dropped, the `--cfg` group sorted, concatenated and hashed as one string), source / extern / static-lib /
target-json digests, sorted env-deps, the `CARGO_*` variables, the working directory, `rustc -vV`; framing of
`OsString` / `String` / `PathBuf` as std `Hash` writes it.
Argument parser: `RArgsM` (`Model/RustArgs.lean` over the **regenerated** rustc table `Gen/RustArgs.lean`): `ArgsIter` on the
lossy string, the value types (`ArgCodegen`, `ArgCrateTypes`, `ArgExtern`, `ArgLinkLibrary`, `ArgLinkPath`, `ArgTarget`,
`ArgUnstable`) with their re-rendering, the classification loop and the post-loop checks of `rust::parse_arguments`; tied through
hook H7 by `h_rustargs` + `modeld rustargs`.
Tie: `h_framing` (framing, byte-exact) + `modeld framing`; system monitor `tools/sys_c05.py`: real sccache + rustc 1.95
on a generated crate (module, `include_str!`, `env!`, cfg feature, extern rlib): each input edit must miss, each
reordering must hit, every request must equal a direct rustc run (exit status, stderr, every file in `--out-dir`). -/

namespace C05
open RustKeyM

/-- `rust_key_perm`: two requests whose non-`--cfg` hashed arguments agree in order and whose `--cfg` arguments are
    permutations of each other (other hashed components equal) have the same key pre-image — reordering `--cfg`
    does not prevent reuse -/
theorem rust_key_perm (r1 r2 : RReq) (hrest : restArgs r1 = restArgs r2) (hcfg : (cfgArgs r1).Perm (cfgArgs r2))
    (h1 : r1.version = r2.version) (h2 : r1.shlibDigests = r2.shlibDigests) (h3 : r1.sourceHashes = r2.sourceHashes)
    (h4 : r1.externHashes = r2.externHashes) (h5 : r1.staticlibHashes = r2.staticlibHashes)
    (h6 : r1.targetJsonHash = r2.targetJsonHash) (h7 : r1.envDeps = r2.envDeps) (h8 : r1.cargoEnv = r2.cargoEnv)
    (h9 : r1.cwd = r2.cwd) (h10 : r1.rustcVersion = r2.rustcVersion) : encRust r1 = encRust r2 :=
  RustKeyM.rust_key_perm r1 r2 hrest hcfg h1 h2 h3 h4 h5 h6 h7 h8 h9 h10

/-- `--extern`, `-L` and `--out-dir` arguments never enter the argument string, in any position or number: those
    inputs reach the key through content digests only (so moving / reordering them does not prevent reuse) -/
theorem rust_key_ignores_extern_paths (r : RReq) (extra : List RArg)
    (hx : ∀ a ∈ extra, (flagIs fExtern a || flagIs fL a || flagIs fOutDir a) = true) :
    argString { r with args := r.args ++ extra } = argString r := RustKeyM.rust_key_ignores_extern_paths r extra hx

/-- the framing of one argument is injective: equal framed bytes, equal arguments (length prefix) -/
theorem encArg_inj (a b : Bytes) (ha : a.length < 2 ^ 64) (hb : b.length < 2 ^ 64) (h : encArg a = encArg b) : a = b := by
  have hl : (encArg a).length = (encArg b).length := by rw [h]
  simp only [encArg, List.length_append, le64, List.length_map, List.length_range] at hl
  have hlen : a.length = b.length := by omega
  simp only [encArg] at h
  have : (le64 a.length).length = (le64 b.length).length := by simp [le64]
  exact (List.append_inj h this).2

/-- F-C05-a (negative, kernel-checked, open): the `name=` half of `--extern name=path` is in no key component, and the
    extern digests are taken in sorted *path* order — swapping which crate name is bound to which rlib keeps the key.
    Replayed on the real binary + rustc by `tools/sys_c05.py extern_alias` (the second request is a hit that delivers
    the first rlib). -/
theorem extern_alias_witness :
    encRust (exSwap true) = encRust (exSwap false) ∧ (exSwap true).args ≠ (exSwap false).args :=
  RustKeyM.extern_alias_witness

/-! ## the argument parser (`RArgsM`) -/

/-- `rust_args_complete`: when the classification loop of `parse_arguments` runs to its end, the argument list it hands to
    `generate_hash_key` is — in order — **every** argument of the command line except the `--color` ones: nothing else is dropped,
    duplicated or reordered, for every command line and every table. -/
theorem rust_args_complete (cwd : RArgsM.Bytes) (toks : List (Option RArgsM.Tok)) (st st' : RArgsM.St)
    (h : RArgsM.loop cwd st toks = .ok st') :
    ∃ ts : List RArgsM.Tok, toks = ts.map some ∧
      st'.args = st.args ++ (ts.filter (fun t => !t.isColor)).map RArgsM.tokArg := RArgsM.loop_args cwd toks st st' h

/-- of the parsed arguments, exactly those whose flag is `--extern`, `-L`, `--out-dir` (and `--target` when it names a json file,
    which is hashed by content) are left out of the argument string; every other one is part of it -/
theorem hashed_args_cover (r : RReq) (a : RArg) (ha : a ∈ r.args)
    (h1 : (flagIs fExtern a || flagIs fL a || flagIs fOutDir a) = false) (h2 : (r.targetJson && flagIs fTarget a) = false) :
    a ∈ hashedArgs r := by
  unfold hashedArgs
  simp only [List.mem_filter]
  exact ⟨⟨ha, by simp [h1]⟩, by simp [h2]⟩

/-- `externs_order_independent`: the sorted extern list (and with it the order in which the extern digests enter the key) does not
    depend on the order of the `--extern` arguments — as lists of path components (`a//b` and `a/b` are one file) -/
theorem externs_order_independent (l1 l2 : List RArgsM.Bytes) (h : l1.Perm l2) :
    (l1.mergeSort RArgsM.lePath).map RArgsM.comps = (l2.mergeSort RArgsM.lePath).map RArgsM.comps :=
  RArgsM.sorted_externs_perm_eq l1 l2 h

/-- sorting the externs only reorders them (nothing lost or invented) -/
theorem rust_externs_perm (l : List RArgsM.Bytes) : (l.mergeSort RArgsM.lePath).Perm l := RArgsM.sorted_externs_perm l

/-- over the **whole regenerated** rustc table: no two entries share a name, and the entries are in the order the binary
    search of `ArgsIter` needs (strictly increasing byte-wise) -/
theorem rust_table_sorted :
    List.Pairwise (fun (a b : RArgsM.RInfo) => RArgsM.cmpBytes a.name b.name = .lt) RArgsM.rustArgs := by decide +kernel

/-- the emit kinds that are cached are the three the model of `finish` accepts (regenerated `ALLOWED_EMIT`) -/
theorem rust_allowed_emit :
    RArgsM.allowedEmit = [[108, 105, 110, 107], [109, 101, 116, 97, 100, 97, 116, 97], [100, 101, 112, 45, 105, 110, 102, 111]] := rfl

/-- non-vacuity: a cargo-like command line parses, `--color` is dropped -/
example :
    (match RArgsM.parseArguments RArgsM.rustArgs RArgsM.allowedEmit (fun _ => false) [47, 119]
        [[45, 45, 99, 114, 97, 116, 101, 45, 110, 97, 109, 101], [102], [108, 46, 114, 115], [45, 45, 99, 114, 97, 116, 101, 45, 116, 121, 112, 101, 61, 108, 105, 98],
         [45, 45, 101, 109, 105, 116, 61, 108, 105, 110, 107], [45, 45, 111, 117, 116, 45, 100, 105, 114], [111], [45, 45, 99, 111, 108, 111, 114, 61, 110, 101, 118, 101, 114],
         [45, 45, 101, 120, 116, 101, 114, 110, 61, 97, 61, 121]] with
     | .ok st _ _ _ _ => st.args.length == 6 && st.externs == [[121]] && st.color == .off
     | _ => false) = true := by decide +kernel

end C05
