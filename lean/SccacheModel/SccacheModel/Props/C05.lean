import SccacheModel.Model.RustKey

/-! # C05 — wrapped rustc compiles are identical to direct ones and keyed on all inputs

Model: `RustKeyM` (`Model/RustKey.lean`): the pre-image `RustHasher::generate_hash_key` feeds to the digest — version
tag, sysroot shared-library digests, the argument string (arguments with `--extern`, `-L`, `--out-dir` and a json
`--target` dropped, the `--cfg` group sorted, concatenated and hashed as one string), source / extern / static-lib /
target-json digests, sorted env-deps, the `CARGO_*` variables, the working directory, `rustc -vV`; framing of
`OsString` / `String` / `PathBuf` as std `Hash` writes it.
Tie: `h_framing` (framing, byte-exact) + `modeld framing`; system monitor `tools/sys_c05.py`: real sccache + rustc 1.95
on a generated crate (module, `include_str!`, `env!`, cfg feature, extern rlib): each input edit must miss, each
reordering must hit, every request must equal a direct rustc run (exit status, stderr, every file in `--out-dir`). -/

namespace C05
open RustKeyM

/-- `rust_key_perm`: two requests whose non-`--cfg` hashed arguments agree in order and whose `--cfg` arguments are
    permutations of each other (other hashed components equal) have the same key pre-image — reordering `--cfg`
    does not prevent reuse -/
theorem rust_key_perm (r1 r2 : RReq) (hrest : restArgs r1 = restArgs r2) (hcfg : (cfgArgs r1).Perm (cfgArgs r2))
    (h1 : r1.version = r2.version) (h2 : r1.shlibDigests = r2.shlibDigests) (h3 : r1.sourceHashes = r2.sourceHashes)
    (h4 : r1.externHashes = r2.externHashes) (h5 : r1.staticlibHashes = r2.staticlibHashes)
    (h6 : r1.targetJsonHash = r2.targetJsonHash) (h7 : r1.envDeps = r2.envDeps) (h8 : r1.cargoEnv = r2.cargoEnv)
    (h9 : r1.cwd = r2.cwd) (h10 : r1.rustcVersion = r2.rustcVersion) : encRust r1 = encRust r2 :=
  RustKeyM.rust_key_perm r1 r2 hrest hcfg h1 h2 h3 h4 h5 h6 h7 h8 h9 h10

/-- `--extern`, `-L` and `--out-dir` arguments never enter the argument string, in any position or number: those
    inputs reach the key through content digests only (so moving / reordering them does not prevent reuse) -/
theorem rust_key_ignores_extern_paths (r : RReq) (extra : List RArg)
    (hx : ∀ a ∈ extra, (flagIs fExtern a || flagIs fL a || flagIs fOutDir a) = true) :
    argString { r with args := r.args ++ extra } = argString r := RustKeyM.rust_key_ignores_extern_paths r extra hx

/-- the framing of one argument is injective: equal framed bytes, equal arguments (length prefix) -/
theorem encArg_inj (a b : Bytes) (ha : a.length < 2 ^ 64) (hb : b.length < 2 ^ 64) (h : encArg a = encArg b) : a = b := by
  have hl : (encArg a).length = (encArg b).length := by rw [h]
  simp only [encArg, List.length_append, le64, List.length_map, List.length_range] at hl
  have hlen : a.length = b.length := by omega
  simp only [encArg] at h
  have : (le64 a.length).length = (le64 b.length).length := by simp [le64]
  exact (List.append_inj h this).2

/-- F-C05-a (negative, kernel-checked, open): the `name=` half of `--extern name=path` is in no key component, and the
    extern digests are taken in sorted *path* order — swapping which crate name is bound to which rlib keeps the key.
    Replayed on the real binary + rustc by `tools/sys_c05.py extern_alias` (the second request is a hit that delivers
    the first rlib). -/
theorem extern_alias_witness :
    encRust (exSwap true) = encRust (exSwap false) ∧ (exSwap true).args ≠ (exSwap false).args :=
  RustKeyM.extern_alias_witness

end C05
