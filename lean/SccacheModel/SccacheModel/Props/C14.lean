import SccacheModel.Model.Stats

/-! # C14 — server statistics account for every request exactly once

Model: `StatsM` (`Model/Stats.lean`): the statistics are a fold of counter increments; which counters an outcome
increments (`incsOfOutcome`, `incsOfRequest`) is **regenerated from `check_compiler` / `start_compile_task` in
`src/server.rs` on every run** (`Gen/StatsTable.lean`), so the laws below are re-proved against the increments the
code performs now. Concurrency: every increment happens under one mutex, so a concurrent history is some
interleaving of the per-request increment lists, and the counters do not depend on which one.
Tie: translator + `tools/sys_c14.py` (real server and clients, sequential and concurrent histories, `--zero-stats`,
read-only cache) + `modeld stats`. -/

namespace C14
open StatsM

/-- L1: the number of compile requests equals executed + non-cacheable + non-compilation + unsupported-compiler -/
theorem law_requests (reqs : List Disp) :
    cnt reqs .compileRequests = cnt reqs .executed + cnt reqs .notCacheable + cnt reqs .notCompile + cnt reqs .unsupported :=
  StatsM.law_requests reqs

/-- L3: successful plus failed cache writes equal the number of misses -/
theorem law_writes (reqs : List Disp) :
    cnt reqs .cacheWrites + cnt reqs .cacheWriteErrors = cnt reqs .cacheMisses := StatsM.law_writes reqs

/-- L2 (in counters): an executed request is a hit or compiles at most once — never both; every miss compiled -/
theorem law_compilations (reqs : List Disp) :
    cnt reqs .compilations + cnt reqs .cacheHits ≤ cnt reqs .executed ∧ cnt reqs .cacheMisses ≤ cnt reqs .compilations :=
  StatsM.law_compilations reqs

/-- ledger: the hit counter is exactly the number of requests answered from the cache -/
theorem ledger_hits (reqs : List Disp) : cnt reqs .cacheHits = (reqs.filter (· = .executed .hit)).length :=
  StatsM.ledger_hits reqs

/-- interleaving invariance: any two schedules of the same increments (concurrent clients) give the same counters -/
theorem stats_interleaving_invariant (l₁ l₂ : List Counter) (p : l₁.Perm l₂) : statsOf l₁ = statsOf l₂ :=
  StatsM.stats_interleaving_invariant l₁ l₂ p

/-- a history with `--zero-stats` in it (`none`): only what follows the last zero counts -/
def afterZero : List (Option Disp) → List Disp
  | [] => []
  | none :: rest => afterZero rest
  | some d :: rest => if rest.any Option.isNone then afterZero rest else d :: afterZero rest

/-- `zero_quiescent`: zeroing the statistics at a quiescent moment re-establishes every law for what follows -/
theorem zero_quiescent (ops : List (Option Disp)) :
    let r := afterZero ops
    cnt r .compileRequests = cnt r .executed + cnt r .notCacheable + cnt r .notCompile + cnt r .unsupported ∧
    cnt r .cacheWrites + cnt r .cacheWriteErrors = cnt r .cacheMisses :=
  ⟨StatsM.law_requests _, StatsM.law_writes _⟩

/-- non-vacuity: a concrete mixed history -/
example : cnt [.executed (.miss .normal true), .executed .hit, .notCompile, .executed .errProcess, .executed (.miss .cacheReadError false)] .compileRequests = 5 := by decide

end C14
