import SccacheModel.Proofs.Args
import SccacheModel.Proofs.ArgsPolicy
import SccacheModel.Props.C02
import SccacheModel.Model.ServerL1
import SccacheModel.Model.Spec
import SccacheModel.Proofs.AtFile
import SccacheModel.Proofs.MakeQuote

/-! # C01 — wrapped C/C++ compiles are observably identical to direct compiles

Three layers carry the property:
* L2 `ArgsM` (`Model/Args.lean` over the **generated** tables `Gen/Args.lean`): `ArgsIter`, the classification loop
  of `gcc::parse_arguments` for gcc and clang, and `regen` = the argument vector of `generate_compile_commands`.
  Tie: translator (tables) + `h_args` (real parser and re-synthesis, field by field) + `modeld args`.
* L1 `L1.decide1`: what is returned to the client for every combination of lookup / compile outcomes (`h_l1`).
* L0 `L0`: all histories, with A1 (the compiler's result is a function of the hashed components) as the named hypothesis
  packaged in `CC := fingerprint → Result`; the fingerprint is what C02 shows the key to determine. -/

namespace C01
open ArgsM

/-- `regen_partition`: for **every** argument list that parses, the five argument lists of the result are the
    order-preserving sub-lists of the normalised arguments by class (plus the documented synthesised items), so the
    regenerated command loses, duplicates and reorders nothing within a class. Over the generated tables. -/
theorem regen_partition (plusplus m : Bool) (args : List Argument) (p : Parsed) (st : St)
    (hc : classifyAll m {} (args.map .ok) = .ok st) (hf : finish plusplus st = .ok p) :
    p.pre = args.flatMap (pick .pre) ∧ p.arch = args.flatMap (pick .arch) ∧ p.unhashed = args.flatMap (pick .unhashed) ∧
    (∃ extra, p.common = args.flatMap (pick .common) ++ extra) ∧ (∃ extra, p.dep = args.flatMap (pick .dep) ++ extra) :=
  ArgsM.regen_partition plusplus m args p st hc hf

/-- `hashed_covers`: every argument classified common or arch is, in order, part of what `hash_key` is given -/
theorem hashed_covers (plusplus m : Bool) (args : List Argument) (p : Parsed) (st : St)
    (hc : classifyAll m {} (args.map .ok) = .ok st) (hf : finish plusplus st = .ok p)
    (a : Argument) (ha : a ∈ args) (hcls : clsOf a = .common ∨ clsOf a = .arch) :
    ∀ x ∈ a.strings, x ∈ p.common ++ p.arch := ArgsM.hashed_covers plusplus m args p st hc hf a ha hcls

/-- `regen_complete`: the regenerated command line is exactly language, compilation flag, `-o` object, then the
    five classified lists, `--` when needed, and the input — nothing else. -/
theorem regen_complete (p : Parsed) :
    regen p = (match langGccArg p.lang with | some l => [sb "-x", l] | none => [])
      ++ [p.cflag, sb "-o", ((p.outputs.find? (·.1 == sb "obj")).map (·.2.1)).getD []]
      ++ p.pre ++ p.dep ++ p.unhashed ++ p.common ++ p.arch
      ++ (if p.doubleDash then [sb "--"] else []) ++ [p.input] := rfl

/-- `unhashed_policy` (over the **whole generated** gcc and clang tables): no flag is classified `Unhashed` today, so
    no argument reaches the compiler without reaching the key or the preprocessed text. A source change that moves a
    flag into that class breaks this theorem. -/
theorem unhashed_policy :
    List.all (gccArgs ++ clangArgs) (fun (i : ArgInfo) => !(i.variant == Variant.unhashed || i.variant == Variant.unhashedFlag)) = true :=
  ArgsM.unhashed_policy

/-- no two entries of a generated table share a name (the lookup would otherwise depend on table order) -/
theorem tables_names_distinct :
    List.Pairwise (fun (a b : ArgInfo) => a.name ≠ b.name) gccArgs ∧ List.Pairwise (fun (a b : ArgInfo) => a.name ≠ b.name) clangArgs :=
  ArgsM.tables_names_distinct

/-- L1 `hit_runs_nothing`: a reply from the cache never runs the compiler and never stores; it arises only from a
    successful lookup under default cache control -/
theorem hit_runs_nothing (i : L1.In) (h : (L1.decide1 i).reply = .cachedResult) :
    (L1.decide1 i).ranCompiler = false ∧ (L1.decide1 i).storeIssued = false ∧ i.control = .default ∧ i.lookup = .hit :=
  L1.hit_runs_nothing i h

/-- L0 `transparent`: for **every** history of requests (any fingerprints, with or without storage faults),
    evictions, corruptions and server restarts, the reply to a request equals the direct compiler's result for that
    request at that moment — under A1 (`cc` is a function of the fingerprint) and, through C02, no hash collision. -/
theorem transparent (cc : L0.CC) (hist : List L0.Ev) (fp : Nat) (lf sf : Bool) (o : L0.Obs)
    (h : (L0.estep cc (L0.erun cc (fun _ => none) hist) (.request fp lf sf)).2 = some o) : o.reply = cc fp :=
  L0.transparent cc hist fp lf sf o h

/-- the fingerprint of L0 is sound: requests with different hashed components get different keys (C02), so a result
    recorded for one request is never replayed for a request that differs in digest, driver mode, argument list,
    extra-file digests, allow-listed environment or preprocessed text (modulo an explicit hash collision) -/
theorem never_replayed_for_different_request (H : CK.Bytes → CK.Bytes) (r₁ r₂ : CK.CReq) (w₁ : CK.WF r₁) (w₂ : CK.WF r₂)
    (e₁ : C02.NoTagExtension r₁) (e₂ : C02.NoTagExtension r₂) (hd : ¬ C02.SameComponents r₁ r₂) :
    C02.key H r₁ ≠ C02.key H r₂ ∨ C02.Collision H (CK.encHash r₁) (CK.encHash r₂) := by
  by_cases hk : C02.key H r₁ = C02.key H r₂
  · rcases C02.key_sound H r₁ r₂ w₁ w₂ e₁ e₂ hk with h | h
    · exact absurd h hd
    · exact Or.inr h
  · exact Or.inl hk

/-- F-C01-b (negative, kernel-checked, open) — now part of the model: `ArgsIter` cuts a concatenated value out of
    `arg.to_string_lossy()`, so in `gcc -c a.c -DA<0xff>B` the argument that is hashed and handed to the compiler is
    `-DA<U+FFFD>B` (three bytes `ef bf bd` instead of `ff`), while the separated spelling `-D A<0xff>B` keeps the byte. -/
theorem lossy_concatenated_value_witness :
    (match tokenize (search1 gccArgs) false 3 false [[45, 68, 65, 255, 66]] with
     | [.ok (.withValue n _ val _)] => n == [45, 68] && val == [65, 239, 191, 189, 66]
     | _ => false) = true ∧
    (match tokenize (search1 gccArgs) false 3 false [[45, 68], [65, 255, 66]] with
     | [.ok (.withValue n _ val _)] => n == [45, 68] && val == [65, 255, 66]
     | _ => false) = true := by decide +kernel

/-- `response_files_agree`: every gcc / clang command line goes through `ExpandIncludeFile` before it is parsed, hashed
    and re-synthesised.  For **every** file system (missing files, directories, files that include themselves or each
    other, any bytes) and every command line: if the expansion leaves no `@` argument behind — the only case in which the
    request can be cached and the compiler is re-run with sccache's argument list — then libiberty's `expandargv`, i.e. the
    compiler started directly on the original command line, arrives at exactly the same list.  (A command line that keeps
    an `@` argument is `cannot_cache!("@")`: the compiler gets the original command line.)
    Findings F-C01-f, F-C01-g, F-C01-h (all fixed) were three ways in which this failed on the pinned tree. -/
theorem response_files_agree (fs : AtFileM.Fs) (args : List AtFileM.Bytes)
    (h : ∀ x ∈ AtFileM.sccExpand fs AtFileM.maxAtFiles args, AtFileM.stripAt x = none) :
    AtFileM.gccExpand fs AtFileM.maxAtFiles args = some (AtFileM.sccExpand fs AtFileM.maxAtFiles args) :=
  AtFileM.expand_agrees fs _ args h

/-- a command line without `@` arguments is not touched -/
theorem no_response_file_no_change (fs : AtFileM.Fs) (args : List AtFileM.Bytes) (h : ∀ x ∈ args, AtFileM.stripAt x = none) :
    AtFileM.sccExpand fs AtFileM.maxAtFiles args = args := AtFileM.sccExpand_no_at fs _ args h

/-- the expansion is a total function: `sccExpand` is accepted by Lean with the measure (budget, arguments left) —
    on the pinned tree a response file naming itself made the real iterator produce arguments for ever (F-C01-h).
    Witness on the fixed semantics: with a budget of 3 the self-including file `l` = "-DL @l" is opened twice, then left alone. -/
theorem self_including_file_is_left_alone :
    AtFileM.sccExpand AtFileM.fsEx 3 [[64, 108]] = [[45, 68, 76], [45, 68, 76], [64, 108]] := by
  simp [AtFileM.sccExpand, AtFileM.stripAt, AtFileM.fsEx, AtFileM.validUtf8, AtFileM.needsQuoting, AtFileM.splitWs, AtFileM.splitWsFuel, AtFileM.isSpace]

/-- the options that make gcc / clang write further files next to the object (spellings as byte strings; `-aux-info` takes its
    file name as the next word) -/
def sideOutputOptions : List (List ArgsM.Bytes) :=
  [[[45, 102, 115, 116, 97, 99, 107, 45, 117, 115, 97, 103, 101]],                                             -- -fstack-usage
   [[45, 102, 100, 117, 109, 112, 45, 116, 114, 101, 101, 45, 111, 112, 116, 105, 109, 105, 122, 101, 100]],   -- -fdump-tree-optimized
   [[45, 102, 100, 117, 109, 112, 45, 114, 116, 108, 45, 101, 120, 112, 97, 110, 100]],                        -- -fdump-rtl-expand
   [[45, 102, 99, 97, 108, 108, 103, 114, 97, 112, 104, 45, 105, 110, 102, 111]],                              -- -fcallgraph-info
   [[45, 102, 99, 97, 108, 108, 103, 114, 97, 112, 104, 45, 105, 110, 102, 111, 61, 115, 117]],                -- -fcallgraph-info=su
   [[45, 115, 97, 118, 101, 45, 116, 101, 109, 112, 115, 61, 111, 98, 106]],                                   -- -save-temps=obj
   [[45, 45, 115, 97, 118, 101, 45, 116, 101, 109, 112, 115, 61, 99, 119, 100]],                               -- --save-temps=cwd
   [[45, 102, 115, 97, 118, 101, 45, 111, 112, 116, 105, 109, 105, 122, 97, 116, 105, 111, 110, 45, 114, 101, 99, 111, 114, 100]],   -- -fsave-optimization-record
   [[45, 102, 115, 97, 118, 101, 45, 111, 112, 116, 105, 109, 105, 122, 97, 116, 105, 111, 110, 45, 114, 101, 99, 111, 114, 100, 61, 106, 115, 111, 110]],
   [[45, 97, 117, 120, 45, 105, 110, 102, 111], [112, 46, 116, 120, 116]]]                                      -- -aux-info p.txt

def isRefused : PRes → Bool
  | .cannotCache _ => true
  | _ => false

/-- `side_output_options_refused` (fix F-C01-j, over the **regenerated** tables): `cc -c x.c <option>` is never cacheable, for gcc and
    for clang, for every option of the list — and `-ftime-trace[=file]` for clang.  (A cached result holds the object only; these
    options make the compiler write `.su`, dump, `.ci`, `.i`/`.s`, optimisation-record, prototype and trace files.) -/
theorem side_output_options_refused :
    sideOutputOptions.all (fun o =>
      isRefused (parseArgs (search1 gccArgs) false false false ([[45, 99], [120, 46, 99]] ++ o)) &&
      isRefused (parseArgs (search2 gccArgs clangArgs) true false false ([[45, 99], [120, 46, 99]] ++ o) (search2 gccArgs clangArgs))) = true ∧
    isRefused (parseArgs (search2 gccArgs clangArgs) true false false [[45, 99], [120, 46, 99], [45, 102, 116, 105, 109, 101, 45, 116, 114, 97, 99, 101]] (search2 gccArgs clangArgs)) = true ∧
    isRefused (parseArgs (search2 gccArgs clangArgs) true false false [[45, 99], [120, 46, 99], [45, 102, 116, 105, 109, 101, 45, 116, 114, 97, 99, 101, 61, 116, 46, 106, 115, 111, 110]] (search2 gccArgs clangArgs)) = true ∧
    -- non-vacuity: the same command line without such an option is accepted
    isRefused (parseArgs (search1 gccArgs) false false false [[45, 99], [120, 46, 99]]) = false := by decide +kernel

/-- clang options that name a file whose *contents* steer code generation (spelled `<option>=l.txt`) -/
def listFileOptions : List ArgsM.Bytes :=
  [
   [45, 102, 115, 97, 110, 105, 116, 105, 122, 101, 45, 98, 108, 97, 99, 107, 108, 105, 115, 116, 61, 108, 46, 116, 120, 116],   -- -fsanitize-blacklist=l.txt
   [45, 102, 115, 97, 110, 105, 116, 105, 122, 101, 45, 105, 103, 110, 111, 114, 101, 108, 105, 115, 116, 61, 108, 46, 116, 120, 116],   -- -fsanitize-ignorelist=l.txt
   [45, 102, 115, 97, 110, 105, 116, 105, 122, 101, 45, 99, 111, 118, 101, 114, 97, 103, 101, 45, 97, 108, 108, 111, 119, 108, 105, 115, 116, 61, 108, 46, 116, 120, 116],   -- -fsanitize-coverage-allowlist=l.txt
   [45, 102, 115, 97, 110, 105, 116, 105, 122, 101, 45, 99, 111, 118, 101, 114, 97, 103, 101, 45, 105, 103, 110, 111, 114, 101, 108, 105, 115, 116, 61, 108, 46, 116, 120, 116],   -- -fsanitize-coverage-ignorelist=l.txt
   [45, 102, 120, 114, 97, 121, 45, 97, 108, 119, 97, 121, 115, 45, 105, 110, 115, 116, 114, 117, 109, 101, 110, 116, 61, 108, 46, 116, 120, 116],   -- -fxray-always-instrument=l.txt
   [45, 102, 120, 114, 97, 121, 45, 110, 101, 118, 101, 114, 45, 105, 110, 115, 116, 114, 117, 109, 101, 110, 116, 61, 108, 46, 116, 120, 116],   -- -fxray-never-instrument=l.txt
   [45, 102, 120, 114, 97, 121, 45, 97, 116, 116, 114, 45, 108, 105, 115, 116, 61, 108, 46, 116, 120, 116]]   -- -fxray-attr-list=l.txt

def extraHashOf : PRes → Option (List ArgsM.Bytes)
  | .ok p => some p.extraHash
  | _ => none

/-- `list_files_reach_the_key` (fix F-C01-l, over the **regenerated** tables): for each of these options `clang -c x.c <option>=l.txt` is
    accepted and `l.txt` is in `extra_hash_files` — the list whose file *contents* are digested into the key (`C02`: the extra-file
    digests are a component of the key pre-image).  On the pinned tree only `-fsanitize-blacklist` was there: an edit of an ignore list
    given with the current spelling `-fsanitize-ignorelist=` was answered with the object built under the old list. -/
theorem list_files_reach_the_key :
    listFileOptions.all (fun o =>
      extraHashOf (parseArgs (search2 gccArgs clangArgs) true false false [[45, 99], [120, 46, 99], o] (search2 gccArgs clangArgs)) == some [[108, 46, 116, 120, 116]]) = true ∧
    -- gcc: the spec file of `-specs=l.txt` (fix F-C01-m)
    extraHashOf (parseArgs (search1 gccArgs) false false false [[45, 99], [120, 46, 99], [45, 115, 112, 101, 99, 115, 61, 108, 46, 116, 120, 116]]) = some [[108, 46, 116, 120, 116]] ∧
    -- non-vacuity: without such an option the list is empty
    extraHashOf (parseArgs (search2 gccArgs clangArgs) true false false [[45, 99], [120, 46, 99]] (search2 gccArgs clangArgs)) = some [] := by decide +kernel

/-- the dependency target synthesized for `-MD` / `-MMD` without `-MT` / `-MQ` (fix F-C01-o): an object path without white space, `$`
    and `#` is passed on unchanged — the common case keeps its exact bytes … -/
theorem makeQuote_plain (t : ArgsM.Bytes) (bs : Nat) (h : ∀ c ∈ t, c ≠ 32 ∧ c ≠ 9 ∧ c ≠ 36 ∧ c ≠ 35) : makeQuoteGo bs t = t := by
  induction t generalizing bs with
  | nil => rfl
  | cons c r ih =>
    have hc := h c (List.mem_cons_self ..)
    have h1 : (c == 32) = false := by simp [hc.1]
    have h2 : (c == 9) = false := by simp [hc.2.1]
    have h3 : (c == 36) = false := by simp [hc.2.2.1]
    have h4 : (c == 35) = false := by simp [hc.2.2.2]
    simp only [makeQuoteGo, h1, h2, h3, h4, Bool.or_self, Bool.false_eq_true, if_false, List.nil_append]
    rw [ih _ (fun x hx => h x (List.mem_cons_of_mem _ hx))]

/-- … and the special characters are quoted the way gcc and clang quote their own default target: `a b$c#d.o` ↦ `a\ b$$c\#d.o`,
    and a backslash right before a space is doubled: `e\ f.o` ↦ `e\\\ f.o` (kernel-checked; the real `quote_for_make` is tied through h_args) -/
theorem makeQuote_specials :
    makeQuoteGo 0 [97, 32, 98, 36, 99, 35, 100, 46, 111] = [97, 92, 32, 98, 36, 36, 99, 92, 35, 100, 46, 111] ∧
    makeQuoteGo 0 [101, 92, 32, 102, 46, 111] = [101, 92, 92, 92, 32, 102, 46, 111] := by decide

/-- `dependency_target_reads_back`: for **every** object path (valid UTF-8 — the ones that get quoted), what Make reads back from the
    dependency target sccache synthesizes for `-MD` / `-MMD` (its `$$` → `$`, backslash-`#` → `#`, 2n+1 backslashes before white space → n)
    is the object path itself -/
theorem dependency_target_reads_back (t : ArgsM.Bytes) (h : RArgsM.validUtf8 t = true) : makeUnquote (makeQuote t) = t :=
  ArgsM.makeUnquote_makeQuote t h

end C01
