import SccacheModel.Proofs.KeyLangSep

/-! # C02 — the C/C++ cache key covers every result-affecting component, without aliasing

Model: `CK.encHash` / `CK.encPre` (`Model/Key.lean`) are the **pre-images** that `c::hash_key` and
`preprocessor_cache_entry_hash_key` feed to BLAKE3.  The language tags, `CACHE_VERSION`, `FORMAT_VERSION` and both
allow-lists are regenerated from the Rust sources on every run (`Gen/KeyConsts.lean`), so every theorem below is
re-checked against what the code says now.  Tie: `h_key` (byte-exact: `hex(blake3(model pre-image)) = real key`).
The hash itself is a parameter `H`; collisions of `H` are an explicit disjunct, never an axiom. -/

namespace C02
open CK

/-- two distinct pre-images with the same hash value -/
def Collision (H : Bytes → Bytes) (a b : Bytes) : Prop := a ≠ b ∧ H a = H b

/-- the cache key as the code computes it: hash of the pre-image -/
def key (H : Bytes → Bytes) (r : CReq) : Bytes := H (encHash r)

/-- agreement on every component the property lists (the language enters through its tag) -/
structure SameComponents (r₁ r₂ : CReq) : Prop where
  digest : r₁.digest = r₂.digest
  plusplus : r₁.plusplus = r₂.plusplus
  tag : langTagBytes r₁.lang = langTagBytes r₂.lang
  args : r₁.args = r₂.args
  extra : r₁.extra = r₂.extra
  env : canonEnv r₁ = canonEnv r₂
  pp : r₁.pp = r₂.pp

/-- the payload does not begin with something that could be read as the rest of a longer language tag -/
def NoTagExtension (r : CReq) : Prop := ∀ x ∈ tagExtensions, ¬ (x <+: r.pp)

/-- `encHash_components_inj`: for **all pairs** of well-formed requests with the same tag, equal pre-images force
    equal digest, driver mode, ordered argument list, extra digests, allow-listed environment and payload. -/
theorem encHash_components_inj (r₁ r₂ : CReq) (w₁ : WF r₁) (w₂ : WF r₂)
    (htag : langTagBytes r₁.lang = langTagBytes r₂.lang) (h : encHash r₁ = encHash r₂) :
    r₁.digest = r₂.digest ∧ r₁.plusplus = r₂.plusplus ∧ r₁.args = r₂.args ∧ r₁.extra = r₂.extra ∧
    canonEnv r₁ = canonEnv r₂ ∧ r₁.pp = r₂.pp := CK.encHash_components_inj r₁ r₂ w₁ w₂ htag h

/-- `encHash_lang_sep`: equal pre-images force equal language tags (payloads not starting with a tag extension) -/
theorem encHash_lang_sep (r₁ r₂ : CReq) (w₁ : WF r₁) (w₂ : WF r₂) (e₁ : NoTagExtension r₁) (e₂ : NoTagExtension r₂)
    (h : encHash r₁ = encHash r₂) : langTagBytes r₁.lang = langTagBytes r₂.lang :=
  CK.encHash_lang_sep r₁ r₂ w₁ w₂ (fun x hx => ⟨e₁ x hx, e₂ x hx⟩) h

/-- "only if": equal keys ⇒ equal components, or `H` collided on the two pre-images -/
theorem key_sound (H : Bytes → Bytes) (r₁ r₂ : CReq) (w₁ : WF r₁) (w₂ : WF r₂)
    (e₁ : NoTagExtension r₁) (e₂ : NoTagExtension r₂) (h : key H r₁ = key H r₂) :
    SameComponents r₁ r₂ ∨ Collision H (encHash r₁) (encHash r₂) := by
  by_cases he : encHash r₁ = encHash r₂
  · left
    have ht := encHash_lang_sep r₁ r₂ w₁ w₂ e₁ e₂ he
    obtain ⟨a, b, c, d, e, f⟩ := encHash_components_inj r₁ r₂ w₁ w₂ ht he
    exact ⟨a, b, ht, c, d, e, f⟩
  · right; exact ⟨he, h⟩

/-- "if" (determinism, used by C03): equal components ⇒ equal key, for every `H`, no side conditions.
    In particular nothing volatile (time, paths of temporaries, map order) enters the key. -/
theorem key_complete (H : Bytes → Bytes) (r₁ r₂ : CReq) (s : SameComponents r₁ r₂) : key H r₁ = key H r₂ := by
  have : encHash r₁ = encHash r₂ := by
    simp only [encHash, encGen, encEnv_eq]
    have he : canonEnvG cCachedEnv r₁ = canonEnvG cCachedEnv r₂ := s.env
    rw [s.digest, s.plusplus, s.tag, s.args, s.extra, he, s.pp]
  simp only [key, this]

/-- no change of exactly one component (or of several) leaves the pre-image unchanged -/
theorem any_component_change_detected (r₁ r₂ : CReq) (w₁ : WF r₁) (w₂ : WF r₂)
    (htag : langTagBytes r₁.lang = langTagBytes r₂.lang)
    (hne : r₁.digest ≠ r₂.digest ∨ r₁.plusplus ≠ r₂.plusplus ∨ r₁.args ≠ r₂.args ∨ r₁.extra ≠ r₂.extra ∨
           canonEnv r₁ ≠ canonEnv r₂ ∨ r₁.pp ≠ r₂.pp) : encHash r₁ ≠ encHash r₂ := by
  intro h
  obtain ⟨a, b, c, d, e, f⟩ := encHash_components_inj r₁ r₂ w₁ w₂ htag h
  rcases hne with x | x | x | x | x | x <;> contradiction

/-- no redistribution of bytes between neighbouring arguments (same concatenation, different boundaries) -/
theorem redistribution_detected (r₁ r₂ : CReq) (w₁ : WF r₁) (w₂ : WF r₂)
    (htag : langTagBytes r₁.lang = langTagBytes r₂.lang) (_hflat : r₁.args.flatten = r₂.args.flatten)
    (hne : r₁.args ≠ r₂.args) : encHash r₁ ≠ encHash r₂ :=
  any_component_change_detected r₁ r₂ w₁ w₂ htag (Or.inr (Or.inr (Or.inl hne)))

/-! ## the preprocessor-level key -/

/-- well-formedness of a preprocessor-level request: the C part, an absolute NUL-free input path, a hex input digest -/
structure PWF (r : PReq) : Prop where
  digest : r.digest.length = 64 ∧ r.digest.all isHexLower = true
  extra : ∀ e ∈ r.extra, e.length = 64 ∧ e.all isHexLower = true
  args : ∀ a ∈ r.args, a.length < 2 ^ 56 ∧ (0 : UInt8) ∉ a
  env : ∀ kv ∈ r.env, kv.1.length < 2 ^ 56 ∧ kv.2.length < 2 ^ 56 ∧ (0 : UInt8) ∉ kv.1 ∧ (0 : UInt8) ∉ kv.2
  pathAbs : ∃ rest, r.path = 47 :: rest
  pathNul : (0 : UInt8) ∉ r.path
  inputDigest : r.inputDigest.length = 64 ∧ r.inputDigest.all isHexLower = true

theorem PWF.toC {r : PReq} (w : PWF r) : WF r.toC := by
  obtain ⟨rest, hp⟩ := w.pathAbs
  refine ⟨w.digest, w.extra, w.args, w.env, ?_, ?_⟩
  · show (0 : UInt8) ∉ r.path ++ r.inputDigest
    intro hm
    rcases List.mem_append.mp hm with h | h
    · exact w.pathNul h
    · have := List.all_eq_true.mp w.inputDigest.2 0 h
      simp [isHexLower] at this
  · show startsWith64Hex (r.path ++ r.inputDigest) = false
    rw [hp]
    simp [startsWith64Hex, isHexLower]

/-- the preprocessor-level key additionally covers the input path, the input contents (through their digest) and
    the include-path variables (`ppCachedEnv` is regenerated from `preprocessor_cache.rs`) -/
theorem encPre_components_inj (ign : Bool) (r₁ r₂ : PReq) (w₁ : PWF r₁) (w₂ : PWF r₂)
    (htag : langTagBytes r₁.lang = langTagBytes r₂.lang) (b : Bytes)
    (h₁ : encPre ign r₁ = some b) (h₂ : encPre ign r₂ = some b) :
    r₁.digest = r₂.digest ∧ r₁.plusplus = r₂.plusplus ∧ r₁.args = r₂.args ∧ r₁.extra = r₂.extra ∧
    canonEnvG ppCachedEnv r₁.toC = canonEnvG ppCachedEnv r₂.toC ∧ r₁.path = r₂.path ∧ r₁.inputDigest = r₂.inputDigest := by
  simp only [encPre] at h₁ h₂
  split at h₁
  · cases h₁
  · split at h₂
    · cases h₂
    · have h : encGen [ppFormatVersion] ppCachedEnv r₁.toC = encGen [ppFormatVersion] ppCachedEnv r₂.toC := by
        exact Option.some.inj (h₁.trans h₂.symm)
      obtain ⟨a, b', c, d, e, f⟩ := encGen_components_inj [ppFormatVersion] ppCachedEnv r₁.toC r₂.toC w₁.toC w₂.toC htag h
      have f' : r₁.path ++ r₁.inputDigest = r₂.path ++ r₂.inputDigest := f
      have hl : r₁.inputDigest.length = r₂.inputDigest.length := by rw [w₁.inputDigest.1, w₂.inputDigest.1]
      obtain ⟨hp, hd⟩ := List.append_inj' f' hl
      exact ⟨a, b', c, d, e, hp, hd⟩

/-- tags are separated in the preprocessor-level key too, when the path does not begin with `/c++` -/
theorem encPre_lang_sep (ign : Bool) (r₁ r₂ : PReq) (w₁ : PWF r₁) (w₂ : PWF r₂)
    (e₁ : NoTagExtension r₁.toC) (e₂ : NoTagExtension r₂.toC) (b : Bytes)
    (h₁ : encPre ign r₁ = some b) (h₂ : encPre ign r₂ = some b) : langTagBytes r₁.lang = langTagBytes r₂.lang := by
  simp only [encPre] at h₁ h₂
  split at h₁
  · cases h₁
  · split at h₂
    · cases h₂
    · have h : encGen [ppFormatVersion] ppCachedEnv r₁.toC = encGen [ppFormatVersion] ppCachedEnv r₂.toC := by
        exact Option.some.inj (h₁.trans h₂.symm)
      exact encGen_lang_sep [ppFormatVersion] ppCachedEnv r₁.toC r₂.toC w₁.toC w₂.toC (fun x hx => ⟨e₁ x hx, e₂ x hx⟩) h

/-- an input containing `__TIME__` disables the preprocessor-level key unless time macros are ignored -/
theorem encPre_time_disables (r : PReq) (h : r.hasTime = true) : encPre false r = none := by simp [encPre, h]

/-! ## negative results (kernel-checked literal witnesses; replayed on the real functions by `h_key`) -/

def d0 : Bytes := List.replicate 64 48     -- sixty-four '0'

/-- F-C02-a: one pair of languages shares a tag, so requests that differ only in that language share a key.  (`CudaFE` is the
    language of the `cudafe++` compiler kind only, whose executable digest is part of the key: no request reaches both.) -/
theorem langTag_alias_witness :
    Lang.cuda ≠ Lang.cudaFE ∧ langTagBytes .cuda = langTagBytes .cudaFE := by decide

/-- F-C02-d (fixed 55dc400; was a real alias: `clang -x objective-c++-header -c h.h -o out` then `clang -x objective-c++ -c h.h -o out`
    delivered the precompiled header as the object): **every** pair of distinct languages other than `Cuda`/`CudaFE` has distinct tags
    (`decide` over the whole regenerated table) -/
theorem langTags_distinct_except_cudaFE :
    allLangs.all (fun l1 => allLangs.all fun l2 =>
      l1 == l2 || (l1 == .cuda && l2 == .cudaFE) || (l1 == .cudaFE && l2 == .cuda) || langTagBytes l1 != langTagBytes l2) = true := by
  decide

theorem objcxx_header_tag_fixed_witness : langTagBytes .objcxx ≠ langTagBytes .objcxxHeader := by decide

/-- F-C02-b: the tag is not delimited from what follows: `C` + payload `Header_t` ≡ `CHeader` + payload `_t` -/
theorem tag_payload_alias_witness :
    encHash { digest := d0, plusplus := false, lang := .c, args := [], extra := [], env := [], pp := [72, 101, 97, 100, 101, 114, 95, 116] } =
    encHash { digest := d0, plusplus := false, lang := .cHeader, args := [], extra := [], env := [], pp := [95, 116] } := by decide

/-- F-C02-c: extra-file digests are not delimited from the payload -/
theorem extras_payload_alias_witness :
    encHash { digest := d0, plusplus := false, lang := .c, args := [], extra := [d0], env := [], pp := [120] } =
    encHash { digest := d0, plusplus := false, lang := .c, args := [], extra := [], env := [], pp := d0 ++ [120] } := by decide

/-- non-vacuity: a concrete well-formed request with arguments, an allow-listed variable and a payload -/
example : WF { digest := d0, plusplus := true, lang := .cxx, args := [[45, 79, 50], []], extra := [d0],
               env := [([83, 68, 75, 82, 79, 79, 84], [47])], pp := [105, 110, 116, 32, 120, 59] } := by
  refine ⟨by decide, ?_, ?_, ?_, by decide, by decide⟩
  · intro e he; simp at he; subst he; decide
  · intro a ha; simp at ha; rcases ha with rfl | rfl <;> decide
  · intro kv hkv; simp at hkv; subst hkv; decide

end C02
