import SccacheModel.Props.C02
import SccacheModel.Model.Spec
import SccacheModel.Proofs.LruReadOnly
import SccacheModel.Model.RustKey

/-! # C03 — a repeated cacheable request is served from the cache, also after restart

Pieces: the key is a deterministic function of the request's components (C02 `key_complete`: nothing volatile enters
it); for rustc the key is invariant under reordering of `--cfg` / `--extern` / `-L` (`Model/RustKey.lean`); the L0
cache keeps an entry across unrelated requests, faults, restarts (`repeat_hits`); re-opening a cache directory that
is within its size limit indexes exactly the files that were there (`Model/Lru.lean`).
Tie: `h_key`, `h_lru` (reopen), and the system harness `tools/sys_c03.py` (real `sccache` server + gcc: compile,
delete outputs, restart the server, compile again; classification from the statistics and a compiler invocation log). -/

namespace C03
open L0

/-- determinism of the key: requests that agree on every hashed component get the same key — for every hash function,
    with no side condition (no timestamp, temporary path or map iteration order is part of the pre-image) -/
theorem key_deterministic (H : CK.Bytes → CK.Bytes) (r₁ r₂ : CK.CReq) (s : C02.SameComponents r₁ r₂) :
    C02.key H r₁ = C02.key H r₂ := C02.key_complete H r₁ r₂ s

/-- the allow-list filter makes unrelated environment variables irrelevant: adding a variable whose name is not
    allow-listed leaves the pre-image unchanged -/
theorem unrelated_env_irrelevant (r : CK.CReq) (k v : CK.Bytes) (h : k ∉ CK.cCachedEnv) :
    CK.encHash { r with env := r.env ++ [(k, v)] } = CK.encHash r := by
  simp [CK.encHash, CK.encGen, CK.encEnv, List.filter_append, h]

/-- `repeat_hits`: once a successful compile of a request has been stored, then after **any** sequence of other
    requests (with or without storage faults), evictions and corruptions of *other* entries, and server restarts, the
    same request is answered from the cache without running the compiler. -/
theorem repeat_hits (cc : CC) (before after : List Ev) (fp : Nat) (hok : (cc fp).ok = true)
    (hkeep : ∀ e ∈ after, Keeps fp e) (sf : Bool) :
    let c := erun cc (fun _ => none) (before ++ [.request fp false false] ++ after)
    (estep cc c (.request fp false sf)).2 = some ⟨cc fp, false⟩ := L0.repeat_hits cc before after fp hok hkeep sf

/-- `reopen_preserves`: re-opening (server restart) a cache directory whose total size is within the limit keeps
    every file, whatever the mtime order -/
theorem reopen_preserves (c : LruM.Lru) (order : List (LruM.Key × Nat)) (hfit : (order.map (·.2)).sum ≤ c.cap) :
    (c.reopen order).files = order := LruM.Lru.reopen_keeps_files c order hfit

/-- rustc: any reordering that only moves the `--cfg` group among itself (and `--extern` / `-L`, which are not hashed
    as arguments at all) leaves the key pre-image unchanged -/
theorem rust_key_perm (r1 r2 : RustKeyM.RReq) (hrest : RustKeyM.restArgs r1 = RustKeyM.restArgs r2)
    (hcfg : (RustKeyM.cfgArgs r1).Perm (RustKeyM.cfgArgs r2))
    (h1 : r1.version = r2.version) (h2 : r1.shlibDigests = r2.shlibDigests) (h3 : r1.sourceHashes = r2.sourceHashes)
    (h4 : r1.externHashes = r2.externHashes) (h5 : r1.staticlibHashes = r2.staticlibHashes)
    (h6 : r1.targetJsonHash = r2.targetJsonHash) (h7 : r1.envDeps = r2.envDeps) (h8 : r1.cargoEnv = r2.cargoEnv)
    (h9 : r1.cwd = r2.cwd) (h10 : r1.rustcVersion = r2.rustcVersion) : RustKeyM.encRust r1 = RustKeyM.encRust r2 :=
  RustKeyM.rust_key_perm r1 r2 hrest hcfg h1 h2 h3 h4 h5 h6 h7 h8 h9 h10

end C03
