import SccacheModel.Proofs.Lru
import SccacheModel.Proofs.LruReadOnly
import SccacheModel.Proofs.LruSync

/-! # C07 — the disk cache stays within its size limit, evicts in LRU order, never wedges

Property theorems only (statements restated here so that a weakened lemma in `Proofs/` cannot silently weaken
the claim).  Model: `LruM.Lru` (`Model/Lru.lean`), a transcription of `lru_disk_cache::LruDiskCache` tied to the
real code by `harness/src/bin/h_lru.rs` + `modeld lru`. -/

namespace C07
open LruM LruM.Lru

/-- After **every** sequence of public operations (insert, two-phase store with more or less than reserved,
    dropped entries, lookups, removals, external deletions, reopen with any mtime order) the indexed bytes plus the
    reserved bytes never exceed the capacity — (`poisoned` never becomes true, see `no_panic`). -/
theorem size_limit (cap : Nat) (ops : List LOp) :
    let c := ops.foldl lstep { cap := cap }
    c.poisoned = false → c.lruSize + c.pendingSize ≤ c.cap := Lru.size_limit cap ops

/-- non-vacuity: a reachable, non-poisoned state with an eviction behind it -/
example : let c := [LOp.insertBytes 1 10, .insertBytes 2 10, .prepareAdd 3 5].foldl lstep { cap := 20 }
    c.poisoned = false ∧ c.lruSize + c.pendingSize = 15 := by decide

/-- `index_eq_disk`: after **every** sequence of public operations (nobody else deletes entry files; a reopen sees the
    directory as it is) every indexed entry exists on disk with exactly the recorded size, no other entry file exists
    (`entries` is a permutation of `files`), and no key is indexed twice. -/
theorem index_eq_disk (cap : Nat) (ops : List LOp) (h : GoodHistory { cap := cap } ops) :
    let c := ops.foldl lstep { cap := cap }
    c.entries.Perm c.files ∧ KeysNodup c.entries := Lru.index_eq_disk cap ops h

/-- `evicts_lru_prefix`: whenever space is made, what is removed is a **prefix of the recency order** — strictly the
    least recently used entries first (the index is kept oldest-first). -/
theorem evicts_lru_prefix (c c' : Lru) (n : Nat) (r : Res) (h : c.makeSpace n = (c', r)) (hs : Sync c) :
    ∃ m, c'.entries = c.entries.drop m := (Lru.makeSpace_sync c c' n r h hs).2

/-- a successful lookup counts as use: the key moves to the recent end and nothing else changes order -/
theorem get_moves_to_back (c : Lru) (k : Key) (e : Key × Nat) (h : c.entries.find? (·.1 == k) = some e) :
    (c.get k).1.entries = eraseKey c.entries k ++ [e] := by
  unfold Lru.get; rw [h]; simp only; split <;> rfl

/-- a store puts its key at the recent end -/
theorem insert_at_back (c : Lru) (k : Key) (n : Nat) (h : c.lruSize + n ≤ c.cap) :
    (c.lruInsert k n).entries = eraseKey c.entries k ++ [(k, n)] := Lru.lruInsert_entries c k n h

/-- recency survives a restart: re-opening a directory that fits indexes the files in the order given (oldest mtime
    first), so the eviction order afterwards is the mtime order -/
theorem reopen_order_is_mtime_order (c : Lru) (order : List (Key × Nat)) (hfit : (order.map (·.2)).sum ≤ c.cap) :
    (c.reopen order).files = order := Lru.reopen_keeps_files c order hfit

/-- non-vacuity of `index_eq_disk`: a history with an overwrite, an eviction, a two-phase store and a reopen -/
example : GoodHistory { cap := 20 } [.insertBytes 1 10, .insertBytes 2 10, .insertBytes 1 10, .prepareAdd 3 5, .write 0 5, .commit 0, .get 1, .reopen [(3, 5), (1, 10)]] := by
  simp only [GoodHistory, NoExt, ReopenFaithful, and_true, true_and]
  decide

/-- `no_panic`: no sequence of public operations — including several concurrent reservations that together exceed
    the limit, overwrites of existing keys, dropped entries, externally deleted files and reopenings — makes the cache
    panic (which inside `DiskCache` would poison its mutex for good), and none leaves it poisoned. -/
theorem no_panic (cap : Nat) (ops : List LOp) (next : LOp) :
    let c := ops.foldl lstep { cap := cap }
    c.poisoned = false ∧ lres c next ≠ .panic := Lru.no_panic cap ops next

/-- `oversize_refused`: an entry larger than the whole cache is refused and the state (index, files, reservations)
    is exactly what it was. -/
theorem oversize_refused (c : Lru) (k n : Nat) (h : n > c.cap) :
    c.insertBytes k n = (c, .tooLarge) ∧ c.prepareAdd k n = (c, .tooLarge) := Lru.oversize_refused c k n h

/-- `oversize_commit_refused` (fix F-C07-d): a two-phase store whose body turned out larger than the whole cache is refused at commit
    **without an eviction**: the entries (and their files) are exactly what they were -/
theorem oversize_commit_refused (c : Lru) (h : Nat) (p : Pend) (hf : c.temps.find? (·.handle == h) = some p) (hbig : p.written > c.cap) :
    (c.commit h).2 = .tooLarge ∧ (c.commit h).1.entries = c.entries ∧ (c.commit h).1.files = c.files := by
  unfold Lru.commit
  simp only [hf, hbig, if_true]
  simp

/-- F-C07-a, repaired in /repo: over-reservation with an empty index is refused (was a panic on the pinned tree) -/
theorem over_reservation_refused :
    ((({ cap := 25 } : Lru).prepareAdd 1 15).1.prepareAdd 2 15).2 = .tooLarge := Lru.over_reservation_refused

/-- F-C07-b, repaired in /repo: overwriting the least-recently-used key keeps the file just written -/
theorem self_eviction_fixed :
    let c := (((({ cap := 20 } : Lru).insertBytes 1 10).1.insertBytes 2 10).1.insertBytes 1 10).1
    c.containsKey 1 = true ∧ c.files.any (·.1 == 1) = true := Lru.self_eviction_fixed

/-- F-C07-c (negative, kernel-checked, open): the reservation of a dropped entry is never released — after
    `prepare_add(9)` + drop on a cache of 10 bytes, 9 bytes stay reserved for ever and a 2-byte insert is refused. -/
theorem reservation_leak_witness :
    let c := [LOp.prepareAdd 0 9, .dropEntry 0].foldl lstep { cap := 10 }
    c.pendingSize = 9 ∧ c.temps = [] ∧ (c.insertBytes 1 2).2 = .tooLarge := by decide

/-- a lookup never changes which files exist -/
theorem get_keeps_files (c : Lru) (k : Key) : (c.get k).1.files = c.files := Lru.get_keeps_files c k

end C07
