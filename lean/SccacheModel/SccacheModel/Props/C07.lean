import SccacheModel.Proofs.Lru
import SccacheModel.Proofs.LruReadOnly

/-! # C07 — the disk cache stays within its size limit, evicts in LRU order, never wedges

Property theorems only (statements restated here so that a weakened lemma in `Proofs/` cannot silently weaken
the claim).  Model: `LruM.Lru` (`Model/Lru.lean`), a transcription of `lru_disk_cache::LruDiskCache` tied to the
real code by `harness/src/bin/h_lru.rs` + `modeld lru`. -/

namespace C07
open LruM LruM.Lru

/-- After **every** sequence of public operations (insert, two-phase store with more or less than reserved,
    dropped entries, lookups, removals, external deletions, reopen with any mtime order) the indexed bytes plus the
    reserved bytes never exceed the capacity — unless the cache panicked (see the witnesses below). -/
theorem size_limit (cap : Nat) (ops : List LOp) :
    let c := ops.foldl lstep { cap := cap }
    c.poisoned = false → c.lruSize + c.pendingSize ≤ c.cap := Lru.size_limit cap ops

/-- non-vacuity: a reachable, non-poisoned state with an eviction behind it -/
example : let c := [LOp.insertBytes 1 10, .insertBytes 2 10, .prepareAdd 3 5].foldl lstep { cap := 20 }
    c.poisoned = false ∧ c.lruSize + c.pendingSize = 15 := by decide

/-- F-C07-a (negative, kernel-checked): two reservations that together exceed the capacity while the index is
    empty reach `expect("Unexpectedly empty cache!")`. -/
theorem over_reservation_witness :
    ((({ cap := 25 } : Lru).prepareAdd 1 15).1.prepareAdd 2 15).2 = .panic := Lru.over_reservation_witness

/-- F-C07-b (negative, kernel-checked): overwriting the least-recently-used key deletes the file just written and
    keeps it indexed. -/
theorem self_eviction_witness :
    let c := (((({ cap := 20 } : Lru).insertBytes 1 10).1.insertBytes 2 10).1.insertBytes 1 10).1
    c.containsKey 1 = true ∧ c.files.any (·.1 == 1) = false := Lru.self_eviction_witness

/-- a lookup never changes which files exist -/
theorem get_keeps_files (c : Lru) (k : Key) : (c.get k).1.files = c.files := Lru.get_keeps_files c k

end C07
