import SccacheModel.Model.Startup
import SccacheModel.Model.Idle
import SccacheModel.Proofs.Shutdown

/-! # C20 — one server per address: cold starts converge, shutdown is graceful, idle exit not before its time

Models: `StartupM` (`Model/Startup.lean`): the OS address table (an exclusive `bind` fails when the address is bound: a TCP port, and
since fix F-C20-a a Unix-socket path too — lock file, liveness probe, only then unlink + bind; the unrepaired unlink-then-bind is kept as `unixSocket := true`), clients (`connect`; on refusal spawn a server and wait for its
notification; `AddrInUse` ⇒ reconnect), servers (bind, notify, serve); any number of clients, any interleaving.
`IdleM` (`Model/Idle.lean`): the inactivity timer with a logical clock.
`ShutM` (`Model/Shutdown.lean`): the whole life of a running server — serving, drain after a stop request or the idle expiry, exit —
with connections and a millisecond clock; tied step by step to the real `SccacheServer::run` by `h_server` + `modeld shutdown`.
Tie: `tools/sys_c20.py` — process census of real cold starts with 2…N simultaneous clients over TCP and over a Unix
socket, replay of the model's Unix witness on the real binary, stop during an in-flight compile, measured idle exit.
Partial: schedules of real processes cannot be enumerated; the real runs are checked against what the model allows. -/

namespace C20
open StartupM

/-- `tcp_singleton` (since fix F-C20-a this is the statement for Unix-socket addresses too: both binds are exclusive): in **every** interleaving of any number of simultaneously started clients
    (each possibly spawning a server), at most one server is ever serving -/
theorem tcp_singleton (k : Nat) (as : List SAct) (s1 s2 : Nat)
    (h1 : (srun (Net.init false k) as).servers[s1]? = some .serving)
    (h2 : (srun (Net.init false k) as).servers[s2]? = some .serving) : s1 = s2 :=
  StartupM.tcp_singleton k as s1 s2 h1 h2

/-- F-C20-a (fixed; kernel-checked witness of the unrepaired bind): with unlink-then-bind two clients starting together end with two
    servers serving — the second unlinks the first one's socket and rebinds; the first stays alive, unreachable -/
theorem unix_second_server :
    let n := srun (Net.init true 2) [.connect 0, .connect 1, .bind 0, .bind 1]
    servingCount n = 2 ∧ n.bound = some 1 := StartupM.unix_second_server

/-- `idle_not_before`: for every sequence of request arrivals and polls, if the server exits by inactivity at time `t`
    then the idle period `T` has fully elapsed since the last request arrival (and `T ≠ 0`) -/
theorem idle_not_before (T t0 : Nat) (evs : List IdleM.Ev) (t : Nat)
    (h : (IdleM.run (IdleM.init T t0) evs).exited = some t) :
    (IdleM.run (IdleM.init T t0) evs).last + T ≤ t ∧ T ≠ 0 := by
  have hi := IdleM.inv_run evs _ (IdleM.inv_init T t0)
  have hT : (IdleM.run (IdleM.init T t0) evs).T = T := by
    have : ∀ (evs : List IdleM.Ev) (s : IdleM.Srv), (IdleM.run s evs).T = s.T := by
      intro evs
      induction evs with
      | nil => intro s; rfl
      | cons e es ih =>
        intro s
        show (IdleM.run (IdleM.step s e) es).T = s.T
        rw [ih]
        cases e <;> simp only [IdleM.step] <;> (try split) <;> (try split) <;> (try split) <;> rfl
    exact this evs _
  have := hi.late t h
  rw [hT] at this
  exact this

/-- with `SCCACHE_IDLE_TIMEOUT=0` the server never exits by inactivity -/
theorem idle_disabled_never_exits (t0 : Nat) (evs : List IdleM.Ev) : (IdleM.run (IdleM.init 0 t0) evs).exited = none := by
  cases h : (IdleM.run (IdleM.init 0 t0) evs).exited with
  | none => rfl
  | some t => exact absurd rfl (idle_not_before 0 t0 evs t h).2

/-- non-vacuity: a request at time 5 re-arms a 10-unit timer; polling at 14 does nothing, at 15 the server exits -/
example : (IdleM.run (IdleM.init 10 0) [.request 5, .poll 14]).exited = none ∧
          (IdleM.run (IdleM.init 10 0) [.request 5, .poll 14, .poll 15]).exited = some 15 := by decide

section Shutdown
open ShutM

/-- the grace period of the model is the constant of the source (`SHUTDOWN_TIMEOUT`), in milliseconds -/
def graceMs : Nat := GenC.shutdownGraceSecs * 1000
theorem grace_pos : 0 < graceMs := by decide

/-- `idle_drain_not_before`: in every timed history of connections, requests, closes and stop requests, if the server
    left its serving phase without a stop request, then the idle period `T` had fully elapsed since the last request
    arrival (and `T ≠ 0`: with the timer disabled it never does) -/
theorem idle_drain_not_before (T : Nat) (evs : List Ev) (d : Nat)
    (h : (run (init T graceMs) evs).drainAt = some d) (hs : (run (init T graceMs) evs).byStop = false) :
    T ≠ 0 ∧ d = (run (init T graceMs) evs).last + T := by
  have hi := run_inv evs _ (init_inv T graceMs grace_pos)
  have hp := (run_params evs (init T graceMs)).1
  have := hi.idle d h hs
  rw [hp] at this
  exact this

/-- `stop_is_graceful`: whenever the server has exited at time `e`, the drain began at some `d ≤ e`, the exit came no later
    than the grace period after it, and **if a connection was still open (a request in flight) the whole grace period had
    been granted** -/
theorem stop_is_graceful (T : Nat) (evs : List Ev) (e : Nat) (h : (run (init T graceMs) evs).phase = .exited e) :
    ∃ d, (run (init T graceMs) evs).drainAt = some d ∧ d ≤ e ∧ e ≤ d + graceMs ∧
         ((run (init T graceMs) evs).conns ≠ [] → e = d + graceMs) := by
  have hi := run_inv evs _ (init_inv T graceMs grace_pos)
  have hp := (run_params evs (init T graceMs)).2
  obtain ⟨d, h1, h2, h3, h4⟩ := hi.ext e h
  rw [hp] at h3 h4
  exact ⟨d, h1, h2, h3, h4⟩

/-- `stop_terminates`: once the drain has begun at `d`, the server is gone by `d + grace` whatever the clients do -/
theorem stop_terminates (T : Nat) (evs : List Ev) (d : Nat) (h : (run (init T graceMs) evs).drainAt = some d)
    (ht : d + graceMs ≤ (run (init T graceMs) evs).now) : ∃ e, (run (init T graceMs) evs).phase = .exited e := by
  have hi := run_inv evs _ (init_inv T graceMs grace_pos)
  have hp := (run_params evs (init T graceMs)).2
  cases hph : (run (init T graceMs) evs).phase with
  | running dl => have := (hi.run_ dl hph).1; rw [this] at h; cases h
  | draining since =>
    obtain ⟨h1, _, _, h4⟩ := hi.drn since hph
    rw [h1] at h; cases h
    rw [hp] at h4; have : (init T graceMs).grace = graceMs := rfl; omega
  | exited e => exact ⟨e, rfl⟩

/-- `inflight_served_during_drain`: a connection that is open when the drain begins keeps being served until the grace
    period is over -/
theorem inflight_served_during_drain (s : Srv) (since c t : Nat) (hp : s.phase = .draining since) (hc : c ∈ s.conns)
    (ht : max s.now t < since + s.grace) : (step s (.request t c)).2 = .served := by
  have hgr : ¬ since + s.grace ≤ max s.now t := by omega
  show (act (advance s t) (.request t c)).2 = .served
  rw [adv_drain s t since hp hgr]
  simp only [act, hp, hc, if_true]

/-- after the drain has begun nobody new is let in -/
theorem no_new_connection_after_drain (s : Srv) (t since : Nat) (hp : (advance s t).phase = .draining since) :
    (step s (.connect t)).2 = .refused := by
  show (act (advance s t) (.connect t)).2 = .refused
  simp only [act, hp]

/-- non-vacuity (T = 5 s, grace = 10 s): connection 0 opens at 100 ms and asks at 1.2 s; the timer expires at 6.2 s; a connect at
    7 s is refused, the open connection is still served at 8 s; at 16.2 s the server is gone.  With a stop request at 2 s
    and the connection closed at 3 s the server exits at 3 s. -/
example : outs (init 5000 graceMs) [.connect 100, .request 1200 0, .connect 7000, .request 8000 0, .tick 16199, .request 16200 0]
          = [.accepted 0, .served, .refused, .served, .none, .dead] := by decide
example : (run (init 5000 graceMs) [.connect 100, .request 1200 0, .tick 20000]).phase = .exited 16200 := by decide
example : (run (init 5000 graceMs) [.connect 100, .stop 2000 0, .close 3000 0]).phase = .exited 3000 := by decide
example : (run (init 0 graceMs) [.connect 100, .request 1200 0, .tick 100000000]).phase = .running none := by decide

end Shutdown

end C20
