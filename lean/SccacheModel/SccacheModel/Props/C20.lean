import SccacheModel.Model.Startup
import SccacheModel.Model.Idle

/-! # C20 — one server per address: cold starts converge, shutdown is graceful, idle exit not before its time

Models: `StartupM` (`Model/Startup.lean`): the OS address table (`bind` on a TCP port fails when bound; the Unix-socket
path is unlinked first, so `bind` always succeeds), clients (`connect`; on refusal spawn a server and wait for its
notification; `AddrInUse` ⇒ reconnect), servers (bind, notify, serve); any number of clients, any interleaving.
`IdleM` (`Model/Idle.lean`): the inactivity timer with a logical clock.
Tie: `tools/sys_c20.py` — process census of real cold starts with 2…N simultaneous clients over TCP and over a Unix
socket, replay of the model's Unix witness on the real binary, stop during an in-flight compile, measured idle exit.
Partial: schedules of real processes cannot be enumerated; the real runs are checked against what the model allows. -/

namespace C20
open StartupM

/-- `tcp_singleton`: over a TCP address, in **every** interleaving of any number of simultaneously started clients
    (each possibly spawning a server), at most one server is ever serving -/
theorem tcp_singleton (k : Nat) (as : List SAct) (s1 s2 : Nat)
    (h1 : (srun (Net.init false k) as).servers[s1]? = some .serving)
    (h2 : (srun (Net.init false k) as).servers[s2]? = some .serving) : s1 = s2 :=
  StartupM.tcp_singleton k as s1 s2 h1 h2

/-- F-C20-a (negative, kernel-checked, open): with a Unix-socket address two clients starting together end with two
    servers serving — the second unlinks the first one's socket and rebinds; the first stays alive, unreachable -/
theorem unix_second_server :
    let n := srun (Net.init true 2) [.connect 0, .connect 1, .bind 0, .bind 1]
    servingCount n = 2 ∧ n.bound = some 1 := StartupM.unix_second_server

/-- `idle_not_before`: for every sequence of request arrivals and polls, if the server exits by inactivity at time `t`
    then the idle period `T` has fully elapsed since the last request arrival (and `T ≠ 0`) -/
theorem idle_not_before (T t0 : Nat) (evs : List IdleM.Ev) (t : Nat)
    (h : (IdleM.run (IdleM.init T t0) evs).exited = some t) :
    (IdleM.run (IdleM.init T t0) evs).last + T ≤ t ∧ T ≠ 0 := by
  have hi := IdleM.inv_run evs _ (IdleM.inv_init T t0)
  have hT : (IdleM.run (IdleM.init T t0) evs).T = T := by
    have : ∀ (evs : List IdleM.Ev) (s : IdleM.Srv), (IdleM.run s evs).T = s.T := by
      intro evs
      induction evs with
      | nil => intro s; rfl
      | cons e es ih =>
        intro s
        show (IdleM.run (IdleM.step s e) es).T = s.T
        rw [ih]
        cases e <;> simp only [IdleM.step] <;> (try split) <;> (try split) <;> (try split) <;> rfl
    exact this evs _
  have := hi.late t h
  rw [hT] at this
  exact this

/-- with `SCCACHE_IDLE_TIMEOUT=0` the server never exits by inactivity -/
theorem idle_disabled_never_exits (t0 : Nat) (evs : List IdleM.Ev) : (IdleM.run (IdleM.init 0 t0) evs).exited = none := by
  cases h : (IdleM.run (IdleM.init 0 t0) evs).exited with
  | none => rfl
  | some t => exact absurd rfl (idle_not_before 0 t0 evs t h).2

/-- non-vacuity: a request at time 5 re-arms a 10-unit timer; polling at 14 does nothing, at 15 the server exits -/
example : (IdleM.run (IdleM.init 10 0) [.request 5, .poll 14]).exited = none ∧
          (IdleM.run (IdleM.init 10 0) [.request 5, .poll 14, .poll 15]).exited = some 15 := by decide

end C20
