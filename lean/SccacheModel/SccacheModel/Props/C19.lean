import SccacheModel.Proofs.Paths

/-! # C19 — build-server jobs cannot read or create files outside their private root

Model: `PathsM` (`Model/Paths.lean`): Rust `Path::join` (an absolute path replaces), the trimming `Path::components`
performs, `build::join_suffix` (strip the root of the suffix, keep everything else *textually*), and the OS's lexical
resolution of `.` / `..`.  Tie: hook H6 (`SCCACHE_DIST_VERIF=paths:` inside the `sccache-dist` crate: the real
`join_suffix` and `std::path`) + `modeld paths` on adversarial cwd / path pairs; `h_tc ids` for toolchain ids.
What cannot be run here: bubblewrap / overlayfs (absent) — the sandboxed half of the property is out of reach; partial. -/

namespace C19
open PathsM

/-- `confined_partial`: for every build root (non-empty, not ending in `/`) and every client-supplied remainder that
    is relative and has **no `..` component**, the joined path resolves inside the build root. The two hypotheses are
    exactly what the server does not establish today (finding F-C19-a). -/
theorem confined_partial (target rest : Bytes)
    (ht : target ≠ []) (hl : target.getLast? ≠ some slash)
    (hr : hasRoot rest = false) (hdd : ∀ c ∈ splitSlash rest, c ≠ [dot, dot]) :
    confined target (pjoin target rest) = true := PathsM.confined_partial target rest ht hl hr hdd

/-- stripping the root really leaves a relative path: after `trim_left` nothing begins with `/`, so an absolute
    `cwd` or output path can never *replace* the build root in `join_suffix` -/
theorem stripped_suffix_is_relative (fuel : Nat) (s : Bytes) (h : s.length < fuel) : hasRoot (trimLeftFuel fuel s) = false :=
  PathsM.trimLeftFuel_noRoot fuel s h

/-- F-C19-a (negative, kernel-checked, open): `..` components survive `join_suffix` —
    build root `/srv/b/t`, cwd `/w`, output `../../etc/passwd` resolves to `/srv/b/etc/passwd`, outside the root -/
theorem escape_witness :
    confined [47, 115, 114, 118, 47, 98, 47, 116]
      (joinSuffix [47, 115, 114, 118, 47, 98, 47, 116] (pjoin [47, 119] [46, 46, 47, 46, 46, 47, 101, 116, 99, 47, 112, 97, 115, 115, 119, 100])) = false := by
  decide

/-- non-vacuity of `confined_partial`: an ordinary output path -/
example : confined [47, 115, 114, 118] (pjoin [47, 115, 114, 118] [119, 47, 111, 46, 111]) = true := by decide

end C19
