import SccacheModel.Proofs.Paths

/-! # C19 — build-server jobs cannot read or create files outside their private root

Model: `PathsM` (`Model/Paths.lean`): Rust `Path::join` (an absolute path replaces), the trimming `Path::components`
performs, `build::join_suffix` (strip the root of the suffix, keep everything else *textually*), and the OS's lexical
resolution of `.` / `..`.  Tie: hook H6 (`SCCACHE_DIST_VERIF=paths:` inside the `sccache-dist` crate: the real
`join_suffix` and `std::path`) + `modeld paths` on adversarial cwd / path pairs; `h_tc ids` for toolchain ids.
The server's use of these paths: `resolve_inside` (fix 732ef31) — `confined`, `every_step_inside`, `refused_only_when_leaving`.
Real build server: `tools/sys_c19.py` (real scheduler + `sccache-dist server` with its OverlayBuilder and a real overlay mount;
only bubblewrap is replaced by a chroot stand-in, so namespace isolation itself stays out of reach — partial). -/

namespace C19
open PathsM

/-- `confined_partial`: for every build root (non-empty, not ending in `/`) and every client-supplied remainder that
    is relative and has **no `..` component**, the joined path resolves inside the build root. The two hypotheses are
    exactly what the server does not establish today (finding F-C19-a). -/
theorem confined_partial (target rest : Bytes)
    (ht : target ≠ []) (hl : target.getLast? ≠ some slash)
    (hr : hasRoot rest = false) (hdd : ∀ c ∈ splitSlash rest, c ≠ [dot, dot]) :
    confined target (pjoin target rest) = true := PathsM.confined_partial target rest ht hl hr hdd

/-- stripping the root really leaves a relative path: after `trim_left` nothing begins with `/`, so an absolute
    `cwd` or output path can never *replace* the build root in `join_suffix` -/
theorem stripped_suffix_is_relative (fuel : Nat) (s : Bytes) (h : s.length < fuel) : hasRoot (trimLeftFuel fuel s) = false :=
  PathsM.trimLeftFuel_noRoot fuel s h

/-- `confined_all` (the repaired server, fix 732ef31): for **every** client-supplied remainder — `..` components, empty and `.`
    components, any bytes — whatever `resolve_inside` accepts is, by the kernel's lexical resolution, the build root followed
    by the returned names: inside the root. (World without symbolic links; links are resolved by `canonicalize` and checked by
    the same `starts_with(root)` test — trusted base: the kernel.) -/
theorem confined_all (target rest : Bytes) (q : List Bytes)
    (ht : target ≠ []) (hl : target.getLast? ≠ some slash) (hr : hasRoot rest = false)
    (h : resolveInside rest = some q) :
    resolve (pjoin target rest) = resolve target ++ q := PathsM.resolveInside_sound target rest q ht hl hr h

/-- … and every **intermediate** directory of the walk is inside the root too: with `create_dirs` nothing is ever created
    outside (`create_dir` is called on the current prefix only) -/
theorem every_step_inside (target rest : Bytes) (q : List Bytes) (h : resolveInside rest = some q)
    (cs₁ cs₂ : List Bytes) (hs : splitSlash rest = cs₁ ++ cs₂) :
    resolve target <+: cs₁.foldl rstep (resolve target) := PathsM.resolveInside_steps_inside target rest q h cs₁ cs₂ hs

/-- a refusal is never gratuitous: some prefix of the path really leaves the root (so ordinary `../sibling/x.o` outputs of a
    deep enough cwd keep working) -/
theorem refused_only_when_leaving (rest : Bytes) (base : List Bytes) (hb : base ≠ []) (h : resolveInside rest = none) :
    ∃ cs₁ cs₂, splitSlash rest = cs₁ ++ cs₂ ∧ ¬ (base <+: cs₁.foldl rstep base) := by
  have := PathsM.foldl_istep_refuses_only_escapes (splitSlash rest) [] base hb h
  simpa using this

/-- the request of F-C19-a is refused now, an ordinary `..` that stays inside is resolved -/
theorem fixed_escape_refused :
    resolveInside (suffixRest (pjoin [47, 119] [46, 46, 47, 46, 46, 47, 101, 116, 99, 47, 112, 97, 115, 115, 119, 100])) = none ∧
    resolveInside (suffixRest (pjoin [47, 119, 47, 115] [46, 46, 47, 111, 46, 111])) = some [[119], [111, 46, 111]] := by decide

/-- F-C19-a as it was on the pinned tree (kernel-checked): `..` components survive `join_suffix` alone —
    build root `/srv/b/t`, cwd `/w`, output `../../etc/passwd` resolves to `/srv/b/etc/passwd`, outside the root.
    The repaired server no longer hands this path to the file system (`fixed_escape_refused`). -/
theorem escape_witness :
    confined [47, 115, 114, 118, 47, 98, 47, 116]
      (joinSuffix [47, 115, 114, 118, 47, 98, 47, 116] (pjoin [47, 119] [46, 46, 47, 46, 46, 47, 101, 116, 99, 47, 112, 97, 115, 115, 119, 100])) = false := by
  decide

/-- non-vacuity of `confined_partial`: an ordinary output path -/
example : confined [47, 115, 114, 118] (pjoin [47, 115, 114, 118] [119, 47, 111, 46, 111]) = true := by decide

/-- `toolchain_path_confined` (fix 718dc21): for **every** id the toolchain cache accepts (`valid_archive_id`: at least two bytes, all
    hex digits) the file it uses resolves to exactly `<root>/<id[0]>/<id[1]>/<id>` — below the cache root — and the slicing of
    `make_lru_key_path` cannot fail; every other client-supplied id is refused before a path is built -/
theorem toolchain_path_confined (root id : Bytes) (hv : validId id = true) :
    resolve (keyPath root id) = resolve root ++ [id.take 1, (id.drop 1).take 1, id] := PathsM.keyPath_confined root id hv

/-- the ids of the round-0 finding are refused now: empty, one byte, `../../x`, `/abs` -/
theorem bad_ids_refused : validId [] = false ∧ validId [97] = false ∧ validId [46, 46, 47, 46, 46, 47, 120] = false ∧ validId [47, 97, 98] = false := by decide

/-- `overlay_dir_confined` (fix aa1c43e): for **every** client-supplied toolchain id, a directory the overlay builder creates for
    it is exactly `<builder>/toolchains/<id>`; ids the toolchain cache refuses get none -/
theorem overlay_dir_confined (builder id : Bytes) (c : Bool) (p : Bytes) (h : overlayDir builder id c = some p) :
    resolve p = resolve builder ++ [tcDirName, id] := PathsM.overlayDir_confined builder id c p h

theorem overlay_dir_bad_ids_refused (builder : Bytes) (c : Bool) :
    overlayDir builder [46, 46, 47, 46, 46, 47, 120] c = none ∧ overlayDir builder [47, 116, 109, 112, 47, 120] c = none ∧
    overlayDir builder [] c = none := PathsM.overlayDir_refuses_bad_ids builder c

/-- F-C19-c fixed witness: what the unrepaired code did with `../../x` and `/tmp/x` -/
theorem overlay_dir_escape_witness_before :
    confined [47, 98, 47, 100] (overlayDirBefore [47, 98, 47, 100] [46, 46, 47, 46, 46, 47, 120]) = false ∧
    confined [47, 98, 47, 100] (overlayDirBefore [47, 98, 47, 100] [47, 116, 109, 112, 47, 120]) = false := PathsM.overlayDirBefore_escape_witness

/-- non-vacuity: a digest-like id in the cache gets its directory -/
example : overlayDir [47, 98, 47, 100] [48, 97, 102, 57] true = some ([47, 98, 47, 100] ++ [47] ++ tcDirName ++ [47] ++ [48, 97, 102, 57]) := by decide

/-- non-vacuity: a digest-like id is accepted -/
example : validId [48, 97, 102, 57] = true := by decide

end C19
