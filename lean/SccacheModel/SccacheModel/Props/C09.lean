import SccacheModel.Model.ServerL1
import SccacheModel.Model.Spec

/-! # C09 — a broken, corrupt or read-only cache never breaks or falsifies a build

L1 (`Model/ServerL1.lean`): `decide1` = `CompilerHasher::get_cached_or_compile` + the result mapping of
`start_compile_task` as a total function of (hash outcome, cache control, lookup outcome, extraction outcome, compile
outcome, cacheable, pack, store outcome); `ppSectionFixed` = the preprocessor-cache section of `generate_hash_key` after
the `fix:` commit for F-C09-a.  Tie: `h_l1` — exhaustive enumeration of that alphabet on the real
`get_cached_or_compile` (fault-injecting `Storage` around the real `DiskCache`, real gcc) and on-disk faults of the
preprocessor-cache entry file.  L0 (`Model/Spec.lean`): the abstract cache over all histories. -/

namespace C09
open L1 L0

/-- `storage_fault_total`: whatever the cache does on lookup and on store — miss, error, time-out, undecodable
    entry, failing or refused store — a request whose hash and compile steps work is answered with the compiler's
    own result, and the compiler ran. Over the whole input alphabet. -/
theorem storage_fault_total (i : In) (hh : i.hash = .ok) (hc : i.compile ≠ .spawnErr) (hp : i.pack = true)
    (hl : i.lookup ≠ .hit ∨ i.extract = .decompressionFailure) :
    ∃ ok, (decide1 i).reply = .compilerResult ok ∧ (decide1 i).ranCompiler = true :=
  L1.storage_fault_total i hh hc hp hl

/-- `failed_not_stored`: the result of a failed compilation is never stored -/
theorem failed_not_stored (i : In) (h : (decide1 i).reply = .compilerResult false) : (decide1 i).storeIssued = false :=
  L1.failed_not_stored i h

/-- the outcome of the store never influences the reply (read-only, full or broken caches only move counters) -/
theorem store_outcome_irrelevant (i : In) (b : Bool) : decide1 { i with storeOk := b } = decide1 i :=
  L1.store_outcome_irrelevant i b

/-- after the fix of F-C09-a **no** state of the preprocessor-cache entry (absent, empty, valid, undecodable,
    unreadable), with any option, can make a request fatal -/
theorem ppsection_total (usePP controlDefault : Bool) (e : PEntry) (updatePutOk : Bool) :
    ppSectionFixed usePP controlDefault e updatePutOk ≠ .propagateError :=
  ppsection_fixed_total usePP controlDefault e updatePutOk

/-- F-C09-a (negative, kernel-checked, **pinned** code): an undecodable entry propagated out of `generate_hash_key`.
    Repaired in /repo by a `fix:` commit. -/
theorem ppsection_pinned_witness : ppSectionPinned true true .undecodable true = .propagateError := rfl

/-- L0, all histories: after any history of requests with lookup/store faults, evictions, corruptions of entries
    and restarts, the reply to a request — with or without a lookup fault, with or without a store fault — is the
    direct compiler's result for that request. -/
theorem transparent_under_faults (cc : CC) (hist : List Ev) (fp : Nat) (lf sf : Bool) (o : Obs)
    (h : (estep cc (erun cc (fun _ => none) hist) (.request fp lf sf)).2 = some o) : o.reply = cc fp :=
  L0.transparent cc hist fp lf sf o h

/-- L0: results of failed compilations are never in the cache, after any history -/
theorem failed_never_cached (cc : CC) (hist : List Ev) (k : Nat) (r : Result)
    (h : erun cc (fun _ => none) hist k = some r) : r.ok = true := L0.failed_never_cached cc hist k r h

/-- L0 `repopulates`: once the fault is gone, a normal miss stores the entry again -/
theorem repopulates (cc : CC) (hist : List Ev) (fp : Nat) (hok : (cc fp).ok = true) :
    (estep cc (erun cc (fun _ => none) (hist ++ [.corrupt fp])) (.request fp false false)).1 fp = some (cc fp) := by
  have erun_append : ∀ (a b : List Ev) (c : Cache), erun cc c (a ++ b) = erun cc (erun cc c a) b := by
    intro a
    induction a with
    | nil => intro b c; rfl
    | cons x xs ih => intro b c; simp only [List.cons_append, erun]; exact ih b _
  simp only [erun_append, erun, estep, upd, Bool.false_eq_true, if_false, if_true, hok, Bool.not_false, Bool.and_self]

/-- the L1 decision function refines the L0 step: on a well-behaved request (hash ok, compiler spawns, outputs pack)
    the compiler runs exactly when L0 says so and the reply class is L0's -/
theorem decide1_refines_estep (cc : CC) (c : Cache) (fp : Nat) (lf sf : Bool) :
    let i : In := { hash := .ok, control := .default, lookup := if lf then .err else (if (c fp).isSome then .hit else .miss),
                    extract := .ok, compile := if (cc fp).ok then .success else .failure, cacheable := true, pack := true, storeOk := !sf }
    ∀ o, (estep cc c (.request fp lf sf)).2 = some o →
      (decide1 i).ranCompiler = o.ranCompiler ∧
      ((decide1 i).reply = .cachedResult ↔ o.ranCompiler = false) ∧
      ((decide1 i).storeIssued = true → o.reply.ok = true) := by
  intro i o ho
  simp only [estep] at ho
  cases lf <;> cases hc : c fp <;> cases hk : (cc fp).ok <;> simp_all [decide1, i] <;> (cases ho; simp_all)

end C09
