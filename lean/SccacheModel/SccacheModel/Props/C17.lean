import SccacheModel.Model.TcCache

/-! # C17 — the toolchain cache only ever serves content matching the requested id

Model: `TcM` (`Model/TcCache.lean`): the toolchain cache at content level, `Store : id ↦ digest of the bytes stored
under that id`; LRU evictions of the underlying disk cache are *arbitrary* `evict` steps (any id, any moment), which
over-approximates `LruDiskCache` (C07). `tcStepFixed` is `TcCache::insert_with` after the `fix:` commit (a mismatching
upload is removed again). Tie: `h_tc` (real `dist::TcCache`, honest and dishonest uploads, small capacities) + `modeld tc`. -/

namespace C17
open TcM

/-- `tc_sound`: for **every** history of uploads under a declared id (content matching or not), insert-file,
    removals, evictions at any moment and reopenings, whatever the cache holds under an id — i.e. whatever
    `contains_toolchain` reports and `get` returns — has content whose digest is that id. -/
theorem tc_sound (ops : List TcOp) : ∀ id d, (ops.foldl tcStepFixed (fun _ => none)) id = some d → d = id :=
  TcM.tc_sound ops

/-- a mismatching upload leaves nothing behind under that id (in any state) -/
theorem mismatching_upload_leaves_nothing (s : Store) (id d : Nat) (h : d ≠ id) :
    (tcStepFixed s (.insertWith id d)) id = none := by
  simp [tcStepFixed, h, supd]

/-- non-vacuity: an honest upload is present afterwards -/
example : ([TcOp.insertWith 3 3, .insertWith 1 2].foldl tcStepFixed (fun _ => none)) 3 = some 3 := by decide

/-- F-C17-a (negative, kernel-checked, **pinned** `insert_with`): a mismatching upload stayed under the declared id.
    Repaired in /repo by a `fix:` commit. -/
theorem pinned_witness : ([TcOp.insertWith 1 2].foldl tcStepPinned (fun _ => none)) 1 = some 2 := TcM.tc_pinned_witness

end C17
