import SccacheModel.Model.Dist
import SccacheModel.Model.ClientTc
import SccacheModel.Gen.Args

/-! # C13 — distributed compiles match local ones in artefacts and status, or fall back

Model: `DistM` (`Model/Dist.lean`): `distDecide` = `dist_or_local_compile` over the stages (toolchain put, allocation,
toolchain submit, run, output files written one by one, rewrite) with an error class at each stage; `ofRemoteFixed` /
`codeOfRaw` = the mapping of the remote exit code back to a process status after the `fix:` commit for F-C13-a.
Tie: `h_dist` — the real `get_cached_or_compile` with an own implementation of the public `dist::Client` trait that
fails at every stage with every error class and returns remote exit codes 1, 2, 42, 127, 255 — + `modeld dist`.
Cannot run here: a real build server needs bubblewrap or docker (absent): toolchain packaging and the sandbox are not
exercised end to end — partial. -/

namespace C13
open DistM

/-! ## the client's toolchain map (`ClientTcM`): "a local toolchain cache too small for the packaged toolchain is reported" — every time -/

open ClientTcM in
theorem clientTc_inv_init (size : Nat → Nat) (cap : Nat) : Inv size { cap := cap } := by
  intro w i h; simp at h

open ClientTcM in
theorem clientTc_inv_put (size idOf : Nat → Nat) (s : St) (w : Nat) (h : Inv size s) : Inv size (put size idOf s w).1 ∧ (put size idOf s w).1.cap = s.cap := by
  unfold put
  split
  · exact ⟨h, rfl⟩
  · split
    · exact ⟨h, rfl⟩
    · rename_i hle
      refine ⟨?_, rfl⟩
      intro w' i hm
      simp only [List.mem_cons, Prod.mk.injEq] at hm
      rcases hm with ⟨rfl, _⟩ | hm
      · simp only; omega
      · exact h w' i hm

open ClientTcM in
/-- a toolchain that does not fit is never in the map, so `put_toolchain` reports it in **every** state the invariant holds in -/
theorem clientTc_too_small_reported (size idOf : Nat → Nat) (s : St) (w : Nat) (h : Inv size s) (hs : size w > s.cap) :
    put size idOf s w = (s, .tooLarge) := by
  unfold put
  cases hl : s.weak.lookup w with
  | some i =>
    have hm : (w, i) ∈ s.weak := by
      have := List.lookup_eq_some_iff.mp hl
      obtain ⟨l1, l2, he, _⟩ := this
      rw [he]; simp
    have := h w i hm
    omega
  | none => simp [hs]

open ClientTcM in
/-- `too_small_reported_every_time`: over **every** history of requests (with restarts, which keep the persisted map) starting from an
    empty map, each request for a compiler whose packaged toolchain does not fit the local toolchain cache ends in the
    "could not cache dist toolchain" error — the first one and every later one -/
theorem too_small_reported_every_time (size idOf : Nat → Nat) (cap : Nat) (ws : List Nat) :
    ∀ (s : St), Inv size s → s.cap = cap →
      ∀ k (hk : k < ws.length), size ws[k] > cap → (run size idOf s ws).2[k]? = some .tooLarge := by
  induction ws with
  | nil => intro s _ _ k hk; simp at hk
  | cons w ws ih =>
    intro s hinv hcap k hk hsz
    simp only [run]
    obtain ⟨hinv', hcap'⟩ := clientTc_inv_put size idOf s w hinv
    cases k with
    | zero =>
      simp only [List.getElem_cons_zero] at hsz
      rw [clientTc_too_small_reported size idOf s w hinv (by omega)]
      simp
    | succ k =>
      simp only [List.getElem_cons_succ] at hsz
      simp only [List.getElem?_cons_succ]
      exact ih _ hinv' (by omega) k (by simpa using hk) hsz

open ClientTcM in
/-- non-vacuity: cache of 10 bytes, compiler 1 packs to 50 bytes, compiler 2 to 5: requests 1 2 1 2 1 -/
example : (run (fun w => if w = 1 then 50 else 5) (· + 100) { cap := 10 } [1, 2, 1, 2, 1]).2 =
    [.tooLarge, .ok 102, .tooLarge, .ok 102, .tooLarge] := by decide

/-- `fallback_total`: over **every** stage and error class, the only way a request ends in an sccache error is an
    HTTP-4xx rejection or a toolchain that does not fit the local toolchain cache -/
theorem fallback_total (d c : Bool) (f : Option (Stage × ErrClass)) :
    distDecide d c f = .error → ∃ st e, f = some (st, e) ∧ (e = .http4xx ∨ e = .toolchainTooLarge) :=
  DistM.fallback_total d c f

/-- every other failure, at every stage, falls back to the local compiler; no failure yields the remote result -/
theorem other_failures_fall_back (st : Stage) : distDecide true true (some (st, .other)) = .local_ := by
  simp [distDecide]

theorem remote_only_without_failure (d c : Bool) (f : Option (Stage × ErrClass)) (h : distDecide d c f = .remote) :
    d = true ∧ c = true ∧ f = none := by
  unfold distDecide at h
  cases d <;> cases c <;> simp at h ⊢
  cases f with
  | none => rfl
  | some p => obtain ⟨st, e⟩ := p; cases e <;> simp at h

/-- `cleanup_complete`: after a failure while writing output *j*, `try_or_cleanup` leaves none of the outputs written
    so far before the local compile rewrites them -/
theorem cleanup_complete (written : List Nat) : leftovers written true = [] := rfl

/-- `exit_status_roundtrip` (after the fix of F-C13-a): every remote exit code 0…255 comes back as that exit code -/
theorem exit_status_roundtrip (c : Nat) (h : c < 256) : codeOfRaw (ofRemoteFixed c) = some c :=
  DistM.exit_status_roundtrip_fixed c h

/-- F-C13-a (negative, kernel-checked, **pinned** mapping): remote exit code 1 came back as "killed by signal 1".
    Repaired in /repo by a `fix:` commit. -/
theorem exit_status_pinned_witness : codeOfRaw (ofRemotePinned 1) = none ∧ signalOfRaw (ofRemotePinned 1) = some 1 :=
  DistM.exit_status_pinned_witness

/-! ## the argument vector that travels (`ArgsM.distRegen`, tied by `h_args` on both `rewrite_includes_only` settings) -/
open ArgsM in
/-- `dist_command_shape`: whenever a request is distributed, the remote compiler gets — in this order — the language (`-x …`, the
    `…-cpp-output` form unless includes are only rewritten), the compilation flag, the input, `-o` output, for gcc
    `[-fdirectives-only] -fpreprocessed`, and then **all common (hashed) arguments, in order and nothing after them**.
    Preprocessor and dependency arguments stay with the local preprocessing step. -/
theorem dist_command_shape (gcc rio : Bool) (p : Parsed) (d : List Bytes) (h : distRegen gcc rio p = some d) :
    ∃ l, distLang rio p = some l ∧ d = distHead gcc rio p l ++ p.common ∧ (distHead gcc rio p l).length ≤ 8 := by
  unfold distRegen at h
  split at h
  · cases h
  · split at h
    · cases h
    · rename_i l hl
      split at h
      · injection h with h
        refine ⟨l, hl, h.symm, ?_⟩
        unfold distHead
        cases l <;> cases gcc <;> simp <;> split <;> simp
      · cases h

open ArgsM in
/-- a request with `-v` / `--verbose` among its arguments, and CUDA, always compile locally -/
theorem verbose_and_cuda_stay_local (gcc rio : Bool) (p : Parsed)
    (h : (regen p).contains (sb "-v") = true ∨ (regen p).contains (sb "--verbose") = true ∨ p.lang = .cuda) :
    distRegen gcc rio p = none := by
  unfold distRegen
  have : distLocalOnly p = true := by
    unfold distLocalOnly
    rcases h with h | h | h
    · rw [h]; simp
    · rw [h]; simp
    · rw [h]; simp
  simp [this]

end C13
