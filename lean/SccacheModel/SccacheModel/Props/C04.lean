import SccacheModel.Proofs.TimeMacro
import SccacheModel.Model.Manifest
import SccacheModel.Proofs.Recorder
import SccacheModel.Gen.KeyConsts

/-! # C04 — preprocessor-cache (direct) mode never returns a result for changed inputs

Two cores carry the logic:
* `TM.Finder` (`Model/TimeMacro.lean`) — literal transcription of `util::TimeMacroFinder` (26-byte overlap buffer,
  small-read accumulator, full-chunk counter). Tie: `h_c04 finder` (real finder and real chunked digest on generated
  texts × generated read splits) + `modeld finder`.
* `ManifestM.resultMatches` (`Model/Manifest.lean`) — `PreprocessorCacheEntry::result_matches` with `add_result`'s
  recording rule. Tie: `h_c04 manifest` (real entry on real files whose contents, sizes and mtimes are edited) +
  `modeld manifest`.
* `RecM.processPreprocessedFile` (`Model/Recorder.lean`) — `process_preprocessed_file`, `process_preprocessor_line`,
  `remember_include_file`, `normalize_path` (the include recorder that decides *which* files enter the manifest and
  whether direct mode stays on). Tie: `h_recorder` (the real recorder through hook H2 on generated line-marker
  texts over a real directory tree) + `modeld recorder`. -/

namespace C04
open TM ManifestM

/-- `finder_sound`: for **every** way of splitting the bytes of a file into non-empty successive reads, each of
    `__TIMESTAMP__`, `__TIME__`, `__DATE__` that occurs in the file is reported — no chunk boundary hides a macro. -/
theorem finder_sound (chunks : List Bytes) (hne : ∀ c ∈ chunks, c ≠ []) :
    (patTimestamp <:+: chunks.flatten → (Finder.run chunks).foundTimestamp = true) ∧
    (patTime <:+: chunks.flatten → (Finder.run chunks).foundTime = true) ∧
    (patDate <:+: chunks.flatten → (Finder.run chunks).foundDate = true) :=
  ⟨fun h => TM.finder_sound chunks hne 0 ((hasInfix_iff _ _).mpr h),
   fun h => TM.finder_sound chunks hne 1 ((hasInfix_iff _ _).mpr h),
   fun h => TM.finder_sound chunks hne 2 ((hasInfix_iff _ _).mpr h)⟩

/-- non-vacuity: `__TIME__` split 3|2|3 across three short reads after a full chunk is found -/
example : (Finder.run [List.replicate 20 120, [95, 95, 84], [73, 77], [69, 95, 95]]).foundTime = true := by decide

/-- `manifest_hit_sound`: for every option combination (stat matching, ctime use, ignoring time macros),
    every recorded include list (recorded at compile start `t0` from file system `fs0`) and every later file system
    in which each changed file carries a ctime ≥ `t0` (any history of writes, touches, deletions, re-creations under
    a monotone clock), a manifest hit implies that **every** recorded header still has its recorded contents —
    at full strength since the fix of F-C04-b (headers holding time-macro text are content-compared too). -/
theorem manifest_hit_sound (cfg : Cfg) (t0 : Nat) (fs0 fs1 : FS)
    (hev : EvolvedSince t0 fs0 fs1)
    (incs : List Inc) (hrec : ∀ inc ∈ incs, ∃ f0, fs0 inc.path = some f0 ∧ inc = record t0 inc.path f0)
    (hm : resultMatches cfg fs1 incs = true) :
    ∀ inc ∈ incs, ∃ f1, fs1 inc.path = some f1 ∧ f1.content = inc.digest :=
  ManifestM.manifest_hit_sound cfg t0 fs0 fs1 hev incs hrec hm

/-- the expansions of the time macros: under the default handling a header that mentions `__TIME__` or `__DATE__` never hits, and one that
    mentions `__TIMESTAMP__` hits only with the modification time it was recorded with (no stat hit involved) -/
theorem time_macro_header_hit (cfg : Cfg) (fs : FS) (inc : Inc) (rest : List Inc) (f : FileSt)
    (hf : fs inc.path = some f) (hcfg : cfg.ignoreTimeMacros = false) (hst : statHit cfg f inc = false)
    (hm : resultMatches cfg fs (inc :: rest) = true) :
    f.hasTime = false ∧ f.hasDate = false ∧ (f.hasTimestamp = true → inc.mtime = some f.mtime) :=
  ManifestM.time_macro_header_hit cfg fs inc rest f hf hcfg hst hm

/-- a deleted header never yields a hit -/
theorem deleted_header_misses (cfg : Cfg) (fs : FS) (inc : Inc) (rest : List Inc) (h : fs inc.path = none) :
    resultMatches cfg fs (inc :: rest) = false := by simp [resultMatches, h]

/-- a size-changing edit of any recorded header never yields a hit, whatever the options -/
theorem size_change_misses (cfg : Cfg) (fs : FS) (pre : List Inc) (inc : Inc) (post : List Inc) (f : FileSt)
    (hf : fs inc.path = some f) (hs : f.size ≠ inc.size) : resultMatches cfg fs (pre ++ inc :: post) = false := by
  induction pre with
  | nil =>
    have : (f.size != inc.size) = true := by simpa using hs
    simp [resultMatches, hf, this]
  | cons p ps ih =>
    simp only [List.cons_append, resultMatches]
    repeat' (first | rfl | exact ih | split)
    all_goals simp [ih]

/-- F-C04-a, now repaired in /repo (`fix:` commit): with `ignore_time_macros` an edit of the *second* header is detected -/
theorem ignore_time_macros_second_header_detected :
    let cfg : Cfg := ⟨false, true, true⟩
    let fs1 : FS := fun p => if p = 0 then some ⟨10, 5, 1, 1, false, false, false⟩ else if p = 1 then some ⟨99, 5, 9, 9, false, false, false⟩ else none
    resultMatches cfg fs1 [⟨0, 10, 5, none, none⟩, ⟨1, 20, 5, none, none⟩] = false :=
  ManifestM.ignore_time_macros_second_header_detected

/-- F-C04-b (fixed; kernel-checked): before the fix a header containing `__DATE__` was never content-compared — a same-size edit still
    hit — and a touched `__TIMESTAMP__` header kept hitting with its old expansion; both states miss now -/
theorem date_header_witness :
    let cfg : Cfg := ⟨false, true, false⟩
    let fs1 : FS := fun p => if p = 0 then some ⟨77, 5, 1, 1, true, false, false⟩ else none
    resultMatchesBefore cfg fs1 [⟨0, 10, 5, none, none⟩] = true ∧ resultMatches cfg fs1 [⟨0, 10, 5, none, none⟩] = false :=
  ManifestM.date_header_witness

theorem timestamp_header_witness :
    let cfg : Cfg := ⟨false, true, false⟩
    let fs1 : FS := fun p => if p = 0 then some ⟨10, 5, 9, 9, false, false, true⟩ else none
    resultMatchesBefore cfg fs1 [⟨0, 10, 5, some 1, some 1⟩] = true ∧ resultMatches cfg fs1 [⟨0, 10, 5, some 1, some 1⟩] = false :=
  ManifestM.timestamp_header_witness


end C04

/-! ## the include recorder -/
namespace C04
open RecM

/-- `recorder_sound`: for **every** well-formed preprocessor output (any number of lines; line markers `hd "path" flags`
    mixed with arbitrary other lines), every option combination and every file system: if the recorder leaves direct
    mode enabled, the file named by each line marker is among the recorded include files (under the key
    `cwd.join(normalised path)`), or is excluded for one of the four documented reasons — a `<pseudo>` name, a system
    header while `skip_system_headers` is set, the input file itself, a directory. -/
theorem recorder_sound (cfg : RecM.Cfg) (fs : Bytes → FileKind) (cwd input : Bytes) (ls : List Line) (hwf : WF [] ls) (rec : List Bytes)
    (h : processPreprocessedFile cfg fs cwd input (textOf ls) = .ok true rec) :
    ∀ hd path flags, Line.marker hd path flags ∈ ls → path ≠ [] → Covered cfg fs cwd input rec path flags :=
  RecM.recorder_sound cfg fs cwd input ls hwf rec h

/-- non-vacuity of `recorder_sound`: a well-formed three-line text on which direct mode stays on and both headers —
    one of them reached through `../` — are recorded -/
theorem recorder_sound_nonvacuous : WF [] exLines ∧
    processPreprocessedFile ⟨true, false⟩ (fsOf exWorld) (sb [47, 112, 47, 115]) (sb [47, 112, 47, 115, 47, 109, 46, 99]) (textOf exLines)
      = .ok true [sb [47, 112, 47, 115, 47, 97, 46, 104], sb [47, 112, 47, 115, 47, 46, 46, 47, 105, 47, 98, 46, 104]] :=
  ⟨exLines_wf, exLines_result⟩

/-- what the recorder does on one well-formed marker line: the bytes between the first two quotes, normalised, go to
    `remember_include_file`, with `system` = "a `3` occurs after the closing quote" — never anything read from the path itself -/
theorem marker_line_handling (cfg : RecM.Cfg) (fs : Bytes → FileKind) (cwd input : Bytes) (pre hd path flags post : Bytes) (known : List Bytes) (hs : Nat)
    (hhd : ∀ b ∈ hd, b ≠ bQuote ∧ b ≠ bNl) (hpath : ∀ b ∈ path, b ≠ bQuote) (hpne : path ≠ []) (hflags : ∀ b ∈ flags, b ≠ bNl)
    (h31 : startsAt (pre ++ markerLine hd path flags ++ post) pre.length hash31 = false)
    (h32 : startsAt (pre ++ markerLine hd path flags ++ post) pre.length hash32 = false) :
    processLine cfg fs cwd input (pre ++ markerLine hd path flags ++ post) known pre.length hs =
      (let q := pre.length + hd.length + 1 + path.length
       match remember cfg fs cwd input known (normalizedText path) (flags.contains b3) with
       | .disable => .brk q (pre.length + hd.length + 1) false (pre ++ markerLine hd path flags ++ post) known
       | .ok none => .cont q q (pre ++ markerLine hd path flags ++ post) known
       | .ok (some p) => .cont q q (pre ++ markerLine hd path flags ++ post) (known ++ [p])) :=
  RecM.processLine_marker cfg fs cwd input pre hd path flags post known hs hhd hpath hpne hflags h31 h32

/-- a regular, old-enough, readable, not yet known user header is recorded -/
theorem remember_records (cfg : RecM.Cfg) (fs : Bytes → FileKind) (cwd input : Bytes) (known : List Bytes) (path : Bytes) (system : Bool)
    (hpseudo : ¬ (path.length ≥ 2 ∧ path.head? = some 60 ∧ path.getLast? = some 62))
    (hsys : ¬ (system = true ∧ cfg.skipSystemHeaders = true))
    (hknown : known.contains (fullPath cwd (stripDot path)) = false)
    (hinput : fullPath cwd (stripDot path) ≠ fullPath cwd input)
    (hslash : (stripDot path).getLast? ≠ some bSlash)
    (ht : Bool) (hfs : fs (fullPath cwd (stripDot path)) = .file false false ht)
    (htime : ht = false ∨ cfg.ignoreTimeMacros = true) :
    remember cfg fs cwd input known path system = .ok (some (fullPath cwd (stripDot path))) :=
  RecM.remember_records cfg fs cwd input known path system hpseudo hsys hknown hinput hslash ht hfs htime

/-- a path without `..` (and without a leading `.`) is recorded under exactly the spelling the preprocessor used -/
theorem normalizedText_plain (raw : Bytes) (h : ∀ c ∈ rustComps raw, c ≠ dotdot ∧ c ≠ [bDot]) : normalizedText raw = raw :=
  RecM.normalizedText_plain raw h

/-- F-C04-c (pinned code, kernel-checked witness): `../inc/a.h` lost its leading `..` and was recorded as `<cwd>/inc/a.h` … -/
theorem pinned_drops_leading_dotdot :
    normalizedTextWith normStepPinned (sb [46, 46, 47, 105, 110, 99, 47, 97, 46, 104]) = sb [105, 110, 99, 47, 97, 46, 104] :=
  RecM.pinned_drops_leading_dotdot
/-- … repaired in /repo (`fix:` commit ce87ea6): the spelling is kept -/
theorem fixed_keeps_leading_dotdot :
    normalizedText (sb [46, 46, 47, 105, 110, 99, 47, 97, 46, 104]) = sb [46, 46, 47, 105, 110, 99, 47, 97, 46, 104] :=
  RecM.fixed_keeps_leading_dotdot

/-- the three patterns and the overlap length of the finder model are the ones of util.rs **as it is now** (regenerated) -/
theorem finder_patterns_are_source_patterns :
    TM.patTimestamp = GenC.patTimestamp ∧ TM.patTime = GenC.patTime ∧ TM.patDate = GenC.patDate ∧ TM.maxHay = GenC.maxHaystackLen :=
  TM.patterns_match_source

/-- `entry_key_covers_result_key_env` (fix F-C04-e, over the **regenerated** lists): every environment variable that is part of the
    result key (`CACHED_ENV_VARS` of `c.rs`) is part of the preprocessor-cache entry key as well.  A hit in preprocessor-cache mode
    returns a result key that was computed for an earlier request; it is only sound if nothing that enters that key can differ.
    On the pinned tree `CCC_OVERRIDE_OPTIONS`, `SDKROOT` and the deployment targets were missing from the entry key: with direct mode on,
    a change of one of them was answered with the object of the old value.  (The include-path variables are in the entry key only —
    they act through the preprocessed text in the result key.) -/
theorem entry_key_covers_result_key_env : CK.cCachedEnv.all (fun v => CK.ppCachedEnv.contains v) = true := by decide +kernel

/-- the locale variables are in both lists (fix F-C01-n: diagnostics stored with a result depend on them) -/
theorem locale_variables_hashed :
    [[76, 65, 78, 71], [76, 67, 95, 65, 76, 76], [76, 67, 95, 67, 84, 89, 80, 69], [76, 67, 95, 77, 69, 83, 83, 65, 71, 69, 83]].all
      (fun v => CK.cCachedEnv.contains v && CK.ppCachedEnv.contains v) = true := by decide +kernel

end C04
