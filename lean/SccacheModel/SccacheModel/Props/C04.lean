import SccacheModel.Proofs.TimeMacro
import SccacheModel.Model.Manifest

/-! # C04 — preprocessor-cache (direct) mode never returns a result for changed inputs

Two cores carry the logic:
* `TM.Finder` (`Model/TimeMacro.lean`) — literal transcription of `util::TimeMacroFinder` (26-byte overlap buffer,
  small-read accumulator, full-chunk counter). Tie: `h_c04 finder` (real finder and real chunked digest on generated
  texts × generated read splits) + `modeld finder`.
* `ManifestM.resultMatches` (`Model/Manifest.lean`) — `PreprocessorCacheEntry::result_matches` with `add_result`'s
  recording rule. Tie: `h_c04 manifest` (real entry on real files whose contents, sizes and mtimes are edited) +
  `modeld manifest`. -/

namespace C04
open TM ManifestM

/-- `finder_sound`: for **every** way of splitting the bytes of a file into non-empty successive reads, each of
    `__TIMESTAMP__`, `__TIME__`, `__DATE__` that occurs in the file is reported — no chunk boundary hides a macro. -/
theorem finder_sound (chunks : List Bytes) (hne : ∀ c ∈ chunks, c ≠ []) :
    (patTimestamp <:+: chunks.flatten → (Finder.run chunks).foundTimestamp = true) ∧
    (patTime <:+: chunks.flatten → (Finder.run chunks).foundTime = true) ∧
    (patDate <:+: chunks.flatten → (Finder.run chunks).foundDate = true) :=
  ⟨fun h => TM.finder_sound chunks hne 0 ((hasInfix_iff _ _).mpr h),
   fun h => TM.finder_sound chunks hne 1 ((hasInfix_iff _ _).mpr h),
   fun h => TM.finder_sound chunks hne 2 ((hasInfix_iff _ _).mpr h)⟩

/-- non-vacuity: `__TIME__` split 3|2|3 across three short reads after a full chunk is found -/
example : (Finder.run [List.replicate 20 120, [95, 95, 84], [73, 77], [69, 95, 95]]).foundTime = true := by decide

/-- `manifest_hit_sound_partial`: for every option combination (stat matching, ctime use, ignoring time macros),
    every recorded include list (recorded at compile start `t0` from file system `fs0`) and every later file system
    in which each changed file carries a ctime ≥ `t0` (any history of writes, touches, deletions, re-creations under
    a monotone clock), a manifest hit implies that **every** recorded header still has its recorded contents.
    Partial: excludes headers holding time-macro text under the default handling (finding F-C04-b below). -/
theorem manifest_hit_sound_partial (cfg : Cfg) (t0 : Nat) (fs0 fs1 : FS)
    (hev : EvolvedSince t0 fs0 fs1)
    (incs : List Inc) (hrec : ∀ inc ∈ incs, ∃ f0, fs0 inc.path = some f0 ∧ inc = record t0 inc.path f0)
    (hntm : TimeMacroFree cfg fs1 incs)
    (hm : resultMatches cfg fs1 incs = true) :
    ∀ inc ∈ incs, ∃ f1, fs1 inc.path = some f1 ∧ f1.content = inc.digest :=
  ManifestM.manifest_hit_sound_partial cfg t0 fs0 fs1 hev incs hrec hntm hm

/-- a deleted header never yields a hit -/
theorem deleted_header_misses (cfg : Cfg) (fs : FS) (inc : Inc) (rest : List Inc) (h : fs inc.path = none) :
    resultMatches cfg fs (inc :: rest) = false := by simp [resultMatches, h]

/-- a size-changing edit of any recorded header never yields a hit, whatever the options -/
theorem size_change_misses (cfg : Cfg) (fs : FS) (pre : List Inc) (inc : Inc) (post : List Inc) (f : FileSt)
    (hf : fs inc.path = some f) (hs : f.size ≠ inc.size) : resultMatches cfg fs (pre ++ inc :: post) = false := by
  induction pre with
  | nil =>
    have : (f.size != inc.size) = true := by simpa using hs
    simp [resultMatches, hf, this]
  | cons p ps ih =>
    simp only [List.cons_append, resultMatches]
    split
    · rfl
    · split
      · rfl
      · split
        · exact ih
        · split
          · simp [ih]
          · split
            · rfl
            · split
              · rfl
              · exact ih

/-- F-C04-a, now repaired in /repo (`fix:` commit): with `ignore_time_macros` an edit of the *second* header is detected -/
theorem ignore_time_macros_second_header_detected :
    let cfg : Cfg := ⟨false, true, true⟩
    let fs1 : FS := fun p => if p = 0 then some ⟨10, 5, 1, 1, false, false, false⟩ else if p = 1 then some ⟨99, 5, 9, 9, false, false, false⟩ else none
    resultMatches cfg fs1 [⟨0, 10, 5, none, none⟩, ⟨1, 20, 5, none, none⟩] = false :=
  ManifestM.ignore_time_macros_second_header_detected

/-- F-C04-b (negative, kernel-checked): under the default handling a header containing `__DATE__` is never
    content-compared — a same-size edit still hits. This is the region `TimeMacroFree` excludes. -/
theorem date_header_witness :
    let cfg : Cfg := ⟨false, true, false⟩
    let fs1 : FS := fun p => if p = 0 then some ⟨77, 5, 1, 1, true, false, false⟩ else none
    resultMatches cfg fs1 [⟨0, 10, 5, none, none⟩] = true := ManifestM.date_header_witness

end C04
