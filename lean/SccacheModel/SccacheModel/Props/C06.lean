import SccacheModel.Proofs.Atomic
import SccacheModel.Proofs.AtomicProv

/-! # C06 — disk cache entries appear atomically and survive crashes intact

Model: `AtomicM` (`Model/Atomic.lean`): inode-level file system, the cache index, and *threads as program
counters* of the two-phase store (`prepare` under the lock, unlocked chunk writes, `commit` = rename under the
lock), lookups (open under the lock, read later through the descriptor), arbitrary evictions, aborts, a crash at
any point followed by the start-up scan.  Any number of threads, any interleaving, any number of steps.
Tie: `harness/src/bin/h_atomic.rs` (real `LruDiskCache`, real descriptors) + `modeld atomic`. -/

namespace C06
open AtomicM

/-- `get_complete`: in **every** interleaving, what a lookup (or any process that opens the key's path, C10)
    reads is the complete body of one store whose destination was that key — never partial, mixed or foreign. -/
theorem get_complete (acts : List Act) (a : Act) (tid : Nat) (c : Content) :
    let s := run Sys.init acts
    (step s a).2 = .hit tid c →
    ∃ k i, s.threads tid = .getReading k i ∧ c.key = k ∧ c.written = c.total :=
  AtomicM.get_complete acts a tid c

/-- `get_stored_value`: what a lookup returns is **byte-identical to a value that some store of the history was asked
    to put under exactly that key** (same key, same value identity, same length) and it is complete: never a foreign
    entry, never a mixture, never a prefix. -/
theorem get_stored_value (acts : List Act) (tid : Nat) (c : Content)
    (h : (step (run Sys.init acts) (.getRead tid)).2 = .hit tid c) :
    (∃ putter, Act.spawnPut putter c.key c.val c.total ∈ acts) ∧ c.written = c.total ∧
      ∃ i, (run Sys.init acts).threads tid = .getReading c.key i :=
  AtomicM.get_stored_value acts tid c h

/-- `crash_safe`: a crash after **any** prefix of any interleaving, followed by the start-up scan, leaves no
    temporary name, an index equal to the set of key files, and every key file complete and its own. -/
theorem crash_safe (acts : List Act) :
    let s := (step (run Sys.init acts) .crash).1
    (∀ t, s.names (.tmp t) = none) ∧
    (∀ k, s.idx k = (s.names (.key k)).isSome) ∧
    (∀ k i, s.names (.key k) = some i → (s.inodes i).key = k ∧ (s.inodes i).written = (s.inodes i).total) :=
  AtomicM.crash_safe acts

/-- the invariant behind both, exported: it holds in every reachable state -/
theorem invariant_reachable (acts : List Act) : AInv (run Sys.init acts) :=
  inv_run acts Sys.init ainv_init

/-- non-vacuity: a concrete interleaving of two stores to one key with a reader that opened in between really
    produces a hit (so `get_complete` speaks about something) -/
example : (match (step (run Sys.init demoActs) (.getRead 2)).2 with
           | .hit _ c => c.key == 7 && c.val == 100 && c.written == c.total | _ => false) = true := by decide

end C06
