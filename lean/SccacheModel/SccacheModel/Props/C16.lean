import SccacheModel.Model.Tokens

/-! # C16 — compiler processes are bounded by the job-token pool and tokens never leak

Model: `TokensM` (`Model/Tokens.lean`): `avail` tokens in the pipe, a FIFO queue of waiting oneshot senders (some
cancelled because their client went away), the requests that own an `Acquired`, and the live children; steps
`request`, `cancel`, `grant` (helper thread hands a token to the queue head; a cancelled head gives it straight back),
`spawnOk` / `spawnErr`, `exit`.  Any number of requests, any interleaving of the steps.
Tie: `h_tokens` (the real `jobserver::Client` with its helper thread, observed at quiescent points, cancellation by
dropping the pending future) + `modeld tokens`; system monitor `tools/sys_c16.py` (real server restricted to K CPUs,
enter/leave ledger of real compiler processes, failing compiles and killed clients, then a saturating burst). -/

namespace C16
open TokensM

/-- `token_bound`: in **every** reachable state the number of live compiler/preprocessor processes is at most the
    number of tokens created at start-up -/
theorem token_bound (n : Nat) (as : List TAct) : (trun (Pool.init n) as).running.length ≤ n := TokensM.token_bound n as

/-- tokens are conserved in every reachable state: in the pipe + owned by requests = N -/
theorem token_conservation (n : Nat) (as : List TAct) :
    (trun (Pool.init n) as).avail + (trun (Pool.init n) as).holding.length = (trun (Pool.init n) as).n :=
  (tinv_run as _ (tinv_init n)).cons

/-- `token_no_leak`: on every path — success, compiler failure, spawn failure, cancelled waiter — once nothing owns
    a token the pool is full again, so full parallelism can be reached again after any history -/
theorem token_no_leak (n : Nat) (as : List TAct) (hq : (trun (Pool.init n) as).holding = []) :
    (trun (Pool.init n) as).avail = (trun (Pool.init n) as).n := TokensM.token_no_leak n as hq

/-- `token_progress`: a token in the pipe and a live waiter at the head of the queue means the grant hands it to
    exactly that waiter (FIFO); a cancelled head never absorbs a token -/
theorem token_progress (p : Pool) (w : Waiter) (rest : List Waiter) (hq : p.queue = w :: rest)
    (ha : 0 < p.avail) (hc : w.cancelled = false) :
    (tstep p .grant).holding = w.id :: p.holding ∧ (tstep p .grant).queue = rest :=
  TokensM.token_progress p w rest hq ha hc

theorem cancelled_head_returns_token (p : Pool) (w : Waiter) (rest : List Waiter) (hq : p.queue = w :: rest)
    (ha : 0 < p.avail) (hc : w.cancelled = true) :
    (tstep p .grant).avail = p.avail ∧ (tstep p .grant).queue = rest ∧ (tstep p .grant).holding = p.holding := by
  simp only [tstep, hq]
  have : ¬ p.avail = 0 := by omega
  simp [this, hc]

/-- non-vacuity: three requests on two tokens, one cancelled while queued, a spawn failure and an exit -/
example : let p := trun (Pool.init 2) [.request, .request, .request, .grant, .grant, .cancel 2, .spawnOk 0, .spawnErr 1, .grant, .exit 0]
    p.avail = 2 ∧ p.holding = [] ∧ p.running = [] := by decide

end C16
