import SccacheModel.Model.ServerL1
import SccacheModel.Model.Spec
import SccacheModel.Proofs.LruReadOnly
import SccacheModel.Proofs.Config

/-! # C15 — read-only cache mode never adds, changes or removes entries

In read-only mode `DiskCache::put` and `put_preprocessor_cache_entry` refuse before touching the index, and the
server wraps the storage in `ReadOnlyStorage`; what remains is lookup (`get` = index lookup + touch + open) and the lazy
start-up scan.  L0: every store refused ⇒ the cache content never changes; L1: a refused store never changes a reply;
L2 (`Model/Lru.lean`): lookups never change the set of files; the start-up scan keeps every file **iff** the
directory is within its size limit (finding F-C15-a otherwise).
Configuration (`Model/Config.lean`, tied to the real `Config::load` by `h_config`): *when* the cache is read-only —
`config_read_only_from_env`, `config_read_only_from_file_partial`, the open finding `config_file_read_only_dropped_witness`.
Tie: `h_lru` (get / reopen steps), `h_l1` (store_ok = false rows), system harness `tools/sys_c15.py` (recursive
listing with content digests of a pre-populated cache before and after a request history under READ_ONLY). -/

namespace C15
open L0

/-- `readonly_unchanged`: with every store refused, **no** history of requests (hits, misses, failures, with or without
    lookup faults) and restarts changes the cache -/
theorem readonly_unchanged (cc : CC) (c : Cache) (es : List Ev)
    (hro : ∀ e ∈ es, match e with | .request _ _ sf => sf = true | .restart => True | _ => False) :
    erun cc c es = c := L0.readonly_unchanged cc c es hro

/-- existing entries are still served as hits, misses are compiled with the compiler's own result -/
theorem readonly_serves_and_compiles (cc : CC) (c : Cache) (hs : Sound cc c) (fp : Nat) (o : Obs)
    (h : (estep cc c (.request fp false true)).2 = some o) :
    o.reply = cc fp ∧ (o.ranCompiler = false ↔ (c fp).isSome) := by
  simp only [estep, Bool.false_eq_true, if_false] at h
  cases hc : c fp with
  | some r => simp only [hc] at h; cases h; exact ⟨(hs fp r hc).1, by simp⟩
  | none => simp only [hc] at h; cases h; exact ⟨rfl, by simp⟩

/-- a refused store never changes what the client gets -/
theorem store_outcome_irrelevant (i : L1.In) (b : Bool) : L1.decide1 { i with storeOk := b } = L1.decide1 i :=
  L1.store_outcome_irrelevant i b

/-- a lookup never changes which files exist (it only moves the key to the recent end and touches its times) -/
theorem get_keeps_files (c : LruM.Lru) (k : LruM.Key) : (c.get k).1.files = c.files := LruM.Lru.get_keeps_files c k

/-- `ro_entries_unchanged` (partial — needs the directory to fit): the start-up scan of a directory whose total size
    is within the limit keeps every file -/
theorem reopen_keeps_files_partial (c : LruM.Lru) (order : List (LruM.Key × Nat)) (hfit : (order.map (·.2)).sum ≤ c.cap) :
    (c.reopen order).files = order := LruM.Lru.reopen_keeps_files c order hfit

/-- the read-write start-up scan evicts a pre-populated directory larger than `SCCACHE_CACHE_SIZE` (intended); before fix a5fe656 a
    read-only cache was opened the same way (F-C15-a) -/
theorem reopen_evicts_witness : (({ cap := 15 } : LruM.Lru).reopen [(1, 10), (2, 10)]).files = [(2, 10)] :=
  LruM.Lru.reopen_evicts_witness

/-- `ro_entries_unchanged` at full strength (fix a5fe656): a read-only cache is opened without a size limit, so its start-up scan and
    **every** sequence of lookups after it leave exactly the files that were there — for every configured size, also one smaller than
    the directory.  (`h64`: the directory holds fewer than 2^64 bytes.) -/
theorem readonly_session_keeps_files (c : LruM.Lru) (order : List (LruM.Key × Nat)) (ks : List LruM.Key)
    (h64 : (order.map (·.2)).sum ≤ LruM.Lru.u64Max) :
    (ks.foldl (fun acc k => (acc.get k).1) (c.openReadOnly order)).files = order :=
  LruM.Lru.readOnly_session_keeps_files c order ks h64

/-- F-C15-a fixed witness: the directory of `reopen_evicts_witness`, opened read-only with the same configured size -/
theorem readonly_open_fixed_witness : ((({ cap := 15 } : LruM.Lru).openReadOnly [(1, 10), (2, 10)]).files) = [(1, 10), (2, 10)] :=
  LruM.Lru.openReadOnly_keeps_files _ _ (by decide)

/-! ## when is the cache configured read-only (`ConfigM`, the real `Config::load`) -/
open ConfigM in
/-- `SCCACHE_LOCAL_RW_MODE=READ_ONLY` makes the loaded configuration read-only (and the server wrap its storage in
    `ReadOnlyStorage`) for **every** value of the other variables and **every** `[cache.disk]` section of the file -/
theorem config_read_only_from_env (e : Env) (f : Option FileDisk) (d : Disk) (hl : load e f = .ok d)
    (hr : e.rw = some sReadOnly) : servesReadOnly d = true := by
  have := ConfigM.env_rw_effective e f d hl (Or.inl hr)
  simp [servesReadOnly, this, hr]

open ConfigM in
/-- … and `READ_WRITE` in the environment overrides a read-only file -/
theorem config_read_write_from_env (e : Env) (f : Option FileDisk) (d : Disk) (hl : load e f = .ok d)
    (hr : e.rw = some sReadWrite) : servesReadOnly d = false := by
  have := ConfigM.env_rw_effective e f d hl (Or.inr hr)
  have hne : e.rw ≠ some sReadOnly := by rw [hr]; intro h; injection h with h; exact ConfigM.rw_ne h
  simp [servesReadOnly, this, hne]

open ConfigM in
/-- `rw_mode = "READ_ONLY"` in the file is effective **provided no disk-cache variable counts as set** (partial: see the
    witness below for what happens otherwise) -/
theorem config_read_only_from_file_partial (e : Env) (f : FileDisk) (hf : f.rw = some .readOnly)
    (h1 : e.dir = none) (h2 : sizeOpt (envSize e) = none) (h2' : envSize e ≠ .overflow) (h3 : boolFromEnv e.direct = .ok none)
    (h4 : ¬ (e.rw = some sReadOnly ∨ e.rw = some sReadWrite)) :
    ∃ d, load e (some f) = .ok d ∧ servesReadOnly d = true := by
  have hn := (ConfigM.envDisk_none_iff e).mpr ⟨h1, h2, h2', h3, h4⟩
  refine ⟨fileDisk f, ?_, ?_⟩
  · rw [ConfigM.load_env_none e (some f) hn]; rfl
  · simp [servesReadOnly, fileDisk, hf]

open ConfigM in
/-- F-C15-b (negative, kernel-checked, open): the environment section replaces the file's `[cache.disk]` **as a whole**.
    With `rw_mode = "READ_ONLY"` in the file and only `SCCACHE_DIR` (or `SCCACHE_CACHE_SIZE`, `SCCACHE_DIRECT`) in the
    environment the cache is read-write — and the file's size and preprocessor-mode options are gone too. -/
theorem config_file_read_only_dropped_witness :
    let e : Env := { dir := some [47, 99] }
    let f : FileDisk := { size := some 5, rw := some .readOnly, pp := some { use := some false } }
    load e (some f) = .ok ⟨some [47, 99], tenGigs, PP.activated, .readWrite⟩ := by decide

open ConfigM in
/-- a mis-spelt mode (`read_only`) is not an override: the file's (or the default) mode stays -/
theorem config_invalid_mode_is_ignored :
    load { rw := some [114, 111] } none = .ok Disk.dflt ∧
    load { rw := some [114, 111] } (some { rw := some .readOnly }) = .ok { Disk.dflt with rw := .readOnly } := by decide

/-- non-vacuity of `config_read_only_from_file_partial` -/
example : ConfigM.sizeOpt (ConfigM.envSize {}) = none ∧ ConfigM.boolFromEnv ({} : ConfigM.Env).direct = .ok none := ⟨rfl, rfl⟩

/-- the configuration model reads the accepted words, the defaults and the suffix table from config.rs / cache.rs **as they are
    now** (regenerated); in particular the cache is read-write by default and `READ_ONLY` is the only word that changes that -/
theorem config_words_are_source_words :
    ConfigM.sReadOnly = GenC.rwReadOnlyWord ∧ ConfigM.sReadWrite = GenC.rwReadWriteWord ∧ ConfigM.Disk.dflt.rw = .readWrite ∧
    GenC.anyOverriddenTerms = 4 := ⟨rfl, rfl, rfl, rfl⟩

end C15
