import SccacheModel.Proofs.Entry

/-! # C08 — the cache entry encoding round-trips exactly and detects corruption

Model: `EntryM.archive` (`Model/Entry.lean`) = the bytes `CacheWrite` emits through `zip 0.6.6` (Stored members
holding zstd frames, unix mode in the external attributes, fixed DOS time, central directory, end record);
`EntryM.openArchive` / `getStored` (`Model/EntryRead.lean`) = what `CacheRead::from` / `get_object` do before zstd
decoding (end-record search from the end, ZIP64-locator probe, central directory, `by_name`, local header skip,
`take(compressed_size)`, CRC-32 check).  zstd is a parameter `(enc, dec)`.
Tie: `h_entry` — writer byte-exact, reader on every truncation and on substitutions at every position of small entries. -/

namespace C08
open EntryM

/-- `roundtrip`: for **every** list of members with distinct valid-UTF-8 names shorter than 2^16, any stored bytes
    (archive below 4 GiB), any mode, written archives open, every member comes back with exactly its stored bytes and
    the nine permission bits of its mode, and no other name resolves. -/
theorem roundtrip (ms : List Member) (h : WF ms) :
    ∃ a, openArchive (archive ms) = some a ∧
      (∀ m ∈ ms, getStored a m.name = some (m.frame, some (permsOf m))) ∧
      (∀ nm, nm ∉ ms.map (·.name) → getStored a nm = none) := EntryM.roundtrip ms h

/-- the same with the codec made explicit: whatever contents are compressed by any `enc` with a left inverse `dec`
    (zstd), unpacking and decoding yields byte-identical contents — files, stdout and stderr alike. -/
theorem codec_roundtrip (enc : Bytes → Bytes) (dec : Bytes → Option Bytes) (hcodec : ∀ x, dec (enc x) = some x)
    (objs : List (Bytes × Option Nat × Bytes))
    (h : WF (objs.map fun o => ({ name := o.1, mode := o.2.1, frame := enc o.2.2 } : Member))) :
    ∃ a, openArchive (archive (objs.map fun o => ({ name := o.1, mode := o.2.1, frame := enc o.2.2 } : Member))) = some a ∧
      ∀ o ∈ objs, ((getStored a o.1).bind fun r => dec r.1) = some o.2.2 := by
  obtain ⟨a, ha, hall, _⟩ := EntryM.roundtrip _ h
  refine ⟨a, ha, ?_⟩
  intro o ho
  have := hall { name := o.1, mode := o.2.1, frame := enc o.2.2 } (List.mem_map.mpr ⟨o, ho, rfl⟩)
  simp only at this
  rw [this]
  simp [hcodec]

/-- `crc_single_byte`: substituting one byte anywhere in any byte string changes its CRC-32 -/
theorem crc_single_byte (pre suf : List UInt8) (a b : UInt8) (hab : a ≠ b) :
    crcBV (pre ++ [a] ++ suf) ≠ crcBV (pre ++ [b] ++ suf) := EntryM.crc_single_byte pre suf a b hab

/-- `payload_substitution_detected`: in the archive of **any** well-formed entry, replacing **any** one byte inside
    **any** member's stored bytes by a different value leaves an archive from which that member can no longer be read
    (so the request becomes a miss) — it never silently yields different contents. -/
theorem payload_substitution_detected (ms : List Member) (h : WF ms) (m : Member) (off : Nat)
    (hp : (m, off) ∈ layout 0 ms) (i : Nat) (hi : i < m.frame.length) (b : UInt8) (hb : b ≠ m.frame[i]) :
    ∃ a, openArchive ((archive ms).set (off + (localHeader m).length + i) b) = some a ∧
      getStored a m.name = none := EntryM.payload_substitution_detected ms h m off hp i hi b hb

/-- F-C08-a (negative, kernel-checked): a last member whose name carries the ZIP64 locator signature 42 bytes before
    the end of the archive makes an *intact* entry unreadable (permanent miss; never wrong contents). This is the
    region `WF.no_zip64_sig` excludes. -/
theorem zip64_name_witness : openArchive (archive [exObj, exZip64Name]) = none ∧
    sigAt (archive [exObj, exZip64Name]) ((archive [exObj, exZip64Name]).length - 42) [80, 75, 6, 7] = true :=
  EntryM.zip64_name_witness

/-- non-vacuity: an ordinary entry (an object file with mode 0755 and a stderr stream) satisfies `WF` -/
example : WF [exObj, exErr] := ⟨by decide, by decide, by decide, by decide, by decide +kernel, by decide +kernel⟩

end C08
