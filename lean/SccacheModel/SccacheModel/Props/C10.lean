import SccacheModel.Proofs.Atomic

/-! # C10 — outputs restored from the cache replace existing files atomically

`CacheRead::extract_objects` installs each output by the same discipline as the disk cache's two-phase store:
a temporary file **in the destination directory**, chunk writes into it, then `rename` over the output path on
success — or the temporary file is dropped when the member cannot be decoded, and extraction stops (non-optional
member) or continues (optional member).  So one extraction of one output *is* a `put` thread of `Model/Atomic.lean`
whose key is the output path (`putPrepare`, `putWrite`*, `putCommit` | `putAbort`), and a process that opens the
output path at any moment is an `extOpen` reader.  The theorems below are the Atomic invariant read for that case;
any number of concurrent extractions (two hits restoring the same path) and readers, any interleaving.
Tie: `h_extract` (the real `extract_objects` over existing outputs with descriptors opened beforehand, hard links,
corrupt and missing later members) emitting these actions + `modeld atomic`. -/

namespace C10
open AtomicM

/-- `reader_sees_whole`: in **every** interleaving of extraction steps with reader steps, a process that opened an
    output path — before the hit or at any moment during it — and reads the file in full gets the complete contents
    of exactly one version written for that path: the complete previous file or the complete new one, never a
    truncated or partially written one. -/
theorem reader_sees_whole (acts : List Act) (tid : Nat) (c : Content) :
    let s := run Sys.init acts
    (step s (.getRead tid)).2 = .hit tid c →
    ∃ k i, s.threads tid = .getReading k i ∧ c.key = k ∧ c.written = c.total :=
  AtomicM.get_complete acts (.getRead tid) tid c

/-- in every reachable state every output path holds a complete file of its own (never partial data) -/
theorem outputs_always_complete (acts : List Act) (k i : Nat) (h : (run Sys.init acts).names (.key k) = some i) :
    ((run Sys.init acts).inodes i).key = k ∧ ((run Sys.init acts).inodes i).written = ((run Sys.init acts).inodes i).total :=
  ((inv_run acts Sys.init ainv_init).bound k i h).2

/-- `partial_failure_clean`: when restoring a member fails part-way (the thread is still writing its temporary
    file), dropping it leaves **every** output path bound to exactly what it was bound to, and the temporary name is gone -/
theorem partial_failure_clean (s : Sys) (tid k v t i total : Nat) (h : s.threads tid = .putWriting k v t i total) :
    (∀ k', (putAbort s tid).1.names (.key k') = s.names (.key k')) ∧ (putAbort s tid).1.names (.tmp t) = none := by
  simp only [putAbort, h]
  refine ⟨fun k' => ?_, ?_⟩ <;> simp [upd]

/-- an existing file is never written through: the inode bound to an output path before a successful restore keeps
    its contents (a reader holding it, or a hard link to it, keeps the old bytes) -/
theorem old_inode_untouched (s : Sys) (tid : Nat) (j : Nat) (hinv : AInv s) (k i : Nat) (hb : s.names (.key k) = some i)
    (hj : j = i) : ((putCommit s tid).1.inodes j) = s.inodes j := by
  subst hj
  simp only [putCommit]
  split
  · split <;> rfl
  · rfl

/-- non-vacuity: the demo schedule of `Proofs/Atomic.lean` read as C10 — a reader that opened the path before the
    second restore committed still reads the complete first version -/
example : (match (step (run Sys.init demoActs) (.getRead 2)).2 with
           | .hit _ c => c.val == 100 && c.written == c.total | _ => false) = true := by decide

end C10
