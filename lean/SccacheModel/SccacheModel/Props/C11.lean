import SccacheModel.Model.Client
import SccacheModel.Proofs.FrameCodec
import SccacheModel.Proofs.Frame

/-! # C11 — losing the server mid-request degrades to a correct local compile

Model: `ClientM.clientDecide` (`Model/Client.lean`) = `commands.rs::handle_compile_response` as a total function of
(first response ∈ {CompileStarted, UnhandledCompile, UnsupportedCompiler, other, io-error}, second read ∈
{CompileFinished(retcode, signal), other response, EOF in header or body, other error}, SCCACHE_IGNORE_SERVER_IO_ERROR)
→ {deliver the server's result, compile locally, sccache error}.  Every way a server can be lost reduces to one symbol.
Tie: `tools/sys_c11.py` — the **real client binary** against a scripted fake server over the whole alphabet + `modeld
client`; the real server SIGKILLed during detection / preprocessing / compilation; garbage and oversized frames on one
connection while another compiles. -/

namespace C11
open ClientM

/-- `exit0_only_if_true_result`: over the whole alphabet, the client delivers exit status 0 *from the server* only
    when a live server sent `CompileFinished` with retcode 0; every other path is a local compile (whose status is the
    compiler's own) or an sccache error -/
theorem exit0_only_if_true_result (ig : Bool) (f : First) (s : Second) :
    clientDecide ig f s = .deliver 0 → f = .compileStarted ∧ ∃ sg, s = .finished (some 0) sg :=
  ClientM.exit0_only_if_true_result ig f s

/-- `ack_then_eof_local`: after the acknowledgement, a connection that ends (server exited or was killed) always
    degrades to running the original command locally -/
theorem ack_then_eof_local (ig : Bool) : clientDecide ig .compileStarted .eof = .localCompile := rfl

/-- `lost_before_ack`: a server lost before the acknowledgement is an sccache error, never a silent success -/
theorem lost_before_ack (ig : Bool) (s : Second) : clientDecide ig .ioError s = .sccacheError := rfl

/-- totality of the three outcomes: whatever is read, the client delivers a server result, compiles locally, or
    reports an sccache error — and it never *delivers* anything unless a `CompileFinished` frame was read -/
theorem deliver_only_after_finished (ig : Bool) (f : First) (s : Second) (e : Int) (h : clientDecide ig f s = .deliver e) :
    f = .compileStarted ∧ ∃ rc sg, s = .finished rc sg := by
  cases f <;> cases s <;> simp_all [clientDecide]
  split at h <;> simp_all

/-- with SCCACHE_IGNORE_SERVER_IO_ERROR=1 every lost connection after the acknowledgement is a local compile -/
theorem ignore_io_error_always_local (s : Second) (h : s = .eof ∨ s = .otherError) :
    clientDecide true .compileStarted s = .localCompile := by
  rcases h with rfl | rfl <;> rfl


/-! ## the server's side of the wire (`Model/Frame.lean`): frames, `Request` decoding, one connection -/

section Wire
open FrameM

/-- `request_round_trip`: whatever request the client encodes (every length below 2^64), the server decodes exactly that
    request from the frame body, whatever bytes follow it -/
theorem request_round_trip (r : Req) (h : WfReq r) (tail : Bytes) : decReq (encReq r ++ tail) = some r :=
  FrameM.decReq_encReq r h tail

/-- `reads_do_not_matter`: two ways of cutting the same byte stream into reads give the same requests handed to the
    service, the same end of the connection and the same leftover bytes — for every byte stream, valid or not -/
theorem reads_do_not_matter (c : Conn) (x y : Bytes) (xs ys : List Bytes) (h : (x :: xs).flatten = (y :: ys).flatten) :
    feedAll c (x :: xs) = feedAll c (y :: ys) := FrameM.split_invariant c x y xs ys h

/-- `malformed_ends_only_its_connection`: a server is a family of connections; feeding any bytes to one of them leaves the
    state of every other connection as it was (the model has no shared decoder state — the tie `h_frames` checks the real
    server against it with a witness connection) -/
theorem malformed_ends_only_its_connection (conns : Nat → Conn) (i j : Nat) (chunk : Bytes) (h : i ≠ j) :
    (fun k => if k = i then (feed (conns i) chunk).1 else conns k) j = conns j := by
  simp [Ne.symm h]

/-- an announced length above the limit ends the connection at once; nothing sent afterwards on it is looked at -/
theorem oversized_frame_ends_connection (mf n : Nat) (head rest later : Bytes) (hh : head.length = 4) (hn : beVal head = n) (hbig : mf < n) :
    (feed (Conn.init mf) (head ++ rest)).2 = [.closed] ∧
    feed (feed (Conn.init mf) (head ++ rest)).1 later = ((feed (Conn.init mf) (head ++ rest)).1, []) := by
  have h := FrameM.oversized_frame_closes mf n head rest hh hn hbig
  exact ⟨h.1, FrameM.dead_ignores _ h.2 later⟩

/-- non-vacuity: `GetStats` then `ZeroStats` in two frames, delivered one byte at a time or at once; a frame whose body is not a
    request ends the connection after the requests before it -/
example : (feedAll (Conn.init 100) [[0, 0, 0, 4, 1, 0], [0, 0], [0, 0, 0, 4, 0, 0, 0, 0]]).2 = [.request .getStats, .request .zeroStats] := by decide
example : (feed (Conn.init 100) [0, 0, 0, 4, 1, 0, 0, 0, 0, 0, 0, 2, 9, 9, 0, 0, 0, 4, 0, 0, 0, 0]).2 = [.request .getStats, .closed] := by decide

end Wire

end C11
