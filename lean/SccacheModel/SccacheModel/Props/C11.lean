import SccacheModel.Model.Client

/-! # C11 — losing the server mid-request degrades to a correct local compile

Model: `ClientM.clientDecide` (`Model/Client.lean`) = `commands.rs::handle_compile_response` as a total function of
(first response ∈ {CompileStarted, UnhandledCompile, UnsupportedCompiler, other, io-error}, second read ∈
{CompileFinished(retcode, signal), other response, EOF in header or body, other error}, SCCACHE_IGNORE_SERVER_IO_ERROR)
→ {deliver the server's result, compile locally, sccache error}.  Every way a server can be lost reduces to one symbol.
Tie: `tools/sys_c11.py` — the **real client binary** against a scripted fake server over the whole alphabet + `modeld
client`; the real server SIGKILLed during detection / preprocessing / compilation; garbage and oversized frames on one
connection while another compiles. -/

namespace C11
open ClientM

/-- `exit0_only_if_true_result`: over the whole alphabet, the client delivers exit status 0 *from the server* only
    when a live server sent `CompileFinished` with retcode 0; every other path is a local compile (whose status is the
    compiler's own) or an sccache error -/
theorem exit0_only_if_true_result (ig : Bool) (f : First) (s : Second) :
    clientDecide ig f s = .deliver 0 → f = .compileStarted ∧ ∃ sg, s = .finished (some 0) sg :=
  ClientM.exit0_only_if_true_result ig f s

/-- `ack_then_eof_local`: after the acknowledgement, a connection that ends (server exited or was killed) always
    degrades to running the original command locally -/
theorem ack_then_eof_local (ig : Bool) : clientDecide ig .compileStarted .eof = .localCompile := rfl

/-- `lost_before_ack`: a server lost before the acknowledgement is an sccache error, never a silent success -/
theorem lost_before_ack (ig : Bool) (s : Second) : clientDecide ig .ioError s = .sccacheError := rfl

/-- totality of the three outcomes: whatever is read, the client delivers a server result, compiles locally, or
    reports an sccache error — and it never *delivers* anything unless a `CompileFinished` frame was read -/
theorem deliver_only_after_finished (ig : Bool) (f : First) (s : Second) (e : Int) (h : clientDecide ig f s = .deliver e) :
    f = .compileStarted ∧ ∃ rc sg, s = .finished rc sg := by
  cases f <;> cases s <;> simp_all [clientDecide]
  split at h <;> simp_all

/-- with SCCACHE_IGNORE_SERVER_IO_ERROR=1 every lost connection after the acknowledgement is a local compile -/
theorem ignore_io_error_always_local (s : Second) (h : s = .eof ∨ s = .otherError) :
    clientDecide true .compileStarted s = .localCompile := by
  rcases h with rfl | rfl <;> rfl

end C11
