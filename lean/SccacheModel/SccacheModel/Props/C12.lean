import SccacheModel.Model.Memo
import SccacheModel.Props.C02

/-! # C12 — replacing the compiler binary invalidates its results without a restart

Model: `MemoM` (`Model/Memo.lean`): the server's per-path memo of compiler detection, `(digest, mtime)`, reused iff
the mtime of the file now at the path equals the memoised one, else re-detected and re-digested
(`SccacheService::compiler_info`).  Tie: `h_memo` (the real `compiler_info` + `get_cached_or_compile` with a
key-logging `Storage`, swap histories over contents × mtimes) + `modeld memo`; system monitor: swap histories (copy
with a fresh mtime, symlink retargeting) against a real server, each request compared with a direct run of the
compiler then at the path. -/

namespace C12
open MemoM

/-- `memo_fresh`: for **every** history of binaries installed at the path in which binaries with equal mtime have
    equal contents (the statement's "different contents and modification time"), the digest used for each request
    is the digest of the binary then at the path. -/
theorem memo_fresh (bs : List Bin) (h : MtimeDeterminesContent bs) : digestsUsed none bs = bs.map (·.content) :=
  MemoM.memo_fresh bs h

/-- with C02: two requests that differ in the compiler digest never share a key (modulo an explicit hash collision),
    so nothing produced by one binary is returned for another, whatever their path or name -/
theorem different_binaries_different_keys (H : CK.Bytes → CK.Bytes) (r₁ r₂ : CK.CReq) (w₁ : CK.WF r₁) (w₂ : CK.WF r₂)
    (e₁ : C02.NoTagExtension r₁) (e₂ : C02.NoTagExtension r₂) (hd : r₁.digest ≠ r₂.digest) :
    C02.key H r₁ ≠ C02.key H r₂ ∨ C02.Collision H (CK.encHash r₁) (CK.encHash r₂) := by
  by_cases hk : C02.key H r₁ = C02.key H r₂
  · rcases C02.key_sound H r₁ r₂ w₁ w₂ e₁ e₂ hk with h | h
    · exact absurd h.digest hd
    · exact Or.inr h
  · exact Or.inl hk

/-- outside the hypothesis (negative, kernel-checked, recorded — not a violation of the statement): a replacement
    that restores an earlier mtime with new contents defeats the memo -/
theorem memo_stale_witness : digestsUsed none [⟨1, 10⟩, ⟨2, 10⟩] = [1, 1] := MemoM.memo_stale_witness

/-- non-vacuity of `memo_fresh`: swap, swap back, touch -/
example : MtimeDeterminesContent [⟨1, 10⟩, ⟨2, 20⟩, ⟨1, 10⟩, ⟨1, 30⟩] ∧ digestsUsed none [⟨1, 10⟩, ⟨2, 20⟩, ⟨1, 10⟩, ⟨1, 30⟩] = [1, 2, 1, 1] := by
  refine ⟨?_, by decide⟩
  intro a ha b hb hm
  simp at ha hb
  rcases ha with rfl | rfl | rfl | rfl <;> rcases hb with rfl | rfl | rfl | rfl <;> simp_all

/-- `names_never_share_an_entry`: the in-memory compiler map is keyed so that two requests using one entry were made under the same
    file name: driver names that are links to one binary (`gcc` / `g++`, `clang` / `clang++`) never inherit each other's detected
    compiler, for every file system (`nameOf`, canonical paths arbitrary) -/
theorem names_never_share_an_entry (nameOf : Nat → Nat) (r₁ r₂ : MemoM.Req) (h : MemoM.memoKey nameOf r₁ = MemoM.memoKey nameOf r₂) :
    nameOf r₁.self = nameOf r₂.self := MemoM.names_never_share_an_entry nameOf r₁ r₂ h

/-- the rule "always canonicalize" (seeded change S-C01-3) makes `gcc` and `g++` share an entry; the real rule keeps them apart -/
theorem always_canonicalize_collapses_witness :
    let nameOf : Nat → Nat := fun p => if p = 1 then 10 else if p = 2 then 20 else 30
    (⟨1, 3⟩ : MemoM.Req).canon = (⟨2, 3⟩ : MemoM.Req).canon ∧ MemoM.memoKey nameOf ⟨1, 3⟩ = 1 ∧ MemoM.memoKey nameOf ⟨2, 3⟩ = 2 :=
  MemoM.always_canonicalize_collapses_witness

end C12
