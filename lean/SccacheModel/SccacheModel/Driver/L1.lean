import SccacheModel.Model.ServerL1

namespace DrvL1
open L1

/-! diff of `decide1` against the trace of the real `get_cached_or_compile` (probe alphabet → model alphabet) -/
def field (l : String) (k : String) : String :=
  match (l.splitOn (k ++ "=")) with
  | _ :: r :: _ => ((r.splitOn " ").headD "")
  | _ => ""
partial def loop (h : IO.FS.Stream) (n bad : Nat) : IO (Nat × Nat) := do
  let line ← h.getLine
  if line.isEmpty then return (n, bad)
  let l := (line.dropEnd 1).toString
  let pre := field l "prestored" == "true"
  let control : Control := match field l "control" with
    | "Default" => .default | "ForceRecache" => .forceRecache | _ => .forceNoCache
  let (lookup, extract) : Lookup × Extract := match field l "lookup" with
    | "Inner" => if pre then (.hit, .ok) else (.miss, .ok)
    | "Miss" => (.miss, .ok)
    | "Err" => (.err, .ok)
    | _ => (.hit, .decompressionFailure)
  let compile : Compile := if field l "compile_ok" == "true" then .success else .failure
  let storeOk := field l "store_ok" == "true"
  let hash : HashRes := if field l "pp_ok" == "false" then .processError else .ok
  let o := decide1 ⟨hash, control, lookup, extract, compile, true, true, storeOk⟩
  let res := ((l.splitOn "| ").getD 1 "")
  let realReply : Option Reply :=
    if res.startsWith "Error ok=false" then some .preprocessorFailed
    else if res.startsWith "CacheHit" then some .cachedResult
    else if res.startsWith "CacheMiss" || res.startsWith "NotCached" || res.startsWith "NotCacheable" then some (.compilerResult true)
    else if res.startsWith "CompileFailed" then some (.compilerResult false)
    else if res.startsWith "Err(" && (res.splitOn "error: expected expression").length > 1 then some (.compilerResult false)  -- ProcessError carrying the compiler's stderr
    else if res.startsWith "Err(" then some .fatal
    else none
  let ran := field l "ran" != "0"
  let puts := field l "puts" != "0"
  -- the store future's own result must follow store_ok and nothing else
  let storeRes := if (res.splitOn "store=").length > 1 then some (field res "store" |>.takeWhile (· != ')') |>.toString) else none
  let storeAgrees := match storeRes with | some v => (v == "true") == storeOk | none => true
  if realReply != some o.reply || ran != o.ranCompiler || puts != o.storeIssued || !storeAgrees then
    IO.println s!"MISMATCH {n}: {l}\n  model: {repr o}"
    loop h (n + 1) (bad + 1)
  else loop h (n + 1) bad
def main : IO Unit := do
  let (n, bad) ← loop (← IO.getStdin) 0 0
  IO.println s!"cases: {n} mismatches: {bad}"

end DrvL1
