import SccacheModel.Model.AtFile

namespace DrvAtFile
open AtFileM

/-! `modeld atfile`: replays the traces of `h_atfile`.  `new` starts a file system; `F <name> <content>` adds a file, `D <name>` a
    directory (hex, `e` = empty); `R <budget> <args> | <what the real ExpandIncludeFile produced> | <what c++filt printed, or ERR>`:
    the first is compared with `sccExpand`, the second with `gccExpand` (one argument per line, as c++filt prints them). -/

def hexVal (c : Char) : Nat := if c.isDigit then c.toNat - '0'.toNat else c.toNat - 'a'.toNat + 10
def unhex (s : String) : Bytes :=
  if s == "e" || s == "-" then [] else
  let rec go : List Char → Bytes
    | a :: b :: r => UInt8.ofNat (hexVal a * 16 + hexVal b) :: go r
    | _ => []
  go s.toList
def hexDigit (n : Nat) : Char := if n < 10 then Char.ofNat (48 + n) else Char.ofNat (87 + n)
def hex (b : Bytes) : String :=
  if b.isEmpty then "e" else String.ofList (b.flatMap fun x => [hexDigit (x.toNat / 16), hexDigit (x.toNat % 16)])
def unlist (s : String) : List Bytes := if s == "-" then [] else (s.splitOn ",").map unhex
def relist (l : List Bytes) : String := if l.isEmpty then "-" else ",".intercalate (l.map hex)

/-- the generated directory as a file system: a name with trailing slashes names a directory (`d/` is `d`; `file/` does not exist) -/
def lookup (files : List (Bytes × Entry)) : Fs := fun n =>
  let stripped := (n.reverse.dropWhile (· == 47)).reverse
  let slash := stripped.length < n.length && !stripped.isEmpty
  match files.find? (·.1 == (if slash then stripped else n)) with
  | some (_, .dir) => .dir
  | some (_, e) => if slash then .missing else e
  | none => .missing

partial def loop (h : IO.FS.Stream) (files : List (Bytes × Entry)) (n bad : Nat) : IO Nat := do
  let line ← h.getLine
  if line.isEmpty then return bad
  let l := line.trimAscii.toString
  match (l.splitOn " ").filter (· ≠ "") with
  | ["new"] => loop h [] (n + 1) bad
  | ["F", name, c] => loop h ((unhex name, .file (unhex c)) :: files) (n + 1) bad
  | ["D", name] => loop h ((unhex name, .dir) :: files) (n + 1) bad
  | ["R", b, args, "|", scc, "|", gcc] =>
    let fs := lookup files
    let ms := relist (sccExpand fs b.toNat! (unlist args))
    let mg := match gccExpand fs b.toNat! (unlist args) with
      | none => "ERR"
      | some l => "O:" ++ hex (l.flatMap (· ++ [10]))
    let mut bad' := bad
    if ms ≠ scc then
      IO.println s!"MISMATCH line {n}: sccache side: {l}\n   model: {ms}"
      bad' := bad' + 1
    if gcc ≠ "?" && mg ≠ gcc then
      IO.println s!"MISMATCH line {n}: reference side (libiberty): {l}\n   model: {mg}"
      bad' := bad' + 1
    loop h files (n + 1) bad'
  | [] => loop h files (n + 1) bad
  | _ => IO.println s!"MISMATCH line {n}: bad-op {l}"; loop h files (n + 1) (bad + 1)

def main : IO Unit := do
  let bad ← loop (← IO.getStdin) [] 0 0
  IO.println s!"mismatches: {bad}"

end DrvAtFile
