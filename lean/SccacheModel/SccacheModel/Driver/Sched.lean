import SccacheModel.Model.Sched

namespace DrvSched
open SchedM

open Sched

def stOf : String → JState
  | "pending" => .pending | "ready" => .ready | "started" => .started | _ => .complete
def stStr : JState → String
  | .pending => "pending" | .ready => "ready" | .started => "started" | .complete => "complete"
def resStr : SRes → String
  | .ok => "ok" | .err => "err" | .panic => "panic" | .fail => "fail"

def sortNat (l : List Nat) : List Nat := (l.toArray.qsort (· < ·)).toList
def listStr (l : List Nat) : String := "[" ++ ",".intercalate ((sortNat l).map toString) ++ "]"

def dump (c : Sched) : String :=
  if c.poisoned then "poisoned" else
  let js := (c.jobs.map fun j => s!"{j.id}:{j.server}:{stStr j.state}").toArray.qsort (· < ·) |>.toList
  let ss := (c.servers.toArray.qsort (fun a b => a.id < b.id)).toList.map fun v =>
    s!"{v.id}:{v.cpus}:{v.nonce}:{if v.lastErr.isSome then "e" else "-"}:a{listStr v.assigned}:u{listStr v.unclaimed}"
  s!"jobs=[{",".intercalate js}]servers=[{";".intercalate ss}]"

def stepLine (c : Sched) (toks : List String) : Sched × String :=
  match toks with
  | ["hb", s, n, cp] => let (c', r, isNew) := c.heartbeat s.toNat! n.toNat! cp.toNat!
                        (c', s!"{resStr r} {if r == .ok then (if isNew then "new" else "old") else "-"}")
  | ["choose", "none"] => let (c', r, _) := c.allocChoose none; (c', s!"{resStr r} -")
  | ["choose", s] => let (c', r, j) := c.allocChoose (some s.toNat!)
                     (c', s!"{resStr r} {match j with | some j => toString j | none => "-"}")
  | ["record", j, s, st] => let (c', r) := c.allocRecordFixed j.toNat! s.toNat! (stOf st); (c', resStr r)
  | ["afail", j, s] => let (c', r) := c.allocFail j.toNat! s.toNat!; (c', resStr r)
  | ["upd", j, s, st] => let (c', r) := c.update j.toNat! s.toNat! (stOf st); (c', resStr r)
  | ["status"] => let (a, b, d) := c.status; (c, s!"{a} {b} {d}")
  | _ => (c, "bad-op")

partial def loop (h : IO.FS.Stream) (c : Sched) (lineNo bad : Nat) : IO Nat := do
  let line ← h.getLine
  if line.isEmpty then return bad
  let l := line.trimAscii.toString
  if l == "new" then loop h {} (lineNo + 1) bad else
  if l.startsWith "MONITOR" then loop h c (lineNo + 1) bad else
  let parts := l.splitOn " | "
  let lr := parts[0]!.splitOn " -> "
  let toks := (lr[0]!.splitOn " ").filter (· ≠ "")
  let (c', r) := stepLine c toks
  let o := dump c'
  if r ≠ lr[1]! || o ≠ parts[1]! then
    IO.println s!"MISMATCH line {lineNo}: {l}\n   model: {r} | {o}"
    loop h c' (lineNo + 1) (bad + 1)
  else loop h c' (lineNo + 1) bad

def main : IO Unit := do
  let bad ← loop (← IO.getStdin) {} 1 0
  IO.println s!"mismatches: {bad}"

end DrvSched
