import SccacheModel.Model.ClientTc

namespace DrvClientTc
open ClientTcM

/-! trace of `h_clienttc`: `new <cap> <size of toolchain 0> … <size of toolchain 3>`, then `put <w> | <answer>` and `restart`.
    An answer is `ok <w'>` (the archive id first seen for compiler `w'`), `toolarge` or `err`. -/

structure Ctx where
  sizes : List Nat := []
  st : St := { cap := 0 }

def sizeOf (c : Ctx) (w : Nat) : Nat := c.sizes.getD w 0

def render : Out → String
  | .ok i => s!"ok {i}"
  | .tooLarge => "toolarge"

partial def loop (h : IO.FS.Stream) (c : Ctx) (n bad : Nat) : IO Nat := do
  let line ← h.getLine
  if line.isEmpty then return bad
  let l := line.trimAscii.toString
  let parts := l.splitOn " | "
  match (parts[0]!.splitOn " ").filter (· ≠ "") with
  | "new" :: cap :: sizes => loop h { sizes := sizes.map String.toNat!, st := { cap := cap.toNat! } } (n + 1) bad
  | ["restart"] => loop h { c with st := restart c.st } (n + 1) bad
  | ["put", w] =>
    let (s', o) := put (sizeOf c) id c.st w.toNat!
    if render o ≠ parts[1]! then
      IO.println s!"MISMATCH line {n}: {l}\n   model: {render o}"
      loop h { c with st := s' } (n + 1) (bad + 1)
    else loop h { c with st := s' } (n + 1) bad
  | _ => IO.println s!"MISMATCH line {n}: bad-op {l}"; loop h c (n + 1) (bad + 1)

def main : IO Unit := do
  let bad ← loop (← IO.getStdin) {} 1 0
  IO.println s!"mismatches: {bad}"
end DrvClientTc
