import SccacheModel.Model.Lru

namespace DrvLru
open LruM

open Lru

def resStr : Res → String
  | .ok => "ok" | .tooLarge => "tooLarge" | .notInCache => "notInCache" | .ioErr => "ioErr" | .panic => "panic"

def parseOrder (s : String) : List (Key × Nat) :=
  if s.isEmpty then [] else
  (s.splitOn ",").filterMap fun kv =>
    match kv.splitOn ":" with
    | [k, n] => some (k.toNat!, n.toNat!)
    | _ => none

def obs (c : Lru) : String :=
  if c.poisoned then "poisoned" else
  let cont := String.join ((List.range 4).map fun k => if c.containsKey k then "1" else "0")
  let files := (List.range 4).filterMap fun k => (c.files.find? (·.1 == k)).map fun e => s!"{e.1}:{e.2}"
  s!"size={c.size} len={c.len} contains={cont} files={",".intercalate files}"

def stepLine (c : Lru) (toks : List String) : Lru × String :=
  match toks with
  | ["ins", k, n] => let (c', r) := c.insertBytes k.toNat! n.toNat!; (c', resStr r)
  | ["prep", k, n] => let (c', r) := c.prepareAdd k.toNat! n.toNat!; (c', resStr r)
  | ["write", h, m] => (c.write h.toNat! m.toNat!, "-")
  | ["commit", h] => let (c', r) := c.commit h.toNat!; (c', resStr r)
  | ["drop", h] => (c.dropEntry h.toNat!, "-")
  | ["get", k] => let (c', r) := c.get k.toNat!; (c', resStr r)
  | ["rm", k] => let (c', r) := c.remove k.toNat!; (c', resStr r)
  | ["xdel", k] => (c.externalDelete k.toNat!, "-")
  | ["xadd", k, n] => (c.externalAdd k.toNat! n.toNat!, "-")
  | ["reopen"] => (c.reopen [], "-")
  | ["reopen", o] => (c.reopen (parseOrder o), "-")
  | ["nop"] => (c, "-")
  | _ => (c, "bad-op")

partial def loop (h : IO.FS.Stream) (c : Lru) (lineNo : Nat) (bad : Nat) : IO Nat := do
  let line ← h.getLine
  if line.isEmpty then return bad
  let l := line.trimAscii.toString
  match l.splitOn " " with
  | ["new", cap] => loop h { cap := cap.toNat! } (lineNo + 1) bad
  | _ =>
    let parts := l.splitOn " | "
    let lhs := parts[0]!
    let expectObs := parts[1]!
    let lr := lhs.splitOn " -> "
    let toks := (lr[0]!.splitOn " ").filter (· ≠ "")
    let expectRes := lr[1]!
    let (c', r) := stepLine c toks
    let o := obs c'
    if r ≠ expectRes || o ≠ expectObs then
      IO.println s!"MISMATCH line {lineNo}: {l}\n   model: {r} | {o}"
      loop h c' (lineNo + 1) (bad + 1)
    else loop h c' (lineNo + 1) bad

def main : IO Unit := do
  let bad ← loop (← IO.getStdin) { cap := 0 } 1 0
  IO.println s!"mismatches: {bad}"

end DrvLru
