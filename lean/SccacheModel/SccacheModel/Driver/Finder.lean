import SccacheModel.Model.TimeMacro

namespace DrvFinder
open TM


def hexVal (c : Char) : Nat :=
  if c.isDigit then c.toNat - '0'.toNat else c.toNat - 'a'.toNat + 10

def unhex (s : String) : Bytes :=
  let rec go : List Char → Bytes
    | a :: b :: rest => UInt8.ofNat (hexVal a * 16 + hexVal b) :: go rest
    | _ => []
  go s.toList

partial def loop (h : IO.FS.Stream) : IO Unit := do
  let line ← h.getLine
  if line.isEmpty then return ()
  let toks := (line.trimAscii.toString.splitOn " ").filter (· ≠ "")
  let chunks := toks.map unhex
  let f := Finder.run chunks
  IO.println s!"{f.foundDate} {f.foundTime} {f.foundTimestamp}"
  loop h

def main : IO Unit := do loop (← IO.getStdin)

end DrvFinder
