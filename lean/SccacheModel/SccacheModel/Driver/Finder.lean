import SccacheModel.Model.TimeMacro

namespace DrvFinder
open TM


def hexVal (c : Char) : Nat :=
  if c.isDigit then c.toNat - '0'.toNat else c.toNat - 'a'.toNat + 10

def unhex (s : String) : Bytes :=
  let rec go : List Char → Bytes
    | a :: b :: rest => UInt8.ofNat (hexVal a * 16 + hexVal b) :: go rest
    | _ => []
  go s.toList

partial def loop (h : IO.FS.Stream) (n bad : Nat) : IO Nat := do
  let line ← h.getLine
  if line.isEmpty then return bad
  let l := line.trimAscii.toString
  match l.splitOn " | " with
  | [cs, expect] =>
    let toks := (cs.splitOn " ").filter (· ≠ "")
    let f := Finder.run (toks.map unhex)
    let got := s!"{f.foundDate} {f.foundTime} {f.foundTimestamp}"
    if got ≠ expect then
      IO.println s!"MISMATCH line {n}: {l}\n   model: {got}"
      loop h (n + 1) (bad + 1)
    else loop h (n + 1) bad
  | _ =>
    -- an empty text has no chunks: the line is ` | f f f`
    match (l.splitOn "| ") with
    | [_, expect] =>
      let f := Finder.run []
      let got := s!"{f.foundDate} {f.foundTime} {f.foundTimestamp}"
      if got ≠ expect then IO.println s!"MISMATCH line {n}: {l}"; loop h (n + 1) (bad + 1) else loop h (n + 1) bad
    | _ => IO.println s!"MISMATCH line {n}: bad-op {l}"; loop h (n + 1) (bad + 1)

def main : IO Unit := do
  let bad ← loop (← IO.getStdin) 1 0
  IO.println s!"mismatches: {bad}"
end DrvFinder
