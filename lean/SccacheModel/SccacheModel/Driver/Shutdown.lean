import SccacheModel.Model.Shutdown

namespace DrvShutdown
open ShutM

/-! `modeld shutdown`: replays the traces of `h_server` (the real `SccacheServer::run` on an in-memory listener under tokio's
    paused clock) on `ShutM`.  Lines: `new <T ms>`; `conn <t>`, `req <t> <c>`, `stop <t> <c>`, `close <t> <c>` each followed by
    ` | <what the implementation answered>`; `end <t> | exit <ms>` or `end <t> | running` — the exit time is compared
    with a tolerance of 1 ms (the harness reads the clock from a 1 ms ticker). -/

def renderOut : Out → String
  | .accepted c => s!"accepted {c}"
  | .refused => "refused"
  | .served => "served"
  | .closed => "closed"
  | .noconn => "noconn"
  | .dead => "dead"
  | .none => "-"

def renderEnd (s : Srv) : String :=
  match s.phase with
  | .running _ => "running"
  | .draining since => s!"draining {since}"
  | .exited e => s!"exit {e}"

def endAgrees (s : Srv) (impl : String) : Bool :=
  match s.phase, impl.splitOn " " with
  | .exited e, ["exit", x] => match x.toNat? with
    | some v => v ≤ e + 1 && e ≤ v + 1
    | none => false
  | .running _, ["running"] => true
  | _, _ => false

partial def loop (h : IO.FS.Stream) (s : Srv) (n bad : Nat) : IO Nat := do
  let line ← h.getLine
  if line.isEmpty then return bad
  let l := line.trimAscii.toString
  if l.isEmpty then loop h s (n + 1) bad else
  match l.splitOn " " with
  | ["new", t] => loop h (init t.toNat! (GenC.shutdownGraceSecs * 1000)) (n + 1) bad
  | _ =>
    let parts := l.splitOn " | "
    let toks := (parts[0]!.splitOn " ").filter (· ≠ "")
    let impl := parts[1]!
    let ev : Option Ev := match toks with
      | ["conn", t] => some (.connect t.toNat!)
      | ["req", t, c] => some (.request t.toNat! c.toNat!)
      | ["stop", t, c] => some (.stop t.toNat! c.toNat!)
      | ["close", t, c] => some (.close t.toNat! c.toNat!)
      | _ => none
    match ev, toks with
    | some e, _ =>
      let (s', o) := step s e
      if renderOut o ≠ impl then
        IO.println s!"MISMATCH line {n}: {l}\n   model: {renderOut o}"
        loop h s' (n + 1) (bad + 1)
      else loop h s' (n + 1) bad
    | none, ["end", t] =>
      let s' := (step s (.tick t.toNat!)).1
      if !endAgrees s' impl then
        IO.println s!"MISMATCH line {n}: {l}\n   model: {renderEnd s'}"
        loop h s' (n + 1) (bad + 1)
      else loop h s' (n + 1) bad
    | _, _ => IO.println s!"MISMATCH line {n}: bad-op {l}"; loop h s (n + 1) (bad + 1)

def main : IO Unit := do
  let bad ← loop (← IO.getStdin) (init 0 (GenC.shutdownGraceSecs * 1000)) 0 0
  IO.println s!"mismatches: {bad}"

end DrvShutdown
