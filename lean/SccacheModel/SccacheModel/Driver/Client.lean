import SccacheModel.Model.Client

namespace DrvClient
open ClientM

/-! diff of `clientDecide` against the real `sccache` client binary talking to a scripted fake server -/
def parseOpt (s : String) : Option Int := if s == "-" then none else s.toInt?
partial def loop (h : IO.FS.Stream) (n bad : Nat) : IO (Nat × Nat) := do
  let line ← h.getLine
  if line.isEmpty then return (n, bad)
  match (line.dropEnd 1).toString.splitOn "\t" with
  | ig :: f :: s :: rc :: ran :: out :: _ =>
    let first : First := match (f.splitOn ".").headD "" with
      | "compileStarted" => .compileStarted | "unhandledCompile" => .unhandledCompile
      | "unsupportedCompiler" => .unsupportedCompiler | "otherResponse" => .otherResponse | _ => .ioError
    let second : Second :=
      if s.startsWith "finished(" then
        match ((s.drop 9).dropEnd 1).toString.splitOn "," with
        | [a, b] => .finished (parseOpt a) (parseOpt b)
        | _ => .otherResponse
      else match (s.splitOn ".").headD "" with
        | "otherResponse" => .otherResponse | "eof" => .eof | _ => .otherError
    let act := clientDecide (ig == "1") first second
    -- observable form of an action: (exit status as the shell sees it, did the wrapper compiler run, server output shown)
    let expect : String × String × String := match act with
      | .deliver e => (toString (e.emod 256), "norun", "OUT")
      | .localCompile => ("0", "ran", "-")           -- the wrapper compiles t.c successfully
      | .sccacheError => ("2", "norun", "-")
    if expect != (rc, ran, out) then
      IO.println s!"MISMATCH {n}: ig={ig} {f} {s}: real rc={rc} {ran} {out}; model {repr act}"
      loop h (n + 1) (bad + 1)
    else loop h (n + 1) bad
  | _ => loop h (n + 1) (bad + 1)
def main : IO Unit := do
  let (n, bad) ← loop (← IO.getStdin) 0 0
  IO.println s!"cases: {n} mismatches: {bad}"

end DrvClient
