import SccacheModel.Gen.Args

namespace DrvArgs
open ArgsM


def hexVal (c : Char) : Nat := if c.isDigit then c.toNat - '0'.toNat else c.toNat - 'a'.toNat + 10
def unhex (s : String) : Bytes :=
  if s == "e" then [] else
  let rec go : List Char → Bytes
    | a :: b :: rest => UInt8.ofNat (hexVal a * 16 + hexVal b) :: go rest
    | _ => []
  go s.toList
def hexDigit (n : Nat) : Char := if n < 10 then Char.ofNat (48 + n) else Char.ofNat (87 + n)
def hx (b : Bytes) : String := if b.isEmpty then "e" else String.ofList (b.flatMap fun x => [hexDigit (x.toNat / 16), hexDigit (x.toNat % 16)])
def hl (l : List Bytes) : String := if l.isEmpty then "-" else ",".intercalate (l.map hx)
def str (b : Bytes) : String := String.ofList (b.map fun x => Char.ofNat x.toNat)

def langStr : Lang → String
  | .c => "C" | .cxx => "Cxx" | .genericHeader => "GenericHeader" | .cHeader => "CHeader" | .cxxHeader => "CxxHeader"
  | .objc => "ObjectiveC" | .objcxx => "ObjectiveCxx" | .objcxxHeader => "ObjectiveCxxHeader" | .cuda => "Cuda"
  | .rust => "Rust" | .hip => "Hip" | .ptx => "Ptx" | .cubin => "Cubin"

def showRes (clang : Bool) (r : PRes) : String :=
  match r with
  | .notCompilation => "nc"
  | .cannotCache w => s!"cc {hx w}"
  | .ok p =>
    let outs := (p.outputs.map fun (k, path, opt) => s!"{str k}:{hx path}:{if opt then 1 else 0}").toArray.qsort (· < ·) |>.toList
    s!"ok input={hx p.input} dd={p.doubleDash} lang={langStr p.lang} cflag={hx p.cflag} outputs=[{",".intercalate outs}] dep={hl p.dep} pre={hl p.pre} common={hl p.common} arch={hl p.arch} unh={hl p.unhashed} pg={p.profileGenerate} th={match p.tooHardPP with | some t => hx t | none => "none"} regen={hl (regen p)} dist0={match distRegen (!clang) false p with | some d => hl d | none => "none"} dist1={match distRegen (!clang) true p with | some d => hl d | none => "none"} xh={hl p.extraHash}"

partial def loop (h : IO.FS.Stream) (n bad : Nat) : IO Nat := do
  let line ← h.getLine
  if line.isEmpty then return bad
  let l := line.trimAscii.toString
  if l.startsWith "#" then loop h (n + 1) bad else
  let parts := l.splitOn " | "
  match parts[0]!.splitOn " " with
  | [kind, pp, argv] =>
    let clang := kind == "clang"
    let args := if argv == "-" then [] else (argv.splitOn ",").map unhex
    let search := if clang then search2 gccArgs clangArgs else search1 gccArgs
    let r := showRes clang (parseArgs search clang (pp == "true") false args (search2 gccArgs clangArgs))
    if r ≠ parts[1]! then
      IO.println s!"MISMATCH line {n}: {kind} {pp} {args.map str}\n  real : {parts[1]!}\n  model: {r}"
      loop h (n + 1) (bad + 1)
    else loop h (n + 1) bad
  | _ => IO.println s!"bad line {n}"; loop h (n + 1) (bad + 1)

def main : IO Unit := do
  let bad ← loop (← IO.getStdin) 1 0
  IO.println s!"mismatches: {bad}"

end DrvArgs
