import SccacheModel.Model.Memo

namespace DrvMemo
open MemoM

/-! diff of the memo model against the real `SccacheService::compiler_info` (digest used per request, and whether
    detection re-ran) on swap histories, inside and outside the hypothesis of `memo_fresh` -/
def redetects : Option MemoEntry → List Bin → List Bool
  | _, [] => []
  | m, b :: bs =>
    let re := match m with | some e => decide (e.mtime ≠ b.mtime) | none => true
    re :: redetects (some (lookup m b).1) bs
partial def loop (h : IO.FS.Stream) (n bad inHyp : Nat) : IO (Nat × Nat × Nat) := do
  let line ← h.getLine
  if line.isEmpty then return (n, bad, inHyp)
  let l := (line.dropEnd 1).toString
  match l.splitOn "\t" with
  | [hist, ds, dets] =>
    let bins : List Bin := (hist.splitOn " ").map fun p =>
      match p.splitOn "," with | [c, m] => ⟨c.toNat!, m.toNat!⟩ | _ => ⟨0, 0⟩
    let modelD := " ".intercalate ((digestsUsed none bins).map toString)
    let modelR := " ".intercalate ((redetects none bins).map fun b => if b then "1" else "0")
    let hyp := bins.all fun a => bins.all fun b => a.mtime != b.mtime || a.content == b.content
    if modelD != ds || modelR != dets then
      IO.println s!"MISMATCH {n}: {hist}\n  real  d={ds} re={dets}\n  model d={modelD} re={modelR}"
      loop h (n + 1) (bad + 1) inHyp
    else loop h (n + 1) bad (if hyp then inHyp + 1 else inHyp)
  | _ => IO.println s!"bad line {n}"; loop h (n + 1) (bad + 1) inHyp
def main : IO Unit := do
  let (n, bad, inHyp) ← loop (← IO.getStdin) 0 0 0
  IO.println s!"histories: {n} (satisfying MtimeDeterminesContent: {inHyp}) mismatches: {bad}"

end DrvMemo
