import SccacheModel.Model.TcCache

namespace DrvTc
open TcM

/-! diff of `tcStepFixed` against the real `dist::TcCache` (uploads honest or not, removals, reopen), and of the
    `Result` of `insert_with` against "digest matches id" -/
def showStore (s : Store) : String :=
  ",".intercalate ((List.range 4).map fun i => s!"{i}:{match s i with | some d => toString d | none => "-"}")
def parseOp (o : String) : Option TcOp × Bool :=
  if o.startsWith "iw" then
    match ((o.drop 2).dropEnd 1).toString.splitOn "," with
    | [i, c] => (some (.insertWith i.toNat! c.toNat!), (o.endsWith "+") == (i == c))
    | _ => (none, false)
  else if o.startsWith "ix" then
    -- an upload refused for its size: nothing may stay under that id
    match ((o.drop 2)).toString.splitOn "," with
    | [i, _] => (some (.remove i.toNat!), true)
    | _ => (none, false)
  else if o.startsWith "rm" then (some (.remove (o.drop 2).toString.toNat!), true)
  else if o.startsWith "ev" then (some (.evict (o.drop 2).toString.toNat!), true)
  else if o == "ro" || o == "rO" then (some .reopen, true)
  else (none, false)

partial def loop (h : IO.FS.Stream) (n bad steps : Nat) : IO (Nat × Nat × Nat) := do
  let line ← h.getLine
  if line.isEmpty then return (n, bad, steps)
  match (line.dropEnd 1).toString.splitOn "\t" with
  | [ops, states] =>
    let opl := ops.splitOn " "
    let stl := states.splitOn " "
    let mut s : Store := fun _ => none
    let mut ok := true
    for (step, st) in opl.zip stl do
      -- a step is `ev<j>/…/<op>`: evictions observed during the operation, then the operation itself
      for o in step.splitOn "/" do
        match parseOp o with
        | (some op, resOk) =>
          s := tcStepFixed s op
          if !resOk then
            ok := false
            IO.println s!"MISMATCH {n} at {o}: result of the upload is not `digest matches id`"
        | (none, _) => ok := false; IO.println s!"MISMATCH {n}: bad-op {o}"
      if showStore s != st then
        ok := false
        IO.println s!"MISMATCH {n} at {step}: real {st} model {showStore s}"
    loop h (n + 1) (if ok then bad else bad + 1) (steps + opl.length)
  | _ => loop h (n + 1) (bad + 1) steps
def main : IO Unit := do
  let (n, bad, steps) ← loop (← IO.getStdin) 0 0 0
  IO.println s!"histories: {n} steps: {steps} mismatches: {bad}"

end DrvTc
