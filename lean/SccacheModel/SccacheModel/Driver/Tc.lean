import SccacheModel.Model.TcCache

namespace DrvTc
open TcM

/-! diff of `tcStepPinned` against the real `dist::TcCache` (uploads honest or not, removals, reopen), and of the
    `Result` of `insert_with` against "digest matches id" -/
def showStore (s : Store) : String :=
  ",".intercalate ((List.range 4).map fun i => s!"{i}:{match s i with | some d => toString d | none => "-"}")
partial def loop (h : IO.FS.Stream) (n bad steps : Nat) : IO (Nat × Nat × Nat) := do
  let line ← h.getLine
  if line.isEmpty then return (n, bad, steps)
  match (line.dropEnd 1).toString.splitOn "\t" with
  | [ops, states] =>
    let opl := ops.splitOn " "
    let stl := states.splitOn " "
    let mut s : Store := fun _ => none
    let mut ok := true
    for (o, st) in opl.zip stl do
      let (op, resOk) : Option TcOp × Bool :=
        if o.startsWith "iw" then
          match ((o.drop 2).dropEnd 1).toString.splitOn "," with
          | [i, c] => (some (.insertWith i.toNat! c.toNat!), (o.endsWith "+") == (i == c))
          | _ => (none, false)
        else if o.startsWith "rm" then (some (.remove (o.drop 2).toString.toNat!), true)
        else (some .reopen, true)
      match op with
      | some op =>
        s := tcStepPinned s op
        if showStore s != st || !resOk then
          ok := false
          IO.println s!"MISMATCH {n} at {o}: real {st} model {showStore s} resultOk={resOk}"
      | none => ok := false
    loop h (n + 1) (if ok then bad else bad + 1) (steps + opl.length)
  | _ => loop h (n + 1) (bad + 1) steps
def main : IO Unit := do
  let (n, bad, steps) ← loop (← IO.getStdin) 0 0 0
  IO.println s!"histories: {n} steps: {steps} mismatches: {bad}"

end DrvTc
