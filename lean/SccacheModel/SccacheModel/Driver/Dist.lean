import SccacheModel.Model.Dist

namespace DrvDist
open DistM

/-! diff of `distDecide` (and the pinned exit-status mapping) against the real `dist_or_local_compile` driven by a
    scripted `dist::Client` -/
def caseOf : String → Option (Option (Stage × ErrClass))
  | "None" => some none
  | "PutOther" => some (some (.putToolchain, .other))
  | "PutHttp" => some (some (.putToolchain, .http4xx))
  | "PutTooLarge" => some (some (.putToolchain, .toolchainTooLarge))
  | "AllocFail" | "AllocErr" => some (some (.alloc, .other))
  | "AllocHttp" => some (some (.alloc, .http4xx))
  | "AllocTooLarge" => some (some (.alloc, .toolchainTooLarge))
  | "SubmitHttp" => some (some (.submit, .http4xx))
  | "SubmitTooLarge" => some (some (.submit, .toolchainTooLarge))
  | "RunTooLarge" => some (some (.run, .toolchainTooLarge))
  | "SubmitNotFound" | "SubmitCannotCache" | "SubmitErr" => some (some (.submit, .other))
  | "RunErr" | "RunNotFound" => some (some (.run, .other))
  | "RunHttp" => some (some (.run, .http4xx))
  | "OutUnwritable" => some (some (.writeOutput 0, .other))
  | "SecondOutUnwritable" => some (some (.writeOutput 1, .other))
  | _ => none
partial def loop (h : IO.FS.Stream) (n bad : Nat) : IO (Nat × Nat) := do
  let line ← h.getLine
  if line.isEmpty then return (n, bad)
  match (line.dropEnd 1).toString.splitOn "\t" with
  | [f, res, dt, file, ran] =>
    if f.startsWith "RunExit" then
      -- a remote compile that fails with exit code c comes back as that exit code (mapping after the fix of F-C13-a)
      let c := (f.drop 7).toString.toNat!
      let ok := res == s!"CompileFailed code=Some({c})" && codeOfRaw (ofRemoteFixed c) == some c && file == "absent" && ran == "0"
      if ok then loop h (n + 1) bad else do IO.println s!"MISMATCH {f}: {res}"; loop h (n + 1) (bad + 1)
    else match caseOf f with
    | none => IO.println s!"unknown case {f}"; loop h (n + 1) (bad + 1)
    | some failure =>
      let expect : String × String × String × String := match distDecide true true failure with
        | .remote => ("CacheMiss ok=true", "Ok", "REMOTE", "0")
        | .local_ => ("CacheMiss ok=true", "Error", "ELF", "1")     -- cleanup, then the local compiler wrote the object
        | .error => ("Err", "-", "absent", "0")
      let got := ((if res.startsWith "Err(" then "Err" else res), (dt.takeWhile (· != '(')).toString, file, ran)
      if expect != got then
        IO.println s!"MISMATCH {f}: real {got}; model {repr (distDecide true true failure)}"
        loop h (n + 1) (bad + 1)
      else loop h (n + 1) bad
  | _ => loop h (n + 1) (bad + 1)
def main : IO Unit := do
  let (n, bad) ← loop (← IO.getStdin) 0 0
  IO.println s!"cases: {n} mismatches: {bad}"

end DrvDist
