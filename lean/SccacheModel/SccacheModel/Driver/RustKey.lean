import SccacheModel.Model.RustRequest
import SccacheModel.Driver.RustArgs

namespace DrvRustKey
open RustReqM DrvRustArgs

def pairs (s : String) : List (Bytes × Bytes) :=
  if s == "-" then [] else (s.splitOn ",").filterMap fun kv => match kv.splitOn "=" with | [k, v] => some (unhex k, unhex v) | _ => none
def tohex (b : Bytes) : String := String.ofList (b.flatMap fun x => [hexDigit (x.toNat / 16), hexDigit (x.toNat % 16)])

/-- line: cwd \t argv \t existing \t env (k=v hex pairs) \t sources (paths) \t envdeps (k=v) \t files (path=digest) \t shlib digests \t rustc version ;
    output: the pre-image in hex, or `none <why>` -/
partial def loop (h : IO.FS.Stream) : IO Unit := do
  let line ← h.getLine
  if line.isEmpty then return ()
  match (line.dropEnd 1).toString.splitOn "\t" with
  | [cwd, argv, ex, env, sources, envdeps, files, shlibs, ver] =>
    let existing := unlist ex
    match preimage RArgsM.rustCacheVersion (unlist shlibs) (fun p => existing.contains p) (unhex cwd) (unlist argv) (pairs env) (unlist sources) (pairs envdeps) (pairs files) (unhex ver) with
    | .ok pre => IO.println (tohex pre)
    | .notCacheable r => IO.println s!"none {r}"
    | .missingDigest p => IO.println s!"none missing-digest {txt p}"
  | _ => IO.println "bad-line"
  loop h
def main : IO Unit := do loop (← IO.getStdin)

end DrvRustKey
