import SccacheModel.Model.Frame

namespace DrvFrame
open FrameM

/-! `modeld frame`: replays the traces of `h_frames`.
    `enc <request> | <hex>`   — `bincode::serialize(&Request)` against `encReq`;
    `dec <hex> | <request>|error` — `bincode::deserialize::<Request>` against `decReq`;
    `conn <chunk,chunk,…> | <answers>` — the real server fed these reads on one connection: the kinds of the responses it sent, then
    `eof` (the server ended the connection) or `open`.  The model gives the requests handed to the service per read (`feed`); the
    answers must be those requests' kinds in order.  One liberty: when a read ends the connection, responses to requests decoded
    *in that same read* may be missing (futures' `forward` returns on the stream error before flushing them); responses to
    requests of earlier reads must all be there. -/

def hexVal (c : Char) : Nat := if c.isDigit then c.toNat - '0'.toNat else c.toNat - 'a'.toNat + 10
def unhex (s : String) : Bytes :=
  if s == "e" || s == "-" then [] else
  let rec go : List Char → Bytes
    | a :: b :: r => (hexVal a * 16 + hexVal b) :: go r
    | _ => []
  go s.toList
def hexDigit (n : Nat) : Char := if n < 10 then Char.ofNat (48 + n) else Char.ofNat (87 + n)
def hex (b : Bytes) : String :=
  if b.isEmpty then "e" else String.ofList (b.flatMap fun x => [hexDigit (x / 16), hexDigit (x % 16)])
def unlist (s : String) : List Bytes := if s == "-" then [] else (s.splitOn ",").map unhex
def relist (l : List Bytes) : String := if l.isEmpty then "-" else ",".intercalate (l.map hex)

def showReq : Req → String
  | .zeroStats => "zero" | .getStats => "stats" | .distStatus => "dist" | .shutdown => "shutdown"
  | .compile exe cwd args env =>
    let e := if env.isEmpty then "-" else ",".intercalate (env.map fun (k, v) => hex k ++ "=" ++ hex v)
    s!"compile {hex exe} {hex cwd} {relist args} {e}"

def kindOf : Req → String
  | .zeroStats => "zero" | .getStats => "stats" | .distStatus => "dist" | .shutdown => "shutdown" | .compile .. => "compile"

def parseReq (toks : List String) : Option Req :=
  match toks with
  | ["zero"] => some .zeroStats
  | ["stats"] => some .getStats
  | ["dist"] => some .distStatus
  | ["shutdown"] => some .shutdown
  | ["compile", exe, cwd, args, env] =>
    let e := if env == "-" then [] else (env.splitOn ",").map fun kv => match kv.splitOn "=" with
      | [k, v] => (unhex k, unhex v)
      | _ => ([], [])
    some (.compile (unhex exe) (unhex cwd) (unlist args) e)
  | _ => none

/-- per read: the requests handed over and whether the read ended the connection -/
def perRead (c : Conn) : List Bytes → List (List String × Bool)
  | [] => []
  | ch :: rest =>
    let (c1, os) := feed c ch
    let ks := os.filterMap fun o => match o with | .request r => some (kindOf r) | .closed => none
    (ks, os.any (· == .closed)) :: perRead c1 rest

def connAgrees (reads : List (List String × Bool)) (impl : List String) : Bool :=
  let closedAt := reads.findIdx? (·.2)
  match closedAt with
  | none => impl == (reads.map (·.1)).flatten ++ ["open"]
  | some i =>
    let before := ((reads.take i).map (·.1)).flatten
    let inRead := (reads[i]!).1
    match impl.reverse with
    | "eof" :: revAns =>
      let ans := revAns.reverse
      before.length ≤ ans.length && ans.length ≤ before.length + inRead.length && ans == (before ++ inRead).take ans.length
    | _ => false

partial def loop (h : IO.FS.Stream) (n bad : Nat) : IO Nat := do
  let line ← h.getLine
  if line.isEmpty then return bad
  let l := line.trimAscii.toString
  if l.isEmpty then loop h (n + 1) bad else
  let parts := l.splitOn " | "
  let toks := (parts[0]!.splitOn " ").filter (· ≠ "")
  let impl := parts[1]!
  match toks with
  | "enc" :: rq =>
    match parseReq rq with
    | some r =>
      if hex (encReq r) ≠ impl then
        IO.println s!"MISMATCH line {n}: {l}\n   model: {hex (encReq r)}"; loop h (n + 1) (bad + 1)
      else loop h (n + 1) bad
    | none => IO.println s!"MISMATCH line {n}: bad-op {l}"; loop h (n + 1) (bad + 1)
  | ["dec", hx] =>
    let m := match decReq (unhex hx) with | some r => showReq r | none => "error"
    if m ≠ impl then
      IO.println s!"MISMATCH line {n}: {l}\n   model: {m}"; loop h (n + 1) (bad + 1)
    else loop h (n + 1) bad
  | ["conn", chunks] =>
    let reads := perRead (Conn.init defaultMaxFrame) (unlist chunks)
    let im := if impl == "-" then [] else impl.splitOn ","
    if !connAgrees reads im then
      IO.println s!"MISMATCH line {n}: {l}\n   model (per read: requests handed over, connection ended?): {reads}"; loop h (n + 1) (bad + 1)
    else loop h (n + 1) bad
  | _ => IO.println s!"MISMATCH line {n}: bad-op {l}"; loop h (n + 1) (bad + 1)

def main : IO Unit := do
  let bad ← loop (← IO.getStdin) 0 0
  IO.println s!"mismatches: {bad}"

end DrvFrame
