import SccacheModel.Model.EntryRead

namespace DrvEntryRead
open EntryM

/-! diff of the reader model against the real `zip 0.6.6` reader on intact, truncated and byte-substituted archives.
    The model under-approximates acceptance, so the relation checked is:
      model OK x   ⇒ real OK x            (else MISMATCH)
      model FAIL   ⇒ real FAIL, or real OK — counted as `model-rejects` (paths sccache's writer never produces) -/
def hexVal (c : Char) : Nat := if c.isDigit then c.toNat - '0'.toNat else c.toNat - 'a'.toNat + 10
def unhex (s : String) : Bytes :=
  if s == "e" then [] else
  let rec go : List Char → Bytes
    | a :: b :: rest => UInt8.ofNat (hexVal a * 16 + hexVal b) :: go rest
    | _ => []
  go s.toList
def hexDigit (n : Nat) : Char := if n < 10 then Char.ofNat (48 + n) else Char.ofNat (87 + n)
def hx (b : Bytes) : String := if b.isEmpty then "e" else String.ofList (b.flatMap fun x => [hexDigit (x.toNat / 16), hexDigit (x.toNat % 16)])
def showRes : Option (Bytes × Option Nat) → String
  | none => "FAIL"
  | some (d, m) => s!"OK {match m with | some x => toString x | none => "none"} {hx d}"
partial def loop (h : IO.FS.Stream) (n bad rejects okok failfail : Nat) : IO (Nat × Nat × Nat × Nat × Nat) := do
  let line ← h.getLine
  if line.isEmpty then return (n, bad, rejects, okok, failfail)
  let l := (line.dropEnd 1).toString
  match l.splitOn "\t" with
  | [ar, nm, real, kind] =>
    let model := showRes ((openArchive (unhex ar)).bind (getStored · (unhex nm)))
    if model == real then
      if real == "FAIL" then loop h (n + 1) bad rejects okok (failfail + 1) else loop h (n + 1) bad rejects (okok + 1) failfail
    else if model == "FAIL" then
      IO.eprintln s!"model-rejects {kind} name={nm} real={real.take 24}"
      loop h (n + 1) bad (rejects + 1) okok failfail
    else
      IO.println s!"MISMATCH {n} {kind} name={nm}\n  real  {real}\n  model {model}"
      loop h (n + 1) (bad + 1) rejects okok failfail
  | _ => IO.println s!"bad line {n}"; loop h (n + 1) (bad + 1) rejects okok failfail
def main : IO Unit := do
  let (n, bad, rejects, okok, ff) ← loop (← IO.getStdin) 0 0 0 0 0
  IO.println s!"cases: {n} agree-ok: {okok} agree-fail: {ff} model-rejects-real-accepts: {rejects} mismatches: {bad}"

end DrvEntryRead
