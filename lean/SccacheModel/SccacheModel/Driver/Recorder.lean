import SccacheModel.Model.Recorder

namespace DrvRec
open RecM

def hexVal (c : Char) : Nat :=
  if c.isDigit then c.toNat - '0'.toNat else c.toNat - 'a'.toNat + 10
def unhex (s : String) : Bytes :=
  let rec go : List Char → Bytes
    | a :: b :: rest => UInt8.ofNat (hexVal a * 16 + hexVal b) :: go rest
    | _ => []
  go s.toList
def hexDigit (n : Nat) : Char := if n < 10 then Char.ofNat (48 + n) else Char.ofNat (87 + n)
def hex (b : Bytes) : String := String.ofList (b.flatMap fun x => [hexDigit (x.toNat / 16), hexDigit (x.toNat % 16)])

def bytesLt : Bytes → Bytes → Bool
  | [], [] => false
  | [], _ :: _ => true
  | _ :: _, [] => false
  | a :: as, b :: bs => if a < b then true else if b < a then false else bytesLt as bs

def kindOfStr (s : String) : Option FileKind :=
  match s.toList with
  | ['d'] => some .dir
  | ['o'] => some .other
  | ['f', a, b, c] => some (.file (a == '1') (b == '1') (c == '1'))
  | _ => none

def parseWorld (s : String) : List (List Bytes × FileKind) :=
  (s.splitOn ";").filterMap fun e =>
    match e.splitOn ":" with
    | [p, k] => (kindOfStr k).map fun kd => (rustComps (unhex p), kd)
    | _ => none

def showRes : Res → String
  | .err => "err"
  | .panic => "panic"
  | .ok keep rec =>
    let sorted := rec.mergeSort (fun a b => !bytesLt b a)
    s!"ok {if keep then 1 else 0} {",".intercalate (sorted.map hex)}"

/-- line: `<skip_system_headers><ignore_time_macros> \t cwd \t input \t text \t world \t real-result` -/
partial def loop (h : IO.FS.Stream) (n bad : Nat) : IO (Nat × Nat) := do
  let line ← h.getLine
  if line.isEmpty then return (n, bad)
  match (line.dropEnd 1).toString.splitOn "\t" with
  | [cfg, cwd, input, text, world, real] =>
    let c : Cfg := { skipSystemHeaders := cfg.toList[0]? == some '1', ignoreTimeMacros := cfg.toList[1]? == some '1' }
    let w := parseWorld world
    let got := showRes (processPreprocessedFile c (fsOf w) (unhex cwd) (unhex input) (unhex text))
    if got.trimAscii.toString != real.trimAscii.toString then
      IO.println s!"MISMATCH case {n}: cfg={cfg} text={text}\n   real:  {real}\n   model: {got}"
      loop h (n + 1) (bad + 1)
    else loop h (n + 1) bad
  | _ => IO.println s!"MISMATCH case {n}: bad line"; loop h (n + 1) (bad + 1)

def main : IO Unit := do
  let (n, bad) ← loop (← IO.getStdin) 0 0
  IO.println s!"cases: {n} mismatches: {bad}"
end DrvRec
