import SccacheModel.Model.Config

namespace DrvConfig
open ConfigM

def hexVal (c : Char) : Nat := if c.isDigit then c.toNat - '0'.toNat else c.toNat - 'a'.toNat + 10
def unhex (s : String) : Bytes :=
  if s == "e" then [] else
  let rec go : List Char → Bytes
    | a :: b :: rest => UInt8.ofNat (hexVal a * 16 + hexVal b) :: go rest
    | _ => []
  go s.toList
def hexDigit (n : Nat) : Char := if n < 10 then Char.ofNat (48 + n) else Char.ofNat (87 + n)
def hex (b : Bytes) : String :=
  if b.isEmpty then "e" else String.ofList (b.flatMap fun x => [hexDigit (x.toNat / 16), hexDigit (x.toNat % 16)])
def optB (s : String) : Option Bytes := if s == "-" then none else some (unhex s)
def bit (c : Char) : Option Bool := if c == '1' then some true else if c == '0' then some false else none
def b2s (b : Bool) : String := if b then "1" else "0"

def parseFile (s : String) : Option FileDisk :=
  if s == "-" then none else
  let kv := (s.splitOn ";").map fun x => match x.splitOn "=" with | [k, v] => (k, v) | _ => ("", "")
  let get (k : String) : String := ((kv.find? (·.1 == k)).map (·.2)).getD "-"
  let pp : Option FilePP :=
    if get "pp" == "-" then none else
    match (get "pp").toList with
    | [a, b, c, d, e, f] => some ⟨bit a, bit b, bit c, bit d, bit e, bit f⟩
    | _ => none
  some { dir := optB (get "dir"), size := (if get "size" == "-" then none else (get "size").toNat?), pp := pp,
         rw := (match get "rw" with | "RO" => some .readOnly | "RW" => some .readWrite | _ => none) }

def showLoaded : Loaded → String
  | .error => "error"
  | .overflow => "panic"
  | .ok d => s!"ok dir={match d.dir with | none => "D" | some b => hex b} size={d.size} pp={b2s d.pp.use}{b2s d.pp.stat}{b2s d.pp.ctime}{b2s d.pp.ignoreTime}{b2s d.pp.skipSys}{b2s d.pp.hashCwd} rw={if d.rw = .readOnly then "RO" else "RW"}"

def showSize : SizeRes → String
  | .none => "none" | .overflow => "panic" | .some n => toString n

partial def loop (h : IO.FS.Stream) (n bad : Nat) : IO (Nat × Nat) := do
  let line ← h.getLine
  if line.isEmpty then return (n, bad)
  match (line.dropEnd 1).toString.splitOn "\t" with
  | ["sz", v, res] =>
    let m := showSize (parseSize (unhex v))
    if m != res then
      IO.println s!"MISMATCH parse_size {v}: real {res} model {m}"
      loop h (n + 1) (bad + 1)
    else loop h (n + 1) bad
  | ["ld", dir, size, direct, rw, file, res] =>
    let e : Env := { dir := optB dir, size := optB size, direct := optB direct, rw := optB rw }
    let m := showLoaded (load e (parseFile file))
    if m != res then
      IO.println s!"MISMATCH load dir={dir} size={size} direct={direct} rw={rw} file={file}\n  real  {res}\n  model {m}"
      loop h (n + 1) (bad + 1)
    else loop h (n + 1) bad
  | _ => IO.println s!"bad line {n}"; loop h (n + 1) (bad + 1)
def main : IO Unit := do
  let (n, bad) ← loop (← IO.getStdin) 0 0
  IO.println s!"cases: {n} mismatches: {bad}"

end DrvConfig
