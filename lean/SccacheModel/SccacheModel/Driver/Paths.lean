import SccacheModel.Proofs.Paths

namespace DrvPaths
open PathsM

def str (b : Bytes) : String := String.ofList (b.map fun x => Char.ofNat x.toNat)
partial def loop (h : IO.FS.Stream) (n bad : Nat) : IO Nat := do
  let line ← h.getLine
  if line.isEmpty then return bad
  let l := (line.dropEnd 1).toString
  match l.splitOn "\t" with
  | [cwd, p, joined, js, _parent] =>
    let j := pjoin (s cwd) (s p)
    let k := joinSuffix (s "/srv/b/t") j
    if str j ≠ joined || str k ≠ js then
      IO.println s!"MISMATCH {n}: cwd={cwd} p={p}\n  real  join={joined} js={js}\n  model join={str j} js={str k}"
      loop h (n + 1) (bad + 1)
    else loop h (n + 1) bad
  | [cwd, p, joined, js, _parent, inside] =>
    let j := pjoin (s cwd) (s p)
    let k := joinSuffix (s "/srv/b/t") j
    let r := match resolveInside (suffixRest j) with
      | none => "err"
      | some q => "ok /" ++ "/".intercalate (q.map str)
    if str j ≠ joined || str k ≠ js || (inside ≠ "-" && r ≠ inside) then
      IO.println s!"MISMATCH {n}: cwd={cwd} p={p}\n  real  join={joined} js={js} resolve_inside={inside}\n  model join={str j} js={str k} resolve_inside={r}"
      loop h (n + 1) (bad + 1)
    else loop h (n + 1) bad
  | _ => IO.println s!"bad line {n}: {l}"; loop h (n + 1) (bad + 1)
/-- `modeld tcid`: lines `hex id <TAB> true|false` (did the real TcCache get as far as building a path for this id?) against `validId` -/
partial def idLoop (h : IO.FS.Stream) (n bad : Nat) : IO Nat := do
  let line ← h.getLine
  if line.isEmpty then return bad
  match (line.dropEnd 1).toString.splitOn "\t" with
  | [hx, acc] =>
    let hexVal (c : Char) : Nat := if c.isDigit then c.toNat - '0'.toNat else c.toNat - 'a'.toNat + 10
    let rec go : List Char → Bytes
      | a :: b :: rest => UInt8.ofNat (hexVal a * 16 + hexVal b) :: go rest
      | _ => []
    let id : Bytes := if hx == "e" then [] else go hx.toList
    let m := if validId id then "true" else "false"
    if m != acc then
      IO.println s!"MISMATCH {n}: id {hx}: real accepted={acc} model validId={m}"
      idLoop h (n + 1) (bad + 1)
    else idLoop h (n + 1) bad
  | _ => idLoop h (n + 1) (bad + 1)
def mainIds : IO Unit := do
  let bad ← idLoop (← IO.getStdin) 1 0
  IO.println s!"mismatches: {bad}"

def main : IO Unit := do
  let bad ← loop (← IO.getStdin) 1 0
  IO.println s!"mismatches: {bad}"

end DrvPaths
