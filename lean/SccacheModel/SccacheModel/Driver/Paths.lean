import SccacheModel.Model.Paths

namespace DrvPaths
open PathsM

def str (b : Bytes) : String := String.ofList (b.map fun x => Char.ofNat x.toNat)
partial def loop (h : IO.FS.Stream) (n bad : Nat) : IO Nat := do
  let line ← h.getLine
  if line.isEmpty then return bad
  let l := (line.dropEnd 1).toString
  match l.splitOn "\t" with
  | [cwd, p, joined, js, _parent] =>
    let j := pjoin (s cwd) (s p)
    let k := joinSuffix (s "/srv/b/t") j
    if str j ≠ joined || str k ≠ js then
      IO.println s!"MISMATCH {n}: cwd={cwd} p={p}\n  real  join={joined} js={js}\n  model join={str j} js={str k}"
      loop h (n + 1) (bad + 1)
    else loop h (n + 1) bad
  | [cwd, p, joined, js, _parent, inside] =>
    let j := pjoin (s cwd) (s p)
    let k := joinSuffix (s "/srv/b/t") j
    let r := match resolveInside (suffixRest j) with
      | none => "err"
      | some q => "ok /" ++ "/".intercalate (q.map str)
    if str j ≠ joined || str k ≠ js || (inside ≠ "-" && r ≠ inside) then
      IO.println s!"MISMATCH {n}: cwd={cwd} p={p}\n  real  join={joined} js={js} resolve_inside={inside}\n  model join={str j} js={str k} resolve_inside={r}"
      loop h (n + 1) (bad + 1)
    else loop h (n + 1) bad
  | _ => IO.println s!"bad line {n}: {l}"; loop h (n + 1) (bad + 1)
def main : IO Unit := do
  let bad ← loop (← IO.getStdin) 1 0
  IO.println s!"mismatches: {bad}"

end DrvPaths
