import SccacheModel.Model.Entry

namespace DrvEntry
open EntryM

def hexVal (c : Char) : Nat := if c.isDigit then c.toNat - '0'.toNat else c.toNat - 'a'.toNat + 10
def unhex (s : String) : Bytes :=
  if s == "e" then [] else
  let rec go : List Char → Bytes
    | a :: b :: rest => UInt8.ofNat (hexVal a * 16 + hexVal b) :: go rest
    | _ => []
  go s.toList
def hexDigit (n : Nat) : Char := if n < 10 then Char.ofNat (48 + n) else Char.ofNat (87 + n)
def hx (b : Bytes) : String := String.ofList (b.flatMap fun x => [hexDigit (x.toNat / 16), hexDigit (x.toNat % 16)])
-- line: member;member;...   member = namehex:mode|none:framehex
partial def loop (h : IO.FS.Stream) : IO Unit := do
  let line ← h.getLine
  if line.isEmpty then return ()
  let l := line.trimAscii.toString
  let ms := if l == "-" then [] else (l.splitOn ";").map fun m =>
    match m.splitOn ":" with
    | [n, md, f] => ({ name := unhex n, mode := if md == "none" then none else some md.toNat!, frame := unhex f } : Member)
    | _ => { name := [], mode := none, frame := [] }
  IO.println (hx (archive ms))
  loop h
def main : IO Unit := do loop (← IO.getStdin)

end DrvEntry
