import SccacheModel.Model.Manifest

namespace DrvManifest
open ManifestM


def hexNat (s : String) : Nat := s.foldl (fun acc c => acc * 16 + (if c.isDigit then c.toNat - 48 else c.toNat - 87)) 0

def parseRec (s : String) : Inc :=
  match s.splitOn ":" with
  | [i, d, sz, rec, mt, ct] =>
    let r := rec == "1"
    { path := i.toNat!, digest := hexNat d, size := sz.toNat!, mtime := if r then some mt.toNat! else none, ctime := if r then some ct.toNat! else none }
  | _ => { path := 0, digest := 0, size := 0, mtime := none, ctime := none }

def parseCur (toks : List String) : FS := fun p =>
  toks.findSome? fun t =>
    match t.splitOn ":" with
    | [i, d, sz, mt, ct, hd, ht, hs] =>
      if i.toNat! == p then some { content := hexNat d, size := sz.toNat!, mtime := mt.toNat!, ctime := ct.toNat!, hasDate := hd == "1", hasTime := ht == "1", hasTimestamp := hs == "1" } else none
    | _ => none

partial def loop (h : IO.FS.Stream) (n bad : Nat) : IO Nat := do
  let line ← h.getLine
  if line.isEmpty then return bad
  let l := line.trimAscii.toString
  match l.splitOn " | " with
  | [cfgS, recS, curS, hitS] =>
    let c := cfgS.splitOn " "
    let cfg : Cfg := ⟨c[0]! == "1", c[1]! == "1", c[2]! == "1"⟩
    let incs := (recS.splitOn " ").map parseRec
    let fs := parseCur (curS.splitOn " ")
    let m := resultMatches cfg fs incs
    if (if m then "1" else "0") ≠ hitS then
      IO.println s!"MISMATCH line {n}: {l}\n   model: {m}"
      loop h (n + 1) (bad + 1)
    else loop h (n + 1) bad
  | _ => IO.println s!"bad line {n}"; loop h (n + 1) (bad + 1)

def main : IO Unit := do
  let bad ← loop (← IO.getStdin) 1 0
  IO.println s!"mismatches: {bad}"

end DrvManifest
