import SccacheModel.Model.Stats

namespace DrvStats
open StatsM

/-! diff of the statistics model against `--show-stats` of the real server after real request histories -/
def dispOf : String → Option Disp
  | "miss" => some (.executed (.miss .normal true))
  | "hit" => some (.executed .hit)
  | "forced" => some (.executed (.miss .forcedRecache true))
  | "forcedro" => some (.executed (.miss .forcedRecache false))      -- a forced re-store on a read-only cache: the store is refused
  | "missro" => some (.executed (.miss .normal false))
  | "fail" => some (.executed .errProcess)
  | "pperr" => some (.executed .errorPP)
  | "fatal" => some (.executed .errFatal)
  | "notcacheable" => some .notCacheable
  | "notcompile" => some .notCompile
  | "unsupported" => some .unsupported
  | _ => none
def counters : List Counter :=
  [.compileRequests, .unsupported, .notCompile, .notCacheable, .executed, .cacheErrors, .cacheHits, .cacheMisses,
   .cacheTimeouts, .nonCacheableCompilations, .forcedRecaches, .cacheWriteErrors, .cacheWrites, .compilations, .compileFails]
partial def loop (h : IO.FS.Stream) (n bad reqs : Nat) : IO (Nat × Nat × Nat) := do
  let line ← h.getLine
  if line.isEmpty then return (n, bad, reqs)
  match (line.dropEnd 1).toString.splitOn "\t" with
  | [ops, real] =>
    -- `--zero-stats` resets: only the requests after the last one count
    let toks := ops.splitOn " "
    let after := (toks.reverse.takeWhile (· != "zero")).reverse
    let ds := after.filterMap dispOf
    let st := statsOf (ds.flatMap incsOfRequest)
    let model := " ".intercalate (counters.map fun c => toString (st c))
    if model != real then
      IO.println s!"MISMATCH {n}: {ops}\n  real  {real}\n  model {model}"
      loop h (n + 1) (bad + 1) (reqs + toks.length)
    else loop h (n + 1) bad (reqs + toks.length)
  | _ => loop h (n + 1) (bad + 1) reqs
def main : IO Unit := do
  let (n, bad, reqs) ← loop (← IO.getStdin) 0 0 0
  IO.println s!"histories: {n} operations: {reqs} mismatches: {bad}"

end DrvStats
