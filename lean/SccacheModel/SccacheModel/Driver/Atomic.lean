import SccacheModel.Model.Atomic

namespace DrvAtomic
open AtomicM

def obsStr : Obs → String
  | .none => "-"
  | .miss t => s!"miss {t}"
  | .ioErr t => s!"ioErr {t}"
  | .hit t c => s!"hit {t} {c.key}:{c.val}:{c.written}/{c.total}"

/-- canonical observation: index bits of keys 0..3, bound key files with their content, number of temp names -/
def dump (s : Sys) : String :=
  let idx := String.join ((List.range 4).map fun k => if s.idx k then "1" else "0")
  let files := (List.range 4).filterMap fun k =>
    (s.names (.key k)).map fun i => let c := s.inodes i; s!"{k}={c.key}:{c.val}:{c.written}/{c.total}"
  let temps := ((List.range s.nextTmp).filter fun t => (s.names (.tmp t)).isSome).length
  s!"idx={idx} files={",".intercalate files} temps={temps}"

def parseAct (toks : List String) : Option Act :=
  match toks with
  | ["spawnPut", t, k, v, n] => some (.spawnPut t.toNat! k.toNat! v.toNat! n.toNat!)
  | ["spawnGet", t, k] => some (.spawnGet t.toNat! k.toNat!)
  | ["putPrepare", t] => some (.putPrepare t.toNat!)
  | ["putWrite", t] => some (.putWrite t.toNat!)
  | ["putCommit", t] => some (.putCommit t.toNat!)
  | ["putAbort", t] => some (.putAbort t.toNat!)
  | ["getOpen", t] => some (.getOpen t.toNat!)
  | ["getRead", t] => some (.getRead t.toNat!)
  | ["extOpen", t] => some (.extOpen t.toNat!)
  | ["evict", k] => some (.evict k.toNat!)
  | ["crash"] => some .crash
  | _ => none

partial def loop (h : IO.FS.Stream) (s : Sys) (lineNo bad : Nat) : IO Nat := do
  let line ← h.getLine
  if line.isEmpty then return bad
  let l := line.trimAscii.toString
  if l == "new" then loop h Sys.init (lineNo + 1) bad else
  let parts := l.splitOn " | "
  let lr := parts[0]!.splitOn " -> "
  let toks := (lr[0]!.splitOn " ").filter (· ≠ "")
  match parseAct toks with
  | none =>
    IO.println s!"MISMATCH line {lineNo}: bad-op {l}"
    loop h s (lineNo + 1) (bad + 1)
  | some a =>
    let (s', o) := step s a
    let r := obsStr o
    let d := dump s'
    -- `*` = this step is not observable from outside (the real call is one blocking unit)
    if (lr[1]! ≠ "*" && r ≠ lr[1]!) || (parts[1]! ≠ "*" && d ≠ parts[1]!) then
      IO.println s!"MISMATCH line {lineNo}: {l}\n   model: {r} | {d}"
      loop h s' (lineNo + 1) (bad + 1)
    else loop h s' (lineNo + 1) bad

def main : IO Unit := do
  let bad ← loop (← IO.getStdin) Sys.init 1 0
  IO.println s!"mismatches: {bad}"
end DrvAtomic
