import SccacheModel.Gen.RustArgs

namespace DrvRustArgs
open RArgsM

def hexVal (c : Char) : Nat := if c.isDigit then c.toNat - '0'.toNat else c.toNat - 'a'.toNat + 10
def unhex (s : String) : Bytes :=
  if s == "e" then [] else
  let rec go : List Char → Bytes
    | a :: b :: rest => UInt8.ofNat (hexVal a * 16 + hexVal b) :: go rest
    | _ => []
  go s.toList
def hexDigit (n : Nat) : Char := if n < 10 then Char.ofNat (48 + n) else Char.ofNat (87 + n)
def hx (b : Bytes) : String :=
  if b.isEmpty then "e" else String.ofList (b.flatMap fun x => [hexDigit (x.toNat / 16), hexDigit (x.toNat % 16)])
def lst (l : List String) : String := if l.isEmpty then "-" else ",".intercalate l
def unlist (s : String) : List Bytes := if s == "-" then [] else (s.splitOn ",").map unhex
def opt (o : Option Bytes) : String := match o with | some b => hx b | none => "~"
def txt (b : Bytes) : String := String.ofList (b.map fun x => Char.ofNat x.toNat)
def b01 (b : Bool) : String := if b then "1" else "0"

def render : Res → String
  | .notCompilation => "not_compilation"
  | .cannotCache why => s!"cannot_cache {txt why}"
  | .ok st staticlibs depInfo prof gcnoF =>
    let args := st.args.map fun (a : Bytes × Option Bytes) => s!"{hx a.1}:{match a.2 with | some v => hx v | none => "~"}"
    let emit := ((st.emit.getD []).mergeSort leB |> dedup).map hx
    s!"ok args={lst args} out_dir={hx (st.outDir.getD [])} externs={lst (st.externs.map hx)} link_paths={lst (st.linkPaths.map hx)} staticlibs={lst (staticlibs.map hx)} crate_name={hx (st.crateName.getD [])} rlib={b01 st.rlib} staticlib={b01 st.staticlib} dep_info={opt depInfo} profile={opt prof} gcno={opt gcnoF} emit={lst emit} color={match st.color with | .on => "on" | .off => "off" | .auto => "auto"} json={b01 st.json} target_json={opt st.targetJson}"

/-- line: `cwd(hex) <TAB> argv (hex list) <TAB> existing paths (hex list) <TAB> real result` -/
partial def loop (h : IO.FS.Stream) (n bad : Nat) : IO (Nat × Nat) := do
  let line ← h.getLine
  if line.isEmpty then return (n, bad)
  match (line.dropEnd 1).toString.splitOn "\t" with
  | [cwd, argv, ex, real] =>
    let existing := unlist ex
    let m := render (parseArguments rustArgs allowedEmit (fun p => existing.contains p) (unhex cwd) (unlist argv))
    if m != real then
      IO.println s!"MISMATCH line {n + 1}: argv={(unlist argv).map txt}\n  real  {real}\n  model {m}"
      loop h (n + 1) (bad + 1)
    else loop h (n + 1) bad
  | _ => IO.println s!"bad line {n + 1}"; loop h (n + 1) (bad + 1)
def main : IO Unit := do
  let (n, bad) ← loop (← IO.getStdin) 0 0
  IO.println s!"cases: {n} mismatches: {bad}"

end DrvRustArgs
