import SccacheModel.Model.Tokens

namespace DrvTokens
open TokensM

/-- at a quiescent point the helper thread has handed over every token it could: grant until nothing is enabled;
    a granted request counts as running at once (the harness holds the `Acquired` itself) -/
def settleFuel : Nat → Pool → Pool
  | 0, p => p
  | f + 1, p =>
    match p.queue with
    | [] => p
    | w :: _ =>
      if p.avail = 0 then p else
      let p1 := tstep p .grant
      let p2 := if w.cancelled then p1 else tstep p1 (.spawnOk w.id)
      settleFuel f p2

def sortNat (l : List Nat) : List Nat := (l.toArray.qsort (· < ·)).toList
def render (p : Pool) : String :=
  let hs := ",".intercalate ((sortNat p.holding).map toString)
  let ws := ",".intercalate ((sortNat ((p.queue.filter (!·.cancelled)).map (·.id))).map toString)
  s!"holders=[{hs}] waiting=[{ws}]"

partial def loop (h : IO.FS.Stream) (p : Pool) (n bad : Nat) : IO Nat := do
  let line ← h.getLine
  if line.isEmpty then return bad
  let l := line.trimAscii.toString
  match l.splitOn " " with
  | ["new", k] => loop h (Pool.init k.toNat!) (n + 1) bad
  | _ =>
    let parts := l.splitOn " | "
    let toks := ((parts[0]!.splitOn " -> ")[0]!.splitOn " ").filter (· ≠ "")
    match toks with
    | ["request"] => loop h (tstep p .request) (n + 1) bad
    | ["cancel", i] => loop h (tstep p (.cancel i.toNat!)) (n + 1) bad
    | ["exit", i] => loop h (tstep p (.exit i.toNat!)) (n + 1) bad
    | ["settle"] =>
      let p' := settleFuel (p.queue.length + 1) p
      if render p' ≠ parts[1]! then
        IO.println s!"MISMATCH line {n}: {l}\n   model: {render p'}"
        loop h p' (n + 1) (bad + 1)
      else loop h p' (n + 1) bad
    | ["refill"] =>
      -- everything was released: the model pool must be full again after settling
      let p0 := { p with queue := [], holding := [], running := [], avail := p.n }
      let expect := s!"refilled={p0.n} extra=false"
      if parts[1]! ≠ expect then
        IO.println s!"MISMATCH line {n}: {l}\n   model: {expect}"
        loop h p0 (n + 1) (bad + 1)
      else loop h p0 (n + 1) bad
    | ["longwait"] =>
      -- the model has no clock: a queued request with an empty pool stays queued however long it waits
      if parts[1]! ≠ "through=false" then
        IO.println s!"MISMATCH line {n}: {l}\n   model: through=false (waiting never produces a token)"
        loop h p (n + 1) (bad + 1)
      else loop h p (n + 1) bad
    | _ => IO.println s!"MISMATCH line {n}: bad-op {l}"; loop h p (n + 1) (bad + 1)

def main : IO Unit := do
  let bad ← loop (← IO.getStdin) (Pool.init 0) 1 0
  IO.println s!"mismatches: {bad}"
end DrvTokens
