import SccacheModel.Model.Key

namespace DrvKey
open CK


def hexVal (c : Char) : Nat := if c.isDigit then c.toNat - '0'.toNat else c.toNat - 'a'.toNat + 10
def unhex (s : String) : Bytes :=
  let rec go : List Char → Bytes
    | a :: b :: rest => UInt8.ofNat (hexVal a * 16 + hexVal b) :: go rest
    | _ => []
  go s.toList
def hexDigit (n : Nat) : Char := if n < 10 then Char.ofNat (48 + n) else Char.ofNat (87 + n)
def tohex (b : Bytes) : String := String.ofList (b.flatMap fun x => [hexDigit (x.toNat / 16), hexDigit (x.toNat % 16)])

def hexList (s : String) : List Bytes := if s == "-" then [] else (s.splitOn ",").map fun x => if x == "e" then [] else unhex x

-- line: digesthex plusplus lang args extra envk envv pphex   (lists comma separated, "-" = empty list, "e" = empty element)
partial def loop (h : IO.FS.Stream) : IO Unit := do
  let line ← h.getLine
  if line.isEmpty then return ()
  match line.trimAscii.toString.splitOn " " with
  | [d, pp, l, args, extra, ek, ev, text] =>
    let env := (hexList ek).zip (hexList ev)
    match langOfName l with
    | none => IO.println "bad-op"
    | some lang =>
      let r : CReq := { digest := unhex d, plusplus := pp == "1", lang := lang, args := hexList args,
                        extra := hexList extra, env := env, pp := if text == "-" then [] else unhex text }
      IO.println (tohex (encHash r))
  | ["pre", ign, d, pp, l, args, extra, ek, ev, path, idig, hasTime] =>
    match langOfName l with
    | none => IO.println "bad-op"
    | some lang =>
      let env := (hexList ek).zip (hexList ev)
      let r : PReq := { digest := unhex d, plusplus := pp == "1", lang := lang, args := hexList args, extra := hexList extra,
                        env := env, path := unhex path, inputDigest := unhex idig, hasTime := hasTime == "1" }
      match encPre (ign == "1") r with
      | none => IO.println "none"
      | some b => IO.println (tohex b)
  | _ => IO.println "bad-op"
  loop h

def main : IO Unit := do loop (← IO.getStdin)

end DrvKey
