import SccacheModel.Model.RustKey

namespace DrvFraming
open RustKeyM

def hexVal (c : Char) : Nat := if c.isDigit then c.toNat - '0'.toNat else c.toNat - 'a'.toNat + 10
def unhex (s : String) : Bytes :=
  if s == "e" then [] else
  let rec go : List Char → Bytes
    | a :: b :: rest => UInt8.ofNat (hexVal a * 16 + hexVal b) :: go rest
    | _ => []
  go s.toList
partial def loop (h : IO.FS.Stream) (n bad : Nat) : IO (Nat × Nat) := do
  let line ← h.getLine
  if line.isEmpty then return (n, bad)
  match (line.dropEnd 1).toString.splitOn "\t" with
  | [kind, inp, out] =>
    let i := unhex inp
    let m := match kind with | "path" => encPath i | "os" => encArg i | _ => encStr i
    if m != unhex out then
      IO.println s!"MISMATCH {kind} {inp}: real {out} model {m}"
      loop h (n + 1) (bad + 1)
    else loop h (n + 1) bad
  | _ => loop h (n + 1) (bad + 1)
def main : IO Unit := do
  let (n, bad) ← loop (← IO.getStdin) 0 0
  IO.println s!"cases: {n} mismatches: {bad}"

end DrvFraming
