import SccacheModel.Model.Args

/-! Reading a Make-quoted dependency target back (`makeQuote`, fix F-C01-o): `makeUnquote (makeQuote t) = t`. -/
namespace ArgsM

/-- how Make reads a target back: `$$` is `$` (`d` = the previous byte was the first `$` of a pair); a backslash before `#` goes;
    of 2n+1 backslashes before white space n stay; `k` = backslashes seen and not yet emitted -/
def makeUnquoteGo : Nat → Bool → Bytes → Bytes
  | k, _, [] => List.replicate k 92
  | k, d, c :: r =>
    if d && c == 36 then makeUnquoteGo 0 false r
    else if c == 92 then makeUnquoteGo (k + 1) false r
    else if c == 32 || c == 9 then List.replicate (k / 2) 92 ++ c :: makeUnquoteGo 0 false r
    else if c == 35 then List.replicate (k - 1) 92 ++ c :: makeUnquoteGo 0 false r
    else if c == 36 then List.replicate k 92 ++ c :: makeUnquoteGo 0 true r
    else List.replicate k 92 ++ c :: makeUnquoteGo 0 false r

def makeUnquote (q : Bytes) : Bytes := makeUnquoteGo 0 false q

theorem unq_replicate (m : Nat) : ∀ (k : Nat) (rest : Bytes), makeUnquoteGo k false (List.replicate m 92 ++ rest) = makeUnquoteGo (k + m) false rest := by
  induction m with
  | zero => intro k rest; simp
  | succ m ih =>
    intro k rest
    have h : ((92 : UInt8) == 36) = false := by decide
    simp only [List.replicate_succ, List.cons_append, makeUnquoteGo, Bool.false_and, Bool.false_eq_true, if_false, beq_self_eq_true, if_true]
    rw [ih (k + 1) rest]
    congr 1; omega

theorem replicate_snoc (k : Nat) (x : UInt8) (l : Bytes) : List.replicate (k + 1) x ++ l = List.replicate k x ++ x :: l := by
  rw [List.replicate_succ']; simp

/-- **round trip**: reading the quoted target back the way Make does gives the target — for every byte string -/
theorem unquote_quote (t : Bytes) : ∀ k, makeUnquoteGo k false (makeQuoteGo k t) = List.replicate k 92 ++ t := by
  induction t with
  | nil => intro k; simp [makeQuoteGo, makeUnquoteGo]
  | cons c r ih =>
    intro k
    by_cases h92 : c = 92
    · subst h92
      have hw : ((92 : UInt8) == 32 || (92 : UInt8) == 9) = false := by decide
      have h36 : ((92 : UInt8) == 36) = false := by decide
      have h35 : ((92 : UInt8) == 35) = false := by decide
      simp only [makeQuoteGo, hw, h36, h35, Bool.false_eq_true, if_false, List.nil_append, beq_self_eq_true, if_true, makeUnquoteGo, Bool.false_and]
      rw [ih (k + 1), replicate_snoc]
    · have hne : (c == 92) = false := by simp [h92]
      by_cases hws : (c == 32 || c == 9) = true
      · simp only [makeQuoteGo, hws, if_true, hne, Bool.false_eq_true, if_false]
        rw [unq_replicate (k + 1) k]
        simp only [makeUnquoteGo, Bool.false_and, hne, Bool.false_eq_true, if_false, hws, if_true]
        rw [ih 0]
        have : (k + (k + 1)) / 2 = k := by omega
        rw [this]; simp
      · have hws' : (c == 32 || c == 9) = false := by cases h : (c == 32 || c == 9) <;> simp_all
        by_cases h36 : c = 36
        · subst h36
          have h35 : ((36 : UInt8) == 35) = false := by decide
          simp only [makeQuoteGo, hws', Bool.false_eq_true, if_false, beq_self_eq_true, if_true, hne, List.cons_append, List.nil_append, makeUnquoteGo, h35, Bool.false_and, Bool.true_and]
          rw [ih 0]; simp
        · have hne36 : (c == 36) = false := by simp [h36]
          by_cases h35 : c = 35
          · subst h35
            simp only [makeQuoteGo, hws', Bool.false_eq_true, if_false, hne36, beq_self_eq_true, if_true, hne, List.cons_append, List.nil_append]
            have h1 := unq_replicate 1 k ((35 : UInt8) :: makeQuoteGo 0 r)
            simp only [List.replicate_one, List.cons_append, List.nil_append] at h1
            rw [h1]
            have hh : ((35 : UInt8) == 92) = false := by decide
            have hw : ((35 : UInt8) == 32 || (35 : UInt8) == 9) = false := by decide
            have hd : ((35 : UInt8) == 36) = false := by decide
            simp only [makeUnquoteGo, hh, hw, hd, Bool.false_and, Bool.false_eq_true, if_false, beq_self_eq_true, if_true]
            rw [ih 0]; simp
          · have hne35 : (c == 35) = false := by simp [h35]
            simp only [makeQuoteGo, hws', Bool.false_eq_true, if_false, hne36, hne35, hne, List.nil_append, makeUnquoteGo, Bool.false_and]
            rw [ih 0]; simp

/-- what Make reads back from the quoted dependency target is the object path (for valid UTF-8 paths, the ones that get quoted) -/
theorem makeUnquote_makeQuote (t : Bytes) (h : RArgsM.validUtf8 t = true) : makeUnquote (makeQuote t) = t := by
  simp only [makeUnquote, makeQuote, h, if_true]
  have := unquote_quote t 0
  simpa using this
end ArgsM
