import SccacheModel.Model.Atomic

namespace AtomicM


theorem ainv_init : AInv Sys.init := by
  refine ⟨?_, ?_, ?_, ?_⟩ <;> simp [Sys.init]

/-- threads-only updates that do not create a writer or a reader keep the invariant -/
theorem ainv_threads_upd (s : Sys) (h : AInv s) (tid : Nat) (th : Thread)
    (hw : ∀ k v t i n, th ≠ .putWriting k v t i n) (hr : ∀ k i, th ≠ .getReading k i) :
    AInv { s with threads := upd s.threads tid th } := by
  refine ⟨h.bound, ?_, ?_, ?_⟩
  · intro tid' k' v' t i tot ht
    simp only [upd] at ht
    split at ht
    · exact absurd ht (hw _ _ _ _ _)
    · exact h.writer tid' k' v' t i tot ht
  · intro t1 t2 k1 v1 p1 i1 n1 k2 v2 p2 i2 n2 h1 h2 hne
    simp only [upd] at h1 h2
    split at h1
    · exact absurd h1 (hw _ _ _ _ _)
    · split at h2
      · exact absurd h2 (hw _ _ _ _ _)
      · exact h.writersDistinct _ _ _ _ _ _ _ _ _ _ _ _ h1 h2 hne
  · intro tid' k' i ht
    simp only [upd] at ht
    split at ht
    · exact absurd ht (hr _ _)
    · exact h.reader tid' k' i ht

theorem inv_spawnPut (s : Sys) (h : AInv s) (tid k v total : Nat) : AInv (spawnPut s tid k v total).1 := by
  unfold spawnPut
  split
  · exact ainv_threads_upd s h tid _ (by intros; simp) (by intros; simp)
  · exact h

theorem inv_spawnGet (s : Sys) (h : AInv s) (tid k : Nat) : AInv (spawnGet s tid k).1 := by
  unfold spawnGet
  split
  · exact ainv_threads_upd s h tid _ (by intros; simp) (by intros; simp)
  · exact h

theorem inv_getRead (s : Sys) (h : AInv s) (tid : Nat) : AInv (getRead s tid).1 := by
  unfold getRead
  split
  · exact ainv_threads_upd s h tid _ (by intros; simp) (by intros; simp)
  · exact h

theorem inv_getOpen (s : Sys) (h : AInv s) (tid : Nat) : AInv (getOpen s tid).1 := by
  unfold getOpen
  split
  · rename_i k hth
    split
    · split
      · rename_i i hi
        -- a new reader on inode `i`, which is bound at key `k`
        have hb := h.bound k i hi
        refine ⟨h.bound, ?_, ?_, ?_⟩
        · intro tid' k' v' t i' tot ht
          simp only [upd] at ht
          split at ht
          · cases ht
          · exact h.writer tid' k' v' t i' tot ht
        · intro t1 t2 k1 v1 p1 i1 n1 k2 v2 p2 i2 n2 h1 h2 hne
          simp only [upd] at h1 h2
          split at h1
          · cases h1
          · split at h2
            · cases h2
            · exact h.writersDistinct _ _ _ _ _ _ _ _ _ _ _ _ h1 h2 hne
        · intro tid' k' i' ht
          simp only [upd] at ht
          split at ht
          · cases ht; exact hb
          · exact h.reader tid' k' i' ht
      · exact ainv_threads_upd s h tid _ (by intros; simp) (by intros; simp)
    · exact ainv_threads_upd s h tid _ (by intros; simp) (by intros; simp)
  · exact h

theorem inv_extOpen (s : Sys) (h : AInv s) (tid : Nat) : AInv (extOpen s tid).1 := by
  unfold extOpen
  split
  · rename_i k hth
    split
    · rename_i i hi
      have hb := h.bound k i hi
      refine ⟨h.bound, ?_, ?_, ?_⟩
      · intro tid' k' v' t i' tot ht
        simp only [upd] at ht
        split at ht
        · cases ht
        · exact h.writer tid' k' v' t i' tot ht
      · intro t1 t2 k1 v1 p1 i1 n1 k2 v2 p2 i2 n2 h1 h2 hne
        simp only [upd] at h1 h2
        split at h1
        · cases h1
        · split at h2
          · cases h2
          · exact h.writersDistinct _ _ _ _ _ _ _ _ _ _ _ _ h1 h2 hne
      · intro tid' k' i' ht
        simp only [upd] at ht
        split at ht
        · cases ht; exact hb
        · exact h.reader tid' k' i' ht
    · exact ainv_threads_upd s h tid _ (by intros; simp) (by intros; simp)
  · exact h

theorem inv_evict (s : Sys) (h : AInv s) (k : Nat) : AInv (evict s k).1 := by
  unfold evict
  refine ⟨?_, ?_, h.writersDistinct, h.reader⟩
  · intro k' i hi
    simp only [upd] at hi
    split at hi
    · cases hi
    · exact h.bound k' i hi
  · intro tid k' v t i tot ht
    obtain ⟨h1, h2, h3, h4, h5, h6⟩ := h.writer tid k' v t i tot ht
    refine ⟨h1, h2, h3, h4, h5, ?_⟩
    intro k''
    simp only [upd]
    split
    · simp
    · exact h6 k''

theorem inv_crash (s : Sys) (h : AInv s) : AInv (crash s).1 := by
  unfold crash
  refine ⟨?_, ?_, ?_, ?_⟩
  · intro k i hi; exact h.bound k i hi
  · intro tid k v t i tot ht; cases ht
  · intro t1 t2 k1 v1 p1 i1 n1 k2 v2 p2 i2 n2 h1; cases h1
  · intro tid k i ht; cases ht

theorem inv_putAbort (s : Sys) (h : AInv s) (tid : Nat) : AInv (putAbort s tid).1 := by
  unfold putAbort
  split
  · rename_i k v t i n hth
    have base : AInv { s with threads := upd s.threads tid .done } :=
      ainv_threads_upd s h tid _ (by intros; simp) (by intros; simp)
    refine ⟨?_, ?_, base.writersDistinct, base.reader⟩
    · intro k' i' hi
      simp only [upd] at hi
      split at hi
      · cases hi
      · exact h.bound k' i' hi
    · intro tid' k' v' t' i' tot ht
      obtain ⟨h1, h2, h3, h4, h5, h6⟩ := base.writer tid' k' v' t' i' tot ht
      refine ⟨h1, h2, h3, h4, h5, ?_⟩
      intro k''
      simp only [upd]
      split
      · simp
      · exact h6 k''
  · exact h

theorem inv_putPrepare (s : Sys) (h : AInv s) (tid : Nat) : AInv (putPrepare s tid).1 := by
  unfold putPrepare
  split
  · rename_i k v total hth
    refine ⟨?_, ?_, ?_, ?_⟩
    · -- bound names are key names: untouched by the new temp name; their inodes are below nextIno
      intro k' i hi
      simp only [upd] at hi
      split at hi
      · rename_i heq; cases heq
      · have hb := h.bound k' i hi
        have hne : i ≠ s.nextIno := by omega
        simp only [upd, hne, if_false]
        exact ⟨by omega, hb.2.1, hb.2.2⟩
    · intro tid' k' v' t i tot ht
      simp only [upd] at ht
      split at ht
      · cases ht
        refine ⟨by simp, by simp, by simp [upd], by simp [upd], by simp [upd], ?_⟩
        intro k''
        simp only [upd]
        split
        · rename_i heq; cases heq
        · intro hc
          have := (h.bound k'' s.nextIno hc).1
          omega
      · obtain ⟨h1, h2, h3, h4, h5, h6⟩ := h.writer tid' k' v' t i tot ht
        have hne : i ≠ s.nextIno := by omega
        refine ⟨by simp; omega, by simp; omega, by simp [upd, hne, h3], by simp [upd, hne, h4], by simp [upd, hne, h5], ?_⟩
        intro k''
        simp only [upd]
        split
        · rename_i heq; cases heq
        · exact h6 k''
    · intro t1 t2 k1 v1 p1 i1 n1 k2 v2 p2 i2 n2 h1 h2 hne
      simp only [upd] at h1 h2
      split at h1
      · cases h1
        split at h2
        · rename_i e1 e2; exact absurd (e1.trans e2.symm) hne
        · have := (h.writer _ _ _ _ _ _ h2).1
          omega
      · split at h2
        · cases h2
          have := (h.writer _ _ _ _ _ _ h1).1
          omega
        · exact h.writersDistinct _ _ _ _ _ _ _ _ _ _ _ _ h1 h2 hne
    · intro tid' k' i ht
      simp only [upd] at ht
      split at ht
      · cases ht
      · obtain ⟨h1, h2, h3⟩ := h.reader tid' k' i ht
        have hne : i ≠ s.nextIno := by omega
        simp only [upd, hne, if_false]
        exact ⟨by omega, h2, h3⟩
  · exact h

theorem inv_putWrite (s : Sys) (h : AInv s) (tid : Nat) : AInv (putWrite s tid).1 := by
  unfold putWrite
  split
  · rename_i k v t i n hth
    split
    · rename_i hlt
      obtain ⟨w1, w2, w3, w4, w5, w6⟩ := h.writer tid k v t i n hth
      refine ⟨?_, ?_, h.writersDistinct, ?_⟩
      · intro k' i' hi
        have hb := h.bound k' i' hi
        have hne : i' ≠ i := by intro e; subst e; exact w6 k' hi
        simp only [upd, hne, if_false]
        exact hb
      · intro tid' k' v' t' i' tot ht
        obtain ⟨h1, h2, h3, h4, h5, h6⟩ := h.writer tid' k' v' t' i' tot ht
        refine ⟨h1, h2, ?_, ?_, ?_, h6⟩ <;>
        · simp only [upd]
          split
          · rename_i e; subst e; simp [*]
          · assumption
      · intro tid' k' i' ht
        obtain ⟨h1, h2, h3⟩ := h.reader tid' k' i' ht
        have hne : i' ≠ i := by intro e; subst e; omega
        simp only [upd, hne, if_false]
        exact ⟨h1, h2, h3⟩
    · exact h
  · exact h

theorem inv_putCommit (s : Sys) (h : AInv s) (tid : Nat) : AInv (putCommit s tid).1 := by
  unfold putCommit
  split
  · rename_i k v t i n hth
    split
    · rename_i hfull
      obtain ⟨w1, w2, w3, w4, w5, w6⟩ := h.writer tid k v t i n hth
      refine ⟨?_, ?_, ?_, ?_⟩
      · intro k' i' hi
        simp only [upd] at hi
        split at hi
        · rename_i e; cases e; cases hi
          exact ⟨w1, w3, hfull⟩
        · split at hi
          · cases hi
          · exact h.bound k' i' hi
      · intro tid' k' v' t' i' tot ht
        simp only [upd] at ht
        split at ht
        · cases ht
        · rename_i hne
          obtain ⟨h1, h2, h3, h4, h5, h6⟩ := h.writer tid' k' v' t' i' tot ht
          have hii : i ≠ i' := h.writersDistinct tid tid' _ _ _ _ _ _ _ _ _ _ hth ht (fun e => hne e.symm)
          refine ⟨h1, h2, h3, h4, h5, ?_⟩
          intro k''
          simp only [upd]
          split
          · intro e; cases e; exact hii rfl
          · split
            · simp
            · exact h6 k''
      · intro t1 t2 k1 v1 p1 i1 n1 k2 v2 p2 i2 n2 h1 h2 hne
        simp only [upd] at h1 h2
        split at h1
        · cases h1
        · split at h2
          · cases h2
          · exact h.writersDistinct _ _ _ _ _ _ _ _ _ _ _ _ h1 h2 hne
      · intro tid' k' i' ht
        simp only [upd] at ht
        split at ht
        · cases ht
        · exact h.reader tid' k' i' ht
    · exact h
  · exact h

theorem inv_step (s : Sys) (h : AInv s) (a : Act) : AInv (step s a).1 := by
  cases a with
  | spawnPut tid k v total => exact inv_spawnPut s h tid k v total
  | spawnGet tid k => exact inv_spawnGet s h tid k
  | putPrepare tid => exact inv_putPrepare s h tid
  | putWrite tid => exact inv_putWrite s h tid
  | putCommit tid => exact inv_putCommit s h tid
  | putAbort tid => exact inv_putAbort s h tid
  | getOpen tid => exact inv_getOpen s h tid
  | getRead tid => exact inv_getRead s h tid
  | extOpen tid => exact inv_extOpen s h tid
  | evict k => exact inv_evict s h k
  | crash => exact inv_crash s h

theorem inv_run (acts : List Act) : ∀ s, AInv s → AInv (run s acts) := by
  induction acts with
  | nil => intro s h; exact h
  | cons a as ih => intro s h; exact ih _ (inv_step s h a)

/-- C06 `get_complete`: for every interleaving of any number of puts, gets, evictions and crashes,
    whatever a lookup returns is the complete value of a store to that key -/
theorem get_complete : GetComplete := by
  intro acts a tid c s hobs
  have hinv : AInv s := inv_run acts Sys.init ainv_init
  cases a with
  | getRead tid' =>
    simp only [step, getRead] at hobs
    split at hobs
    · rename_i k i hth
      cases hobs
      exact ⟨k, i, hth, (hinv.reader tid k i hth).2.1, (hinv.reader tid k i hth).2.2⟩
    · cases hobs
  | getOpen tid' =>
    simp only [step, getOpen] at hobs
    split at hobs
    · split at hobs
      · split at hobs <;> cases hobs
      · cases hobs
    · cases hobs
  | extOpen tid' =>
    simp only [step, extOpen] at hobs
    split at hobs
    · split at hobs <;> cases hobs
    · cases hobs
  | spawnPut _ _ _ _ => simp only [step, spawnPut] at hobs; split at hobs <;> cases hobs
  | spawnGet _ _ => simp only [step, spawnGet] at hobs; split at hobs <;> cases hobs
  | putPrepare _ => simp only [step, putPrepare] at hobs; split at hobs <;> cases hobs
  | putWrite _ => simp only [step, putWrite] at hobs; split at hobs <;> (try split at hobs) <;> cases hobs
  | putCommit _ => simp only [step, putCommit] at hobs; split at hobs <;> (try split at hobs) <;> cases hobs
  | putAbort _ => simp only [step, putAbort] at hobs; split at hobs <;> cases hobs
  | evict _ => simp only [step, evict] at hobs; cases hobs
  | crash => simp only [step, crash] at hobs; cases hobs

/-- C06 `crash_safe` -/
theorem crash_safe : CrashSafe := by
  intro acts
  have hinv : AInv (run Sys.init acts) := inv_run acts Sys.init ainv_init
  refine ⟨fun t => rfl, fun k => rfl, ?_⟩
  intro k i hi
  exact (hinv.bound k i hi).2

#print axioms get_complete
#print axioms crash_safe

/-- non-vacuity: a concrete schedule with two overlapping stores to key 7 and a reader that opened
    before the second commit; the reader gets the complete first value, a later reader the second -/
def demoActs : List Act :=
  [.spawnPut 0 7 100 2, .putPrepare 0, .putWrite 0, .spawnPut 1 7 200 1, .putPrepare 1, .putWrite 0,
   .putCommit 0, .spawnGet 2 7, .getOpen 2, .putWrite 1, .putCommit 1, .spawnGet 3 7, .getOpen 3]

example : (match (step (run Sys.init demoActs) (.getRead 2)).2 with
           | .hit _ c => c.val == 100 && c.written == 2 && c.total == 2 | _ => false) = true := by decide
example : (match (step (run Sys.init demoActs) (.getRead 3)).2 with
           | .hit _ c => c.val == 200 && c.written == 1 | _ => false) = true := by decide
/-- a crash in the middle of the second store leaves key 7 bound to the complete first value and no temp name -/
example : (let s := (step (run Sys.init (demoActs.take 10)) .crash).1
           (s.names (.tmp 1)).isNone && (match s.names (.key 7) with | some i => (s.inodes i).val == 100 | none => false)) = true := by decide

end AtomicM
