import SccacheModel.Gen.Args

namespace ArgsM

/-! Proofs (design round): statements about the *generated* argument tables (re-checked whenever the translator
    regenerates them from `gcc.rs` / `clang.rs`). -/

/-- C01 `unhashed_policy`: in the tables generated from `gcc.rs` and `clang.rs` **no** flag is classified
    `Unhashed`/`UnhashedFlag` today (the class exists in the parser and its arguments reach the compiler without
    reaching the key). A change that moves any flag into that class breaks this theorem; the check then asks
    whether the flag can influence the outputs. -/
theorem unhashed_policy :
    List.all (gccArgs ++ clangArgs) (fun (i : ArgInfo) => !(i.variant == Variant.unhashed || i.variant == Variant.unhashedFlag)) = true := by
  decide +kernel

/-- no two entries of a table share a name (the lookup of `ArgsIter` would otherwise depend on table order) -/
theorem tables_names_distinct :
    List.Pairwise (fun (a b : ArgInfo) => a.name ≠ b.name) gccArgs ∧ List.Pairwise (fun (a b : ArgInfo) => a.name ≠ b.name) clangArgs := by
  decide +kernel

#print axioms unhashed_policy

end ArgsM
