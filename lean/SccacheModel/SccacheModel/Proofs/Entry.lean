import SccacheModel.Model.EntryRead

namespace EntryM

/-! Proofs (design round): C08 `roundtrip` — the reader model returns exactly what the writer model stored. -/

theorem u8_toNat_ofNat (k : Nat) (h : k < 256) : (UInt8.ofNat k).toNat = k := by
  simp [UInt8.toNat_ofNat', Nat.mod_eq_of_lt h]

theorem rd16_le (n : Nat) (h : n < 65536) :
    rd16 (UInt8.ofNat (n % 256)) (UInt8.ofNat (n / 256 % 256)) = n := by
  unfold rd16
  rw [u8_toNat_ofNat _ (Nat.mod_lt _ (by decide)), u8_toNat_ofNat _ (Nat.mod_lt _ (by decide))]
  omega

theorem rd32_le (n : Nat) (h : n < 4294967296) :
    rd32 (UInt8.ofNat (n % 256)) (UInt8.ofNat (n / 256 % 256)) (UInt8.ofNat (n / 65536 % 256))
      (UInt8.ofNat (n / 16777216 % 256)) = n := by
  unfold rd32
  rw [u8_toNat_ofNat _ (Nat.mod_lt _ (by decide)), u8_toNat_ofNat _ (Nat.mod_lt _ (by decide)),
    u8_toNat_ofNat _ (Nat.mod_lt _ (by decide)), u8_toNat_ofNat _ (Nat.mod_lt _ (by decide))]
  omega

def recOf (m : Member) (off : Nat) : CRec :=
  { system := 3, flags := flagOf m, method := 0, crc := crc32 m.frame, csize := m.frame.length,
    ext := permsOf m * 65536, offset := off, name := m.name }

theorem crc32_lt (d : Bytes) : crc32 d < 4294967296 := by
  unfold crc32; exact (crcBV d).isLt

theorem permsOf_lt (m : Member) : permsOf m * 65536 < 4294967296 := by
  unfold permsOf; cases m.mode <;> simp <;> omega

theorem flagOf_lt (m : Member) : flagOf m < 65536 := by
  unfold flagOf; split <;> omega

theorem parseCentral_central (m : Member) (off : Nat) (rest : Bytes)
    (hn : m.name.length < 65536) (hf : m.frame.length < 4294967296) (ho : off < 4294967296)
    (hu : validUtf8 m.name = true) :
    parseCentral (centralHeader m off ++ rest) = some (recOf m off, rest) := by
  have hdec : nameDecodesToItself (flagOf m) m.name = true := by
    unfold nameDecodesToItself flagOf
    by_cases ha : isAscii m.name = true
    · simp [ha]
    · simp [ha, hu]
  simp only [centralHeader, le16, le32, dosTime, dosDate, List.cons_append, List.nil_append, List.append_assoc,
    parseCentral]
  simp only [rd16_le _ hn, rd16_le _ (flagOf_lt m), rd32_le _ (crc32_lt _), rd32_le _ hf, rd32_le _ ho,
    rd32_le _ (permsOf_lt m)]
  simp [recOf, rd16, hdec]

def localsOf (ms : List Member) : Bytes := ms.flatMap fun m => localHeader m ++ m.frame
def cdOfLay (lay : List (Member × Nat)) : Bytes := lay.flatMap fun (m, off) => centralHeader m off
def eocdBytes (n cdl ll : Nat) : Bytes :=
  [80, 75, 5, 6] ++ le16 0 ++ le16 0 ++ le16 n ++ le16 n ++ le32 cdl ++ le32 ll ++ le16 0

theorem archive_eq (ms : List Member) :
    archive ms = (localsOf ms ++ cdOfLay (layout 0 ms)) ++
      eocdBytes ms.length (cdOfLay (layout 0 ms)).length (localsOf ms).length := by
  simp [archive, localsOf, cdOfLay, eocdBytes, List.append_assoc]

theorem eocd_length (n cdl ll : Nat) : (eocdBytes n cdl ll).length = 22 := by
  simp [eocdBytes, le16, le32]

/-- every laid-out member sits at its recorded offset in the local section -/
theorem layout_split (ms : List Member) (base : Nat) (m : Member) (off : Nat) (h : (m, off) ∈ layout base ms) :
    ∃ pre post, localsOf ms = pre ++ (localHeader m ++ m.frame) ++ post ∧ base + pre.length = off := by
  induction ms generalizing base with
  | nil => simp [layout] at h
  | cons x xs ih =>
    simp only [layout, List.mem_cons, Prod.mk.injEq] at h
    rcases h with ⟨rfl, rfl⟩ | h
    · exact ⟨[], localsOf xs, by simp [localsOf], by simp⟩
    · obtain ⟨pre, post, he, hl⟩ := ih _ h
      refine ⟨(localHeader x ++ x.frame) ++ pre, post, ?_, ?_⟩
      · simp only [localsOf, List.flatMap_cons] at he ⊢
        rw [he]; simp [List.append_assoc]
      · simp only [List.length_append] at hl ⊢; omega

theorem layout_fst (ms : List Member) (base : Nat) : (layout base ms).map Prod.fst = ms := by
  induction ms generalizing base with
  | nil => simp [layout]
  | cons x xs ih => simp [layout, ih]

theorem layout_length (ms : List Member) (base : Nat) : (layout base ms).length = ms.length := by
  rw [← List.length_map (f := Prod.fst), layout_fst]

theorem parseCentrals_cd (lay : List (Member × Nat)) (tail : Bytes)
    (hb : ∀ p ∈ lay, p.1.name.length < 65536 ∧ p.1.frame.length < 4294967296 ∧ p.2 < 4294967296 ∧
      validUtf8 p.1.name = true) :
    parseCentrals lay.length (cdOfLay lay ++ tail) = some (lay.map fun p => recOf p.1 p.2) := by
  induction lay with
  | nil => simp [parseCentrals]
  | cons p ps ih =>
    obtain ⟨m, off⟩ := p
    have hp := hb (m, off) (by simp)
    have : cdOfLay ((m, off) :: ps) ++ tail = centralHeader m off ++ (cdOfLay ps ++ tail) := by
      simp [cdOfLay, List.append_assoc]
    rw [this]
    simp only [List.length_cons, parseCentrals, parseCentral_central m off _ hp.1 hp.2.1 hp.2.2.1 hp.2.2.2]
    rw [ih (fun q hq => hb q (by simp [hq]))]
    simp

theorem unixMode_recOf (m : Member) (off : Nat) : unixMode (recOf m off) = some (permsOf m) := by
  have hp : 32768 ≤ permsOf m := by unfold permsOf; cases m.mode <;> simp
  have h0 : permsOf m * 65536 ≠ 0 := by omega
  simp [unixMode, recOf, h0]

/-- reading the stored bytes of a member whose local record starts at `r.offset` -/
theorem getStored_at (bs : Bytes) (rs : List CRec) (m : Member) (off : Nat) (post : Bytes)
    (hfind : findRec rs m.name = some (recOf m off))
    (hdrop : bs.drop off = localHeader m ++ m.frame ++ post)
    (hn : m.name.length < 65536) :
    getStored { bytes := bs, recs := rs } m.name = some (m.frame, some (permsOf m)) := by
  unfold getStored
  simp only [hfind]
  have hfl : flagOf m % 2 = 0 := by unfold flagOf; split <;> rfl
  simp only [recOf, hfl, hdrop]
  simp only [localHeader, le16, le32, dosTime, dosDate, List.cons_append, List.nil_append, List.append_assoc]
  simp only [rd16_le _ hn]
  have h0 : rd16 (UInt8.ofNat (0 % 256)) (UInt8.ofNat (0 / 256 % 256)) = 0 := by decide
  simp only [h0, Nat.add_zero]
  have : (List.drop m.name.length (m.name ++ (m.frame ++ post))) = m.frame ++ post := List.drop_left' rfl
  rw [this, List.take_left' rfl]
  have := unixMode_recOf m off
  simp [recOf] at this
  simp [this]

theorem inj_of_nodup_map {α β} (f : α → β) (l : List α) (h : (l.map f).Nodup) :
    ∀ x ∈ l, ∀ y ∈ l, f x = f y → x = y := by
  induction l with
  | nil => simp
  | cons a as ih =>
    simp only [List.map_cons, List.nodup_cons, List.mem_map, not_exists, not_and] at h
    intro x hx y hy hxy
    simp only [List.mem_cons] at hx hy
    rcases hx with rfl | hx <;> rcases hy with rfl | hy
    · rfl
    · exact absurd hxy.symm (h.1 y hy)
    · exact absurd hxy (h.1 x hx)
    · exact ih h.2 x hx y hy hxy

theorem findRec_unique (rs : List CRec) (r : CRec) (hr : r ∈ rs) (hnd : (rs.map (·.name)).Nodup) :
    findRec rs r.name = some r := by
  unfold findRec
  have hsome : (rs.reverse.find? (·.name == r.name)).isSome := by
    rw [List.find?_isSome]; exact ⟨r, by simp [hr], by simp⟩
  obtain ⟨x, hx⟩ := Option.isSome_iff_exists.mp hsome
  have hxm : x ∈ rs := by simpa using List.mem_of_find?_eq_some hx
  have hxp : x.name = r.name := by simpa using List.find?_some hx
  rw [hx, inj_of_nodup_map (·.name) rs hnd x hxm r hr hxp]

theorem findRec_none (rs : List CRec) (nm : Bytes) (h : nm ∉ rs.map (·.name)) : findRec rs nm = none := by
  unfold findRec
  rw [List.find?_eq_none]
  intro x hx
  simp only [List.mem_reverse] at hx
  simp only [beq_iff_eq]
  intro he
  exact h (by simp only [List.mem_map]; exact ⟨x, hx, he⟩)

theorem parseEocd_eocd (n cdl ll : Nat) (hn : n < 65536) (hc : cdl < 4294967296) (hl : ll < 4294967296) :
    parseEocd (eocdBytes n cdl ll) =
      some { disk := 0, cdDisk := 0, count := n, cdSize := cdl, cdOffset := ll, commentLen := 0 } := by
  simp only [eocdBytes, le16, le32, List.cons_append, List.nil_append, parseEocd]
  simp only [rd16_le _ hn, rd32_le _ hc, rd32_le _ hl]
  have h0 : rd16 (UInt8.ofNat (0 % 256)) (UInt8.ofNat (0 / 256 % 256)) = 0 := by decide
  have h00 : rd16 0 0 = 0 := by decide
  simp [h0, h00]

theorem sigAt_eocd (pre : Bytes) (n cdl ll : Nat) :
    sigAt (pre ++ eocdBytes n cdl ll) pre.length [80, 75, 5, 6] = true := by
  unfold sigAt
  rw [List.drop_left' rfl]
  simp [eocdBytes]

/-- the well-formedness conditions under which the writer's output is within the plain (non-ZIP64) format,
    plus the one thing the reader can mistake: a ZIP64 locator signature 20 bytes before the end record -/
structure WF (ms : List Member) : Prop where
  names_nodup : (ms.map (·.name)).Nodup
  name_len : ∀ m ∈ ms, m.name.length < 65536
  name_utf8 : ∀ m ∈ ms, validUtf8 m.name = true          -- object keys are Rust `&str`s
  count : ms.length < 65536
  total : (archive ms).length < 4294967296
  no_zip64_sig : sigAt (archive ms) ((archive ms).length - 42) [80, 75, 6, 7] = false

theorem layout_bounds (ms : List Member) (h : WF ms) :
    ∀ p ∈ layout 0 ms, p.1.name.length < 65536 ∧ p.1.frame.length < 4294967296 ∧ p.2 < 4294967296 ∧
      validUtf8 p.1.name = true := by
  intro p hp
  obtain ⟨m, off⟩ := p
  have hm : m ∈ ms := by
    have : m ∈ (layout 0 ms).map Prod.fst := List.mem_map.mpr ⟨(m, off), hp, rfl⟩
    rwa [layout_fst] at this
  obtain ⟨pre, post, he, hl⟩ := layout_split ms 0 m off hp
  have htot := h.total
  rw [archive_eq] at htot
  simp only [List.length_append, he, eocd_length] at htot
  simp only [Nat.zero_add] at hl
  refine ⟨h.name_len m hm, ?_, ?_, h.name_utf8 m hm⟩
  · show m.frame.length < 4294967296; omega
  · show off < 4294967296; omega

/-- opening depends on the local section only through its length (and the ZIP64 probe): `L` is arbitrary here -/
theorem openArchive_gen (ms : List Member) (h : WF ms) (L : Bytes) (hLlen : L.length = (localsOf ms).length)
    (hz : sigAt (L ++ cdOfLay (layout 0 ms) ++ eocdBytes ms.length (cdOfLay (layout 0 ms)).length L.length)
            ((L ++ cdOfLay (layout 0 ms) ++ eocdBytes ms.length (cdOfLay (layout 0 ms)).length L.length).length - 42)
            [80, 75, 6, 7] = false) :
    openArchive (L ++ cdOfLay (layout 0 ms) ++ eocdBytes ms.length (cdOfLay (layout 0 ms)).length L.length) =
      some { bytes := L ++ cdOfLay (layout 0 ms) ++ eocdBytes ms.length (cdOfLay (layout 0 ms)).length L.length,
             recs := (layout 0 ms).map fun p => recOf p.1 p.2 } := by
  have htot := h.total
  rw [archive_eq] at htot
  have hpc0 := parseCentrals_cd (layout 0 ms) (eocdBytes ms.length (cdOfLay (layout 0 ms)).length L.length)
    (layout_bounds ms h)
  generalize hC : cdOfLay (layout 0 ms) = C at *
  have hlen : (L ++ C ++ eocdBytes ms.length C.length L.length).length = (L ++ C).length + 22 := by
    simp only [List.length_append, eocd_length]
  have hLC : (L ++ C).length = L.length + C.length := List.length_append
  simp only [List.length_append, eocd_length] at htot
  simp only [hlen] at hz
  unfold openArchive
  have h22 : ¬ (L ++ C ++ eocdBytes ms.length C.length L.length).length < 22 := by omega
  simp only [hlen, h22, if_false, Nat.add_sub_cancel]
  have hfind : findEocd (L ++ C ++ eocdBytes ms.length C.length L.length) (L ++ C).length 65535 = some (L ++ C).length := by
    unfold findEocd; rw [if_pos (sigAt_eocd (L ++ C) _ _ _)]
  simp only [hfind]
  rw [List.drop_left' rfl, parseEocd_eocd _ _ _ h.count (by omega) (by omega)]
  have he : (L ++ C).length + 22 - 42 = L.length + C.length - 20 := by omega
  rw [he, List.append_assoc] at hz
  have hdropL : List.drop L.length (L ++ C ++ eocdBytes ms.length C.length L.length) = C ++ eocdBytes ms.length C.length L.length := by
    rw [List.append_assoc]; exact List.drop_left' rfl
  rw [layout_length] at hpc0
  simp only [hLC, hdropL, hpc0]
  simp [hz, List.append_assoc]
  omega

theorem openArchive_archive (ms : List Member) (h : WF ms) :
    openArchive (archive ms) =
      some { bytes := archive ms, recs := (layout 0 ms).map fun p => recOf p.1 p.2 } := by
  have hz := h.no_zip64_sig
  rw [archive_eq] at hz ⊢
  exact openArchive_gen ms h (localsOf ms) rfl hz

theorem rec_names (ms : List Member) (base : Nat) :
    ((layout base ms).map fun p => recOf p.1 p.2).map (·.name) = ms.map (·.name) := by
  induction ms generalizing base with
  | nil => simp [layout]
  | cons x xs ih => simp only [layout, List.map_cons, ih]; simp [recOf]

/-- C08 `roundtrip`: for **every** list of members satisfying `WF`, opening the written archive succeeds, every
    member comes back with exactly its stored bytes and `(mode & 0o777) | 0o100000`, and no other name resolves -/
theorem roundtrip (ms : List Member) (h : WF ms) :
    ∃ a, openArchive (archive ms) = some a ∧
      (∀ m ∈ ms, getStored a m.name = some (m.frame, some (permsOf m))) ∧
      (∀ nm, nm ∉ ms.map (·.name) → getStored a nm = none) := by
  refine ⟨_, openArchive_archive ms h, ?_, ?_⟩
  · intro m hm
    have hmem : m ∈ (layout 0 ms).map Prod.fst := by rw [layout_fst]; exact hm
    obtain ⟨⟨m', off⟩, hp, rfl⟩ := List.mem_map.mp hmem
    obtain ⟨pre, post, he, hl⟩ := layout_split ms 0 m' off hp
    have hnames := rec_names ms 0
    have hfind := findRec_unique ((layout 0 ms).map fun p => recOf p.1 p.2) (recOf m' off)
      (List.mem_map.mpr ⟨(m', off), hp, rfl⟩) (by rw [hnames]; exact h.names_nodup)
    apply getStored_at _ _ m' off (post ++ cdOfLay (layout 0 ms) ++ eocdBytes ms.length (cdOfLay (layout 0 ms)).length (localsOf ms).length)
    · exact hfind
    · rw [archive_eq, he]
      simp only [Nat.zero_add] at hl
      subst hl
      simp only [List.append_assoc]
      exact List.drop_left' rfl
    · exact h.name_len m' hm
  · intro nm hnm
    have hnames := rec_names ms 0
    unfold getStored
    rw [findRec_none _ nm (by rw [hnames]; exact hnm)]


/-! ### single-byte substitution inside a member's stored bytes is always detected -/

theorem set_at {α} (p s : List α) (a b : α) : (p ++ a :: s).set p.length b = p ++ b :: s := by
  induction p with
  | nil => rfl
  | cons x xs ih => simp [ih]

theorem crc32_single_byte (pre suf : Bytes) (a b : UInt8) (hab : a ≠ b) :
    crc32 (pre ++ [a] ++ suf) ≠ crc32 (pre ++ [b] ++ suf) := by
  unfold crc32
  intro h
  exact crc_single_byte pre suf a b hab (BitVec.eq_of_toNat_eq h)

/-- a member whose stored bytes do not have the declared CRC is refused -/
theorem getStored_bad (bs : Bytes) (rs : List CRec) (m : Member) (off : Nat) (stored post : Bytes)
    (hfind : findRec rs m.name = some (recOf m off))
    (hdrop : bs.drop off = localHeader m ++ stored ++ post)
    (hlen : stored.length = m.frame.length)
    (hcrc : crc32 stored ≠ crc32 m.frame)
    (hn : m.name.length < 65536) :
    getStored { bytes := bs, recs := rs } m.name = none := by
  unfold getStored
  simp only [hfind]
  have hfl : flagOf m % 2 = 0 := by unfold flagOf; split <;> rfl
  simp only [recOf, hfl, hdrop]
  simp only [localHeader, le16, le32, dosTime, dosDate, List.cons_append, List.nil_append, List.append_assoc]
  simp only [rd16_le _ hn]
  have h0 : rd16 (UInt8.ofNat (0 % 256)) (UInt8.ofNat (0 / 256 % 256)) = 0 := by decide
  simp only [h0, Nat.add_zero]
  have : (List.drop m.name.length (m.name ++ (stored ++ post))) = stored ++ post := List.drop_left' rfl
  rw [this, List.take_left' hlen]
  simp [hcrc]

theorem cd_len_ge (lay : List (Member × Nat)) : 46 * lay.length ≤ (cdOfLay lay).length := by
  induction lay with
  | nil => simp [cdOfLay]
  | cons p ps ih =>
    have : cdOfLay (p :: ps) = centralHeader p.1 p.2 ++ cdOfLay ps := by simp [cdOfLay]
    rw [this, List.length_append, List.length_cons]
    have : 46 ≤ (centralHeader p.1 p.2).length := by simp [centralHeader, le16, le32, dosTime, dosDate]
    omega

theorem sigAt_skip (L L' X : Bytes) (k : Nat) (sig : Bytes) (h : L'.length = L.length) :
    sigAt (L' ++ X) (L.length + k) sig = sigAt (L ++ X) (L.length + k) sig := by
  unfold sigAt
  rw [List.drop_length_add_append, ← h, List.drop_length_add_append]

/-- C08 `payload_substitution_detected`: in the archive of any well-formed entry, replacing any one byte inside any
    member's stored bytes by a different value leaves an archive that still opens but from which that member can
    no longer be read (the CRC-32 of the central directory no longer matches) -/
theorem payload_substitution_detected (ms : List Member) (h : WF ms) (m : Member) (off : Nat)
    (hp : (m, off) ∈ layout 0 ms) (i : Nat) (hi : i < m.frame.length) (b : UInt8) (hb : b ≠ m.frame[i]) :
    ∃ a, openArchive ((archive ms).set (off + (localHeader m).length + i) b) = some a ∧
      getStored a m.name = none := by
  obtain ⟨pre, post, he, hl⟩ := layout_split ms 0 m off hp
  simp only [Nat.zero_add] at hl
  have hm : m ∈ ms := by
    have : m ∈ (layout 0 ms).map Prod.fst := List.mem_map.mpr ⟨(m, off), hp, rfl⟩
    rwa [layout_fst] at this
  -- split the frame at i
  obtain ⟨f1, f2, a, hfr, hf1, hba⟩ : ∃ f1 f2 a, m.frame = f1 ++ a :: f2 ∧ f1.length = i ∧ b ≠ a :=
    ⟨m.frame.take i, m.frame.drop (i + 1), m.frame[i],
      by rw [List.getElem_cons_drop, List.take_append_drop],
      by simp only [List.length_take]; omega, hb⟩
  have hflen : m.frame.length = f1.length + (f2.length + 1) := by
    have := congrArg List.length hfr
    simpa using this
  generalize hC : cdOfLay (layout 0 ms) = C
  generalize hE : eocdBytes ms.length C.length (localsOf ms).length = E
  -- the archive around the changed byte
  have harch : archive ms = (pre ++ localHeader m ++ f1) ++ a :: (f2 ++ post ++ C ++ E) := by
    rw [archive_eq, hC, hE, he, hfr]
    simp [List.append_assoc]
  have hPlen : (pre ++ localHeader m ++ f1).length = off + (localHeader m).length + i := by
    simp only [List.length_append]; omega
  rw [harch, ← hPlen, set_at]
  -- the new local section
  have hstoredlen : (f1 ++ b :: f2).length = m.frame.length := by
    simp only [List.length_append, List.length_cons]; omega
  have hL'len : (pre ++ (localHeader m ++ (f1 ++ b :: f2)) ++ post).length = (localsOf ms).length := by
    rw [he]; simp only [List.length_append, hstoredlen]
  generalize hL' : pre ++ (localHeader m ++ (f1 ++ b :: f2)) ++ post = L' at hL'len
  have hnew : (pre ++ localHeader m ++ f1) ++ b :: (f2 ++ post ++ C ++ E) =
      L' ++ C ++ eocdBytes ms.length C.length L'.length := by
    rw [hL'len, hE, ← hL']; simp [List.append_assoc]
  rw [hnew]
  -- the ZIP64 probe looks at the same bytes as before
  have hcd : 46 ≤ C.length := by
    have := cd_len_ge (layout 0 ms)
    have hpos : 0 < (layout 0 ms).length := List.length_pos_of_mem hp
    rw [hC] at this; omega
  have hz := h.no_zip64_sig
  rw [archive_eq, hC] at hz
  have hlenA : ∀ (X : Bytes), X.length = (localsOf ms).length →
      (X ++ C ++ eocdBytes ms.length C.length X.length).length - 42 = (localsOf ms).length + (C.length - 20) := by
    intro X hX; simp only [List.length_append, eocd_length, hX]; omega
  have hz' : sigAt (L' ++ C ++ eocdBytes ms.length C.length L'.length)
      ((L' ++ C ++ eocdBytes ms.length C.length L'.length).length - 42) [80, 75, 6, 7] = false := by
    rw [hlenA L' hL'len, hL'len, List.append_assoc, sigAt_skip (localsOf ms) L' _ _ _ hL'len]
    rw [hlenA _ rfl, List.append_assoc] at hz
    exact hz
  have hopen := openArchive_gen ms h L' hL'len (by rw [hC]; exact hz')
  rw [hC] at hopen
  refine ⟨_, hopen, ?_⟩
  have hfind := findRec_unique ((layout 0 ms).map fun p => recOf p.1 p.2) (recOf m off)
    (List.mem_map.mpr ⟨(m, off), hp, rfl⟩) (by rw [rec_names]; exact h.names_nodup)
  apply getStored_bad _ _ m off (f1 ++ b :: f2) (post ++ C ++ eocdBytes ms.length C.length L'.length) hfind
  · subst hl
    rw [← hL']
    simp only [List.append_assoc]
    exact List.drop_left' rfl
  · exact hstoredlen
  · have := crc32_single_byte f1 f2 b a hba
    intro hc
    apply this
    rw [hfr] at hc
    simpa [List.append_assoc] using hc
  · exact h.name_len m hm

#print axioms roundtrip
#print axioms payload_substitution_detected

/-! ### non-vacuity and the excluded point -/

def exObj : Member := { name := [111, 98, 106], mode := some 33261, frame := [40, 181, 47, 253, 1, 2, 3] }   -- "obj", 0o100755
def exErr : Member := { name := [115, 116, 100, 101, 114, 114], mode := none, frame := [9, 8] }            -- "stderr"

/-- the hypotheses of `roundtrip` are satisfiable by an ordinary entry -/
example : WF [exObj, exErr] := ⟨by decide, by decide, by decide, by decide, by decide +kernel, by decide +kernel⟩

/-- and the conclusion is what evaluation gives on it (a test, not the theorem) -/
example : (openArchive (archive [exObj, exErr])).bind (getStored · exObj.name) = some (exObj.frame, some 33261) := by
  decide +kernel

/-- the excluded point: a last member whose 20-byte name starts with the ZIP64 locator signature `PK\x06\x07`
    makes the real reader (and the model) look for a ZIP64 record; the entry cannot be opened at all -/
def exZip64Name : Member :=
  { name := [80, 75, 6, 7, 97, 97, 97, 97, 97, 97, 97, 97, 97, 97, 97, 97, 97, 97, 97, 97], mode := some 33188, frame := [1] }

theorem zip64_name_witness : openArchive (archive [exObj, exZip64Name]) = none ∧
    sigAt (archive [exObj, exZip64Name]) ((archive [exObj, exZip64Name]).length - 42) [80, 75, 6, 7] = true := by
  decide +kernel

end EntryM
