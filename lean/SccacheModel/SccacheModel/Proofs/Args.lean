import SccacheModel.Model.Args

namespace ArgsM

/-! Proofs (design round): no argument is lost, duplicated or moved between classes by the gcc/clang
    classification loop and the re-synthesised compile command (C01 `regen_partition`). -/

inductive Cls where | common | pre | dep | arch | unhashed | consumed
deriving Repr, DecidableEq

/-- the list an argument's strings are appended to by `parse_arguments` -/
def clsOf (a : Argument) : Cls :=
  match a.variant with
  | some .pedanticFlag | some .standard | some .diagnosticsColor | some .diagnosticsColorFlag
  | some .noDiagnosticsColorFlag | some .passThrough | some .passThroughFlag | some .passThroughPath
  | some .clangProfileUse | some .extraHashFile | some .splitDwarf | some .profileGenerate
  | some .testCoverage | some .coverage => .common
  | some .needDepTarget | some .depArgumentPath => .dep
  | some .arch => .arch
  | some .preprocessorArgument | some .preprocessorArgumentFlag | some .preprocessorArgumentPath => .pre
  | some .unhashed | some .unhashedFlag => .unhashed
  | some .tooHardFlag | some .tooHard | some .doCompilation | some .output | some .depTarget
  | some .serializeDiagnostics | some .language | some .xClang => .consumed
  | none => match a with
    | .raw _ => .consumed
    | _ => .common

def pick (c : Cls) (a : Argument) : List Bytes := if clsOf a = c then a.strings else []

theorem classifyCore_step (m : Bool) (st st' : St) (a : Argument) (h : classifyCore m st a = .ok st') :
    st'.common = st.common ++ pick .common a ∧ st'.pre = st.pre ++ pick .pre a ∧
    st'.dep = st.dep ++ pick .dep a ∧ st'.arch = st.arch ++ pick .arch a ∧
    st'.unhashed = st.unhashed ++ pick .unhashed a := by
  cases a with
  | raw s =>
    simp only [classifyCore, Argument.variant] at h
    split at h <;> (cases h; simp [pick, clsOf, Argument.variant])
  | unknownFlag s =>
    simp only [classifyCore, Argument.variant] at h
    cases h; simp [pick, clsOf, Argument.variant]
  | flag n v =>
    cases v <;> simp only [classifyCore, Argument.variant] at h <;>
      first
        | (cases h; done)
        | (cases h; simp [pick, clsOf, Argument.variant]; done)
        | (split at h
           all_goals first | (cases h; done) | (cases h; simp [pick, clsOf, Argument.variant]; done))
  | withValue n v val d =>
    cases v <;> simp only [classifyCore, Argument.variant] at h <;>
      first
        | (cases h; done)
        | (cases h; simp [pick, clsOf, Argument.variant]; done)
        | (split at h
           all_goals first | (cases h; done) | (cases h; simp [pick, clsOf, Argument.variant]; done))

theorem classify_step (m : Bool) (st st' : St) (a : Argument) (h : classify m st a = .ok st') :
    st'.common = st.common ++ pick .common a ∧ st'.pre = st.pre ++ pick .pre a ∧
    st'.dep = st.dep ++ pick .dep a ∧ st'.arch = st.arch ++ pick .arch a ∧
    st'.unhashed = st.unhashed ++ pick .unhashed a := by
  unfold classify at h
  split at h
  · cases h
  · exact classifyCore_step m st st' a h

theorem classifyAll_partition (m : Bool) (args : List Argument) :
    ∀ (st st' : St), classifyAll m st (args.map .ok) = .ok st' →
      st'.common = st.common ++ args.flatMap (pick .common) ∧ st'.pre = st.pre ++ args.flatMap (pick .pre) ∧
      st'.dep = st.dep ++ args.flatMap (pick .dep) ∧ st'.arch = st.arch ++ args.flatMap (pick .arch) ∧
      st'.unhashed = st.unhashed ++ args.flatMap (pick .unhashed) := by
  induction args with
  | nil => intro st st' h; simp only [List.map_nil, classifyAll] at h; cases h; simp
  | cons a as ih =>
    intro st st' h
    simp only [List.map_cons, classifyAll] at h
    split at h
    · rename_i st1 h1
      have s1 := classify_step m st st1 a h1
      have s2 := ih st1 st' h
      simp only [List.flatMap_cons]
      refine ⟨?_, ?_, ?_, ?_, ?_⟩
      · rw [s2.1, s1.1, List.append_assoc]
      · rw [s2.2.1, s1.2.1, List.append_assoc]
      · rw [s2.2.2.1, s1.2.2.1, List.append_assoc]
      · rw [s2.2.2.2.1, s1.2.2.2.1, List.append_assoc]
      · rw [s2.2.2.2.2, s1.2.2.2.2, List.append_assoc]
    · cases h

/-- C01 `regen_partition`: whenever a command line parses, the five argument lists of the result are the
    order-preserving sub-lists of the (normalised) arguments by class, plus the documented synthesised items
    (the split-dwarf define, the explicit dependency target and file) -/
theorem regen_partition (plusplus m : Bool) (args : List Argument) (p : Parsed) (st : St)
    (hc : classifyAll m {} (args.map .ok) = .ok st) (hf : finish plusplus st = .ok p) :
    p.pre = args.flatMap (pick .pre) ∧ p.arch = args.flatMap (pick .arch) ∧ p.unhashed = args.flatMap (pick .unhashed) ∧
    (∃ extra, p.common = args.flatMap (pick .common) ++ extra) ∧ (∃ extra, p.dep = args.flatMap (pick .dep) ++ extra) := by
  have hp := classifyAll_partition m args {} st hc
  simp only [List.nil_append] at hp
  have hpw : ∃ input lang, p = finishWith st input lang := by
    unfold finish at hf
    split at hf
    · cases hf
    · split at hf
      · cases hf
      · split at hf
        · cases hf
        · split at hf
          · cases hf
          · split at hf
            · cases hf
            · cases hf; exact ⟨_, _, rfl⟩
  obtain ⟨input, lang, rfl⟩ := hpw
  refine ⟨hp.2.1, hp.2.2.2.1, hp.2.2.2.2, ⟨_, by simp only [finishWith]; rw [hp.1]⟩, ⟨_, by simp only [finishWith]; rw [hp.2.2.1, List.append_assoc]⟩⟩

/-- C01 `hashed_covers`: every argument classified as common or arch is part of what `hash_key` is given
    (`common_args ++ arch_args`), in order -/
theorem hashed_covers (plusplus m : Bool) (args : List Argument) (p : Parsed) (st : St)
    (hc : classifyAll m {} (args.map .ok) = .ok st) (hf : finish plusplus st = .ok p)
    (a : Argument) (ha : a ∈ args) (hcls : clsOf a = .common ∨ clsOf a = .arch) :
    ∀ x ∈ a.strings, x ∈ p.common ++ p.arch := by
  obtain ⟨_, harch, _, ⟨e1, hcom⟩, _⟩ := regen_partition plusplus m args p st hc hf
  intro x hx
  rcases hcls with h | h
  · apply List.mem_append_left
    rw [hcom]
    apply List.mem_append_left
    exact List.mem_flatMap.mpr ⟨a, ha, by simp [pick, h, hx]⟩
  · apply List.mem_append_right
    rw [harch]
    exact List.mem_flatMap.mpr ⟨a, ha, by simp [pick, h, hx]⟩

#print axioms regen_partition
#print axioms hashed_covers

end ArgsM
