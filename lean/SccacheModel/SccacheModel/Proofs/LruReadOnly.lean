import SccacheModel.Proofs.Lru

namespace LruM

/-! Proofs (design round): read-only use of the disk cache (C15) on the validated LRU model:
    the only operations a read-only `DiskCache` performs are the lazy `init` (reopen) and `get`. -/
namespace Lru

theorem makeSpaceFuel_noop (f : Nat) (c : Lru) (n : Nat) (h : c.size + n ≤ c.cap) :
    makeSpaceFuel (f + 1) c n = (c, .ok) := by
  unfold makeSpaceFuel
  have : ¬ (c.size + n > c.cap) := by omega
  simp [this]

theorem addFile_fits (c : Lru) (k : Key) (n : Nat) (h : c.size + n ≤ c.cap) :
    (c.addFile k n).1.files = c.files ∧ (c.addFile k n).1.cap = c.cap ∧ (c.addFile k n).1.pendingSize = c.pendingSize ∧
    (c.addFile k n).1.lruSize ≤ c.lruSize + n := by
  have hn : ¬ n > c.cap := by omega
  have hms : c.makeSpace n = (c, .ok) := by
    unfold makeSpace
    simp only [hn, if_false]
    exact makeSpaceFuel_noop _ c n h
  unfold addFile
  rw [hms]
  simp only
  have hfit : c.lruSize + n ≤ c.cap := by simp only [size] at h; omega
  have hins := lruInsert_spec c k n hfit
  exact ⟨rfl, hins.2.2.2.1, hins.2.1, hins.1⟩

/-- C15 `ro_entries_unchanged`: opening a directory whose files fit the size limit deletes nothing -/
theorem reopen_keeps_files (c : Lru) (order : List (Key × Nat)) (hfit : (order.map (·.2)).sum ≤ c.cap) :
    (c.reopen order).files = order := by
  unfold reopen
  have key : ∀ (l : List (Key × Nat)) (acc : Lru), acc.pendingSize = 0 → acc.lruSize + (l.map (·.2)).sum ≤ acc.cap →
      (l.foldl (fun acc (kn : Key × Nat) => if kn.2 > acc.cap then { acc with files := eraseKey acc.files kn.1 } else (acc.addFile kn.1 kn.2).1) acc).files = acc.files := by
    intro l
    induction l with
    | nil => intro acc _ _; rfl
    | cons kn l ih =>
      intro acc hp hs
      simp only [List.foldl_cons, List.map_cons, List.sum_cons] at hs ⊢
      have hle : ¬ kn.2 > acc.cap := by omega
      simp only [hle, if_false]
      have hsz : acc.size + kn.2 ≤ acc.cap := by simp only [size, hp]; omega
      obtain ⟨hf, hc, hpend, hl⟩ := addFile_fits acc kn.1 kn.2 hsz
      rw [ih _ (by rw [hpend]; exact hp) (by rw [hc]; omega), hf]
  exact key order _ rfl (by simpa [lruSize] using hfit)

theorem get_keeps_files (c : Lru) (k : Key) : (c.get k).1.files = c.files := by
  unfold get
  split
  · rfl
  · split <;> rfl

/-- the read-write start-up scan (intended): a pre-populated directory larger than the size limit loses its oldest entry -/
theorem reopen_evicts_witness : (({ cap := 15 } : Lru).reopen [(1, 10), (2, 10)]).files = [(2, 10)] := by decide

/-- the start-up scan of a read-only cache keeps every file, whatever size limit is configured (the directory total is below 2^64 bytes) -/
theorem openReadOnly_keeps_files (c : Lru) (order : List (Key × Nat)) (h64 : (order.map (·.2)).sum ≤ u64Max) :
    (c.openReadOnly order).files = order := by
  unfold openReadOnly
  exact reopen_keeps_files _ order h64

/-- … and so does every sequence of lookups after it -/
theorem readOnly_session_keeps_files (c : Lru) (order : List (Key × Nat)) (ks : List Key) (h64 : (order.map (·.2)).sum ≤ u64Max) :
    (ks.foldl (fun acc k => (acc.get k).1) (c.openReadOnly order)).files = order := by
  have key : ∀ (ks : List Key) (a : Lru), (ks.foldl (fun acc k => (acc.get k).1) a).files = a.files := by
    intro ks
    induction ks with
    | nil => intro a; rfl
    | cons k ks ih => intro a; simp only [List.foldl_cons]; rw [ih, get_keeps_files]
  rw [key, openReadOnly_keeps_files c order h64]

end Lru

end LruM
