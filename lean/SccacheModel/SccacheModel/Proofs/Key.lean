import SccacheModel.Model.Key

namespace CK

/-! Proof spike: injectivity of the `hash_key` pre-image (C02). -/

theorem le64_length (n : Nat) : (le64 n).length = 8 := by simp [le64]

theorem le64_eq (n : Nat) : le64 n =
    [UInt8.ofNat (n % 256), UInt8.ofNat (n / 256 % 256), UInt8.ofNat (n / 256 ^ 2 % 256), UInt8.ofNat (n / 256 ^ 3 % 256),
     UInt8.ofNat (n / 256 ^ 4 % 256), UInt8.ofNat (n / 256 ^ 5 % 256), UInt8.ofNat (n / 256 ^ 6 % 256), UInt8.ofNat (n / 256 ^ 7 % 256)] := by
  simp [le64, List.range, List.range.loop]

theorem le64_inj (n m : Nat) (hn : n < 2 ^ 64) (hm : m < 2 ^ 64) (h : le64 n = le64 m) : n = m := by
  rw [le64_eq, le64_eq] at h
  simp only [List.cons.injEq, and_true] at h
  obtain ⟨h0, h1, h2, h3, h4, h5, h6, h7⟩ := h
  have e : ∀ a b : Nat, a < 256 → b < 256 → UInt8.ofNat a = UInt8.ofNat b → a = b := by
    intro a b ha hb hab
    have := congrArg UInt8.toNat hab
    simp [UInt8.toNat_ofNat'] at this
    omega
  have := e _ _ (Nat.mod_lt _ (by decide)) (Nat.mod_lt _ (by decide)) h0
  have := e _ _ (Nat.mod_lt _ (by decide)) (Nat.mod_lt _ (by decide)) h1
  have := e _ _ (Nat.mod_lt _ (by decide)) (Nat.mod_lt _ (by decide)) h2
  have := e _ _ (Nat.mod_lt _ (by decide)) (Nat.mod_lt _ (by decide)) h3
  have := e _ _ (Nat.mod_lt _ (by decide)) (Nat.mod_lt _ (by decide)) h4
  have := e _ _ (Nat.mod_lt _ (by decide)) (Nat.mod_lt _ (by decide)) h5
  have := e _ _ (Nat.mod_lt _ (by decide)) (Nat.mod_lt _ (by decide)) h6
  have := e _ _ (Nat.mod_lt _ (by decide)) (Nat.mod_lt _ (by decide)) h7
  omega

/-- L1: two streams that both start with an argument token agree on the token and on the rest -/
theorem encArg_head_inj (a b X Y : Bytes) (ha : a.length < 2 ^ 64) (hb : b.length < 2 ^ 64)
    (h : encArg a ++ X = encArg b ++ Y) : a = b ∧ X = Y := by
  simp only [encArg, List.append_assoc] at h
  have h8 : le64 a.length = le64 b.length := by
    have := congrArg (List.take 8) h
    rwa [List.take_left' (le64_length _), List.take_left' (le64_length _)] at this
  have hlen : a.length = b.length := le64_inj _ _ ha hb h8
  rw [h8, List.append_cancel_left_eq] at h
  have ht := congrArg (List.take a.length) h
  rw [List.take_left, hlen, List.take_left] at ht
  subst ht
  exact ⟨rfl, List.append_cancel_left h⟩

theorem le64_get7 (n : Nat) (h : n < 2 ^ 56) (X : Bytes) : (le64 n ++ X)[7]? = some 0 := by
  rw [le64_eq]
  have : n / 256 ^ 7 % 256 = 0 := by omega
  simp [this]

theorem hex_ne_zero (b : UInt8) (h : isHexLower b = true) : b ≠ 0 := by
  intro e; subst e; exact absurd h (by decide)

theorem all_hex_get (e : Bytes) (h : e.all isHexLower = true) (j : Nat) (hj : j < e.length) (X : Bytes) :
    ∃ b, (e ++ X)[j]? = some b ∧ b ≠ 0 := by
  refine ⟨e[j], ?_, ?_⟩
  · rw [List.getElem?_append_left hj]; simp
  · exact hex_ne_zero _ (List.all_eq_true.mp h _ (List.getElem_mem hj))

theorem nulfree_get (P : Bytes) (h : (0 : UInt8) ∉ P) (j : Nat) : P[j]? ≠ some 0 := by
  intro hc
  have := List.mem_of_getElem? hc
  exact h this

/-- C1: an argument token never looks like a 64-hex digest -/
theorem arg_vs_hex (b X e Y : Bytes) (hb : b.length < 2 ^ 56) (he : e.length = 64) (hh : e.all isHexLower = true) :
    encArg b ++ X ≠ e ++ Y := by
  intro h
  have h7 := congrArg (·[7]?) h
  simp only [encArg, List.append_assoc] at h7
  rw [le64_get7 _ hb] at h7
  obtain ⟨c, hc, hne⟩ := all_hex_get e hh 7 (by omega) Y
  rw [hc] at h7
  exact hne (Option.some.inj h7).symm

/-- C2: an argument token never is the beginning of NUL-free text -/
theorem arg_vs_nulfree (b X P : Bytes) (hb : b.length < 2 ^ 56) (hP : (0 : UInt8) ∉ P) : encArg b ++ X ≠ P := by
  intro h
  have h7 := congrArg (·[7]?) h
  simp only [encArg, List.append_assoc] at h7
  rw [le64_get7 _ hb] at h7
  exact nulfree_get P hP 7 h7.symm

def eqB : Bytes := [61]   -- "="

theorem eq_tok_get8 (v X : Bytes) (hv : v.length < 2 ^ 56) : (eqB ++ encArg v ++ X)[8]? = some 0 := by
  have := le64_get7 v.length hv (v ++ X)
  simp only [eqB, encArg, List.append_assoc, List.cons_append, List.nil_append]
  rw [List.getElem?_cons_succ]
  exact this

/-- C5: `"=" ++ token` never is the beginning of NUL-free text -/
theorem eqtok_vs_nulfree (v X P : Bytes) (hv : v.length < 2 ^ 56) (hP : (0 : UInt8) ∉ P) : eqB ++ encArg v ++ X ≠ P := by
  intro h
  have h8 : (eqB ++ encArg v ++ X)[8]? = _ := congrArg (·[8]?) h
  rw [eq_tok_get8 v X hv] at h8
  exact nulfree_get P hP 8 h8.symm

/-- C4: `"=" ++ token` never starts with a 64-hex digest -/
theorem eqtok_vs_hex (v X e Y : Bytes) (hv : v.length < 2 ^ 56) (he : e.length = 64) (hh : e.all isHexLower = true) :
    eqB ++ encArg v ++ X ≠ e ++ Y := by
  intro h
  have h8 : (eqB ++ encArg v ++ X)[8]? = _ := congrArg (·[8]?) h
  rw [eq_tok_get8 v X hv] at h8
  obtain ⟨c, hc, hne⟩ := all_hex_get e hh 8 (by omega) Y
  rw [hc] at h8
  exact hne (Option.some.inj h8).symm

/-- C3: `"=" ++ token` never starts with an argument token whose bytes are NUL-free -/
theorem eqtok_vs_arg (v X b Y : Bytes) (hv : v.length < 2 ^ 56) (hb : b.length < 2 ^ 56) (hnul : (0 : UInt8) ∉ b) :
    eqB ++ encArg v ++ X ≠ encArg b ++ Y := by
  intro h
  -- byte 0: the low byte of |b| is '=' so b is not empty
  have hbpos : 0 < b.length := by
    rcases Nat.eq_zero_or_pos b.length with hz | hp
    · have h0 : (eqB ++ encArg v ++ X)[0]? = (encArg b ++ Y)[0]? := congrArg (·[0]?) h
      have hb0 : b = [] := List.eq_nil_of_length_eq_zero hz
      subst hb0
      simp [eqB, encArg, le64_eq] at h0
    · exact hp
  -- byte 8: zero on the left, first byte of b on the right
  have h8 : (eqB ++ encArg v ++ X)[8]? = _ := congrArg (·[8]?) h
  rw [eq_tok_get8 v X hv] at h8
  have : (encArg b ++ Y)[8]? = some b[0] := by
    simp only [encArg, List.append_assoc]
    rw [List.getElem?_append_right (by simp [le64_length])]
    simp [le64_length, List.getElem?_append_left hbpos]
  rw [this] at h8
  have hmem : b[0] ∈ b := List.getElem_mem hbpos
  rw [← Option.some.inj h8] at hmem
  exact hnul hmem

/-! ### lockstep peeling -/

def envTok (kv : Bytes × Bytes) : Bytes := encArg kv.1 ++ eqB ++ encArg kv.2

def ArgOK (a : Bytes) : Prop := a.length < 2 ^ 56 ∧ (0 : UInt8) ∉ a
def HexOK (e : Bytes) : Prop := e.length = 64 ∧ e.all isHexLower = true
def EnvOK (kv : Bytes × Bytes) : Prop := ArgOK kv.1 ∧ ArgOK kv.2
def PayOK (P : Bytes) : Prop := (0 : UInt8) ∉ P ∧ startsWith64Hex P = false

def tail3 (E : List Bytes) (N : List (Bytes × Bytes)) (P : Bytes) : Bytes := E.flatten ++ N.flatMap envTok ++ P

theorem lt56_lt64 {n : Nat} (h : n < 2 ^ 56) : n < 2 ^ 64 := by omega

/-- env tokens and payload -/
theorem env_peel (N1 N2 : List (Bytes × Bytes)) (P1 P2 : Bytes)
    (h1 : ∀ kv ∈ N1, EnvOK kv) (h2 : ∀ kv ∈ N2, EnvOK kv) (p1 : PayOK P1) (p2 : PayOK P2)
    (h : N1.flatMap envTok ++ P1 = N2.flatMap envTok ++ P2) : N1 = N2 ∧ P1 = P2 := by
  induction N1 generalizing N2 with
  | nil =>
    cases N2 with
    | nil => simpa using h
    | cons kv N2 =>
      exfalso
      simp only [List.flatMap_nil, List.nil_append, List.flatMap_cons, envTok, List.append_assoc] at h
      exact arg_vs_nulfree kv.1 _ P1 (h2 kv (by simp)).1.1 p1.1 h.symm
  | cons kv N1 ih =>
    cases N2 with
    | nil =>
      exfalso
      simp only [List.flatMap_nil, List.nil_append, List.flatMap_cons, envTok, List.append_assoc] at h
      exact arg_vs_nulfree kv.1 _ P2 (h1 kv (by simp)).1.1 p2.1 h
    | cons kv' N2 =>
      simp only [List.flatMap_cons, envTok, List.append_assoc] at h
      have ok := h1 kv (by simp); have ok' := h2 kv' (by simp)
      obtain ⟨e1, r1⟩ := encArg_head_inj _ _ _ _ (lt56_lt64 ok.1.1) (lt56_lt64 ok'.1.1) h
      simp only [eqB, List.cons_append, List.nil_append, List.cons.injEq, true_and] at r1
      obtain ⟨e2, r2⟩ := encArg_head_inj _ _ _ _ (lt56_lt64 ok.2.1) (lt56_lt64 ok'.2.1) r1
      have := ih N2 (fun x hx => h1 x (by simp [hx])) (fun x hx => h2 x (by simp [hx])) r2
      exact ⟨by rw [Prod.ext e1 e2, this.1], this.2⟩

theorem startsWith64Hex_append (e X : Bytes) (he : HexOK e) : startsWith64Hex (e ++ X) = true := by
  simp only [startsWith64Hex, Bool.and_eq_true, decide_eq_true_eq]
  refine ⟨by simp [he.1], ?_⟩
  rw [List.take_left' he.1]
  exact he.2

/-- extras, then env tokens and payload -/
theorem extra_peel (E1 E2 : List Bytes) (N1 N2 : List (Bytes × Bytes)) (P1 P2 : Bytes)
    (e1 : ∀ e ∈ E1, HexOK e) (e2 : ∀ e ∈ E2, HexOK e)
    (h1 : ∀ kv ∈ N1, EnvOK kv) (h2 : ∀ kv ∈ N2, EnvOK kv) (p1 : PayOK P1) (p2 : PayOK P2)
    (h : tail3 E1 N1 P1 = tail3 E2 N2 P2) : E1 = E2 ∧ N1 = N2 ∧ P1 = P2 := by
  -- a digest can neither start an env token nor the payload
  have runout : ∀ (e : Bytes) (Es : List Bytes) (N N' : List (Bytes × Bytes)) (P P' : Bytes), HexOK e →
      (∀ kv ∈ N, EnvOK kv) → PayOK P → N.flatMap envTok ++ P = e ++ (Es.flatten ++ N'.flatMap envTok ++ P') → False := by
    intro e Es N N' P P' he hN hP hh
    cases N with
    | nil =>
      simp only [List.flatMap_nil, List.nil_append] at hh
      have := startsWith64Hex_append e (Es.flatten ++ N'.flatMap envTok ++ P') he
      rw [← hh, hP.2] at this
      exact absurd this (by decide)
    | cons kv N =>
      simp only [List.flatMap_cons, envTok, List.append_assoc] at hh
      exact arg_vs_hex kv.1 _ e _ (hN kv (by simp)).1.1 he.1 he.2 hh
  induction E1 generalizing E2 with
  | nil =>
    cases E2 with
    | nil =>
      simp only [tail3, List.flatten_nil, List.nil_append] at h
      exact ⟨rfl, env_peel N1 N2 P1 P2 h1 h2 p1 p2 h⟩
    | cons e E2 =>
      exfalso
      simp only [tail3, List.flatten_nil, List.nil_append, List.flatten_cons, List.append_assoc] at h
      exact runout e E2 N1 N2 P1 P2 (e2 e (by simp)) h1 p1 (by simpa [List.append_assoc] using h)
  | cons e E1 ih =>
    cases E2 with
    | nil =>
      exfalso
      simp only [tail3, List.flatten_nil, List.nil_append, List.flatten_cons, List.append_assoc] at h
      exact runout e E1 N2 N1 P2 P1 (e1 e (by simp)) h2 p2 (by simpa [List.append_assoc] using h.symm)
    | cons e' E2 =>
      simp only [tail3, List.flatten_cons, List.append_assoc] at h
      have he := e1 e (by simp); have he' := e2 e' (by simp)
      have hee : e = e' := by
        have := congrArg (List.take 64) h
        rwa [List.take_left' he.1, List.take_left' he'.1] at this
      subst hee
      have hrest := List.append_cancel_left h
      have := ih E2 (fun x hx => e1 x (by simp [hx])) (fun x hx => e2 x (by simp [hx]))
        (by simpa [tail3, List.append_assoc] using hrest)
      exact ⟨by rw [this.1], this.2⟩

/-- an argument token can never be where the other request continues with digests / env tokens / payload -/
theorem arg_runout (b : Bytes) (bs : List Bytes) (E E' : List Bytes) (N N' : List (Bytes × Bytes)) (P P' : Bytes)
    (hb : ArgOK b) (hbs : ∀ a ∈ bs, ArgOK a)
    (hE : ∀ e ∈ E, HexOK e) (hE' : ∀ e ∈ E', HexOK e)
    (hN : ∀ kv ∈ N, EnvOK kv) (hN' : ∀ kv ∈ N', EnvOK kv) (hP : PayOK P) (hP' : PayOK P')
    (h : tail3 E N P = encArg b ++ (bs.flatMap encArg ++ tail3 E' N' P')) : False := by
  cases E with
  | cons e E =>
    simp only [tail3, List.flatten_cons, List.append_assoc] at h
    exact arg_vs_hex b _ e _ hb.1 (hE e (by simp)).1 (hE e (by simp)).2 h.symm
  | nil =>
    cases N with
    | nil =>
      simp only [tail3, List.flatten_nil, List.flatMap_nil, List.nil_append] at h
      exact arg_vs_nulfree b _ P hb.1 hP.1 h.symm
    | cons kv N =>
      simp only [tail3, List.flatten_nil, List.nil_append, List.flatMap_cons, envTok, List.append_assoc] at h
      have ok := hN kv (by simp)
      obtain ⟨_, r⟩ := encArg_head_inj _ _ _ _ (lt56_lt64 ok.1.1) (lt56_lt64 hb.1) h
      -- r : "=" ++ encArg v ++ … = rest of the other stream
      have r' : eqB ++ encArg kv.2 ++ (N.flatMap envTok ++ P) = bs.flatMap encArg ++ tail3 E' N' P' := by
        simpa [List.append_assoc, tail3] using r
      cases bs with
      | cons b' bs =>
        simp only [List.flatMap_cons, List.append_assoc] at r'
        exact eqtok_vs_arg kv.2 _ b' _ ok.2.1 (hbs b' (by simp)).1 (hbs b' (by simp)).2 r'
      | nil =>
        simp only [List.flatMap_nil, List.nil_append] at r'
        cases E' with
        | cons e' E' =>
          simp only [tail3, List.flatten_cons, List.append_assoc] at r'
          exact eqtok_vs_hex kv.2 _ e' _ ok.2.1 (hE' e' (by simp)).1 (hE' e' (by simp)).2 r'
        | nil =>
          cases N' with
          | cons kv' N' =>
            simp only [tail3, List.flatten_nil, List.nil_append, List.flatMap_cons, envTok, List.append_assoc] at r'
            have ok' := hN' kv' (by simp)
            exact eqtok_vs_arg kv.2 _ kv'.1 _ ok.2.1 ok'.1.1 ok'.1.2 r'
          | nil =>
            simp only [tail3, List.flatten_nil, List.flatMap_nil, List.nil_append] at r'
            exact eqtok_vs_nulfree kv.2 _ P' ok.2.1 hP'.1 r'

/-- arguments, then the rest -/
theorem args_peel (A1 A2 : List Bytes) (E1 E2 : List Bytes) (N1 N2 : List (Bytes × Bytes)) (P1 P2 : Bytes)
    (a1 : ∀ a ∈ A1, ArgOK a) (a2 : ∀ a ∈ A2, ArgOK a)
    (e1 : ∀ e ∈ E1, HexOK e) (e2 : ∀ e ∈ E2, HexOK e)
    (h1 : ∀ kv ∈ N1, EnvOK kv) (h2 : ∀ kv ∈ N2, EnvOK kv) (p1 : PayOK P1) (p2 : PayOK P2)
    (h : A1.flatMap encArg ++ tail3 E1 N1 P1 = A2.flatMap encArg ++ tail3 E2 N2 P2) :
    A1 = A2 ∧ E1 = E2 ∧ N1 = N2 ∧ P1 = P2 := by
  induction A1 generalizing A2 with
  | nil =>
    cases A2 with
    | nil =>
      simp only [List.flatMap_nil, List.nil_append] at h
      exact ⟨rfl, extra_peel E1 E2 N1 N2 P1 P2 e1 e2 h1 h2 p1 p2 h⟩
    | cons b bs =>
      exfalso
      simp only [List.flatMap_nil, List.nil_append, List.flatMap_cons, List.append_assoc] at h
      exact arg_runout b bs E1 E2 N1 N2 P1 P2 (a2 b (by simp)) (fun x hx => a2 x (by simp [hx])) e1 e2 h1 h2 p1 p2 h
  | cons a A1 ih =>
    cases A2 with
    | nil =>
      exfalso
      simp only [List.flatMap_nil, List.nil_append, List.flatMap_cons, List.append_assoc] at h
      exact arg_runout a A1 E2 E1 N2 N1 P2 P1 (a1 a (by simp)) (fun x hx => a1 x (by simp [hx])) e2 e1 h2 h1 p2 p1 h.symm
    | cons b A2 =>
      simp only [List.flatMap_cons, List.append_assoc] at h
      obtain ⟨eab, r⟩ := encArg_head_inj _ _ _ _ (lt56_lt64 (a1 a (by simp)).1) (lt56_lt64 (a2 b (by simp)).1) h
      have := ih A2 (fun x hx => a1 x (by simp [hx])) (fun x hx => a2 x (by simp [hx])) r
      exact ⟨by rw [eab, this.1], this.2⟩

theorem encEnv_eq (allow : List Bytes) (r : CReq) : encEnv allow r.env = (canonEnvG allow r).flatMap envTok := by
  have : (fun kv : Bytes × Bytes => encArg kv.1 ++ [61] ++ encArg kv.2) = envTok := by
    funext kv; simp [envTok, eqB]
  simp only [encEnv, canonEnvG, this]

/-- injectivity of the common layout in its components, for any version constant and allow-list -/
theorem encGen_components_inj (ver : Bytes) (allow : List Bytes) (r1 r2 : CReq) (w1 : WF r1) (w2 : WF r2)
    (htag : langTagBytes r1.lang = langTagBytes r2.lang) (h : encGen ver allow r1 = encGen ver allow r2) :
    r1.digest = r2.digest ∧ r1.plusplus = r2.plusplus ∧ r1.args = r2.args ∧ r1.extra = r2.extra ∧
    canonEnvG allow r1 = canonEnvG allow r2 ∧ r1.pp = r2.pp := by
  simp only [encGen, htag, List.append_assoc] at h
  -- digest (64 bytes)
  have hd : r1.digest = r2.digest := by
    have := congrArg (List.take 64) h
    rwa [List.take_left' w1.digest.1, List.take_left' w2.digest.1] at this
  rw [hd, List.append_cancel_left_eq] at h
  -- the plusplus byte
  simp only [List.cons_append, List.nil_append, List.cons.injEq] at h
  obtain ⟨hpp, h⟩ := h
  have hpp' : r1.plusplus = r2.plusplus := by
    cases hp1 : r1.plusplus <;> cases hp2 : r2.plusplus <;> simp [hp1, hp2] at hpp <;> rfl
  -- version and tag are equal constants
  rw [List.append_cancel_left_eq, List.append_cancel_left_eq] at h
  rw [encEnv_eq, encEnv_eq] at h
  have := args_peel r1.args r2.args r1.extra r2.extra (canonEnvG allow r1) (canonEnvG allow r2) r1.pp r2.pp
    (fun a ha => w1.args a ha) (fun a ha => w2.args a ha)
    (fun e he => w1.extra e he) (fun e he => w2.extra e he)
    (fun kv hkv => by
      have hm : kv ∈ r1.env := (List.mem_filter.mp hkv).1
      obtain ⟨x1, x2, x3, x4⟩ := w1.env kv hm
      exact ⟨⟨x1, x3⟩, ⟨x2, x4⟩⟩)
    (fun kv hkv => by
      have hm : kv ∈ r2.env := (List.mem_filter.mp hkv).1
      obtain ⟨x1, x2, x3, x4⟩ := w2.env kv hm
      exact ⟨⟨x1, x3⟩, ⟨x2, x4⟩⟩)
    ⟨w1.ppNul, w1.ppHex⟩ ⟨w2.ppNul, w2.ppHex⟩
    (by simpa [tail3, List.append_assoc] using h)
  exact ⟨hd, hpp', this.1, this.2.1, this.2.2.1, this.2.2.2⟩

/-- C02 `encHash_components_inj` -/
theorem encHash_components_inj : EncHashComponentsInj := by
  intro r1 r2 w1 w2 htag h
  exact encGen_components_inj cCacheVersion cCachedEnv r1 r2 w1 w2 htag h

#print axioms encHash_components_inj

end CK
