import SccacheModel.Model.Frame

/-! bincode round trip of `Request` (`decReq (encReq r ++ tail) = some r`). -/
namespace FrameM

theorem leBytes_length (k n : Nat) : (leBytes k n).length = k := by
  induction k generalizing n with
  | zero => rfl
  | succ k ih => simp [leBytes, ih]

theorem leVal_leBytes (k : Nat) : ∀ n, n < 256 ^ k → leVal (leBytes k n) = n := by
  induction k with
  | zero => intro n h; simp at h; simp [leBytes, leVal, h]
  | succ k ih =>
    intro n h
    simp only [leBytes, leVal]
    have : n / 256 < 256 ^ k := by
      rw [Nat.pow_succ] at h
      exact Nat.div_lt_of_lt_mul (by rw [Nat.mul_comm]; exact h)
    rw [ih _ this]
    omega

theorem takeN_append (s rest : Bytes) : takeN s.length (s ++ rest) = some (s, rest) := by
  simp [takeN]

theorem takeN_leBytes (k n : Nat) (rest : Bytes) : takeN k (leBytes k n ++ rest) = some (leBytes k n, rest) := by
  have := takeN_append (leBytes k n) rest
  rw [leBytes_length] at this
  exact this

theorem takeU32_u32 (n : Nat) (h : n < 256 ^ 4) (rest : Bytes) : takeU32 (u32 n ++ rest) = some (n, rest) := by
  simp only [takeU32, u32, takeN_leBytes, Option.map, leVal_leBytes 4 n h]

theorem takeU64_u64 (n : Nat) (h : n < 256 ^ 8) (rest : Bytes) : takeU64 (u64 n ++ rest) = some (n, rest) := by
  simp only [takeU64, u64, takeN_leBytes, Option.map, leVal_leBytes 8 n h]

theorem takeOs_encOs (s : Bytes) (h : s.length < 256 ^ 8) (rest : Bytes) : takeOs (encOs s ++ rest) = some (s, rest) := by
  simp only [takeOs, encOs, List.append_assoc]
  rw [takeU32_u32 0 (by decide)]
  simp only
  rw [takeU64_u64 _ h]
  simp only
  exact takeN_append s rest
end FrameM

namespace FrameM

def wfOs (s : Bytes) : Prop := s.length < 256 ^ 8

theorem encOs_length (s : Bytes) : (encOs s).length = 12 + s.length := by
  simp [encOs, u32, u64, leBytes_length]; omega

theorem takeOsN_enc (xs : List Bytes) (h : ∀ x ∈ xs, wfOs x) (rest : Bytes) :
    takeOsN xs.length ((xs.map encOs).flatten ++ rest) = some (xs, rest) := by
  induction xs with
  | nil => simp [takeOsN]
  | cons x xs ih =>
    simp only [List.map_cons, List.flatten_cons, List.length_cons, takeOsN, List.append_assoc]
    rw [takeOs_encOs x (h x (List.mem_cons_self ..))]
    simp only
    rw [ih (fun y hy => h y (List.mem_cons_of_mem _ hy))]
    rfl

theorem flatten_enc_length (xs : List Bytes) : xs.length ≤ ((xs.map encOs).flatten).length := by
  induction xs with
  | nil => simp
  | cons x xs ih => simp only [List.map_cons, List.flatten_cons, List.length_cons, List.length_append, encOs_length]; omega

theorem takeOsList_enc (xs : List Bytes) (hl : xs.length < 256 ^ 8) (h : ∀ x ∈ xs, wfOs x) (rest : Bytes) :
    takeOsList (encList xs ++ rest) = some (xs, rest) := by
  simp only [takeOsList, encList, List.append_assoc]
  rw [takeU64_u64 _ hl]
  simp only
  have : xs.length ≤ ((xs.map encOs).flatten ++ rest).length := by
    rw [List.length_append]; have := flatten_enc_length xs; omega
  rw [if_pos this]
  exact takeOsN_enc xs h rest

theorem takePairN_enc (xs : List (Bytes × Bytes)) (h : ∀ x ∈ xs, wfOs x.1 ∧ wfOs x.2) (rest : Bytes) :
    takePairN xs.length ((xs.map fun x => encOs x.1 ++ encOs x.2).flatten ++ rest) = some (xs, rest) := by
  induction xs with
  | nil => simp [takePairN]
  | cons x xs ih =>
    obtain ⟨k, v⟩ := x
    have hx := h (k, v) (List.mem_cons_self ..)
    simp only [List.map_cons, List.flatten_cons, List.length_cons, takePairN, List.append_assoc]
    rw [takeOs_encOs k hx.1]
    simp only
    rw [takeOs_encOs v hx.2]
    simp only
    rw [ih (fun y hy => h y (List.mem_cons_of_mem _ hy))]
    rfl

theorem flatten_pairs_length (xs : List (Bytes × Bytes)) : xs.length ≤ ((xs.map fun x => encOs x.1 ++ encOs x.2).flatten).length := by
  induction xs with
  | nil => simp
  | cons x xs ih =>
    obtain ⟨k, v⟩ := x
    simp only [List.map_cons, List.flatten_cons, List.length_cons, List.length_append, encOs_length]; omega

theorem takePairList_enc (xs : List (Bytes × Bytes)) (hl : xs.length < 256 ^ 8) (h : ∀ x ∈ xs, wfOs x.1 ∧ wfOs x.2) (rest : Bytes) :
    takePairList (encPairs xs ++ rest) = some (xs, rest) := by
  simp only [takePairList, encPairs, List.append_assoc]
  rw [takeU64_u64 _ hl]
  simp only
  have : xs.length ≤ ((xs.map fun x => encOs x.1 ++ encOs x.2).flatten ++ rest).length := by
    rw [List.length_append]; have := flatten_pairs_length xs; omega
  rw [if_pos this]
  exact takePairN_enc xs h rest

/-- what a request must satisfy to be encodable: every length fits the 64-bit length fields -/
def WfReq : Req → Prop
  | .compile exe cwd args env => wfOs exe ∧ wfOs cwd ∧ args.length < 256 ^ 8 ∧ (∀ x ∈ args, wfOs x) ∧ env.length < 256 ^ 8 ∧ (∀ x ∈ env, wfOs x.1 ∧ wfOs x.2)
  | _ => True

/-- **round trip**: what the client encodes is what the server decodes, whatever follows it in the frame -/
theorem decReq_encReq (r : Req) (h : WfReq r) (tail : Bytes) : decReq (encReq r ++ tail) = some r := by
  cases r with
  | zeroStats => simp only [decReq, encReq]; rw [takeU32_u32 0 (by decide)]; rfl
  | getStats => simp only [decReq, encReq]; rw [takeU32_u32 1 (by decide)]; rfl
  | distStatus => simp only [decReq, encReq]; rw [takeU32_u32 2 (by decide)]; rfl
  | shutdown => simp only [decReq, encReq]; rw [takeU32_u32 3 (by decide)]; rfl
  | compile exe cwd args env =>
    obtain ⟨h1, h2, h3, h4, h5, h6⟩ := h
    simp only [decReq, encReq, List.append_assoc]
    rw [takeU32_u32 4 (by decide)]
    simp only
    rw [takeOs_encOs exe h1]
    simp only
    rw [takeOs_encOs cwd h2]
    simp only
    rw [takeOsList_enc args h3 h4]
    simp only
    rw [takePairList_enc env h5 h6]
end FrameM
