import SccacheModel.Model.AtFile

/-! Response-file expansion: for files that need no quote handling libiberty's `buildargv` is plain white-space splitting;
    whenever `sccExpand` leaves no `@` argument, `gccExpand` yields the same list. -/
namespace AtFileM

def plainByte (b : UInt8) : Bool := !(b == 34 || b == 39 || b == 92 || b == 0)

theorem needsQuoting_false {c : Bytes} (h : needsQuoting c = false) : ∀ b ∈ c, plainByte b = true := by
  intro b hb
  unfold needsQuoting at h
  have := List.any_eq_false.mp h b hb
  unfold plainByte
  simpa using this

theorem parseArg_plain (i : Bytes) : ∀ acc, (∀ b ∈ i, plainByte b = true) →
    parseArg false false false acc i = (acc.reverse ++ i.takeWhile (fun b => !isSpace b), i.dropWhile (fun b => !isSpace b)) := by
  induction i with
  | nil => intro acc _; simp [parseArg]
  | cons c rest ih =>
    intro acc hp
    have hc := hp c (List.mem_cons_self ..)
    have hrest : ∀ b ∈ rest, plainByte b = true := fun b hb => hp b (List.mem_cons_of_mem _ hb)
    unfold plainByte at hc
    have h34 : (c == 34) = false := by cases h : c == 34 <;> simp_all
    have h39 : (c == 39) = false := by cases h : c == 39 <;> simp_all
    have h92 : (c == 92) = false := by cases h : c == 92 <;> simp_all
    cases hs : isSpace c with
    | true => simp [parseArg, hs]
    | false =>
      simp only [parseArg, hs, h34, h39, h92, Bool.false_and, Bool.not_false, if_false, Bool.false_eq_true]
      rw [ih (c :: acc) hrest]
      simp [List.takeWhile, List.dropWhile, hs]
end AtFileM

namespace AtFileM
theorem plain_dropWhile {l : Bytes} (p : UInt8 → Bool) (h : ∀ b ∈ l, plainByte b = true) : ∀ b ∈ l.dropWhile p, plainByte b = true :=
  fun b hb => h b ((List.dropWhile_sublist p).subset hb)

theorem buildargv_plain (f : Nat) : ∀ s : Bytes, (∀ b ∈ s, plainByte b = true) → buildargvFuel f s = splitWsFuel f s := by
  induction f with
  | zero => intro s _; rfl
  | succ f ih =>
    intro s hp
    have hd := plain_dropWhile isSpace hp
    simp only [buildargvFuel, splitWsFuel]
    cases hi : s.dropWhile isSpace with
    | nil => rfl
    | cons c i =>
      rw [hi] at hd
      simp only
      rw [parseArg_plain (c :: i) [] hd]
      simp only [List.reverse_nil, List.nil_append]
      rw [ih _ (plain_dropWhile _ hd)]

theorem takeWhile_nonzero : ∀ {c : Bytes}, (∀ b ∈ c, plainByte b = true) → c.takeWhile (· != 0) = c
  | [], _ => rfl
  | b :: rest, h => by
    have hb := h b (List.mem_cons_self ..)
    unfold plainByte at hb
    have hz : (b != 0) = true := by cases hz : b == 0 <;> simp_all
    rw [List.takeWhile_cons, hz]
    simp only [if_true]
    rw [takeWhile_nonzero (fun x hx => h x (List.mem_cons_of_mem _ hx))]

/-- for a file without quote characters, backslashes and NUL bytes the compiler's words are sccache's words -/
theorem gccWords_plain {c : Bytes} (h : needsQuoting c = false) : gccWords c = splitWs c := by
  have hp := needsQuoting_false h
  unfold gccWords splitWs
  simp only [takeWhile_nonzero hp]
  exact buildargv_plain _ c hp
end AtFileM

namespace AtFileM
def noAt (l : List Bytes) : Prop := ∀ x ∈ l, stripAt x = none

/-- **agreement**: if sccache's expansion leaves no `@` argument behind, the compiler's own expansion of the same command
    line succeeds and is the same list -/
theorem expand_agrees (fs : Fs) (b : Nat) (args : List Bytes) (h : noAt (sccExpand fs b args)) :
    gccExpand fs b args = some (sccExpand fs b args) := by
  fun_induction sccExpand fs b args with
  | case1 b => simp [gccExpand]
  | case2 b a rest hs ih =>
    have h' : noAt (sccExpand fs b rest) := fun x hx => h x (List.mem_cons_of_mem _ hx)
    rw [gccExpand, hs]; simp only; rw [ih h']; rfl
  | case3 b a rest name hs hb ih =>
    have := h a (List.mem_cons_self ..); rw [hs] at this; cases this
  | case4 b a rest name hs hb hf ih =>
    have := h a (List.mem_cons_self ..); rw [hs] at this; cases this
  | case5 b a rest name hs hb hf ih =>
    have := h a (List.mem_cons_self ..); rw [hs] at this; cases this
  | case6 b a rest name hs hb c hf hq ih =>
    have := h a (List.mem_cons_self ..); rw [hs] at this; cases this
  | case7 b a rest name hs hb c hf hq ih =>
    rw [gccExpand, hs]; simp only [hb, if_false, hf]
    have hq' : needsQuoting c = false := by
      cases hn : needsQuoting c with
      | false => rfl
      | true => simp [hn] at hq
    rw [gccWords_plain hq']
    exact ih h
end AtFileM

namespace AtFileM
theorem sccExpand_no_at (fs : Fs) (b : Nat) (args : List Bytes) (h : noAt args) : sccExpand fs b args = args := by
  induction args with
  | nil => simp [sccExpand]
  | cons a rest ih =>
    have ha := h a (List.mem_cons_self ..)
    rw [sccExpand, ha]; simp only
    rw [ih (fun x hx => h x (List.mem_cons_of_mem _ hx))]

/-- a two-file world: `r` = "-DA=1  @s\n", `s` = "-DB\t-DC", `q` = "-DX=\7", `loop` = "-DL @loop" -/
def fsEx : Fs := fun n =>
  if n = [114] then .file [45, 68, 65, 61, 49, 32, 32, 64, 115, 10]
  else if n = [115] then .file [45, 68, 66, 9, 45, 68, 67]
  else if n = [113] then .file [45, 68, 88, 61, 92, 55]
  else if n = [108] then .file [45, 68, 76, 32, 64, 108]
  else .missing

example : sccExpand fsEx 2000 [[45, 99], [64, 114], [120]] = [[45, 99], [45, 68, 65, 61, 49], [45, 68, 66], [45, 68, 67], [120]] := by
  simp [sccExpand, stripAt, fsEx, validUtf8, needsQuoting, splitWs, splitWsFuel, isSpace]
example : sccExpand fsEx 2000 [[64, 113]] = [[64, 113]] := by
  simp [sccExpand, stripAt, fsEx, validUtf8, needsQuoting]
example : gccExpand fsEx 2000 [[64, 113]] = some [[45, 68, 88, 61, 55]] := by
  simp [gccExpand, stripAt, fsEx, gccWords, buildargvFuel, parseArg, isSpace]
end AtFileM
