import SccacheModel.Model.Recorder

/-! Proofs about the line-marker scanner of preprocessor-cache mode (C04, second tier). -/
namespace RecM

theorem at'_mid (a : Bytes) (c : UInt8) (rest : Bytes) : at' (a ++ c :: rest) a.length = c := by
  simp [at']

theorem skipUntil_spec (stop : List UInt8) (mid : Bytes) : ∀ (a : Bytes) (c : UInt8) (rest : Bytes) (fuel : Nat),
    (∀ b ∈ mid, stop.contains b = false) → stop.contains c = true → mid.length < fuel →
    skipUntil (a ++ mid ++ c :: rest) stop fuel a.length = a.length + mid.length := by
  induction mid with
  | nil =>
    intro a c rest fuel _ hc hf
    cases fuel with
    | zero => omega
    | succ f =>
      simp only [List.append_nil, skipUntil, at'_mid, hc, Bool.not_true, Bool.and_false, Bool.false_eq_true, if_false, List.length_nil, Nat.add_zero]
  | cons m ms ih =>
    intro a c rest fuel hmid hc hf
    cases fuel with
    | zero => simp at hf
    | succ f =>
      have hm : stop.contains m = false := hmid m (by simp)
      have e : a ++ (m :: ms) ++ c :: rest = (a ++ [m]) ++ ms ++ c :: rest := by simp
      have hat : at' (a ++ (m :: ms) ++ c :: rest) a.length = m := by
        have : a ++ (m :: ms) ++ c :: rest = a ++ m :: (ms ++ c :: rest) := by simp
        rw [this]; exact at'_mid a m _
      have hlt : a.length < (a ++ (m :: ms) ++ c :: rest).length := by simp
      simp only [skipUntil, hat, hm, hlt, decide_true, Bool.not_false, Bool.and_self, if_true]
      rw [e]
      have := ih (a ++ [m]) c rest f (fun b hb => hmid b (by simp [hb])) hc (by simp at hf; omega)
      simp only [List.length_append, List.length_cons, List.length_nil] at this ⊢
      rw [this]; omega

theorem flag3_spec (flags : Bytes) : ∀ (a : Bytes) (post : Bytes) (fuel : Nat),
    (∀ b ∈ flags, b ≠ bNl) → flags.length < fuel →
    flag3 (a ++ flags ++ bNl :: post) fuel a.length = flags.contains b3 := by
  induction flags with
  | nil =>
    intro a post fuel _ hf
    cases fuel with
    | zero => omega
    | succ f => simp [flag3, at'_mid]
  | cons m ms ih =>
    intro a post fuel hfl hf
    cases fuel with
    | zero => simp at hf
    | succ f =>
      have hm : m ≠ bNl := hfl m (by simp)
      have hat : at' (a ++ (m :: ms) ++ bNl :: post) a.length = m := by
        have : a ++ (m :: ms) ++ bNl :: post = a ++ m :: (ms ++ bNl :: post) := by simp
        rw [this]; exact at'_mid a m _
      have hlt : a.length < (a ++ (m :: ms) ++ bNl :: post).length := by simp
      have e : a ++ (m :: ms) ++ bNl :: post = (a ++ [m]) ++ ms ++ bNl :: post := by simp
      have hne : (m != bNl) = true := by simpa using hm
      simp only [flag3, hat, hlt, decide_true, hne, Bool.and_self, if_true]
      rw [e]
      have := ih (a ++ [m]) post f (fun b hb => hfl b (by simp [hb])) (by simp at hf; omega)
      simp only [List.length_append, List.length_cons, List.length_nil] at this
      rw [this]
      simp only [List.elem_eq_mem]
      by_cases h : m = b3
      · simp [h]
      · have h' : ¬ b3 = m := fun e => h e.symm
        simp [h, h']

/-- the bytes of one well-formed line-marker line: `hd "path" flags \n` -/
def markerLine (hd path flags : Bytes) : Bytes := hd ++ bQuote :: (path ++ bQuote :: (flags ++ [bNl]))

/-- what `process_preprocessor_line` does on a well-formed marker line: the path between the first two quotes,
    normalised, goes to `remember_include_file` with `system` = "a 3 occurs among the flags" -/
theorem processLine_marker (cfg : Cfg) (fs : Bytes → FileKind) (cwd input : Bytes) (pre hd path flags post : Bytes) (known : List Bytes) (hs : Nat)
    (hhd : ∀ b ∈ hd, b ≠ bQuote ∧ b ≠ bNl) (hpath : ∀ b ∈ path, b ≠ bQuote) (hpne : path ≠ []) (hflags : ∀ b ∈ flags, b ≠ bNl)
    (h31 : startsAt (pre ++ markerLine hd path flags ++ post) pre.length hash31 = false)
    (h32 : startsAt (pre ++ markerLine hd path flags ++ post) pre.length hash32 = false) :
    processLine cfg fs cwd input (pre ++ markerLine hd path flags ++ post) known pre.length hs =
      (let q := pre.length + hd.length + 1 + path.length
       match remember cfg fs cwd input known (normalizedText path) (flags.contains b3) with
       | .disable => .brk q (pre.length + hd.length + 1) false (pre ++ markerLine hd path flags ++ post) known
       | .ok none => .cont q q (pre ++ markerLine hd path flags ++ post) known
       | .ok (some p) => .cont q q (pre ++ markerLine hd path flags ++ post) (known ++ [p])) := by
  generalize hb : pre ++ markerLine hd path flags ++ post = bytes at *
  have e1 : bytes = pre ++ hd ++ bQuote :: (path ++ bQuote :: (flags ++ bNl :: post)) := by
    rw [← hb]; simp [markerLine]
  have e2 : bytes = (pre ++ hd ++ [bQuote]) ++ path ++ bQuote :: (flags ++ bNl :: post) := by
    rw [e1]; simp
  have e3 : bytes = (pre ++ hd ++ [bQuote] ++ path ++ [bQuote]) ++ flags ++ bNl :: post := by
    rw [e1]; simp
  have htotal : bytes.length = pre.length + hd.length + 1 + path.length + 1 + flags.length + 1 + post.length := by
    rw [e1]; simp; omega
  have s2 : skipUntil bytes [bQuote, bNl] (bytes.length + 1) pre.length = pre.length + hd.length := by
    rw [e1]
    apply skipUntil_spec
    · intro b hb'; have := hhd b hb'; simp [this.1, this.2]
    · simp
    · rw [← e1, htotal]; omega
  have hq : at' bytes (pre.length + hd.length) = bQuote := by
    rw [e1]; have := at'_mid (pre ++ hd) bQuote (path ++ bQuote :: (flags ++ bNl :: post)); simpa using this
  have s4 : skipUntil bytes [bQuote] (bytes.length + 1) (pre.length + hd.length + 1) = pre.length + hd.length + 1 + path.length := by
    have := skipUntil_spec [bQuote] path (pre ++ hd ++ [bQuote]) bQuote (flags ++ bNl :: post) (bytes.length + 1)
      (by intro b hb'; simp [hpath b hb']) (by simp) (by rw [htotal]; omega)
    have hl : (pre ++ hd ++ [bQuote]).length = pre.length + hd.length + 1 := by simp; omega
    rw [← e2, hl] at this; exact this
  have hsys : flag3 bytes (bytes.length + 1) (pre.length + hd.length + 1 + path.length + 1) = flags.contains b3 := by
    have := flag3_spec flags (pre ++ hd ++ [bQuote] ++ path ++ [bQuote]) post (bytes.length + 1) hflags (by rw [htotal]; omega)
    have hl : (pre ++ hd ++ [bQuote] ++ path ++ [bQuote]).length = pre.length + hd.length + 1 + path.length + 1 := by simp; omega
    rw [← e3, hl] at this; exact this
  have hraw : (bytes.drop (pre.length + hd.length + 1)).take (pre.length + hd.length + 1 + path.length - (pre.length + hd.length + 1)) = path := by
    rw [e2]
    have : (pre ++ hd ++ [bQuote]).length = pre.length + hd.length + 1 := by simp; omega
    rw [List.append_assoc (pre ++ hd ++ [bQuote]), ← this, List.drop_left]
    simp
  have hplen : 0 < path.length := List.length_pos_iff.mpr hpne
  unfold processLine
  simp only [h31, h32, Bool.and_false, Bool.false_eq_true, if_false, s2, hq]
  have hqn : (bQuote == bNl) = false := by decide
  have hge : ¬ (pre.length + hd.length + 1 ≥ bytes.length) := by rw [htotal]; omega
  have hne : (pre.length + hd.length + 1 + path.length == pre.length + hd.length + 1) = false := by
    simp; omega
  simp only [hqn, Bool.and_false, Bool.false_eq_true, if_false, hge, s4, hne, hraw, hsys]
  cases remember cfg fs cwd input known (normalizedText path) (flags.contains b3) with
  | disable => rfl
  | ok o => cases o <;> rfl


/-- a marker-looking line without any quote: no match, scanning goes on at its newline -/
theorem processLine_noquote (cfg : Cfg) (fs : Bytes → FileKind) (cwd input : Bytes) (pre body post : Bytes) (known : List Bytes) (hs : Nat)
    (hbody : ∀ b ∈ body, b ≠ bQuote ∧ b ≠ bNl)
    (h31 : startsAt (pre ++ body ++ bNl :: post) pre.length hash31 = false)
    (h32 : startsAt (pre ++ body ++ bNl :: post) pre.length hash32 = false) :
    processLine cfg fs cwd input (pre ++ body ++ bNl :: post) known pre.length hs =
      .brk (pre.length + body.length) hs true (pre ++ body ++ bNl :: post) known := by
  generalize hb : pre ++ body ++ bNl :: post = bytes at *
  have htotal : bytes.length = pre.length + body.length + 1 + post.length := by rw [← hb]; simp; omega
  have s2 : skipUntil bytes [bQuote, bNl] (bytes.length + 1) pre.length = pre.length + body.length := by
    rw [← hb]
    apply skipUntil_spec
    · intro b hb'; have := hbody b hb'; simp [this.1, this.2]
    · simp
    · rw [hb, htotal]; omega
  have hq : at' bytes (pre.length + body.length) = bNl := by
    rw [← hb]; have := at'_mid (pre ++ body) bNl post; simpa using this
  have hlt : pre.length + body.length < bytes.length := by rw [htotal]; omega
  unfold processLine
  simp only [h31, h32, Bool.and_false, Bool.false_eq_true, if_false, s2, hq, hlt, decide_true, beq_self_eq_true, Bool.and_self, if_true]

/-- `# 1 ""`: the empty file name is skipped -/
theorem processLine_empty (cfg : Cfg) (fs : Bytes → FileKind) (cwd input : Bytes) (pre hd flags post : Bytes) (known : List Bytes) (hs : Nat)
    (hhd : ∀ b ∈ hd, b ≠ bQuote ∧ b ≠ bNl)
    (h31 : startsAt (pre ++ markerLine hd [] flags ++ post) pre.length hash31 = false)
    (h32 : startsAt (pre ++ markerLine hd [] flags ++ post) pre.length hash32 = false) :
    processLine cfg fs cwd input (pre ++ markerLine hd [] flags ++ post) known pre.length hs =
      .brk (pre.length + hd.length + 1) (pre.length + hd.length + 1) true (pre ++ markerLine hd [] flags ++ post) known := by
  generalize hb : pre ++ markerLine hd [] flags ++ post = bytes at *
  have e1 : bytes = pre ++ hd ++ bQuote :: (bQuote :: (flags ++ bNl :: post)) := by
    rw [← hb]; simp [markerLine]
  have e2 : bytes = (pre ++ hd ++ [bQuote]) ++ [] ++ bQuote :: (flags ++ bNl :: post) := by
    rw [e1]; simp
  have htotal : bytes.length = pre.length + hd.length + 1 + 1 + flags.length + 1 + post.length := by
    rw [e1]; simp; omega
  have s2 : skipUntil bytes [bQuote, bNl] (bytes.length + 1) pre.length = pre.length + hd.length := by
    rw [e1]
    apply skipUntil_spec
    · intro b hb'; have := hhd b hb'; simp [this.1, this.2]
    · simp
    · rw [← e1, htotal]; omega
  have hq : at' bytes (pre.length + hd.length) = bQuote := by
    rw [e1]; have := at'_mid (pre ++ hd) bQuote (bQuote :: (flags ++ bNl :: post)); simpa using this
  have s4 : skipUntil bytes [bQuote] (bytes.length + 1) (pre.length + hd.length + 1) = pre.length + hd.length + 1 := by
    have := skipUntil_spec [bQuote] [] (pre ++ hd ++ [bQuote]) bQuote (flags ++ bNl :: post) (bytes.length + 1)
      (by intro b hb'; cases hb') (by simp) (by simp)
    have hl : (pre ++ hd ++ [bQuote]).length = pre.length + hd.length + 1 := by simp; omega
    rw [← e2, hl] at this; simpa using this
  have hqn : (bQuote == bNl) = false := by decide
  have hge : ¬ (pre.length + hd.length + 1 ≥ bytes.length) := by rw [htotal]; omega
  unfold processLine
  simp only [h31, h32, Bool.and_false, Bool.false_eq_true, if_false, s2, hq, hqn, hge, s4, beq_self_eq_true, if_true]

/-! ### the whole scanner on well-formed preprocessor output -/

inductive Line where
  | marker (hd path flags : Bytes)     -- `hd "path" flags` + newline, e.g. hd = `# 12 `
  | other (body : Bytes)               -- anything else + newline
deriving Repr

def Line.bytes : Line → Bytes
  | .marker hd path flags => markerLine hd path flags
  | .other body => body ++ [bNl]

def textOf : List Line → Bytes
  | [] => []
  | l :: ls => l.bytes ++ textOf ls

/-- `# <digit>…` or `#pragma GCC pch_preprocess …` -/
def isMarkerHd (hd : Bytes) : Bool :=
  hd[0]? == some bHash && ((hd[1]? == some bSp && (match hd[2]? with | some d => isDigit d | none => false)) || pragmaPch.isPrefixOf (hd.drop 1))

def Line.ok : Line → Prop
  | .marker hd path flags => 4 ≤ hd.length ∧ isMarkerHd hd = true ∧ (∀ b ∈ hd, b ≠ bQuote ∧ b ≠ bNl) ∧ (∀ b ∈ path, b ≠ bQuote ∧ b ≠ bNl) ∧ (∀ b ∈ flags, b ≠ bNl)
  | .other body => ∀ b ∈ body, b ≠ bNl

/-- well-formed preprocessor output after the prefix `pre`: every line is `ok`; no line is one of the two bogus GCC-6
    `<command-line>` lines; a line that looks like a marker either is a `marker` line or holds no quote at all -/
def WF : Bytes → List Line → Prop
  | _, [] => True
  | pre, l :: ls =>
    l.ok ∧ startsAt (pre ++ textOf (l :: ls)) pre.length hash31 = false ∧ startsAt (pre ++ textOf (l :: ls)) pre.length hash32 = false ∧
    (∀ body, l = .other body → isMarker (pre ++ textOf (l :: ls)) pre.length = true → ∀ b ∈ body, b ≠ bQuote) ∧
    WF (pre ++ l.bytes) ls

/-- the file named by a marker is accounted for: recorded, or excluded for one of the documented reasons -/
def Covered (cfg : Cfg) (fs : Bytes → FileKind) (cwd input : Bytes) (rec : List Bytes) (path flags : Bytes) : Prop :=
  ((normalizedText path).length ≥ 2 ∧ (normalizedText path).head? = some 60 ∧ (normalizedText path).getLast? = some 62) ∨
  (flags.contains b3 = true ∧ cfg.skipSystemHeaders = true) ∨
  fullPath cwd (stripDot (normalizedText path)) ∈ rec ∨
  fullPath cwd (stripDot (normalizedText path)) = fullPath cwd input ∨
  fs (fullPath cwd (stripDot (normalizedText path))) = .dir

theorem wf_ok : ∀ (pre : Bytes) (ls : List Line), WF pre ls → ∀ l ∈ ls, l.ok := by
  intro pre ls
  induction ls generalizing pre with
  | nil => intro _ l hl; cases hl
  | cons x xs ih =>
    intro h l hl
    rcases List.mem_cons.mp hl with e | e
    · rw [e]; exact h.1
    · exact ih _ h.2.2.2.2 l e

theorem markerLine_length (hd path flags : Bytes) : (markerLine hd path flags).length = hd.length + 1 + path.length + 1 + flags.length + 1 := by
  simp [markerLine]; omega

theorem textOf_marker_len : ∀ (ls : List Line) (hd path flags : Bytes), Line.marker hd path flags ∈ ls → 4 ≤ hd.length → path ≠ [] →
    8 ≤ (textOf ls).length := by
  intro ls
  induction ls with
  | nil => intro _ _ _ h; cases h
  | cons x xs ih =>
    intro hd path flags hm h4 hp
    rcases List.mem_cons.mp hm with e | e
    · have hpl : 0 < path.length := List.length_pos_iff.mpr hp
      simp only [textOf, ← e, Line.bytes, List.length_append, markerLine_length]; omega
    · have := ih hd path flags e h4 hp
      simp only [textOf, List.length_append]; omega

theorem remember_some (cfg : Cfg) (fs : Bytes → FileKind) (cwd input : Bytes) (known : List Bytes) (path : Bytes) (system : Bool) (p : Bytes)
    (h : remember cfg fs cwd input known path system = .ok (some p)) : p = fullPath cwd (stripDot path) := by
  unfold remember at h
  split at h
  · cases h
  · split at h
    · cases h
    · simp only at h
      split at h
      · cases h
      · split at h
        · cases h
        · split at h
          · cases h
          · cases h
          · cases h
          · split at h
            · cases h
            · split at h
              · cases h
              · split at h
                · cases h
                · split at h
                  · cases h
                  · injection h with h; injection h with h; exact h.symm


/-! #### small facts about positions -/

theorem at'_pre_last (pre x : Bytes) (l : UInt8) (h : pre.getLast? = some l) : at' (pre ++ x) (pre.length - 1) = l := by
  have hne : pre ≠ [] := by intro e; simp [e] at h
  have hd := List.dropLast_concat_getLast hne
  have hl : pre.getLast hne = l := by
    have := List.getLast?_eq_some_getLast hne; rw [this] at h; exact Option.some.inj h
  have e : pre ++ x = pre.dropLast ++ l :: x := by
    conv => lhs; rw [← hd, hl]
    simp
  have hlen : pre.length - 1 = pre.dropLast.length := by simp
  rw [e, hlen]; exact at'_mid _ _ _

theorem startsAt_cons_head (pre rest : Bytes) (c p : UInt8) (ps : Bytes)
    (h : startsAt (pre ++ c :: rest) pre.length (p :: ps) = true) : c = p := by
  simp only [startsAt, List.drop_left] at h
  simp only [List.isPrefixOf, Bool.and_eq_true, beq_iff_eq] at h
  exact h.1.symm

theorem isMarker_false_of_head (bytes : Bytes) (start : Nat) (h : at' bytes start ≠ bHash) : isMarker bytes start = false := by
  have : (at' bytes start == bHash) = false := by simpa using h
  simp [isMarker, this]

theorem isMarker_false_mid (bytes : Bytes) (start : Nat) (h0 : start ≠ 0) (h : at' bytes (start - 1) ≠ bNl) : isMarker bytes start = false := by
  have h1 : (start == 0) = false := by simpa using h0
  have h2 : (at' bytes (start - 1) == bNl) = false := by simpa using h
  simp [isMarker, h1, h2]

theorem at'_in (pre hd rest : Bytes) (i : Nat) (hi : i < hd.length) : at' (pre ++ (hd ++ rest)) (pre.length + i) = (hd[i]?).getD 0 := by
  simp only [at', List.getD_eq_getElem?_getD]
  rw [List.getElem?_append_right (by omega)]
  rw [show pre.length + i - pre.length = i by omega, List.getElem?_append_left hi]

theorem linestart_cond (pre x : Bytes) (h : pre = [] ∨ pre.getLast? = some bNl) : (pre.length == 0 || at' (pre ++ x) (pre.length - 1) == bNl) = true := by
  rcases h with h | h
  · simp [h]
  · simp [at'_pre_last pre x bNl h]

theorem isMarker_of_hd (pre hd rest : Bytes) (h4 : 4 ≤ hd.length) (hm : isMarkerHd hd = true) (hp : pre = [] ∨ pre.getLast? = some bNl) :
    isMarker (pre ++ (hd ++ rest)) pre.length = true := by
  have a0 := at'_in pre hd rest 0 (by omega)
  have a1 := at'_in pre hd rest 1 (by omega)
  have a2 := at'_in pre hd rest 2 (by omega)
  simp only [Nat.add_zero] at a0
  unfold isMarkerHd at hm
  simp only [Bool.and_eq_true, Bool.or_eq_true] at hm
  have hls := linestart_cond pre (hd ++ rest) hp
  unfold isMarker
  rw [a0, a1, a2, hls, Bool.and_true]
  obtain ⟨h0, h12⟩ := hm
  have e0 : hd[0]? = some bHash := by simpa using h0
  rw [e0]
  simp only [Option.getD_some, beq_self_eq_true, Bool.true_and, Bool.or_eq_true, Bool.and_eq_true]
  rcases h12 with ⟨h1, h2⟩ | h3
  · left
    have e1 : hd[1]? = some bSp := by simpa using h1
    rw [e1]
    cases e2 : hd[2]? with
    | none => rw [e2] at h2; simp at h2
    | some d => rw [e2] at h2; simpa using h2
  · right
    simp only [startsAt]
    have : (pre ++ (hd ++ rest)).drop (pre.length + 1) = hd.drop 1 ++ rest := by
      rw [← List.drop_drop, List.drop_left]
      rw [List.drop_append_of_le_length (by omega)]
    rw [this]
    rw [List.isPrefixOf_iff_prefix] at h3 ⊢
    exact List.prefix_append_of_prefix h3

/-- the loop body of `scan` -/
theorem scan_succ (cfg : Cfg) (fs : Bytes → FileKind) (cwd input : Bytes) (fuel : Nat) (bytes : Bytes) (known : List Bytes) (start hs : Nat) :
    scan cfg fs cwd input (fuel + 1) bytes known start hs =
      (if !(start < bytes.length - 7) then .ok true known
       else if isMarker bytes start then
         match processLine cfg fs cwd input bytes known start hs with
         | .err => .err
         | .cont s h b k => scan cfg fs cwd input fuel b k s h
         | .brk s h keep b k => if !keep then .ok false k else scan cfg fs cwd input fuel b k s h
       else if isIncbin bytes start then .ok false known
       else if startsAt bytes start underscores && (start == 0 || at' bytes (start - 1) == bNl) then
         (if skipUntil bytes [bNl] (bytes.length + 1) start ≥ bytes.length then .panic
          else scan cfg fs cwd input fuel bytes known (skipUntil bytes [bNl] (bytes.length + 1) start + 1) (skipUntil bytes [bNl] (bytes.length + 1) start + 1))
       else scan cfg fs cwd input fuel bytes known (start + 1) hs) := by
  rw [scan]; rfl


section Sound
variable (cfg : Cfg) (fs : Bytes → FileKind) (cwd input : Bytes)

def Goal (rec known : List Bytes) (ls : List Line) : Prop :=
  (∀ k ∈ known, k ∈ rec) ∧ ∀ hd path flags, Line.marker hd path flags ∈ ls → path ≠ [] → Covered cfg fs cwd input rec path flags

theorem goal_of_short (known : List Bytes) (ls : List Line) (hok : ∀ l ∈ ls, l.ok) (hshort : (textOf ls).length < 8) :
    Goal cfg fs cwd input known known ls := by
  refine ⟨fun k hk => hk, ?_⟩
  intro hd path flags hm hp
  have := hok _ hm
  have h8 := textOf_marker_len ls hd path flags hm this.1 hp
  omega

theorem goal_cons_other (rec known : List Bytes) (body : Bytes) (ls : List Line) (h : Goal cfg fs cwd input rec known ls) :
    Goal cfg fs cwd input rec known (Line.other body :: ls) := by
  refine ⟨h.1, ?_⟩
  intro hd path flags hm hp
  rcases List.mem_cons.mp hm with e | e
  · cases e
  · exact h.2 hd path flags e hp

def StartInv (fuel : Nat) : Prop :=
  ∀ (pre : Bytes) (ls : List Line) (known : List Bytes) (hs : Nat) (rec : List Bytes),
    (pre = [] ∨ pre.getLast? = some bNl) → WF pre ls →
    scan cfg fs cwd input fuel (pre ++ textOf ls) known pre.length hs = .ok true rec →
    (pre ++ textOf ls).length ≤ fuel + pre.length → Goal cfg fs cwd input rec known ls

def MidInv (fuel : Nat) : Prop :=
  ∀ (pre r : Bytes) (ls : List Line) (known : List Bytes) (hs : Nat) (rec : List Bytes),
    (∀ b ∈ r, b ≠ bNl) → (r = [] ∨ (pre ≠ [] ∧ pre.getLast? ≠ some bNl)) → WF (pre ++ r ++ [bNl]) ls →
    scan cfg fs cwd input fuel (pre ++ r ++ bNl :: textOf ls) known pre.length hs = .ok true rec →
    (pre ++ r ++ bNl :: textOf ls).length ≤ fuel + pre.length → Goal cfg fs cwd input rec known ls

theorem incbin_cons : incbin = (46 : UInt8) :: incbin.tail := by decide
theorem underscores_cons : underscores = (95 : UInt8) :: underscores.tail := by decide

theorem mid_step (fuel : Nat) (ihL : StartInv cfg fs cwd input fuel) (ihM : MidInv cfg fs cwd input fuel) : MidInv cfg fs cwd input (fuel + 1) := by
  intro pre r ls known hs rec hr hcond hwf hscan hlen
  rw [scan_succ] at hscan
  by_cases hg : pre.length < (pre ++ r ++ bNl :: textOf ls).length - 7
  · simp only [hg, decide_true, Bool.not_true, Bool.false_eq_true, if_false] at hscan
    cases r with
    | nil =>
      have hat : at' (pre ++ [] ++ bNl :: textOf ls) pre.length = bNl := by
        have := at'_mid pre bNl (textOf ls); simpa using this
      have hm : isMarker (pre ++ [] ++ bNl :: textOf ls) pre.length = false :=
        isMarker_false_of_head _ _ (by rw [hat]; decide)
      have hi : isIncbin (pre ++ [] ++ bNl :: textOf ls) pre.length = false := by
        cases h : isIncbin (pre ++ [] ++ bNl :: textOf ls) pre.length with
        | false => rfl
        | true =>
          exfalso
          simp only [isIncbin, Bool.and_eq_true] at h
          have h1 := h.1
          rw [incbin_cons] at h1
          have := startsAt_cons_head pre (textOf ls) bNl 46 incbin.tail (by simpa using h1)
          exact absurd this (by decide)
      have hb : startsAt (pre ++ [] ++ bNl :: textOf ls) pre.length underscores = false := by
        cases h : startsAt (pre ++ [] ++ bNl :: textOf ls) pre.length underscores with
        | false => rfl
        | true =>
          exfalso
          rw [underscores_cons] at h
          have := startsAt_cons_head pre (textOf ls) bNl 95 underscores.tail (by simpa using h)
          exact absurd this (by decide)
      simp only [hm, hi, hb, Bool.false_and, Bool.false_eq_true, if_false] at hscan
      have e : pre ++ [] ++ bNl :: textOf ls = (pre ++ [bNl]) ++ textOf ls := by simp
      have hl : pre.length + 1 = (pre ++ [bNl]).length := by simp
      rw [e, hl] at hscan
      refine ihL (pre ++ [bNl]) ls known hs rec (Or.inr (by simp)) (by simpa using hwf) hscan ?_
      rw [e] at hlen; simp only [List.length_append, List.length_cons, List.length_nil] at hlen ⊢; omega
    | cons c r' =>
      obtain ⟨hpne, hplast⟩ : pre ≠ [] ∧ pre.getLast? ≠ some bNl := by
        rcases hcond with h | h
        · cases h
        · exact h
      have hlast : ∃ l, pre.getLast? = some l ∧ l ≠ bNl := by
        cases h : pre.getLast? with
        | none => exact absurd (List.getLast?_eq_none_iff.mp h) hpne
        | some l => exact ⟨l, rfl, fun e => hplast (by rw [h, e])⟩
      obtain ⟨l, hl1, hl2⟩ := hlast
      have hprev : at' (pre ++ (c :: r') ++ bNl :: textOf ls) (pre.length - 1) = l := by
        have := at'_pre_last pre ((c :: r') ++ bNl :: textOf ls) l hl1
        simpa using this
      have h0 : pre.length ≠ 0 := by
        intro e; exact hpne (List.length_eq_zero_iff.mp e)
      have hm : isMarker (pre ++ (c :: r') ++ bNl :: textOf ls) pre.length = false :=
        isMarker_false_mid _ _ h0 (by rw [hprev]; exact hl2)
      have hb : (pre.length == 0 || at' (pre ++ (c :: r') ++ bNl :: textOf ls) (pre.length - 1) == bNl) = false := by
        rw [hprev]; simp [h0, hl2]
      simp only [hm, hb, Bool.and_false, Bool.false_eq_true, if_false] at hscan
      cases hi : isIncbin (pre ++ (c :: r') ++ bNl :: textOf ls) pre.length with
      | true => rw [hi] at hscan; simp at hscan
      | false =>
        rw [hi] at hscan
        simp only [Bool.false_eq_true, if_false] at hscan
        have e : pre ++ (c :: r') ++ bNl :: textOf ls = (pre ++ [c]) ++ r' ++ bNl :: textOf ls := by simp
        have hl : pre.length + 1 = (pre ++ [c]).length := by simp
        rw [e, hl] at hscan
        have hc : c ≠ bNl := hr c (by simp)
        refine ihM (pre ++ [c]) r' ls known hs rec (fun b hb => hr b (by simp [hb])) (Or.inr ⟨by simp, by simp [hc]⟩) (by simpa using hwf) hscan ?_
        rw [e] at hlen; simp only [List.length_append, List.length_cons, List.length_nil] at hlen ⊢; omega
  · simp only [hg, decide_false, Bool.not_false, if_true] at hscan
    have hrec : known = rec := by injection hscan with _ h
    rw [← hrec]
    apply goal_of_short cfg fs cwd input known ls (wf_ok _ _ hwf)
    simp only [List.length_append, List.length_cons] at hg; omega

theorem goal_cons_marker (rec known : List Bytes) (hd path flags : Bytes) (ls : List Line)
    (h : Goal cfg fs cwd input rec known ls) (hc : path ≠ [] → Covered cfg fs cwd input rec path flags) :
    Goal cfg fs cwd input rec known (Line.marker hd path flags :: ls) := by
  refine ⟨h.1, ?_⟩
  intro hd' path' flags' hm hp
  rcases List.mem_cons.mp hm with e | e
  · injection e with e1 e2 e3
    subst e2; subst e3
    exact hc hp
  · exact h.2 hd' path' flags' e hp

theorem start_step (fuel : Nat) (ihL : StartInv cfg fs cwd input fuel) (ihM : MidInv cfg fs cwd input fuel) : StartInv cfg fs cwd input (fuel + 1) := by
  intro pre ls known hs rec hp hwf hscan hlen
  rw [scan_succ] at hscan
  by_cases hg : pre.length < (pre ++ textOf ls).length - 7
  · simp only [hg, decide_true, Bool.not_true, Bool.false_eq_true, if_false] at hscan
    cases ls with
    | nil => exfalso; simp only [textOf, List.append_nil] at hg; omega
    | cons l ls' =>
      cases l with
      | marker hd path flags =>
        obtain ⟨hok, h31, h32, _, hwf'⟩ := hwf
        obtain ⟨h4, hmk, hhd, hpath, hflags⟩ := hok
        have hbytes : pre ++ textOf (Line.marker hd path flags :: ls') = pre ++ markerLine hd path flags ++ textOf ls' := by
          simp [textOf, Line.bytes]
        have hmark : isMarker (pre ++ markerLine hd path flags ++ textOf ls') pre.length = true := by
          have e : pre ++ markerLine hd path flags ++ textOf ls' = pre ++ (hd ++ (bQuote :: (path ++ bQuote :: (flags ++ [bNl])) ++ textOf ls')) := by
            simp [markerLine]
          rw [e]; exact isMarker_of_hd pre hd _ h4 hmk hp
        rw [hbytes] at hscan h31 h32 hlen
        rw [hmark] at hscan
        simp only [if_true] at hscan
        by_cases hpe : path = []
        · subst hpe
          rw [processLine_empty cfg fs cwd input pre hd flags (textOf ls') known hs hhd h31 h32] at hscan
          simp only [Bool.not_true, Bool.false_eq_true, if_false] at hscan
          have e : pre ++ markerLine hd [] flags ++ textOf ls' = (pre ++ hd ++ [bQuote]) ++ (bQuote :: flags) ++ bNl :: textOf ls' := by
            simp [markerLine]
          have hl : pre.length + hd.length + 1 = (pre ++ hd ++ [bQuote]).length := by simp; omega
          rw [e, hl] at hscan
          have hg' := ihM (pre ++ hd ++ [bQuote]) (bQuote :: flags) ls' known _ rec
            (by intro b hb; rcases List.mem_cons.mp hb with h | h
                · rw [h]; decide
                · exact hflags b h)
            (Or.inr ⟨by simp, by simp; decide⟩)
            (by have : pre ++ hd ++ [bQuote] ++ bQuote :: flags ++ [bNl] = pre ++ (Line.marker hd [] flags).bytes := by simp [Line.bytes, markerLine]
                rw [this]; exact hwf')
            hscan
            (by rw [e] at hlen; simp only [List.length_append, List.length_cons, List.length_nil] at hlen ⊢; omega)
          exact goal_cons_marker cfg fs cwd input rec known hd [] flags ls' hg' (fun h => absurd rfl h)
        · have hpq : ∀ b ∈ path, b ≠ bQuote := fun b hb => (hpath b hb).1
          rw [processLine_marker cfg fs cwd input pre hd path flags (textOf ls') known hs hhd hpq hpe hflags h31 h32] at hscan
          have e : pre ++ markerLine hd path flags ++ textOf ls' = (pre ++ hd ++ bQuote :: path) ++ (bQuote :: flags) ++ bNl :: textOf ls' := by
            simp [markerLine]
          have hl : pre.length + hd.length + 1 + path.length = (pre ++ hd ++ bQuote :: path).length := by simp; omega
          have hrnl : ∀ b ∈ bQuote :: flags, b ≠ bNl := by
            intro b hb; rcases List.mem_cons.mp hb with h | h
            · rw [h]; decide
            · exact hflags b h
          have hplast : (pre ++ hd ++ bQuote :: path) ≠ [] ∧ (pre ++ hd ++ bQuote :: path).getLast? ≠ some bNl := by
            refine ⟨by simp, ?_⟩
            obtain ⟨x, hx⟩ : ∃ x, path.getLast? = some x := by
              cases h : path.getLast? with
              | none => exact absurd (List.getLast?_eq_none_iff.mp h) hpe
              | some x => exact ⟨x, rfl⟩
            have hxnl : x ≠ bNl := (hpath x (List.mem_of_getLast? hx)).2
            have h1 : (bQuote :: path).getLast? = some x := by
              cases path with
              | nil => exact absurd rfl hpe
              | cons a as => rw [List.getLast?_cons_cons]; exact hx
            rw [List.getLast?_append, h1]
            simp only [Option.some_or]
            intro hcon; exact hxnl (Option.some.inj hcon)
          have hwf'' : WF (pre ++ hd ++ bQuote :: path ++ bQuote :: flags ++ [bNl]) ls' := by
            have : pre ++ hd ++ bQuote :: path ++ bQuote :: flags ++ [bNl] = pre ++ (Line.marker hd path flags).bytes := by simp [Line.bytes, markerLine]
            rw [this]; exact hwf'
          have hlen' : (pre ++ hd ++ bQuote :: path ++ bQuote :: flags ++ bNl :: textOf ls').length ≤ fuel + (pre ++ hd ++ bQuote :: path).length := by
            rw [e] at hlen; simp only [List.length_append, List.length_cons, List.length_nil] at hlen ⊢; omega
          cases hr : remember cfg fs cwd input known (normalizedText path) (flags.contains b3) with
          | disable => rw [hr] at hscan; simp at hscan
          | ok o =>
            cases o with
            | none =>
              rw [hr] at hscan
              simp only at hscan
              rw [e, hl] at hscan
              have hg' := ihM (pre ++ hd ++ bQuote :: path) (bQuote :: flags) ls' known _ rec hrnl (Or.inr hplast) hwf'' hscan hlen'
              refine goal_cons_marker cfg fs cwd input rec known hd path flags ls' hg' (fun _ => ?_)
              rcases remember_skip_reasons cfg fs cwd input known (normalizedText path) (flags.contains b3) hr with h | h | h | h | h
              · exact Or.inl h
              · exact Or.inr (Or.inl h)
              · exact Or.inr (Or.inr (Or.inl (hg'.1 _ (by simpa using h))))
              · exact Or.inr (Or.inr (Or.inr (Or.inl h)))
              · exact Or.inr (Or.inr (Or.inr (Or.inr h)))
            | some p =>
              rw [hr] at hscan
              simp only at hscan
              rw [e, hl] at hscan
              have hg' := ihM (pre ++ hd ++ bQuote :: path) (bQuote :: flags) ls' (known ++ [p]) _ rec hrnl (Or.inr hplast) hwf'' hscan hlen'
              have hp' := remember_some cfg fs cwd input known (normalizedText path) (flags.contains b3) p hr
              refine goal_cons_marker cfg fs cwd input rec known hd path flags ls' ⟨fun k hk => hg'.1 k (by simp [hk]), hg'.2⟩ (fun _ => ?_)
              exact Or.inr (Or.inr (Or.inl (by rw [← hp']; exact hg'.1 p (by simp))))
      | other body =>
        obtain ⟨hok, h31, h32, hnoq, hwf'⟩ := hwf
        have hbytes : pre ++ textOf (Line.other body :: ls') = pre ++ body ++ bNl :: textOf ls' := by
          simp [textOf, Line.bytes]
        have hwfm : WF (pre ++ body ++ [bNl]) ls' := by
          have : pre ++ body ++ [bNl] = pre ++ (Line.other body).bytes := by simp [Line.bytes]
          rw [this]; exact hwf'
        have hnoq' := hnoq body rfl
        rw [hbytes] at hscan h31 h32 hlen hnoq'
        have hlenB : (pre ++ body ++ bNl :: textOf ls').length = pre.length + body.length + 1 + (textOf ls').length := by
          simp only [List.length_append, List.length_cons]; omega
        cases hmk : isMarker (pre ++ body ++ bNl :: textOf ls') pre.length with
        | true =>
          rw [hmk] at hscan
          simp only [if_true] at hscan
          have hb : ∀ b ∈ body, b ≠ bQuote ∧ b ≠ bNl := fun b hb => ⟨hnoq' hmk b hb, hok b hb⟩
          rw [processLine_noquote cfg fs cwd input pre body (textOf ls') known hs hb h31 h32] at hscan
          simp only [Bool.not_true, Bool.false_eq_true, if_false] at hscan
          have e : pre ++ body ++ bNl :: textOf ls' = (pre ++ body) ++ [] ++ bNl :: textOf ls' := by simp
          have hl : pre.length + body.length = (pre ++ body).length := by simp
          rw [e, hl] at hscan
          have hbpos : 0 < body.length := by
            cases body with
            | nil =>
              exfalso
              have hat : at' (pre ++ [] ++ bNl :: textOf ls') pre.length = bNl := by
                have := at'_mid pre bNl (textOf ls'); simpa using this
              have := isMarker_false_of_head (pre ++ [] ++ bNl :: textOf ls') pre.length (by rw [hat]; decide)
              rw [this] at hmk; cases hmk
            | cons c r' => simp
          have hg' := ihM (pre ++ body) [] ls' known hs rec (by intro b hb; cases hb) (Or.inl rfl) (by simpa using hwfm) hscan
            (by simp only [List.length_append, List.length_cons, List.length_nil] at hlen ⊢; omega)
          exact goal_cons_other cfg fs cwd input rec known body ls' hg'
        | false =>
          rw [hmk] at hscan
          simp only [Bool.false_eq_true, if_false] at hscan
          cases hi : isIncbin (pre ++ body ++ bNl :: textOf ls') pre.length with
          | true => rw [hi] at hscan; simp at hscan
          | false =>
            rw [hi] at hscan
            simp only [Bool.false_eq_true, if_false] at hscan
            cases hban : (startsAt (pre ++ body ++ bNl :: textOf ls') pre.length underscores && (pre.length == 0 || at' (pre ++ body ++ bNl :: textOf ls') (pre.length - 1) == bNl)) with
            | true =>
              rw [hban] at hscan
              simp only [if_true] at hscan
              have s1 : skipUntil (pre ++ body ++ bNl :: textOf ls') [bNl] ((pre ++ body ++ bNl :: textOf ls').length + 1) pre.length = pre.length + body.length := by
                apply skipUntil_spec
                · intro b hb; simp [hok b hb]
                · simp
                · rw [hlenB]; omega
              rw [s1] at hscan
              have hge : ¬ (pre.length + body.length ≥ (pre ++ body ++ bNl :: textOf ls').length) := by rw [hlenB]; omega
              simp only [hge, if_false] at hscan
              have e : pre ++ body ++ bNl :: textOf ls' = (pre ++ body ++ [bNl]) ++ textOf ls' := by simp
              have hl : pre.length + body.length + 1 = (pre ++ body ++ [bNl]).length := by simp; omega
              rw [e, hl] at hscan
              have hg' := ihL (pre ++ body ++ [bNl]) ls' known _ rec (Or.inr (by simp)) hwfm hscan
                (by simp only [List.length_append, List.length_cons, List.length_nil] at hlen ⊢; omega)
              exact goal_cons_other cfg fs cwd input rec known body ls' hg'
            | false =>
              rw [hban] at hscan
              simp only [Bool.false_eq_true, if_false] at hscan
              cases body with
              | nil =>
                have e : pre ++ [] ++ bNl :: textOf ls' = (pre ++ [bNl]) ++ textOf ls' := by simp
                have hl : pre.length + 1 = (pre ++ [bNl]).length := by simp
                rw [e, hl] at hscan
                have hg' := ihL (pre ++ [bNl]) ls' known hs rec (Or.inr (by simp)) (by simpa using hwfm) hscan
                  (by rw [e] at hlen; simp only [List.length_append, List.length_cons, List.length_nil] at hlen ⊢; omega)
                exact goal_cons_other cfg fs cwd input rec known [] ls' hg'
              | cons c r' =>
                have e : pre ++ (c :: r') ++ bNl :: textOf ls' = (pre ++ [c]) ++ r' ++ bNl :: textOf ls' := by simp
                have hl : pre.length + 1 = (pre ++ [c]).length := by simp
                rw [e, hl] at hscan
                have hc : c ≠ bNl := hok c (by simp)
                have hg' := ihM (pre ++ [c]) r' ls' known hs rec (fun b hb => hok b (by simp [hb])) (Or.inr ⟨by simp, by simp [hc]⟩) (by simpa using hwfm) hscan
                  (by rw [e] at hlen; simp only [List.length_append, List.length_cons, List.length_nil] at hlen ⊢; omega)
                exact goal_cons_other cfg fs cwd input rec known (c :: r') ls' hg'
  · simp only [hg, decide_false, Bool.not_false, if_true] at hscan
    have hrec : known = rec := by injection hscan with _ h
    rw [← hrec]
    apply goal_of_short cfg fs cwd input known ls (wf_ok _ _ hwf)
    simp only [List.length_append] at hg; omega

theorem scan_inv : ∀ fuel : Nat, StartInv cfg fs cwd input fuel ∧ MidInv cfg fs cwd input fuel := by
  intro fuel
  induction fuel with
  | zero =>
    constructor
    · intro pre ls known hs rec _ hwf hscan hlen
      have hrec : known = rec := by simp only [scan] at hscan; injection hscan with _ h
      rw [← hrec]
      apply goal_of_short cfg fs cwd input known ls (wf_ok _ _ hwf)
      simp only [List.length_append] at hlen; omega
    · intro pre r ls known hs rec _ _ hwf hscan hlen
      simp only [List.length_append, List.length_cons] at hlen; omega
  | succ n ih => exact ⟨start_step cfg fs cwd input n ih.1 ih.2, mid_step cfg fs cwd input n ih.1 ih.2⟩

/-- **Soundness of the include recorder on well-formed preprocessor output.**  If `process_preprocessed_file` leaves
    preprocessor-cache mode enabled, then the file named by *every* line marker of the text (`# N "path" flags`, or the
    pch pragma) is accounted for: it is among the recorded include files — under the path `cwd.join(normalised path)` —
    or it is excluded for one of the four documented reasons: a `<pseudo>` name, a system header (flag 3) while
    `skip_system_headers` is on, the input file itself, a directory.  For every text, any number of lines, any file system. -/
theorem recorder_sound (ls : List Line) (hwf : WF [] ls) (rec : List Bytes)
    (h : processPreprocessedFile cfg fs cwd input (textOf ls) = .ok true rec) :
    ∀ hd path flags, Line.marker hd path flags ∈ ls → path ≠ [] → Covered cfg fs cwd input rec path flags := by
  have := (scan_inv cfg fs cwd input (2 * (textOf ls).length + 2)).1 [] ls [] 0 rec (Or.inl rfl) hwf
    (by simpa [processPreprocessedFile] using h) (by simp; omega)
  exact this.2

end Sound

end RecM

namespace RecM

theorem foldl_normStep_plain (abs : Bool) : ∀ (cs st : List Bytes), (∀ c ∈ cs, c ≠ dotdot ∧ c ≠ [bDot]) → cs.foldl (normStep abs) st = st ++ cs := by
  intro cs
  induction cs with
  | nil => intro st _; simp
  | cons c cs ih =>
    intro st h
    have hc := h c (by simp)
    have h1 : (c == [bDot]) = false := by simpa using hc.2
    have h2 : (c == dotdot) = false := by simpa using hc.1
    simp only [List.foldl_cons, normStep, h1, h2, Bool.false_eq_true, if_false]
    rw [ih (st ++ [c]) (fun c' hc' => h c' (by simp [hc']))]
    simp

/-- a path without `..` components (and without a leading `.`) reaches `remember_include_file` exactly as the
    preprocessor spelled it: the recorded key is then `cwd.join(path)` itself, no lexical rewriting involved -/
theorem normalizedText_plain (raw : Bytes) (h : ∀ c ∈ rustComps raw, c ≠ dotdot ∧ c ≠ [bDot]) : normalizedText raw = raw := by
  unfold normalizedText normalizedTextWith normCompsWith
  rw [foldl_normStep_plain (isAbs raw) (rustComps raw) [] h]
  simp

/-! non-vacuity: a three-line text over a small world, well-formed, direct mode stays on, both headers recorded
    (`../inc/b.h` under its own spelling `<cwd>/../inc/b.h`) -/
def exWorld : List (List Bytes × FileKind) :=
  [([sb [112]], .dir), ([sb [112], sb [115]], .dir), ([sb [112], sb [105]], .dir),
   ([sb [112], sb [115], sb [97, 46, 104]], .file false false false), ([sb [112], sb [105], sb [98, 46, 104]], .file false false false),
   ([sb [112], sb [115], sb [109, 46, 99]], .file false false false)]
def exLines : List Line :=
  [.marker (sb [35, 32, 49, 32]) (sb [97, 46, 104]) [], .other (sb [105, 110, 116, 32, 120, 59]),
   .marker (sb [35, 32, 55, 32]) (sb [46, 46, 47, 105, 47, 98, 46, 104]) (sb [32, 49])]

theorem exLines_wf : WF [] exLines := by
  unfold exLines
  refine And.intro ?_ (And.intro (by decide) (And.intro (by decide) (And.intro ?_ ?_)))
  · exact ⟨by decide, by decide, by decide, by decide, by decide⟩
  · intro body h; cases h
  refine And.intro ?_ (And.intro (by decide) (And.intro (by decide) (And.intro ?_ ?_)))
  · show ∀ b ∈ sb [105, 110, 116, 32, 120, 59], b ≠ bNl
    decide
  · intro body _ hm; exfalso; revert hm; decide
  refine And.intro ?_ (And.intro (by decide) (And.intro (by decide) (And.intro ?_ trivial)))
  · exact ⟨by decide, by decide, by decide, by decide, by decide⟩
  · intro body h; cases h

theorem exLines_result :
    processPreprocessedFile ⟨true, false⟩ (fsOf exWorld) (sb [47, 112, 47, 115]) (sb [47, 112, 47, 115, 47, 109, 46, 99]) (textOf exLines)
      = .ok true [sb [47, 112, 47, 115, 47, 97, 46, 104], sb [47, 112, 47, 115, 47, 46, 46, 47, 105, 47, 98, 46, 104]] := by decide

end RecM
