import SccacheModel.Proofs.Key

namespace CK

/-! Proofs (design round): the language tag is separated from what follows it (C02 `encHash_lang_sep`). -/

def streamOf (A E : List Bytes) (N : List (Bytes × Bytes)) (P : Bytes) : Bytes := A.flatMap encArg ++ tail3 E N P

/-- the stream after the tag starts with a token, with a digest, or is just the payload -/
theorem head_cases (A E : List Bytes) (N : List (Bytes × Bytes)) (P : Bytes)
    (hA : ∀ a ∈ A, ArgOK a) (hE : ∀ e ∈ E, HexOK e) (hN : ∀ kv ∈ N, EnvOK kv) :
    (∃ b X, ArgOK b ∧ streamOf A E N P = encArg b ++ X) ∨ (∃ e X, HexOK e ∧ streamOf A E N P = e ++ X) ∨
    (streamOf A E N P = P) := by
  cases A with
  | cons b bs => exact Or.inl ⟨b, bs.flatMap encArg ++ tail3 E N P, hA b (by simp), by simp [streamOf, List.append_assoc]⟩
  | nil =>
    cases E with
    | cons e es => exact Or.inr (Or.inl ⟨e, es.flatten ++ (N.flatMap envTok ++ P), hE e (by simp), by simp [streamOf, tail3, List.append_assoc]⟩)
    | nil =>
      cases N with
      | cons kv ns => exact Or.inl ⟨kv.1, eqB ++ (encArg kv.2 ++ (ns.flatMap envTok ++ P)), (hN kv (by simp)).1, by simp [streamOf, tail3, envTok, List.append_assoc]⟩
      | nil => exact Or.inr (Or.inr (by simp [streamOf, tail3]))

def Z7 (S : Bytes) : Prop := S[7]? = some 0
def NF8 (S : Bytes) : Prop := ∀ j, j < 8 → S[j]? ≠ some 0

theorem z7_or_nf8 (A E : List Bytes) (N : List (Bytes × Bytes)) (P : Bytes)
    (hA : ∀ a ∈ A, ArgOK a) (hE : ∀ e ∈ E, HexOK e) (hN : ∀ kv ∈ N, EnvOK kv) (hP : PayOK P) :
    Z7 (streamOf A E N P) ∨ NF8 (streamOf A E N P) := by
  rcases head_cases A E N P hA hE hN with ⟨b, X, hb, h⟩ | ⟨e, X, he, h⟩ | h
  · left; rw [h]; unfold Z7; simp only [encArg, List.append_assoc]; exact le64_get7 _ hb.1 _
  · right; rw [h]; intro j hj hc
    obtain ⟨c, hc', hne⟩ := all_hex_get e he.2 j (by rw [he.1]; omega) X
    rw [hc'] at hc; exact hne (Option.some.inj hc)
  · right; rw [h]; intro j _; exact nulfree_get P hP.1 j

def NonZero (x : Bytes) : Prop := ∀ c ∈ x, c ≠ 0

/-- B: a prefix of at most 8 non-zero bytes followed by a stream without NUL in its first 8 bytes has no NUL at index 7 -/
theorem ext_nf8_get7 (x S : Bytes) (hx : NonZero x) (hS : NF8 S) : (x ++ S)[7]? ≠ some 0 := by
  intro hc
  by_cases h7 : 7 < x.length
  · rw [List.getElem?_append_left h7] at hc
    have hm : x[7] ∈ x := List.getElem_mem h7
    have : x[7] = 0 := by rw [List.getElem?_eq_getElem h7] at hc; exact Option.some.inj hc
    rw [this] at hm
    exact hx _ hm rfl
  · rw [List.getElem?_append_right (by omega)] at hc
    exact hS _ (by omega) hc

theorem tok_vs_ext (b X x S : Bytes) (hb : ArgOK b) (hx : NonZero x) (hxl : 0 < x.length) (hxl8 : x.length ≤ 8)
    (hx0 : ∀ c, x[0]? = some c → 8 ≤ c.toNat) (hS : Z7 S ∨ NF8 S) : encArg b ++ X ≠ x ++ S := by
  intro h
  rcases hS with hz | hn
  · -- index |x| + 7: zero on the right, a byte of b on the left
    have hlen : x.length ≤ b.length := by
      have h0 : (encArg b ++ X)[0]? = (x ++ S)[0]? := congrArg (·[0]?) h
      simp only [encArg, List.append_assoc] at h0
      rw [le64_eq] at h0
      rw [List.getElem?_append_left hxl] at h0
      simp at h0
      have := hx0 _ h0.symm
      simp at this
      omega
    have hi : (encArg b ++ X)[x.length + 7]? = (x ++ S)[x.length + 7]? := congrArg (·[x.length + 7]?) h
    have hR : (x ++ S)[x.length + 7]? = some 0 := by
      rw [List.getElem?_append_right (Nat.le_add_right _ _), Nat.add_sub_cancel_left]; exact hz
    have hL : (encArg b ++ X)[x.length + 7]? = some (b[x.length - 1]'(by omega)) := by
      simp only [encArg, List.append_assoc]
      rw [List.getElem?_append_right (by simp [le64_length]; omega)]
      simp only [le64_length]
      have e : x.length + 7 - 8 = x.length - 1 := by omega
      rw [e, List.getElem?_append_left (by omega)]
      simp
    rw [hR, hL] at hi
    have hm : b[x.length - 1]'(by omega) ∈ b := List.getElem_mem _
    rw [Option.some.inj hi] at hm
    exact hb.2 hm
  · have h7 : (encArg b ++ X)[7]? = (x ++ S)[7]? := congrArg (·[7]?) h
    simp only [encArg, List.append_assoc] at h7
    rw [le64_get7 _ hb.1] at h7
    exact ext_nf8_get7 x S hx hn h7.symm

-- `allLangs` is generated (Gen/KeyConsts.lean)
theorem mem_allLangs (l : Lang) : l ∈ allLangs := by cases l <;> simp [allLangs]

/-- two tags are equal, or one extends the other by a listed extension, or they differ at a byte both have -/
def tagRelB (t1 t2 : Bytes) : Bool :=
  t1 == t2 || tagExtensions.any (fun x => t2 == t1 ++ x) || tagExtensions.any (fun x => t1 == t2 ++ x) ||
    (List.range (min t1.length t2.length)).any (fun i => t1.getD i 0 != t2.getD i 0)

theorem tag_rel_all : allLangs.all (fun l1 => allLangs.all fun l2 => tagRelB (langTagBytes l1) (langTagBytes l2)) = true := by
  decide

theorem ext_props : tagExtensions.all (fun x => x.all (· != 0) && decide (0 < x.length) && decide (x.length ≤ 8) &&
    decide (8 ≤ (x.getD 0 0).toNat) && !isHexLower (x.getD 0 0)) = true := by decide

theorem mismatch_ne (t1 t2 S1 S2 : Bytes) (i : Nat) (h1 : i < t1.length) (h2 : i < t2.length)
    (hne : t1.getD i 0 ≠ t2.getD i 0) : t1 ++ S1 ≠ t2 ++ S2 := by
  intro h
  have hi : (t1 ++ S1)[i]? = (t2 ++ S2)[i]? := congrArg (·[i]?) h
  rw [List.getElem?_append_left h1, List.getElem?_append_left h2] at hi
  apply hne
  simp only [List.getD, hi]

/-- a stream of our shape never starts with a tag extension, unless it is the payload alone -/
theorem stream_vs_ext (x : Bytes) (hxm : x ∈ tagExtensions)
    (A1 E1 : List Bytes) (N1 : List (Bytes × Bytes)) (P1 : Bytes) (A2 E2 : List Bytes) (N2 : List (Bytes × Bytes)) (P2 : Bytes)
    (hA1 : ∀ a ∈ A1, ArgOK a) (hE1 : ∀ e ∈ E1, HexOK e) (hN1 : ∀ kv ∈ N1, EnvOK kv)
    (hA2 : ∀ a ∈ A2, ArgOK a) (hE2 : ∀ e ∈ E2, HexOK e) (hN2 : ∀ kv ∈ N2, EnvOK kv) (hP2 : PayOK P2)
    (hpay : ¬ x <+: P1)
    (h : streamOf A1 E1 N1 P1 = x ++ streamOf A2 E2 N2 P2) : False := by
  have hp := List.all_eq_true.mp ext_props x hxm
  simp only [Bool.and_eq_true, decide_eq_true_eq, Bool.not_eq_true'] at hp
  obtain ⟨⟨⟨⟨hnz, hpos⟩, hle8⟩, hge8⟩, hnothex⟩ := hp
  have hNZ : NonZero x := by
    intro c hc; have := List.all_eq_true.mp hnz c hc; simpa using this
  have hx0 : ∀ c, x[0]? = some c → 8 ≤ c.toNat := by
    intro c hc
    have : x.getD 0 0 = c := by simp [List.getD, hc]
    rw [← this]; exact hge8
  rcases head_cases A1 E1 N1 P1 hA1 hE1 hN1 with ⟨b, X, hb, hs⟩ | ⟨e, X, he, hs⟩ | hs
  · rw [hs] at h
    exact tok_vs_ext b X x _ hb hNZ hpos hle8 hx0 (z7_or_nf8 A2 E2 N2 P2 hA2 hE2 hN2 hP2) h
  · rw [hs] at h
    have hel : 0 < e.length := by have := he.1; omega
    have h0 : (e ++ X)[0]? = (x ++ streamOf A2 E2 N2 P2)[0]? := congrArg (·[0]?) h
    rw [List.getElem?_append_left hel, List.getElem?_append_left hpos] at h0
    rw [List.getElem?_eq_getElem hel, List.getElem?_eq_getElem hpos] at h0
    have h0' : e[0] = x[0] := Option.some.inj h0
    have hx0' : x.getD 0 0 = e[0] := by
      rw [List.getD_eq_getElem?_getD, List.getElem?_eq_getElem hpos]; simp [h0']
    have hhex : isHexLower e[0] = true := List.all_eq_true.mp he.2 _ (List.getElem_mem _)
    rw [← hx0', hnothex] at hhex
    cases hhex
  · rw [hs] at h
    exact hpay ⟨_, h.symm⟩

/-- C02 `encHash_lang_sep`: equal pre-images have equal language tags, provided the payloads do not begin
    with one of the six tag extensions -/
theorem encGen_lang_sep (ver : Bytes) (allow : List Bytes) (r1 r2 : CReq) (w1 : WF r1) (w2 : WF r2)
    (hext : ∀ x ∈ tagExtensions, ¬ (x <+: r1.pp) ∧ ¬ (x <+: r2.pp))
    (h : encGen ver allow r1 = encGen ver allow r2) : langTagBytes r1.lang = langTagBytes r2.lang := by
  simp only [encGen, List.append_assoc] at h
  have hd : r1.digest = r2.digest := by
    have := congrArg (List.take 64) h
    rwa [List.take_left' w1.digest.1, List.take_left' w2.digest.1] at this
  rw [hd, List.append_cancel_left_eq] at h
  simp only [List.cons_append, List.nil_append, List.cons.injEq] at h
  obtain ⟨_, h⟩ := h
  rw [List.append_cancel_left_eq] at h
  rw [encEnv_eq, encEnv_eq] at h
  -- h : tag1 ++ (args1 ++ (extra1 ++ (env1 ++ pp1))) = tag2 ++ …
  have hS : ∀ r : CReq, r.args.flatMap encArg ++ (r.extra.flatten ++ ((canonEnvG allow r).flatMap envTok ++ r.pp)) =
      streamOf r.args r.extra (canonEnvG allow r) r.pp := by intro r; simp [streamOf, tail3, List.append_assoc]
  rw [hS r1, hS r2] at h
  have envOK : ∀ (r : CReq), WF r → ∀ kv ∈ canonEnvG allow r, EnvOK kv := by
    intro r w kv hkv
    have hm : kv ∈ r.env := (List.mem_filter.mp hkv).1
    obtain ⟨x1, x2, x3, x4⟩ := w.env kv hm
    exact ⟨⟨x1, x3⟩, ⟨x2, x4⟩⟩
  have hrel := List.all_eq_true.mp (List.all_eq_true.mp tag_rel_all r1.lang (mem_allLangs _)) r2.lang (mem_allLangs _)
  simp only [tagRelB, Bool.or_eq_true, beq_iff_eq, List.any_eq_true] at hrel
  rcases hrel with ((heq | ⟨x, hx, hx2⟩) | ⟨x, hx, hx1⟩) | ⟨i, hi, hne⟩
  · exact heq
  · -- tag2 = tag1 ++ x : stream1 = x ++ stream2
    exfalso
    have hx2' : langTagBytes r2.lang = langTagBytes r1.lang ++ x := by simpa using hx2
    rw [hx2', List.append_assoc, List.append_cancel_left_eq] at h
    exact stream_vs_ext x hx r1.args r1.extra (canonEnvG allow r1) r1.pp r2.args r2.extra (canonEnvG allow r2) r2.pp
      w1.args w1.extra (envOK r1 w1) w2.args w2.extra (envOK r2 w2) ⟨w2.ppNul, w2.ppHex⟩ (hext x hx).1 h
  · exfalso
    have hx1' : langTagBytes r1.lang = langTagBytes r2.lang ++ x := by simpa using hx1
    rw [hx1', List.append_assoc, List.append_cancel_left_eq] at h
    exact stream_vs_ext x hx r2.args r2.extra (canonEnvG allow r2) r2.pp r1.args r1.extra (canonEnvG allow r1) r1.pp
      w2.args w2.extra (envOK r2 w2) w1.args w1.extra (envOK r1 w1) ⟨w1.ppNul, w1.ppHex⟩ (hext x hx).2 h.symm
  · exfalso
    have hi' := List.mem_range.mp hi
    exact mismatch_ne _ _ _ _ i (by omega) (by omega) (by simpa using hne) h

/-- C02 `encHash_lang_sep` -/
theorem encHash_lang_sep : EncHashLangSep := by
  intro r1 r2 w1 w2 hext h
  exact encGen_lang_sep cCacheVersion cCachedEnv r1 r2 w1 w2 hext h

#print axioms encHash_lang_sep

end CK
