import SccacheModel.Proofs.Atomic

namespace AtomicM

/-! Provenance for C06: whatever a lookup returns is byte-identical to a value that some `put` was *asked to store
    under that key* — the content `(key, val, total)` of every inode was requested by a `spawnPut` of the history. -/

/-- the history contains a request to store value `v` (of `total` chunks) under key `k` -/
def Requested (hist : List Act) (k v total : Nat) : Prop := ∃ tid, Act.spawnPut tid k v total ∈ hist

structure Prov (hist : List Act) (s : Sys) : Prop where
  inode : ∀ i, i < s.nextIno → Requested hist (s.inodes i).key (s.inodes i).val (s.inodes i).total
  start : ∀ tid k v total, s.threads tid = .putStart k v total → Requested hist k v total

theorem requested_mono (h1 h2 : List Act) (k v t : Nat) (hsub : ∀ a ∈ h1, a ∈ h2) (h : Requested h1 k v t) : Requested h2 k v t := by
  obtain ⟨tid, hm⟩ := h; exact ⟨tid, hsub _ hm⟩

theorem prov_init : Prov [] Sys.init := ⟨fun i hi => by simp [Sys.init] at hi, fun tid k v total h => by simp [Sys.init] at h⟩

theorem prov_step (hist : List Act) (s : Sys) (h : Prov hist s) (a : Act) : Prov (hist ++ [a]) (step s a).1 := by
  have mono : ∀ k v t, Requested hist k v t → Requested (hist ++ [a]) k v t :=
    fun k v t hr => requested_mono hist _ k v t (fun x hx => List.mem_append_left _ hx) hr
  have keep : Prov (hist ++ [a]) s := ⟨fun i hi => mono _ _ _ (h.inode i hi), fun tid k v total ht => mono _ _ _ (h.start tid k v total ht)⟩
  cases a with
  | spawnPut tid k v total =>
    simp only [step, spawnPut]
    split
    · refine ⟨keep.inode, ?_⟩
      intro tid' k' v' total' ht
      simp only [upd] at ht
      split at ht
      · cases ht; exact ⟨tid, by simp⟩
      · exact keep.start tid' k' v' total' ht
    · exact keep
  | spawnGet tid k =>
    simp only [step, spawnGet]
    split
    · refine ⟨keep.inode, ?_⟩
      intro tid' k' v' total' ht
      simp only [upd] at ht
      split at ht
      · cases ht
      · exact keep.start tid' k' v' total' ht
    · exact keep
  | putPrepare tid =>
    simp only [step, putPrepare]
    split
    · rename_i k v total hth
      refine ⟨?_, ?_⟩
      · intro i hi
        simp only [upd]
        split
        · exact keep.start tid k v total hth
        · rename_i hne
          have : i < s.nextIno := by
            have : i < s.nextIno + 1 := hi
            omega
          exact keep.inode i this
      · intro tid' k' v' total' ht
        simp only [upd] at ht
        split at ht
        · cases ht
        · exact keep.start tid' k' v' total' ht
    · exact keep
  | putWrite tid =>
    simp only [step, putWrite]
    split
    · split
      · refine ⟨?_, keep.start⟩
        intro i hi
        simp only [upd]
        split
        · rename_i e; subst e; exact keep.inode _ hi
        · exact keep.inode i hi
      · exact keep
    · exact keep
  | putCommit tid =>
    simp only [step, putCommit]
    split
    · split
      · refine ⟨keep.inode, ?_⟩
        intro tid' k' v' total' ht
        simp only [upd] at ht
        split at ht
        · cases ht
        · exact keep.start tid' k' v' total' ht
      · exact keep
    · exact keep
  | putAbort tid =>
    simp only [step, putAbort]
    split
    · refine ⟨keep.inode, ?_⟩
      intro tid' k' v' total' ht
      simp only [upd] at ht
      split at ht
      · cases ht
      · exact keep.start tid' k' v' total' ht
    · exact keep
  | getOpen tid =>
    simp only [step, getOpen]
    split
    · split
      · split
        all_goals
          refine ⟨keep.inode, ?_⟩
          intro tid' k' v' total' ht
          simp only [upd] at ht
          split at ht
          · cases ht
          · exact keep.start tid' k' v' total' ht
      · refine ⟨keep.inode, ?_⟩
        intro tid' k' v' total' ht
        simp only [upd] at ht
        split at ht
        · cases ht
        · exact keep.start tid' k' v' total' ht
    · exact keep
  | extOpen tid =>
    simp only [step, extOpen]
    split
    · split
      all_goals
        refine ⟨keep.inode, ?_⟩
        intro tid' k' v' total' ht
        simp only [upd] at ht
        split at ht
        · cases ht
        · exact keep.start tid' k' v' total' ht
    · exact keep
  | getRead tid =>
    simp only [step, getRead]
    split
    · refine ⟨keep.inode, ?_⟩
      intro tid' k' v' total' ht
      simp only [upd] at ht
      split at ht
      · cases ht
      · exact keep.start tid' k' v' total' ht
    · exact keep
  | evict k => exact ⟨keep.inode, keep.start⟩
  | crash =>
    refine ⟨keep.inode, ?_⟩
    intro tid k v total ht
    simp [step, crash] at ht

theorem prov_run (acts : List Act) : ∀ (pre : List Act) (s : Sys), Prov pre s → Prov (pre ++ acts) (run s acts) := by
  induction acts with
  | nil => intro pre s h; simpa [run] using h
  | cons a as ih =>
    intro pre s h
    have := ih (pre ++ [a]) (step s a).1 (prov_step pre s h a)
    simpa [run, List.append_assoc] using this

/-- C06 `get_stored_value`: what a lookup returns was requested to be stored under exactly that key by some `put`
    of the history, and it is complete — it is byte-identical to one value stored under that key, never foreign -/
theorem get_stored_value (acts : List Act) (tid : Nat) (c : Content)
    (h : (step (run Sys.init acts) (.getRead tid)).2 = .hit tid c) :
    Requested acts c.key c.val c.total ∧ c.written = c.total ∧
      ∃ i, (run Sys.init acts).threads tid = .getReading c.key i := by
  have hinv : AInv (run Sys.init acts) := inv_run acts Sys.init ainv_init
  have hprov : Prov acts (run Sys.init acts) := by simpa using prov_run acts [] Sys.init prov_init
  simp only [step, getRead] at h
  split at h
  · rename_i k i hth
    cases h
    have hr := hinv.reader tid k i hth
    refine ⟨hprov.inode i hr.1, hr.2.2, i, ?_⟩
    rw [hr.2.1]; exact hth
  · cases h

end AtomicM
