import SccacheModel.Model.Config

/-! Lemmas about the configuration model (`ConfigM`): which of environment and file decides each field of the disk
cache configuration the server ends up with. -/

namespace ConfigM

/-- inversion of `envDisk` -/
theorem envDisk_ok (e : Env) (r : Option Disk) (h : envDisk e = .ok r) :
    ∃ direct, boolFromEnv e.direct = .ok direct ∧ r = envDiskOf e (sizeOpt (envSize e)) direct := by
  unfold envDisk at h
  split at h
  · cases h
  · split at h
    · cases h
    · rename_i direct hd
      injection h with h
      exact ⟨direct, hd, h.symm⟩

theorem envDisk_error (e : Env) (h : envDisk e = .error) : ∃ u, boolFromEnv e.direct = .error u := by
  unfold envDisk at h
  split at h
  · cases h
  · split at h
    · rename_i u hu; exact ⟨u, hu⟩
    · cases h

theorem rw_ne : sReadWrite ≠ sReadOnly := by decide

theorem envRw_fst (v : Option Bytes) : (envRw v).1 = (if v = some sReadOnly then .readOnly else .readWrite) := by
  unfold envRw
  cases v with
  | none => simp
  | some v =>
    by_cases h1 : v = sReadOnly
    · simp [h1]
    · by_cases h2 : v = sReadWrite
      · subst h2; simp [rw_ne]
      · simp [h1, h2]

theorem envRw_snd (v : Option Bytes) : (envRw v).2 = true ↔ (v = some sReadOnly ∨ v = some sReadWrite) := by
  unfold envRw
  cases v with
  | none => simp
  | some v =>
    by_cases h1 : v = sReadOnly
    · simp [h1]
    · by_cases h2 : v = sReadWrite
      · subst h2; simp [rw_ne]
      · simp [h1, h2]

/-- the environment section, when it exists, carries the `rw_mode` of `SCCACHE_LOCAL_RW_MODE` if that is `READ_ONLY`
    and `READ_WRITE` otherwise -/
theorem envDisk_rw (e : Env) (d : Disk) (h : envDisk e = .ok (some d)) :
    d.rw = (if e.rw = some sReadOnly then .readOnly else .readWrite) := by
  obtain ⟨direct, _, hr⟩ := envDisk_ok e _ h
  unfold envDiskOf at hr
  split at hr
  · injection hr with hr; subst hr; exact envRw_fst e.rw
  · cases hr

/-- `SCCACHE_LOCAL_RW_MODE=READ_ONLY` (or `READ_WRITE`) alone is enough for an environment section to exist -/
theorem envDisk_some_of_rw (e : Env) (hr : e.rw = some sReadOnly ∨ e.rw = some sReadWrite) :
    envDisk e = .error ∨ envDisk e = .overflow ∨ ∃ d, envDisk e = .ok (some d) := by
  unfold envDisk
  split
  · exact Or.inr (Or.inl rfl)
  · split
    · exact Or.inl rfl
    · refine Or.inr (Or.inr ?_)
      have h2 : (envRw e.rw).2 = true := (envRw_snd e.rw).mpr hr
      unfold envDiskOf
      simp only [h2, Bool.or_true, if_true]
      exact ⟨_, rfl⟩

theorem load_env_some (e : Env) (f : Option FileDisk) (d : Disk) (h : envDisk e = .ok (some d)) : load e f = .ok d := by
  simp [load, h]

theorem load_env_none (e : Env) (f : Option FileDisk) (h : envDisk e = .ok none) :
    load e f = .ok ((f.map fileDisk).getD Disk.dflt) := by
  simp [load, h]

/-- if the environment names a mode, the loaded configuration has it — whatever the file and the other variables say -/
theorem env_rw_effective (e : Env) (f : Option FileDisk) (d : Disk) (hl : load e f = .ok d)
    (hr : e.rw = some sReadOnly ∨ e.rw = some sReadWrite) :
    d.rw = (if e.rw = some sReadOnly then .readOnly else .readWrite) := by
  rcases envDisk_some_of_rw e hr with h | h | ⟨d', h⟩
  · simp [load, h] at hl
  · simp [load, h] at hl
  · rw [load_env_some e f d' h] at hl
    injection hl with hl; subst hl
    exact envDisk_rw e d' h

/-- the environment section, when it exists, has the five option switches of preprocessor-cache mode at their defaults;
    only `use` follows `SCCACHE_DIRECT` -/
theorem envDisk_pp (e : Env) (d : Disk) (h : envDisk e = .ok (some d)) :
    ∃ direct, boolFromEnv e.direct = .ok direct ∧ d.pp = { PP.activated with use := direct.getD true } := by
  obtain ⟨direct, hd, hr⟩ := envDisk_ok e _ h
  refine ⟨direct, hd, ?_⟩
  unfold envDiskOf at hr
  split at hr
  · injection hr with hr; subst hr
    cases direct <;> simp [ppOf, PP.activated]
  · cases hr

/-- the environment section is absent exactly when none of the four variables counts as set -/
theorem envDisk_none_iff (e : Env) :
    envDisk e = .ok none ↔
      (e.dir = none ∧ sizeOpt (envSize e) = none ∧ envSize e ≠ .overflow ∧ boolFromEnv e.direct = .ok none ∧
       ¬ (e.rw = some sReadOnly ∨ e.rw = some sReadWrite)) := by
  constructor
  · intro h
    obtain ⟨direct, hd, hr⟩ := envDisk_ok e _ h
    have hov : envSize e ≠ .overflow := by
      intro ho; unfold envDisk at h; rw [ho] at h; cases h
    unfold envDiskOf at hr
    split at hr
    · cases hr
    · rename_i hc
      simp only [Bool.or_eq_true, not_or, Bool.not_eq_true] at hc
      obtain ⟨⟨⟨h1, h2⟩, h3⟩, h4⟩ := hc
      refine ⟨by simpa using h1, by simpa using h2, hov, ?_, ?_⟩
      · have : direct = none := by simpa using h3
        rw [hd, this]
      · intro hx; have := (envRw_snd e.rw).mpr hx; rw [this] at h4; cases h4
  · rintro ⟨h1, h2, h3, h4, h5⟩
    unfold envDisk
    split
    · rename_i ho; exact absurd ho h3
    · rw [h4]
      simp only
      unfold envDiskOf
      have : (envRw e.rw).2 = false := by
        cases hb : (envRw e.rw).2 with
        | false => rfl
        | true => exact absurd ((envRw_snd e.rw).mp hb) h5
      simp [h1, h2, this]

/-! ### `parse_size` -/

theorem parseSize_plain (ds : Bytes) (hne : ds ≠ []) (hd : ds.all isDigit = true) (hv : digitsVal ds 0 ≤ u64Max) :
    parseSize ds = .some (digitsVal ds 0) := by
  have hlast : multiplierOf ds = 1 := by
    unfold multiplierOf
    cases hl : ds.getLast? with
    | none => rfl
    | some b =>
      have hb : isDigit b = true := List.all_eq_true.mp hd b (List.mem_of_getLast? hl)
      have h2 : 48 ≤ b ∧ b ≤ 57 := by simpa [isDigit] using hb
      have hfind : GenC.sizeSuffixes.find? (·.1 == b) = none := by
        rw [List.find?_eq_none]
        intro x hx
        have hx' : x.1 = 75 ∨ x.1 = 77 ∨ x.1 = 71 ∨ x.1 = 84 := by
          simp only [GenC.sizeSuffixes, List.mem_cons, List.not_mem_nil, or_false] at hx
          rcases hx with h | h | h | h <;> subst h <;> simp
        simp only [beq_iff_eq]
        intro hxb
        rcases hx' with h | h | h | h <;> rw [h] at hxb <;> subst hxb <;> exact absurd h2 (by decide)
      simp [hfind]
  have hplus : stripPlus ds = ds := by
    cases ds with
    | nil => rfl
    | cons a r =>
      have : isDigit a = true := List.all_eq_true.mp hd a (by simp)
      have h2 : 48 ≤ a ∧ a ≤ 57 := by simpa [isDigit] using this
      by_cases h43 : a = 43
      · subst h43; exact absurd h2 (by decide)
      · unfold stripPlus; split
        · rename_i h; injection h with h1 _; exact absurd h1 h43
        · rfl
  have hemp : ds.isEmpty = false := by
    cases ds with
    | nil => exact absurd rfl hne
    | cons _ _ => rfl
  unfold parseSize
  simp only [hlast, show ¬ (1 > 1) by decide, if_false]
  unfold u64FromStr
  simp only [hplus, hemp, hd, Bool.false_or, Bool.not_true, Bool.false_eq_true, if_false, hv, if_true, Nat.mul_one]

end ConfigM
