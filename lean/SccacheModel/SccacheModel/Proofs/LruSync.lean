import SccacheModel.Proofs.Lru

namespace LruM
namespace Lru

/-! C07, second half: the index equals the set of entry files with their sizes (no indexed entry without a file, no
    entry file that is not indexed), and evictions take a prefix of the recency order. External deletions are
    interference from outside and are excluded (`NoExt`). -/

def KeysNodup (l : List (Key × Nat)) : Prop := (l.map (·.1)).Nodup

/-- index and directory agree: same (key, size) pairs, keys unique -/
structure Sync (c : Lru) : Prop where
  perm : c.entries.Perm c.files
  nodup : KeysNodup c.entries

theorem keysNodup_perm {a b : List (Key × Nat)} (p : a.Perm b) (h : KeysNodup a) : KeysNodup b := by
  unfold KeysNodup at *
  exact (List.Perm.nodup_iff (List.Perm.map (fun x : Key × Nat => x.1) p)).mp h

theorem eraseKey_perm {a b : List (Key × Nat)} (p : a.Perm b) (k : Key) : (eraseKey a k).Perm (eraseKey b k) :=
  List.Perm.filter _ p

theorem keysNodup_eraseKey (l : List (Key × Nat)) (k : Key) (h : KeysNodup l) : KeysNodup (eraseKey l k) := by
  unfold KeysNodup eraseKey at *
  exact List.Nodup.sublist (List.Sublist.map _ List.filter_sublist) h

theorem not_mem_keys_eraseKey (l : List (Key × Nat)) (k : Key) : k ∉ (eraseKey l k).map (·.1) := by
  intro h
  obtain ⟨x, hx, hk⟩ := List.mem_map.mp h
  have := (List.mem_filter.mp hx).2
  simp at this
  exact this hk

theorem keysNodup_snoc (l : List (Key × Nat)) (k : Key) (n : Nat) (h : KeysNodup l) (hk : k ∉ l.map (·.1)) :
    KeysNodup (l ++ [(k, n)]) := by
  unfold KeysNodup at *
  rw [List.map_append, List.nodup_append]
  refine ⟨h, by simp, ?_⟩
  intro a ha b hb
  simp at hb
  subst hb
  intro e; subst e; exact hk ha

theorem eraseKey_of_not_mem (l : List (Key × Nat)) (k : Key) (h : k ∉ l.map (·.1)) : eraseKey l k = l := by
  unfold eraseKey
  apply List.filter_eq_self.mpr
  intro x hx
  simp
  intro e
  exact h (List.mem_map.mpr ⟨x, hx, e⟩)

/-- index and directory agree up to a list `x` of files that exist but are not (yet) indexed -/
structure SyncX (x : List (Key × Nat)) (c : Lru) : Prop where
  perm : (c.entries ++ x).Perm c.files
  nodup : KeysNodup (c.entries ++ x)

theorem sync_iff_syncX (c : Lru) : Sync c ↔ SyncX [] c := by
  constructor
  · intro h; exact ⟨by simpa using h.perm, by simpa using h.nodup⟩
  · intro h; exact ⟨by simpa using h.perm, by simpa using h.nodup⟩

/-- popping the head of the index and deleting its file keeps index and directory in agreement -/
theorem syncX_pop (x : List (Key × Nat)) (c : Lru) (k : Key) (sz : Nat) (rest : List (Key × Nat)) (he : c.entries = (k, sz) :: rest)
    (h : SyncX x c) : SyncX x { c with entries := rest, files := eraseKey c.files k } := by
  have hnd : KeysNodup ((k, sz) :: (rest ++ x)) := by have := h.nodup; rw [he] at this; simpa using this
  have hk : k ∉ (rest ++ x).map (·.1) := by
    unfold KeysNodup at hnd; simp only [List.map_cons, List.nodup_cons] at hnd; exact hnd.1
  have hnr : KeysNodup (rest ++ x) := by
    unfold KeysNodup at hnd ⊢; simp only [List.map_cons, List.nodup_cons] at hnd; exact hnd.2
  refine ⟨?_, hnr⟩
  show (rest ++ x).Perm (eraseKey c.files k)
  have p : (eraseKey (c.entries ++ x) k).Perm (eraseKey c.files k) := eraseKey_perm h.perm k
  have e : eraseKey (c.entries ++ x) k = rest ++ x := by
    rw [he]
    show (((k, sz) :: rest) ++ x).filter (·.1 != k) = rest ++ x
    simp only [List.cons_append, List.filter_cons, bne_self_eq_false, Bool.false_eq_true, if_false]
    exact eraseKey_of_not_mem (rest ++ x) k hk
  rw [e] at p; exact p

theorem makeSpaceFuel_syncX (x : List (Key × Nat)) (f : Nat) (c c' : Lru) (n : Nat) (r : Res) (h : makeSpaceFuel f c n = (c', r))
    (hs : SyncX x c) : SyncX x c' ∧ ∃ m, c'.entries = c.entries.drop m := by
  induction f generalizing c with
  | zero => simp only [makeSpaceFuel] at h; cases h; exact ⟨hs, 0, rfl⟩
  | succ f ih =>
    unfold makeSpaceFuel at h
    by_cases hgt : c.size + n > c.cap
    · simp only [hgt, if_true] at h
      cases he : c.entries with
      | nil => simp only [he] at h; cases h; exact ⟨hs, 0, by simp [he]⟩
      | cons e rest =>
        obtain ⟨k, sz⟩ := e
        simp only [he] at h
        obtain ⟨h1, m, hm⟩ := ih { c with entries := rest, files := eraseKey c.files k } h (syncX_pop x c k sz rest he hs)
        exact ⟨h1, m + 1, by simpa using hm⟩
    · simp only [hgt, if_false] at h; cases h; exact ⟨hs, 0, rfl⟩

theorem makeSpace_syncX (x : List (Key × Nat)) (c c' : Lru) (n : Nat) (r : Res) (h : c.makeSpace n = (c', r)) (hs : SyncX x c) :
    SyncX x c' ∧ ∃ m, c'.entries = c.entries.drop m := by
  unfold makeSpace at h
  by_cases hn : n > c.cap
  · simp only [hn, if_true] at h; cases h; exact ⟨hs, 0, rfl⟩
  · simp only [hn, if_false] at h; exact makeSpaceFuel_syncX x _ c c' n r h hs

/-- C07 `evicts_lru_prefix`: whatever `make_space` removes is a **prefix of the recency order** (least recently used
    first), and it keeps index and directory in agreement -/
theorem makeSpace_sync (c c' : Lru) (n : Nat) (r : Res) (h : c.makeSpace n = (c', r)) (hs : Sync c) :
    Sync c' ∧ ∃ m, c'.entries = c.entries.drop m := by
  obtain ⟨h1, h2⟩ := makeSpace_syncX [] c c' n r h ((sync_iff_syncX c).mp hs)
  exact ⟨(sync_iff_syncX c').mpr h1, h2⟩

/-- `make_space` can only refuse when nothing is left to evict and the request still does not fit -/
theorem makeSpaceFuel_tooLarge (f : Nat) (c c' : Lru) (n : Nat) (h : makeSpaceFuel f c n = (c', .tooLarge)) (hf : c.entries.length < f) :
    c'.entries = [] ∧ c'.size + n > c'.cap ∧ c'.pendingSize = c.pendingSize := by
  induction f generalizing c with
  | zero => omega
  | succ f ih =>
    unfold makeSpaceFuel at h
    by_cases hgt : c.size + n > c.cap
    · simp only [hgt, if_true] at h
      cases he : c.entries with
      | nil => simp only [he] at h; cases h; exact ⟨he, hgt, rfl⟩
      | cons e rest =>
        obtain ⟨k, sz⟩ := e
        simp only [he] at h
        have := ih { c with entries := rest, files := eraseKey c.files k } h (by simp only; rw [he] at hf; simp at hf; omega)
        exact this
    · simp only [hgt, if_false] at h; cases h

theorem lruInsert_entries (c : Lru) (k : Key) (n : Nat) (h : c.lruSize + n ≤ c.cap) :
    (c.lruInsert k n).entries = eraseKey c.entries k ++ [(k, n)] := by
  have hs : ((eraseKey c.entries k ++ [(k, n)]).map (·.2)).sum ≤ c.cap := by
    have := sum_eraseKey_le c.entries k
    simp [lruSize] at h ⊢; omega
  simp only [lruInsert]; exact lruInsertFuel_noop _ _ _ hs

/-- inserting `(k, n)` at the recent end on both sides keeps the agreement -/
theorem sync_insert (c : Lru) (k : Key) (n : Nat) (hs : Sync c) (hfit : c.lruSize + n ≤ c.cap) :
    Sync { c.lruInsert k n with files := eraseKey c.files k ++ [(k, n)] } := by
  have he := lruInsert_entries c k n hfit
  refine ⟨?_, ?_⟩
  · show (c.lruInsert k n).entries.Perm (eraseKey c.files k ++ [(k, n)])
    rw [he]; exact List.Perm.append_right _ (eraseKey_perm hs.perm k)
  · show KeysNodup (c.lruInsert k n).entries
    rw [he]; exact keysNodup_snoc _ k n (keysNodup_eraseKey _ k hs.nodup) (not_mem_keys_eraseKey _ k)

theorem sync_frame (c c' : Lru) (hs : Sync c) (he : c'.entries = c.entries) (hf : c'.files = c.files) : Sync c' :=
  ⟨by rw [he, hf]; exact hs.perm, by rw [he]; exact hs.nodup⟩

theorem sync_erase_both (c : Lru) (k : Key) (hs : Sync c) :
    Sync { c with entries := eraseKey c.entries k, files := eraseKey c.files k } :=
  ⟨eraseKey_perm hs.perm k, keysNodup_eraseKey _ k hs.nodup⟩

end Lru
end LruM

namespace LruM
namespace Lru

/-! ### every public operation keeps index and directory in agreement -/

theorem sync_of_parts (c' : Lru) (E F : List (Key × Nat)) (k : Key) (n : Nat) (p : E.Perm F) (hn : KeysNodup E)
    (he : c'.entries = eraseKey E k ++ [(k, n)]) (hf : c'.files = eraseKey F k ++ [(k, n)]) : Sync c' :=
  ⟨by rw [he, hf]; exact List.Perm.append_right _ (eraseKey_perm p k),
   by rw [he]; exact keysNodup_snoc _ k n (keysNodup_eraseKey _ k hn) (not_mem_keys_eraseKey _ k)⟩

theorem prepareAdd_sync (c : Lru) (k : Key) (n : Nat) (hs : Sync c) : Sync (c.prepareAdd k n).1 := by
  unfold prepareAdd
  rcases hr : c.makeSpace n with ⟨c', r⟩
  have h := (makeSpace_sync c c' n r hr hs).1
  cases r <;> simp only <;> first | exact sync_frame _ _ h rfl rfl | exact h

theorem insertBytes_sync (c : Lru) (k : Key) (n : Nat) (hA : Acct c) (hnp : c.poisoned = false) (hs : Sync c) :
    Sync (c.insertBytes k n).1 := by
  unfold insertBytes
  by_cases hn : n > c.cap
  · simp only [hn, if_true]; exact hs
  · simp only [hn, if_false]
    -- the state after writing the file and dropping the stale index entry: in agreement up to the new file
    have h0 : Sync { c with entries := eraseKey c.entries k, files := eraseKey c.files k } := sync_erase_both c k hs
    have hx : SyncX [(k, n)] { c with files := eraseKey c.files k ++ [(k, n)], entries := eraseKey c.entries k } :=
      ⟨List.Perm.append_right _ h0.perm, keysNodup_snoc _ k n h0.nodup (not_mem_keys_eraseKey _ k)⟩
    unfold addFile
    rcases hr : makeSpace { c with files := eraseKey c.files k ++ [(k, n)], entries := eraseKey c.entries k } n with ⟨c', r⟩
    obtain ⟨hx', _⟩ := makeSpace_syncX [(k, n)] _ c' n r hr hx
    obtain ⟨h1, h2, h3, h4, h5, hpo, h6, h8⟩ := makeSpace_spec _ c' n r hr
    have hkn : k ∉ c'.entries.map (·.1) := by
      have := hx'.nodup
      unfold KeysNodup at this
      rw [List.map_append, List.nodup_append] at this
      intro hm
      exact this.2.2 k hm k (by simp) rfl
    rcases h8 with rfl | rfl
    · simp only
      have hfit : c'.lruSize + n ≤ c'.cap := by have := h6 rfl; omega
      have he := lruInsert_entries c' k n hfit
      refine ⟨?_, ?_⟩
      · show (c'.lruInsert k n).entries.Perm c'.files
        rw [he, eraseKey_of_not_mem _ k hkn]; exact hx'.perm
      · show KeysNodup (c'.lruInsert k n).entries
        rw [he, eraseKey_of_not_mem _ k hkn]; exact hx'.nodup
    · simp only
      refine ⟨?_, ?_⟩
      · show c'.entries.Perm (eraseKey c'.files k)
        have p := eraseKey_perm hx'.perm k
        have e : eraseKey (c'.entries ++ [(k, n)]) k = c'.entries := by
          show (c'.entries ++ [(k, n)]).filter (·.1 != k) = c'.entries
          rw [List.filter_append]
          have : ([(k, n)] : List (Key × Nat)).filter (·.1 != k) = [] := by simp
          rw [this, List.append_nil]
          exact eraseKey_of_not_mem _ k hkn
        rw [e] at p; exact p
      · show KeysNodup c'.entries
        have := hx'.nodup
        unfold KeysNodup at this ⊢
        rw [List.map_append, List.nodup_append] at this
        exact this.1

theorem commit_sync (c : Lru) (h : Nat) (hA : Acct c) (hnp : c.poisoned = false) (hs : Sync c) : Sync (c.commit h).1 := by
  unfold commit
  cases hf : c.temps.find? (·.handle == h) with
  | none => simp only; exact hs
  | some p =>
    simp only
    have hfree := reservedSum_filter_find c.temps h p hf
    have hs0 : Sync { c with temps := c.temps.filter (·.handle != h) } := sync_frame _ _ hs rfl rfl
    split
    · exact hs0
    rcases hr : makeSpace { c with temps := c.temps.filter (·.handle != h) } (p.written - p.reserved) with ⟨c1, r⟩
    have hs1 := (makeSpace_sync _ c1 _ r hr hs0).1
    obtain ⟨h1, h2, h3, h4, h5, hpo, h6, h8⟩ := makeSpace_spec _ c1 _ r hr
    simp only at h1 h2 h3 hpo
    rcases h8 with rfl | rfl
    · simp only
      have hsz := h6 rfl
      have hA0 := hA hnp
      have hres : p.reserved ≤ c.pendingSize := by
        have := hA0.2; simp only [reservedSum] at this; omega
      have hfit : c1.lruSize + p.written ≤ c1.cap := by omega
      have he : ((commitCore c1 p).lruInsert p.key p.written).entries = eraseKey c1.entries p.key ++ [(p.key, p.written)] :=
        lruInsert_entries (commitCore c1 p) p.key p.written hfit
      exact sync_of_parts _ c1.entries c1.files p.key p.written hs1.perm hs1.nodup he rfl
    · simp only; exact hs1

theorem get_sync (c : Lru) (k : Key) (hs : Sync c) : Sync (c.get k).1 := by
  unfold get
  split
  · exact hs
  · rename_i e he
    have hmem : e ∈ c.entries := List.mem_of_find?_eq_some he
    have hk : e.1 = k := by have := List.find?_some he; simpa using this
    have hperm : (eraseKey c.entries k ++ [e]).Perm c.entries := by
      -- moving the unique entry of key k to the back is a permutation
      have : ∀ (l : List (Key × Nat)), KeysNodup l → e ∈ l → (eraseKey l k ++ [e]).Perm l := by
        intro l
        induction l with
        | nil => intro _ hm; cases hm
        | cons x xs ih =>
          intro hnd hm
          have hndx : KeysNodup xs := by unfold KeysNodup at hnd ⊢; simp only [List.map_cons, List.nodup_cons] at hnd; exact hnd.2
          have hxk : x.1 ∉ xs.map (·.1) := by unfold KeysNodup at hnd; simp only [List.map_cons, List.nodup_cons] at hnd; exact hnd.1
          rcases List.mem_cons.mp hm with hx | hx
          · subst hx
            have hne : (e.1 != k) = false := by simp [hk]
            have : eraseKey (e :: xs) k = xs := by
              show (e :: xs).filter (·.1 != k) = xs
              simp only [List.filter_cons, hne, Bool.false_eq_true, if_false]
              exact eraseKey_of_not_mem xs k (hk ▸ hxk)
            rw [this]; exact List.perm_append_singleton e xs
          · have hxne : x.1 ≠ k := by
              intro e'; apply hxk; exact List.mem_map.mpr ⟨e, hx, by rw [hk, e']⟩
            have hne : (x.1 != k) = true := by simp [hxne]
            have : eraseKey (x :: xs) k = x :: eraseKey xs k := by
              show (x :: xs).filter (·.1 != k) = x :: xs.filter (·.1 != k)
              simp only [List.filter_cons, hne, if_true]
            rw [this, List.cons_append]
            exact List.Perm.cons x (ih hndx hx)
      exact this c.entries hs.nodup hmem
    have hres : Sync { c with entries := eraseKey c.entries k ++ [e] } :=
      ⟨hperm.trans hs.perm, keysNodup_perm hperm.symm hs.nodup⟩
    split <;> exact hres

theorem remove_sync (c : Lru) (k : Key) (hs : Sync c) : Sync (c.remove k).1 := by
  unfold remove
  split
  · split
    · exact sync_erase_both c k hs
    · rename_i hcont hno
      -- the key is indexed, so (agreement) its file exists: this branch is unreachable, but harmless
      have : eraseKey c.files k = c.files := by
        apply eraseKey_of_not_mem
        intro hm
        obtain ⟨x, hx, hxk⟩ := List.mem_map.mp hm
        have : c.files.any (·.1 == k) = true := List.any_eq_true.mpr ⟨x, hx, by simp [hxk]⟩
        exact hno this
      have h := sync_erase_both c k hs
      exact ⟨by simpa [this] using h.perm, h.nodup⟩
  · exact hs

/-- the start-up scan: files oldest first; every file ends up indexed or deleted -/
theorem reopen_sync (c : Lru) (order : List (Key × Nat)) (hnd : KeysNodup order) : Sync (c.reopen order) := by
  unfold reopen
  -- invariant of the fold: index ++ not-yet-scanned files = directory; nothing is reserved
  have key : ∀ (l : List (Key × Nat)) (acc : Lru), SyncX l acc → acc.pendingSize = 0 →
      Sync (l.foldl (fun acc (kn : Key × Nat) => if kn.2 > acc.cap then { acc with files := eraseKey acc.files kn.1 } else (acc.addFile kn.1 kn.2).1) acc) := by
    intro l
    induction l with
    | nil => intro acc h _; exact (sync_iff_syncX acc).mpr h
    | cons kn l ih =>
      intro acc h hp
      obtain ⟨k, n⟩ := kn
      simp only [List.foldl_cons]
      have hkn : k ∉ (acc.entries ++ l).map (·.1) := by
        have := h.nodup
        unfold KeysNodup at this
        rw [List.map_append, List.map_cons, List.nodup_append] at this
        intro hm
        rw [List.map_append] at hm
        rcases List.mem_append.mp hm with hm | hm
        · exact this.2.2 k hm k (by simp) rfl
        · have h2 := this.2.1; simp only [List.nodup_cons] at h2; exact h2.1 hm
      have hndl : KeysNodup (acc.entries ++ l) := by
        have := h.nodup
        unfold KeysNodup at this ⊢
        rw [List.map_append, List.map_cons] at this
        rw [List.map_append]
        have hsub : List.Sublist (acc.entries.map (·.1) ++ l.map (·.1)) (acc.entries.map (·.1) ++ k :: l.map (·.1)) :=
          List.Sublist.append_left (List.sublist_cons_self k _) _
        exact List.Nodup.sublist hsub this
      split
      · -- too large for the cache: the file is deleted
        refine ih { acc with files := eraseKey acc.files k } ?_ hp
        refine ⟨?_, hndl⟩
        show (acc.entries ++ l).Perm (eraseKey acc.files k)
        have p := eraseKey_perm h.perm k
        have e : eraseKey (acc.entries ++ (k, n) :: l) k = acc.entries ++ l := by
          show (acc.entries ++ (k, n) :: l).filter (·.1 != k) = acc.entries ++ l
          rw [List.filter_append, List.filter_cons]
          simp only [bne_self_eq_false, Bool.false_eq_true, if_false]
          rw [← List.filter_append]
          exact eraseKey_of_not_mem (acc.entries ++ l) k hkn
        rw [e] at p; exact p
      · rename_i hfits
        unfold addFile
        rcases hr : makeSpace acc n with ⟨c', r⟩
        obtain ⟨hx', m, hdrop⟩ := makeSpace_syncX ((k, n) :: l) acc c' n r hr h
        obtain ⟨h1, h2, h3, h4, h5, hpo, h6, h8⟩ := makeSpace_spec acc c' n r hr
        have hkn' : k ∉ (c'.entries ++ l).map (·.1) := by
          have := hx'.nodup
          unfold KeysNodup at this
          rw [List.map_append, List.map_cons, List.nodup_append] at this
          intro hm
          rw [List.map_append] at hm
          rcases List.mem_append.mp hm with hm | hm
          · exact this.2.2 k hm k (by simp) rfl
          · have h2' := this.2.1; simp only [List.nodup_cons] at h2'; exact h2'.1 hm
        rcases h8 with rfl | rfl
        · simp only
          have hfit : c'.lruSize + n ≤ c'.cap := by have := h6 rfl; omega
          have he := lruInsert_entries c' k n hfit
          have hk1 : k ∉ c'.entries.map (·.1) := fun hm => hkn' (by rw [List.map_append]; exact List.mem_append_left _ hm)
          apply ih
          · refine ⟨?_, ?_⟩
            · show ((c'.lruInsert k n).entries ++ l).Perm c'.files
              rw [he, eraseKey_of_not_mem _ k hk1, List.append_assoc]; exact hx'.perm
            · show KeysNodup ((c'.lruInsert k n).entries ++ l)
              rw [he, eraseKey_of_not_mem _ k hk1, List.append_assoc]; exact hx'.nodup
          · show c'.pendingSize = 0
            rw [h1]; exact hp
        · -- `make_space` cannot refuse here: nothing is reserved and the file fits the capacity
          exfalso
          unfold makeSpace at hr
          simp only [hfits, if_false] at hr
          obtain ⟨he0, hgt, hpe⟩ := makeSpaceFuel_tooLarge _ acc c' n hr (Nat.lt_succ_self _)
          have : c'.size = 0 := by simp [size, lruSize, he0, hpe, hp]
          omega
  apply key
  · exact ⟨by simp, by simpa using hnd⟩
  · rfl

/-- operations of the cache itself and of its callers — everything except deletion of files by someone else -/
def NoExt : LOp → Prop
  | .externalDelete _ => False
  | _ => True

/-- the `order` handed to a reopen is what is on disk: the entry files, each once -/
def ReopenFaithful (c : Lru) : LOp → Prop
  | .reopen order => order.Perm c.files
  | _ => True

structure Good (c : Lru) : Prop where
  np : c.poisoned = false
  acct : Acct c
  sync : Sync c

theorem good_step (c : Lru) (g : Good c) (o : LOp) (hne : NoExt o) (hro : ReopenFaithful c o) : Good (lstep c o) := by
  have hnp' := (lstep_np c o g.np).1
  cases o with
  | insertBytes k n => exact ⟨hnp', insertBytes_acct c k n g.acct, insertBytes_sync c k n g.acct g.np g.sync⟩
  | prepareAdd k n => exact ⟨hnp', prepareAdd_acct c k n g.acct, prepareAdd_sync c k n g.sync⟩
  | write h m => exact ⟨hnp', write_acct c h m g.acct, sync_frame _ _ g.sync rfl rfl⟩
  | commit h => exact ⟨hnp', commit_acct c h g.acct, commit_sync c h g.acct g.np g.sync⟩
  | dropEntry h => exact ⟨hnp', dropEntry_acct c h g.acct, sync_frame _ _ g.sync rfl rfl⟩
  | get k => exact ⟨hnp', get_acct c k g.acct, get_sync c k g.sync⟩
  | remove k => exact ⟨hnp', remove_acct c k g.acct, remove_sync c k g.sync⟩
  | externalDelete k => exact absurd hne (by simp [NoExt])
  | reopen order =>
    refine ⟨hnp', reopen_acct c order, reopen_sync c order ?_⟩
    have p : order.Perm c.files := hro
    exact keysNodup_perm (g.sync.perm.trans p.symm) g.sync.nodup

/-- a history together with the side conditions at each step -/
def GoodHistory : Lru → List LOp → Prop
  | _, [] => True
  | c, o :: os => NoExt o ∧ ReopenFaithful c o ∧ GoodHistory (lstep c o) os

/-- C07 `index_eq_disk`: after **every** sequence of public operations (no file deleted by someone else; reopen sees
    the directory as it is) every indexed entry exists on disk with exactly the recorded size, no other entry file
    exists, and no key is indexed twice -/
theorem index_eq_disk (cap : Nat) (ops : List LOp) (h : GoodHistory { cap := cap } ops) :
    let c := ops.foldl lstep { cap := cap }
    c.entries.Perm c.files ∧ KeysNodup c.entries := by
  have : ∀ (ops : List LOp) (c : Lru), Good c → GoodHistory c ops → Good (ops.foldl lstep c) := by
    intro ops
    induction ops with
    | nil => intro c g _; exact g
    | cons o os ih => intro c g hh; exact ih _ (good_step c g o hh.1 hh.2.1) hh.2.2
  have g0 : Good ({ cap := cap } : Lru) :=
    ⟨rfl, by intro _; simp [lruSize, reservedSum], ⟨List.Perm.refl _, by simp [KeysNodup]⟩⟩
  have g := this ops _ g0 h
  exact ⟨g.sync.perm, g.sync.nodup⟩

end Lru
end LruM
