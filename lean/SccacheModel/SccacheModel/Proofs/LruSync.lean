import SccacheModel.Proofs.Lru

namespace LruM
namespace Lru

/-! C07, second half: the index equals the set of entry files with their sizes (no indexed entry without a file, no
    entry file that is not indexed), and evictions take a prefix of the recency order. External deletions are
    interference from outside and are excluded (`NoExt`). -/

def KeysNodup (l : List (Key × Nat)) : Prop := (l.map (·.1)).Nodup

/-- index and directory agree: same (key, size) pairs, keys unique -/
structure Sync (c : Lru) : Prop where
  perm : c.entries.Perm c.files
  nodup : KeysNodup c.entries

theorem keysNodup_perm {a b : List (Key × Nat)} (p : a.Perm b) (h : KeysNodup a) : KeysNodup b := by
  unfold KeysNodup at *
  exact (List.Perm.nodup_iff (List.Perm.map (fun x : Key × Nat => x.1) p)).mp h

theorem eraseKey_perm {a b : List (Key × Nat)} (p : a.Perm b) (k : Key) : (eraseKey a k).Perm (eraseKey b k) :=
  List.Perm.filter _ p

theorem keysNodup_eraseKey (l : List (Key × Nat)) (k : Key) (h : KeysNodup l) : KeysNodup (eraseKey l k) := by
  unfold KeysNodup eraseKey at *
  exact List.Nodup.sublist (List.Sublist.map _ List.filter_sublist) h

theorem not_mem_keys_eraseKey (l : List (Key × Nat)) (k : Key) : k ∉ (eraseKey l k).map (·.1) := by
  intro h
  obtain ⟨x, hx, hk⟩ := List.mem_map.mp h
  have := (List.mem_filter.mp hx).2
  simp at this
  exact this hk

theorem keysNodup_snoc (l : List (Key × Nat)) (k : Key) (n : Nat) (h : KeysNodup l) (hk : k ∉ l.map (·.1)) :
    KeysNodup (l ++ [(k, n)]) := by
  unfold KeysNodup at *
  rw [List.map_append, List.nodup_append]
  refine ⟨h, by simp, ?_⟩
  intro a ha b hb
  simp at hb
  subst hb
  intro e; subst e; exact hk ha

theorem eraseKey_of_not_mem (l : List (Key × Nat)) (k : Key) (h : k ∉ l.map (·.1)) : eraseKey l k = l := by
  unfold eraseKey
  apply List.filter_eq_self.mpr
  intro x hx
  simp
  intro e
  exact h (List.mem_map.mpr ⟨x, hx, e⟩)

/-- index and directory agree up to a list `x` of files that exist but are not (yet) indexed -/
structure SyncX (x : List (Key × Nat)) (c : Lru) : Prop where
  perm : (c.entries ++ x).Perm c.files
  nodup : KeysNodup (c.entries ++ x)

theorem sync_iff_syncX (c : Lru) : Sync c ↔ SyncX [] c := by
  constructor
  · intro h; exact ⟨by simpa using h.perm, by simpa using h.nodup⟩
  · intro h; exact ⟨by simpa using h.perm, by simpa using h.nodup⟩

/-- popping the head of the index and deleting its file keeps index and directory in agreement -/
theorem syncX_pop (x : List (Key × Nat)) (c : Lru) (k : Key) (sz : Nat) (rest : List (Key × Nat)) (he : c.entries = (k, sz) :: rest)
    (h : SyncX x c) : SyncX x { c with entries := rest, files := eraseKey c.files k } := by
  have hnd : KeysNodup ((k, sz) :: (rest ++ x)) := by have := h.nodup; rw [he] at this; simpa using this
  have hk : k ∉ (rest ++ x).map (·.1) := by
    unfold KeysNodup at hnd; simp only [List.map_cons, List.nodup_cons] at hnd; exact hnd.1
  have hnr : KeysNodup (rest ++ x) := by
    unfold KeysNodup at hnd ⊢; simp only [List.map_cons, List.nodup_cons] at hnd; exact hnd.2
  refine ⟨?_, hnr⟩
  show (rest ++ x).Perm (eraseKey c.files k)
  have p : (eraseKey (c.entries ++ x) k).Perm (eraseKey c.files k) := eraseKey_perm h.perm k
  have e : eraseKey (c.entries ++ x) k = rest ++ x := by
    rw [he]
    show (((k, sz) :: rest) ++ x).filter (·.1 != k) = rest ++ x
    simp only [List.cons_append, List.filter_cons, bne_self_eq_false, Bool.false_eq_true, if_false]
    exact eraseKey_of_not_mem (rest ++ x) k hk
  rw [e] at p; exact p

theorem makeSpaceFuel_syncX (x : List (Key × Nat)) (f : Nat) (c c' : Lru) (n : Nat) (r : Res) (h : makeSpaceFuel f c n = (c', r))
    (hs : SyncX x c) : SyncX x c' ∧ ∃ m, c'.entries = c.entries.drop m := by
  induction f generalizing c with
  | zero => simp only [makeSpaceFuel] at h; cases h; exact ⟨hs, 0, rfl⟩
  | succ f ih =>
    unfold makeSpaceFuel at h
    by_cases hgt : c.size + n > c.cap
    · simp only [hgt, if_true] at h
      cases he : c.entries with
      | nil => simp only [he] at h; cases h; exact ⟨hs, 0, by simp [he]⟩
      | cons e rest =>
        obtain ⟨k, sz⟩ := e
        simp only [he] at h
        obtain ⟨h1, m, hm⟩ := ih { c with entries := rest, files := eraseKey c.files k } h (syncX_pop x c k sz rest he hs)
        exact ⟨h1, m + 1, by simpa using hm⟩
    · simp only [hgt, if_false] at h; cases h; exact ⟨hs, 0, rfl⟩

theorem makeSpace_syncX (x : List (Key × Nat)) (c c' : Lru) (n : Nat) (r : Res) (h : c.makeSpace n = (c', r)) (hs : SyncX x c) :
    SyncX x c' ∧ ∃ m, c'.entries = c.entries.drop m := by
  unfold makeSpace at h
  by_cases hn : n > c.cap
  · simp only [hn, if_true] at h; cases h; exact ⟨hs, 0, rfl⟩
  · simp only [hn, if_false] at h; exact makeSpaceFuel_syncX x _ c c' n r h hs

/-- C07 `evicts_lru_prefix`: whatever `make_space` removes is a **prefix of the recency order** (least recently used
    first), and it keeps index and directory in agreement -/
theorem makeSpace_sync (c c' : Lru) (n : Nat) (r : Res) (h : c.makeSpace n = (c', r)) (hs : Sync c) :
    Sync c' ∧ ∃ m, c'.entries = c.entries.drop m := by
  obtain ⟨h1, h2⟩ := makeSpace_syncX [] c c' n r h ((sync_iff_syncX c).mp hs)
  exact ⟨(sync_iff_syncX c').mpr h1, h2⟩

/-- `make_space` can only refuse when nothing is left to evict and the request still does not fit -/
theorem makeSpaceFuel_tooLarge (f : Nat) (c c' : Lru) (n : Nat) (h : makeSpaceFuel f c n = (c', .tooLarge)) (hf : c.entries.length < f) :
    c'.entries = [] ∧ c'.size + n > c'.cap ∧ c'.pendingSize = c.pendingSize := by
  induction f generalizing c with
  | zero => omega
  | succ f ih =>
    unfold makeSpaceFuel at h
    by_cases hgt : c.size + n > c.cap
    · simp only [hgt, if_true] at h
      cases he : c.entries with
      | nil => simp only [he] at h; cases h; exact ⟨he, hgt, rfl⟩
      | cons e rest =>
        obtain ⟨k, sz⟩ := e
        simp only [he] at h
        have := ih { c with entries := rest, files := eraseKey c.files k } h (by simp only; rw [he] at hf; simp at hf; omega)
        exact this
    · simp only [hgt, if_false] at h; cases h

theorem lruInsert_entries (c : Lru) (k : Key) (n : Nat) (h : c.lruSize + n ≤ c.cap) :
    (c.lruInsert k n).entries = eraseKey c.entries k ++ [(k, n)] := by
  have hs : ((eraseKey c.entries k ++ [(k, n)]).map (·.2)).sum ≤ c.cap := by
    have := sum_eraseKey_le c.entries k
    simp [lruSize] at h ⊢; omega
  simp only [lruInsert]; exact lruInsertFuel_noop _ _ _ hs

/-- inserting `(k, n)` at the recent end on both sides keeps the agreement -/
theorem sync_insert (c : Lru) (k : Key) (n : Nat) (hs : Sync c) (hfit : c.lruSize + n ≤ c.cap) :
    Sync { c.lruInsert k n with files := eraseKey c.files k ++ [(k, n)] } := by
  have he := lruInsert_entries c k n hfit
  refine ⟨?_, ?_⟩
  · show (c.lruInsert k n).entries.Perm (eraseKey c.files k ++ [(k, n)])
    rw [he]; exact List.Perm.append_right _ (eraseKey_perm hs.perm k)
  · show KeysNodup (c.lruInsert k n).entries
    rw [he]; exact keysNodup_snoc _ k n (keysNodup_eraseKey _ k hs.nodup) (not_mem_keys_eraseKey _ k)

theorem sync_frame (c c' : Lru) (hs : Sync c) (he : c'.entries = c.entries) (hf : c'.files = c.files) : Sync c' :=
  ⟨by rw [he, hf]; exact hs.perm, by rw [he]; exact hs.nodup⟩

theorem sync_erase_both (c : Lru) (k : Key) (hs : Sync c) :
    Sync { c with entries := eraseKey c.entries k, files := eraseKey c.files k } :=
  ⟨eraseKey_perm hs.perm k, keysNodup_eraseKey _ k hs.nodup⟩

end Lru
end LruM
