import SccacheModel.Model.Frame

/-! the frame reader of a connection: enough fuel is enough, composition of `drain`, split invariance of `feedAll`. -/
namespace FrameM

/-- enough fuel is enough: every frame takes at least its four-byte head off the buffer -/
theorem drain_fuel (mf : Nat) : ∀ (f g : Nat) (b : Bytes), b.length < f → b.length < g → drain mf f b = drain mf g b := by
  intro f
  induction f with
  | zero => intro g b h; omega
  | succ f ih =>
    intro g b hf hg
    cases g with
    | zero => omega
    | succ g =>
      simp only [drain]
      split
      · rfl
      · split
        · rfl
        · split
          · rfl
          · rename_i h4 _ hlen
            have hd : (b.drop (4 + beVal (b.take 4))).length < f := by rw [List.length_drop]; omega
            have hd' : (b.drop (4 + beVal (b.take 4))).length < g := by rw [List.length_drop]; omega
            rw [ih g _ hd hd']

/-- the buffer left behind by `drain` holds no complete frame -/
def combine (r1 : List Out × Bytes × Bool) (k : Bytes → List Out × Bytes × Bool) : List Out × Bytes × Bool :=
  if r1.2.2 then (r1.1, [], true) else
  let r2 := k r1.2.1
  (r1.1 ++ r2.1, r2.2.1, r2.2.2)

theorem drain_dead_buf (mf : Nat) : ∀ (f : Nat) (b : Bytes), (drain mf f b).2.2 = true → (drain mf f b).2.1 = [] := by
  intro f
  induction f with
  | zero => intro b h; simp [drain] at h
  | succ f ih =>
    intro b h
    simp only [drain] at h ⊢
    split
    · rename_i h1; simp [h1] at h
    · rename_i h1
      simp only [h1, if_false] at h
      split
      · rfl
      · rename_i h2
        simp only [h2, if_false] at h
        split
        · rename_i h3; simp [h3] at h
        · rename_i h3
          simp only [h3, if_false] at h
          split
          · rfl
          · rename_i r hr
            simp only [hr] at h
            exact ih _ h

/-- **composition**: draining `b ++ y` is draining `b`, then draining what was left together with `y` -/
theorem drain_append (mf : Nat) : ∀ (f : Nat) (b y : Bytes), b.length < f →
    drain mf ((b ++ y).length + 1) (b ++ y) =
      combine (drain mf f b) (fun r1 => drain mf ((r1 ++ y).length + 1) (r1 ++ y)) := by
  intro f
  induction f with
  | zero => intro b y h; omega
  | succ f ih =>
    intro b y hf
    by_cases h4 : b.length < 4
    · -- nothing can be taken off `b` alone
      have : drain mf (f + 1) b = ([], b, false) := by simp [drain, h4]
      rw [this]; simp [combine]
    · have hb4 : (b ++ y).take 4 = b.take 4 := by rw [List.take_append_of_le_length (by omega)]
      have hl4 : ¬ (b ++ y).length < 4 := by rw [List.length_append]; omega
      by_cases hmax : mf < beVal (b.take 4)
      · have h1 : drain mf (f + 1) b = ([.closed], [], true) := by simp [drain, h4, hmax]
        have h2 : drain mf ((b ++ y).length + 1) (b ++ y) = ([.closed], [], true) := by simp only [drain, hl4, if_false, hb4, hmax, if_true]
        rw [h1, h2]; simp [combine]
      · by_cases hlen : b.length < 4 + beVal (b.take 4)
        · have : drain mf (f + 1) b = ([], b, false) := by simp [drain, h4, hmax, hlen]
          rw [this]; simp [combine]
        · have hlen' : ¬ (b ++ y).length < 4 + beVal (b.take 4) := by rw [List.length_append]; omega
          have hbody : ((b ++ y).drop 4).take (beVal (b.take 4)) = (b.drop 4).take (beVal (b.take 4)) := by
            rw [List.drop_append_of_le_length (by omega), List.take_append_of_le_length (by rw [List.length_drop]; omega)]
          have hrest : (b ++ y).drop (4 + beVal (b.take 4)) = b.drop (4 + beVal (b.take 4)) ++ y := by
            rw [List.drop_append_of_le_length (by omega)]
          cases hdec : decReq ((b.drop 4).take (beVal (b.take 4))) with
          | none =>
            have h1 : drain mf (f + 1) b = ([.closed], [], true) := by simp [drain, h4, hmax, hlen, hdec]
            have h2 : drain mf ((b ++ y).length + 1) (b ++ y) = ([.closed], [], true) := by
              simp only [drain, hl4, if_false, hb4, hmax, hlen', hbody, hdec]
            rw [h1, h2]; simp [combine]
          | some r =>
            have hd : (b.drop (4 + beVal (b.take 4))).length < f := by rw [List.length_drop]; omega
            have h1 : drain mf (f + 1) b =
                (.request r :: (drain mf f (b.drop (4 + beVal (b.take 4)))).1, (drain mf f (b.drop (4 + beVal (b.take 4)))).2.1, (drain mf f (b.drop (4 + beVal (b.take 4)))).2.2) := by
              simp [drain, h4, hmax, hlen, hdec]
            have h2 : drain mf ((b ++ y).length + 1) (b ++ y) =
                (.request r :: (drain mf (b ++ y).length (b.drop (4 + beVal (b.take 4)) ++ y)).1, (drain mf (b ++ y).length (b.drop (4 + beVal (b.take 4)) ++ y)).2.1,
                  (drain mf (b ++ y).length (b.drop (4 + beVal (b.take 4)) ++ y)).2.2) := by
              simp only [drain, hl4, if_false, hb4, hmax, hlen', hbody, hdec, hrest]
            rw [h1, h2]
            have hfu : drain mf (b ++ y).length (b.drop (4 + beVal (b.take 4)) ++ y) =
                drain mf ((b.drop (4 + beVal (b.take 4)) ++ y).length + 1) (b.drop (4 + beVal (b.take 4)) ++ y) := by
              apply drain_fuel
              · rw [List.length_append, List.length_append, List.length_drop]; omega
              · omega
            rw [hfu, ih _ y hd]
            simp only [combine]
            split <;> simp
end FrameM

namespace FrameM

theorem feed_append (c : Conn) (x z : Bytes) :
    feed c (x ++ z) = ((feed (feed c x).1 z).1, (feed c x).2 ++ (feed (feed c x).1 z).2) := by
  by_cases hd : c.dead = true
  · simp [feed, hd]
  · have hd' : c.dead = false := by cases h : c.dead <;> simp_all
    have key := drain_append c.maxFrame ((c.buf ++ x).length + 1) (c.buf ++ x) z (Nat.lt_succ_self _)
    simp only [feed, hd', Bool.false_eq_true, if_false]
    rw [← List.append_assoc, key]
    simp only [combine]
    cases h2 : (drain c.maxFrame ((c.buf ++ x).length + 1) (c.buf ++ x)).2.2 with
    | true =>
      have hb := drain_dead_buf c.maxFrame _ _ h2
      simp only [List.length_append] at hb h2 ⊢
      simp [hb]
    | false => simp

theorem feedAll_cons (c : Conn) (x : Bytes) (xs : List Bytes) : feedAll c (x :: xs) = feed c (x ++ xs.flatten) := by
  induction xs generalizing c x with
  | nil => simp [feedAll]
  | cons y ys ih =>
    have h1 : feedAll c (x :: y :: ys) = ((feedAll (feed c x).1 (y :: ys)).1, (feed c x).2 ++ (feedAll (feed c x).1 (y :: ys)).2) := by
      simp [feedAll]
    rw [h1, ih, List.flatten_cons, feed_append c x (y ++ ys.flatten)]

/-- **split invariance**: what a connection hands to the service, whether it ends in an error, and what stays in its buffer
    depend on the bytes received, not on how the reads cut them -/
theorem split_invariant (c : Conn) (x y : Bytes) (xs ys : List Bytes) (h : (x :: xs).flatten = (y :: ys).flatten) :
    feedAll c (x :: xs) = feedAll c (y :: ys) := by
  rw [feedAll_cons, feedAll_cons]
  simp only [List.flatten_cons] at h
  rw [h]

/-- once a connection has ended in an error nothing sent on it is looked at -/
theorem dead_ignores (c : Conn) (h : c.dead = true) (chunk : Bytes) : feed c chunk = (c, []) := by simp [feed, h]

/-- a frame that announces more than `maxFrame` bytes ends the connection as soon as its head is there, whatever follows -/
theorem oversized_frame_closes (mf n : Nat) (head rest : Bytes) (hh : head.length = 4) (hn : beVal head = n) (hbig : mf < n) :
    (feed (Conn.init mf) (head ++ rest)).2 = [.closed] ∧ (feed (Conn.init mf) (head ++ rest)).1.dead = true := by
  have h4 : ¬ (head ++ rest).length < 4 := by rw [List.length_append]; omega
  have ht : (head ++ rest).take 4 = head := by rw [List.take_append_of_le_length (by omega), ← hh, List.take_length]
  simp only [feed, Conn.init, List.nil_append, Bool.false_eq_true, if_false, drain, h4, ht, hn, hbig, if_true]
  simp

end FrameM
