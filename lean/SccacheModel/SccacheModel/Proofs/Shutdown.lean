import SccacheModel.Model.Shutdown

/-! Invariant of the running/draining/exited life of a server (`Model/Shutdown.lean`) over all timed event histories. -/
namespace ShutM

structure Inv (s : Srv) : Prop where
  hg : 0 < s.grace
  run_ : ∀ d, s.phase = .running d → s.drainAt = none ∧ d = arm s.T s.last ∧ s.last ≤ s.now ∧ (∀ dd, d = some dd → s.now < dd)
  drn : ∀ since, s.phase = .draining since → s.drainAt = some since ∧ s.conns ≠ [] ∧ since ≤ s.now ∧ s.now < since + s.grace
  ext : ∀ e, s.phase = .exited e → ∃ d, s.drainAt = some d ∧ d ≤ e ∧ e ≤ d + s.grace ∧ (s.conns ≠ [] → e = d + s.grace)
  idle : ∀ d, s.drainAt = some d → s.byStop = false → s.T ≠ 0 ∧ d = s.last + s.T
  stopd : ∀ d, s.drainAt = some d → s.byStop = true → d = s.last

theorem arm_some {T t d : Nat} (h : some d = arm T t) : T ≠ 0 ∧ d = t + T := by
  unfold arm at h; split at h <;> simp_all

theorem adv_run_none (s : Srv) (t : Nat) (hp : s.phase = .running none) : advance s t = { s with now := max s.now t } := by
  simp only [advance, fireIdle, fireGrace, hp]

theorem adv_run_later (s : Srv) (t d : Nat) (hp : s.phase = .running (some d)) (h : ¬ d ≤ max s.now t) :
    advance s t = { s with now := max s.now t } := by
  simp only [advance, fireIdle, fireGrace, hp, h, if_false]

theorem adv_run_exit (s : Srv) (t d : Nat) (hp : s.phase = .running (some d)) (h : d ≤ max s.now t) (hc : s.conns = []) :
    advance s t = { s with now := max s.now t, drainAt := some d, byStop := false, phase := .exited d } := by
  simp only [advance, fireIdle, fireGrace, enterDrain, hp, h, hc, if_true]

theorem adv_run_drain (s : Srv) (t d : Nat) (hp : s.phase = .running (some d)) (h : d ≤ max s.now t) (hc : s.conns ≠ [])
    (hgr : ¬ d + s.grace ≤ max s.now t) :
    advance s t = { s with now := max s.now t, drainAt := some d, byStop := false, phase := .draining d } := by
  simp only [advance, fireIdle, fireGrace, enterDrain, hp, h, hc, hgr, if_true, if_false]

theorem adv_run_drain_exit (s : Srv) (t d : Nat) (hp : s.phase = .running (some d)) (h : d ≤ max s.now t) (hc : s.conns ≠ [])
    (hgr : d + s.grace ≤ max s.now t) :
    advance s t = { s with now := max s.now t, drainAt := some d, byStop := false, phase := .exited (d + s.grace) } := by
  simp only [advance, fireIdle, fireGrace, enterDrain, hp, h, hc, hgr, if_true, if_false]

theorem adv_drain (s : Srv) (t d : Nat) (hp : s.phase = .draining d) (hgr : ¬ d + s.grace ≤ max s.now t) :
    advance s t = { s with now := max s.now t } := by
  simp only [advance, fireIdle, fireGrace, hp, hgr, if_false]

theorem adv_drain_exit (s : Srv) (t d : Nat) (hp : s.phase = .draining d) (hgr : d + s.grace ≤ max s.now t) :
    advance s t = { s with now := max s.now t, phase := .exited (d + s.grace) } := by
  simp only [advance, fireIdle, fireGrace, hp, hgr, if_true]

theorem adv_exited (s : Srv) (t e : Nat) (hp : s.phase = .exited e) : advance s t = { s with now := max s.now t } := by
  simp only [advance, fireIdle, fireGrace, hp]

end ShutM

namespace ShutM
theorem advance_inv (s : Srv) (t : Nat) (h : Inv s) : Inv (advance s t) := by
  obtain ⟨hg, hr, hd, he, hi, hs⟩ := h
  have hmax : s.now ≤ max s.now t := Nat.le_max_left _ _
  cases hp : s.phase with
  | running d =>
    obtain ⟨h1, h2, h3, h4⟩ := hr d hp
    cases d with
    | none =>
      rw [adv_run_none s t hp]
      refine ⟨hg, ?_, ?_, ?_, hi, hs⟩
      · intro d hd'
        have := hr d hd'
        exact ⟨this.1, this.2.1, Nat.le_trans this.2.2.1 hmax, fun dd hdd => by rw [hp] at hd'; cases hd'; cases hdd⟩
      · intro since hs'; rw [hp] at hs'; cases hs'
      · intro e he'; rw [hp] at he'; cases he'
    | some d =>
      have ha := arm_some h2
      by_cases hdt : d ≤ max s.now t
      · by_cases hc : s.conns = []
        · rw [adv_run_exit s t d hp hdt hc]
          refine ⟨hg, ?_, ?_, ?_, ?_, ?_⟩
          · intro d' h'; cases h'
          · intro d' h'; cases h'
          · intro e h'; cases h'; exact ⟨d, rfl, Nat.le_refl _, Nat.le_add_right _ _, fun hne => absurd hc hne⟩
          · intro d' h' _; cases h'; exact ha
          · intro d' _ h'; cases h'
        · by_cases hgr : d + s.grace ≤ max s.now t
          · rw [adv_run_drain_exit s t d hp hdt hc hgr]
            refine ⟨hg, ?_, ?_, ?_, ?_, ?_⟩
            · intro d' h'; cases h'
            · intro d' h'; cases h'
            · intro e h'; cases h'; exact ⟨d, rfl, Nat.le_add_right _ _, Nat.le_refl _, fun _ => rfl⟩
            · intro d' h' _; cases h'; exact ha
            · intro d' _ h'; cases h'
          · rw [adv_run_drain s t d hp hdt hc hgr]
            refine ⟨hg, ?_, ?_, ?_, ?_, ?_⟩
            · intro d' h'; cases h'
            · intro d' h'; cases h'; exact ⟨rfl, hc, hdt, by show max s.now t < d + s.grace; omega⟩
            · intro e h'; cases h'
            · intro d' h' _; cases h'; exact ha
            · intro d' _ h'; cases h'
      · rw [adv_run_later s t d hp hdt]
        refine ⟨hg, ?_, ?_, ?_, hi, hs⟩
        · intro d' hd'
          have := hr d' hd'
          refine ⟨this.1, this.2.1, Nat.le_trans this.2.2.1 hmax, fun dd hdd => ?_⟩
          rw [hp] at hd'; cases hd'; cases hdd
          show max s.now t < d; omega
        · intro since hs'; rw [hp] at hs'; cases hs'
        · intro e he'; rw [hp] at he'; cases he'
  | draining since =>
    obtain ⟨h1, h2, h3, h4⟩ := hd since hp
    by_cases hgr : since + s.grace ≤ max s.now t
    · rw [adv_drain_exit s t since hp hgr]
      refine ⟨hg, ?_, ?_, ?_, hi, hs⟩
      · intro d' h'; cases h'
      · intro d' h'; cases h'
      · intro e h'; cases h'; exact ⟨since, h1, Nat.le_add_right _ _, Nat.le_refl _, fun _ => rfl⟩
    · rw [adv_drain s t since hp hgr]
      refine ⟨hg, ?_, ?_, ?_, hi, hs⟩
      · intro d' h'; rw [hp] at h'; cases h'
      · intro d' h'; rw [hp] at h'; cases h'
        exact ⟨h1, h2, Nat.le_trans h3 hmax, by show max s.now t < since + s.grace; omega⟩
      · intro e h'; rw [hp] at h'; cases h'
  | exited e =>
    rw [adv_exited s t e hp]
    refine ⟨hg, ?_, ?_, ?_, hi, hs⟩
    · intro d' h'; rw [hp] at h'; cases h'
    · intro d' h'; rw [hp] at h'; cases h'
    · intro e' h'; exact he e' h'
end ShutM

namespace ShutM
theorem act_inv (s : Srv) (e : Ev) (h : Inv s) : Inv (act s e).1 := by
  obtain ⟨hg, hr, hd, he, hi, hs⟩ := h
  cases e with
  | tick t => exact ⟨hg, hr, hd, he, hi, hs⟩
  | connect t =>
    cases hp : s.phase with
    | running d =>
      simp only [act, hp]
      refine ⟨hg, ?_, ?_, ?_, hi, hs⟩
      · intro d' h'; cases h'; exact hr d hp
      · intro d' h'; cases h'
      · intro d' h'; cases h'
    | draining since =>
      simp only [act, hp]
      refine ⟨hg, ?_, ?_, ?_, hi, hs⟩
      · intro d' h'; cases h'
      · intro d' h'; cases h'; exact hd since hp
      · intro d' h'; cases h'
    | exited e => simp only [act, hp]; exact ⟨hg, hr, hd, he, hi, hs⟩
  | request t c =>
    cases hp : s.phase with
    | running d =>
      simp only [act, hp]
      split
      · have h1 := (hr d hp).1
        refine ⟨hg, ?_, ?_, ?_, ?_, ?_⟩
        · intro d' h'; cases h'
          exact ⟨h1, rfl, Nat.le_refl _, fun dd hdd => by have := arm_some hdd.symm; show s.now < dd; omega⟩
        · intro d' h'; cases h'
        · intro d' h'; cases h'
        · intro d' h'; rw [h1] at h'; cases h'
        · intro d' h'; rw [h1] at h'; cases h'
      · exact ⟨hg, hr, hd, he, hi, hs⟩
    | draining since => simp only [act, hp]; split <;> exact ⟨hg, hr, hd, he, hi, hs⟩
    | exited e => simp only [act, hp]; exact ⟨hg, hr, hd, he, hi, hs⟩
  | stop t c =>
    cases hp : s.phase with
    | running d =>
      simp only [act, hp]
      split
      · rename_i hc
        have hne : s.conns ≠ [] := by intro h'; rw [h'] at hc; cases hc
        simp only [enterDrain, hne, if_false]
        refine ⟨hg, ?_, ?_, ?_, ?_, ?_⟩
        · intro d' h'; cases h'
        · intro d' h'; cases h'; exact ⟨rfl, hne, Nat.le_refl _, by show s.now < s.now + s.grace; omega⟩
        · intro d' h'; cases h'
        · intro d' _ h'; cases h'
        · intro d' h' _; cases h'; rfl
      · exact ⟨hg, hr, hd, he, hi, hs⟩
    | draining since => simp only [act, hp]; split <;> exact ⟨hg, hr, hd, he, hi, hs⟩
    | exited e => simp only [act, hp]; exact ⟨hg, hr, hd, he, hi, hs⟩
  | close t c =>
    cases hp : s.phase with
    | running d =>
      simp only [act, hp]
      split
      · refine ⟨hg, ?_, ?_, ?_, hi, hs⟩
        · intro d' h'; cases h'; exact hr d hp
        · intro d' h'; cases h'
        · intro d' h'; cases h'
      · exact ⟨hg, hr, hd, he, hi, hs⟩
    | draining since =>
      simp only [act, hp]
      obtain ⟨h1, h2, h3, h4⟩ := hd since hp
      split
      · split
        · refine ⟨hg, ?_, ?_, ?_, hi, hs⟩
          · intro d' h'; cases h'
          · intro d' h'; cases h'
          · intro e h'; cases h'; exact ⟨since, h1, h3, Nat.le_of_lt h4, fun hne => absurd rfl hne⟩
        · rename_i hne
          refine ⟨hg, ?_, ?_, ?_, hi, hs⟩
          · intro d' h'; cases h'
          · intro d' h'; cases h'; exact ⟨h1, hne, h3, h4⟩
          · intro d' h'; cases h'
      · exact ⟨hg, hr, hd, he, hi, hs⟩
    | exited e => simp only [act, hp]; exact ⟨hg, hr, hd, he, hi, hs⟩

theorem step_inv (s0 : Srv) (e : Ev) (h0 : Inv s0) : Inv (step s0 e).1 := act_inv _ e (advance_inv s0 e.time h0)

theorem init_inv (T grace : Nat) (hg : 0 < grace) : Inv (init T grace) := by
  refine ⟨hg, ?_, ?_, ?_, ?_, ?_⟩
  · intro d h'; cases h'
    exact ⟨rfl, rfl, Nat.le_refl _, fun dd hdd => by have := arm_some hdd.symm; show 0 < dd; omega⟩
  · intro d h'; cases h'
  · intro d h'; cases h'
  · intro d h'; cases h'
  · intro d h'; cases h'

theorem run_inv (evs : List Ev) : ∀ s, Inv s → Inv (run s evs) := by
  induction evs with
  | nil => intro s h; exact h
  | cons e es ih => intro s h; exact ih _ (step_inv s e h)
end ShutM

namespace ShutM
theorem enterDrain_params (s : Srv) (d : Nat) (b : Bool) : (enterDrain s d b).T = s.T ∧ (enterDrain s d b).grace = s.grace := by
  unfold enterDrain; split <;> exact ⟨rfl, rfl⟩

theorem advance_params (s : Srv) (t : Nat) : (advance s t).T = s.T ∧ (advance s t).grace = s.grace := by
  have h1 : (fireIdle s (max s.now t)).T = s.T ∧ (fireIdle s (max s.now t)).grace = s.grace := by
    unfold fireIdle
    split
    · split
      · exact enterDrain_params _ _ _
      · exact ⟨rfl, rfl⟩
    · exact ⟨rfl, rfl⟩
  have h2 : ∀ u : Srv, (fireGrace u (max s.now t)).T = u.T ∧ (fireGrace u (max s.now t)).grace = u.grace := by
    intro u
    unfold fireGrace
    split
    · split <;> exact ⟨rfl, rfl⟩
    · exact ⟨rfl, rfl⟩
  have := h2 (fireIdle s (max s.now t))
  exact ⟨by show (fireGrace (fireIdle s (max s.now t)) (max s.now t)).T = s.T; rw [this.1, h1.1],
         by show (fireGrace (fireIdle s (max s.now t)) (max s.now t)).grace = s.grace; rw [this.2, h1.2]⟩

theorem act_params (s : Srv) (e : Ev) : (act s e).1.T = s.T ∧ (act s e).1.grace = s.grace := by
  cases e with
  | tick t => exact ⟨rfl, rfl⟩
  | connect t => simp only [act]; split <;> exact ⟨rfl, rfl⟩
  | request t c => simp only [act]; split <;> (try split) <;> exact ⟨rfl, rfl⟩
  | stop t c =>
    simp only [act]
    split
    · exact ⟨rfl, rfl⟩
    · split
      · exact enterDrain_params _ _ _
      · exact ⟨rfl, rfl⟩
    · split <;> exact ⟨rfl, rfl⟩
  | close t c =>
    simp only [act]
    split
    · exact ⟨rfl, rfl⟩
    · split <;> exact ⟨rfl, rfl⟩
    · split
      · split <;> exact ⟨rfl, rfl⟩
      · exact ⟨rfl, rfl⟩

theorem run_params (evs : List Ev) : ∀ s, (run s evs).T = s.T ∧ (run s evs).grace = s.grace := by
  induction evs with
  | nil => intro s; exact ⟨rfl, rfl⟩
  | cons e es ih =>
    intro s
    have h1 := ih (step s e).1
    have h2 := act_params (advance s e.time) e
    have h3 := advance_params s e.time
    exact ⟨by show (run (step s e).1 es).T = s.T; rw [h1.1]; show (act (advance s e.time) e).1.T = s.T; rw [h2.1, h3.1],
           by show (run (step s e).1 es).grace = s.grace; rw [h1.2]; show (act (advance s e.time) e).1.grace = s.grace; rw [h2.2, h3.2]⟩
end ShutM
