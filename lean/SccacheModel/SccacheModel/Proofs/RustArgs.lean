import SccacheModel.Model.RustArgs

/-! Lemmas about the rustc argument parser model (`RArgsM`). -/

namespace RArgsM

/-- the `--color` tokens: the only arguments `parse_arguments` drops from the list it hands on -/
def Tok.isColor : Tok → Bool
  | .val _ .color (.str _) => true
  | _ => false

/-- one iteration either returns early or appends exactly this argument (nothing for `--color`) -/
theorem step_args (cwd : Bytes) (st st' : St) (t : Tok) (h : step cwd st t = .ok st') :
    st'.args = st.args ++ (if t.isColor then [] else [tokArg t]) := by
  unfold step at h
  split at h <;> (try (first | (cases h; done) | (injection h with h; subst h; simp [Tok.isColor]; done)))
  all_goals (repeat' (first | (cases h; done) | (injection h with h; subst h; simp [Tok.isColor]; done)
                            | (injection h with h; subst h; simp only [Tok.isColor]; split <;> simp; done) | (split at h)))

/-- `args_complete`: when the loop runs to its end, the argument list handed on is — in order — every argument of the command
    line except the `--color` ones; nothing else is dropped, duplicated or reordered -/
theorem loop_args (cwd : Bytes) (toks : List (Option Tok)) (st st' : St) (h : loop cwd st toks = .ok st') :
    ∃ ts : List Tok, toks = ts.map some ∧ st'.args = st.args ++ (ts.filter (fun t => !t.isColor)).map tokArg := by
  induction toks generalizing st with
  | nil => simp only [loop] at h; injection h with h; subst h; exact ⟨[], rfl, by simp⟩
  | cons t toks ih =>
    cases t with
    | none => simp [loop] at h
    | some t =>
      simp only [loop] at h
      cases hs : step cwd st t with
      | error r => rw [hs] at h; cases h
      | ok st1 =>
        rw [hs] at h
        obtain ⟨ts, e1, e2⟩ := ih st1 h
        refine ⟨t :: ts, by rw [e1]; rfl, ?_⟩
        rw [e2, step_args cwd st st1 t hs]
        cases hc : t.isColor <;> simp [hc]

/-! ### the order used by `externs.sort()` -/

theorem leB_total (a b : Bytes) : (leB a b || leB b a) = true := by
  unfold leB
  induction a generalizing b with
  | nil => cases b <;> simp [cmpBytes]
  | cons x xs ih =>
    cases b with
    | nil => simp [cmpBytes]
    | cons y ys =>
      simp only [cmpBytes]
      by_cases h1 : x < y
      · simp [h1]
      · by_cases h2 : y < x
        · simp [h1, h2]
        · simpa [h1, h2] using ih ys

theorem cmpBytes_eq_eq (a b : Bytes) (h : cmpBytes a b = .eq) : a = b := by
  induction a generalizing b with
  | nil => cases b with
    | nil => rfl
    | cons _ _ => simp [cmpBytes] at h
  | cons x xs ih =>
    cases b with
    | nil => simp [cmpBytes] at h
    | cons y ys =>
      simp only [cmpBytes] at h
      by_cases h1 : x < y
      · simp [h1] at h
      · by_cases h2 : y < x
        · simp [h1, h2] at h
        · simp only [h1, h2, if_false] at h
          have : x = y := UInt8.le_antisymm (UInt8.not_lt.mp h2) (UInt8.not_lt.mp h1)
          rw [this, ih ys h]

theorem leB_antisymm (a b : Bytes) (h1 : leB a b = true) (h2 : leB b a = true) : a = b := by
  unfold leB at h1 h2
  induction a generalizing b with
  | nil => cases b with
    | nil => rfl
    | cons _ _ => simp [cmpBytes] at h2
  | cons x xs ih =>
    cases b with
    | nil => simp [cmpBytes] at h1
    | cons y ys =>
      simp only [cmpBytes] at h1 h2
      by_cases hxy : x < y
      · have : ¬ y < x := fun h => absurd (UInt8.lt_trans hxy h) (UInt8.lt_irrefl _)
        simp [hxy, this] at h2
      · by_cases hyx : y < x
        · simp [hxy, hyx] at h1
        · simp only [hxy, hyx, if_false] at h1 h2
          have : x = y := UInt8.le_antisymm (UInt8.not_lt.mp hyx) (UInt8.not_lt.mp hxy)
          rw [this, ih ys h1 h2]

theorem leB_trans (a b c : Bytes) (h1 : leB a b = true) (h2 : leB b c = true) : leB a c = true := by
  unfold leB at h1 h2 ⊢
  induction a generalizing b c with
  | nil => cases c <;> simp [cmpBytes]
  | cons x xs ih =>
    cases b with
    | nil => simp [cmpBytes] at h1
    | cons y ys =>
      cases c with
      | nil => simp [cmpBytes] at h2
      | cons z zs =>
        simp only [cmpBytes] at h1 h2 ⊢
        by_cases hxy : x < y
        · by_cases hyz : y < z
          · simp [UInt8.lt_trans hxy hyz]
          · by_cases hzy : z < y
            · simp [hyz, hzy] at h2
            · have : y = z := UInt8.le_antisymm (UInt8.not_lt.mp hzy) (UInt8.not_lt.mp hyz)
              subst this; simp [hxy]
        · by_cases hyx : y < x
          · simp [hxy, hyx] at h1
          · have hxy' : x = y := UInt8.le_antisymm (UInt8.not_lt.mp hyx) (UInt8.not_lt.mp hxy)
            subst hxy'
            simp only [hxy, if_false] at h1
            by_cases hxz : x < z
            · simp [hxz]
            · by_cases hzx : z < x
              · simp [hxz, hzx] at h2
              · simp only [hxz, hzx, if_false] at h2 ⊢
                exact ih ys zs h1 h2

theorem leB_refl (a : Bytes) : leB a a = true := by
  have := leB_total a a; simpa using this

/-! `leComp` / `leComps`: the derived order of `Component` and the lexicographic order of component lists -/

theorem leComp_total (a b : Nat × Bytes) : (leComp a b || leComp b a) = true := by
  unfold leComp
  by_cases h : a.1 = b.1
  · have h' : b.1 = a.1 := h.symm
    simp [h, leB_total]
  · have h' : ¬ b.1 = a.1 := fun e => h e.symm
    simp only [beq_iff_eq, h, h', if_false, Bool.or_eq_true, decide_eq_true_eq]
    omega

theorem leComp_antisymm (a b : Nat × Bytes) (h1 : leComp a b = true) (h2 : leComp b a = true) : a = b := by
  unfold leComp at h1 h2
  by_cases h : a.1 = b.1
  · have h' : b.1 = a.1 := h.symm
    simp [h] at h1 h2
    exact Prod.ext h (leB_antisymm _ _ h1 h2)
  · have h' : ¬ b.1 = a.1 := fun e => h e.symm
    simp [h, h'] at h1 h2
    omega

theorem leComp_trans (a b c : Nat × Bytes) (h1 : leComp a b = true) (h2 : leComp b c = true) : leComp a c = true := by
  unfold leComp at h1 h2 ⊢
  by_cases hab : a.1 = b.1
  · by_cases hbc : b.1 = c.1
    · have hac : a.1 = c.1 := hab.trans hbc
      simp [hab, hbc] at h1 h2
      simp only [hac, beq_self_eq_true, if_true]
      exact leB_trans _ _ _ h1 (by simpa [hab] using h2)
    · have hac : ¬ a.1 = c.1 := fun e => hbc (hab.symm.trans e)
      simp [hbc] at h2
      simp [hac]; omega
  · simp [hab] at h1
    by_cases hbc : b.1 = c.1
    · have hac : ¬ a.1 = c.1 := fun e => hab (e.trans hbc.symm)
      simp [hac]; omega
    · simp [hbc] at h2
      have hac : ¬ a.1 = c.1 := by omega
      simp [hac]; omega

theorem leComps_total (a b : List (Nat × Bytes)) : (leComps a b || leComps b a) = true := by
  induction a generalizing b with
  | nil => simp [leComps]
  | cons x xs ih =>
    cases b with
    | nil => simp [leComps]
    | cons y ys =>
      simp only [leComps]
      by_cases h : x = y
      · subst h; simpa using ih ys
      · have h' : ¬ y = x := fun e => h e.symm
        simp only [beq_iff_eq, h, h', if_false]
        exact leComp_total x y

theorem leComps_antisymm (a b : List (Nat × Bytes)) (h1 : leComps a b = true) (h2 : leComps b a = true) : a = b := by
  induction a generalizing b with
  | nil => cases b with
    | nil => rfl
    | cons _ _ => simp [leComps] at h2
  | cons x xs ih =>
    cases b with
    | nil => simp [leComps] at h1
    | cons y ys =>
      simp only [leComps] at h1 h2
      by_cases h : x = y
      · subst h
        simp only [beq_self_eq_true, if_true] at h1 h2
        rw [ih ys h1 h2]
      · have h' : ¬ y = x := fun e => h e.symm
        simp only [beq_iff_eq, h, h', if_false] at h1 h2
        exact absurd (leComp_antisymm x y h1 h2) h

theorem leComps_trans (a b c : List (Nat × Bytes)) (h1 : leComps a b = true) (h2 : leComps b c = true) : leComps a c = true := by
  induction a generalizing b c with
  | nil => simp [leComps]
  | cons x xs ih =>
    cases b with
    | nil => simp [leComps] at h1
    | cons y ys =>
      cases c with
      | nil => simp [leComps] at h2
      | cons z zs =>
        simp only [leComps] at h1 h2 ⊢
        by_cases hxy : x = y
        · subst hxy
          simp only [beq_self_eq_true, if_true] at h1
          by_cases hxz : x = z
          · subst hxz
            simp only [beq_self_eq_true, if_true] at h2 ⊢
            exact ih ys zs h1 h2
          · simp only [beq_iff_eq, hxz, if_false] at h2 ⊢
            exact h2
        · simp only [beq_iff_eq, hxy, if_false] at h1
          by_cases hyz : y = z
          · subst hyz
            simp only [beq_iff_eq, hxy, if_false]
            exact h1
          · simp only [beq_iff_eq, hyz, if_false] at h2
            by_cases hxz : x = z
            · subst hxz
              exact absurd (leComp_antisymm x y h1 h2) hxy
            · simp only [beq_iff_eq, hxz, if_false]
              exact leComp_trans x y z h1 h2

/-- `externs_order_independent`: whatever order the `--extern` arguments come in, the sorted list names the same files in the
    same order (as component lists: `a//b` and `a/b` compare equal and keep their relative input order, and they are the same
    file) — so the extern digests enter the key in an order that does not depend on the command-line order -/
theorem sorted_externs_perm_eq (l1 l2 : List Bytes) (h : l1.Perm l2) :
    (l1.mergeSort lePath).map comps = (l2.mergeSort lePath).map comps := by
  have e1 := List.map_mergeSort (r := lePath) (s := leComps) (f := comps) (l := l1) (fun a _ b _ => rfl)
  have e2 := List.map_mergeSort (r := lePath) (s := leComps) (f := comps) (l := l2) (fun a _ b _ => rfl)
  rw [e1, e2]
  apply List.Perm.eq_of_pairwise (le := fun a b => leComps a b = true)
  · intro a b _ _ h1 h2; exact leComps_antisymm a b h1 h2
  · exact List.pairwise_mergeSort (fun a b c => leComps_trans a b c) leComps_total _
  · exact List.pairwise_mergeSort (fun a b c => leComps_trans a b c) leComps_total _
  · exact (List.mergeSort_perm _ leComps).trans ((h.map comps).trans (List.mergeSort_perm _ leComps).symm)

/-- sorting only reorders: the sorted externs are a permutation of the `--extern` paths in command-line order -/
theorem sorted_externs_perm (l : List Bytes) : (l.mergeSort lePath).Perm l := List.mergeSort_perm l lePath

end RArgsM
