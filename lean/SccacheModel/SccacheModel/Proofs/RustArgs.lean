import SccacheModel.Model.RustArgs

/-! Lemmas about the rustc argument parser model (`RArgsM`). -/

namespace RArgsM

/-- the `--color` tokens: the only arguments `parse_arguments` drops from the list it hands on -/
def Tok.isColor : Tok → Bool
  | .val _ .color (.str _) => true
  | _ => false

/-- one iteration either returns early or appends exactly this argument (nothing for `--color`) -/
theorem step_args (cwd : Bytes) (st st' : St) (t : Tok) (h : step cwd st t = .ok st') :
    st'.args = st.args ++ (if t.isColor then [] else [tokArg t]) := by
  unfold step at h
  split at h <;> (try (first | (cases h; done) | (injection h with h; subst h; simp [Tok.isColor]; done)))
  all_goals (repeat' (first | (cases h; done) | (injection h with h; subst h; simp [Tok.isColor]; done)
                            | (injection h with h; subst h; simp only [Tok.isColor]; split <;> simp; done) | (split at h)))

/-- `args_complete`: when the loop runs to its end, the argument list handed on is — in order — every argument of the command
    line except the `--color` ones; nothing else is dropped, duplicated or reordered -/
theorem loop_args (cwd : Bytes) (toks : List (Option Tok)) (st st' : St) (h : loop cwd st toks = .ok st') :
    ∃ ts : List Tok, toks = ts.map some ∧ st'.args = st.args ++ (ts.filter (fun t => !t.isColor)).map tokArg := by
  induction toks generalizing st with
  | nil => simp only [loop] at h; injection h with h; subst h; exact ⟨[], rfl, by simp⟩
  | cons t toks ih =>
    cases t with
    | none => simp [loop] at h
    | some t =>
      simp only [loop] at h
      cases hs : step cwd st t with
      | error r => rw [hs] at h; cases h
      | ok st1 =>
        rw [hs] at h
        obtain ⟨ts, e1, e2⟩ := ih st1 h
        refine ⟨t :: ts, by rw [e1]; rfl, ?_⟩
        rw [e2, step_args cwd st st1 t hs]
        cases hc : t.isColor <;> simp [hc]

/-! ### the order used by `externs.sort()` -/

theorem leB_total (a b : Bytes) : (leB a b || leB b a) = true := by
  unfold leB
  induction a generalizing b with
  | nil => cases b <;> simp [cmpBytes]
  | cons x xs ih =>
    cases b with
    | nil => simp [cmpBytes]
    | cons y ys =>
      simp only [cmpBytes]
      by_cases h1 : x < y
      · simp [h1]
      · by_cases h2 : y < x
        · simp [h1, h2]
        · simpa [h1, h2] using ih ys

/-- sorting only reorders: the sorted externs are a permutation of the `--extern` paths in command-line order -/
theorem sorted_externs_perm (l : List Bytes) : (l.mergeSort lePath).Perm l := List.mergeSort_perm l lePath

end RArgsM
