import SccacheModel.Model.TimeMacro

namespace TM

/-! Proof spike: window lemmas for `finder_sound`. -/

theorem hasInfix_iff (p s : Bytes) : hasInfix p s = true ↔ p <:+: s := by
  induction s with
  | nil =>
    simp [hasInfix, List.isEmpty_iff]
  | cons b bs ih =>
    simp only [hasInfix, Bool.or_eq_true, List.isPrefixOf_iff_prefix, ih]
    constructor
    · rintro (h | h)
      · exact h.isInfix
      · exact h.trans (List.suffix_cons b bs).isInfix
    · intro h
      rw [List.infix_cons_iff] at h
      exact h

/-- an occurrence that lies in a suffix window of the stream is an occurrence in the window -/
theorem infix_of_suffix_window (p u w : Bytes) (a b : Bytes)
    (h : u ++ w = a ++ p ++ b) (hu : u.length ≤ a.length) : p <:+: w := by
  -- a = u ++ a'
  have : u <+: a ++ (p ++ b) := by rw [← List.append_assoc, ← h]; exact List.prefix_append u w
  obtain ⟨a', ha'⟩ : ∃ a', a = u ++ a' := by
    have hpre : u <+: a := List.prefix_of_prefix_length_le this (List.prefix_append a (p ++ b)) hu
    obtain ⟨t, ht⟩ := hpre
    exact ⟨t, ht.symm⟩
  subst ha'
  rw [List.append_assoc, List.append_assoc, List.append_cancel_left_eq] at h
  exact ⟨a', b, by rw [h, List.append_assoc]⟩

/-- an occurrence ending after position `|pre|` in `pre ++ c`, with `|p| ≤ 13`, lies in the last 13 bytes of `pre` followed by `c` -/
theorem occurrence_in_tail_window (p pre c a b : Bytes) (hp : p.length ≤ 13)
    (h : pre ++ c = a ++ p ++ b) (hend : b.length < c.length) :
    p <:+: lastN 13 pre ++ c := by
  -- split pre = u ++ lastN 13 pre
  have hsplit : pre = pre.take (pre.length - 13) ++ lastN 13 pre := by
    simp [lastN]
  have hlen : (pre.take (pre.length - 13)).length ≤ a.length := by
    have := congrArg List.length h
    simp at this
    simp
    omega
  apply infix_of_suffix_window p (pre.take (pre.length - 13)) (lastN 13 pre ++ c) a b _ hlen
  rw [← List.append_assoc, ← hsplit, h]

/-- either the occurrence was already in `s`, or it ends inside the new chunk -/
theorem infix_append_cases (p s c : Bytes) (h : p <:+: s ++ c) :
    p <:+: s ∨ ∃ a b, s ++ c = a ++ p ++ b ∧ b.length < c.length := by
  obtain ⟨a, b, hab⟩ := h
  by_cases hb : b.length < c.length
  · exact Or.inr ⟨a, b, hab.symm, hb⟩
  · left
    have hlen := congrArg List.length hab
    simp at hlen
    have hpre : a ++ p <+: s := by
      apply List.prefix_of_prefix_length_le (l₃ := s ++ c)
      · rw [← hab]; exact List.prefix_append _ _
      · exact List.prefix_append _ _
      · simp; omega
    obtain ⟨t, ht⟩ := hpre
    exact ⟨a, t, ht⟩

/-- an occurrence in `l ++ c` is inside `c` or inside `l` followed by the first `n ≥ |p|` bytes of `c` -/
theorem infix_straddle (p l c : Bytes) (n : Nat) (hn : p.length ≤ n) (h : p <:+: l ++ c) :
    p <:+: l ++ c.take n ∨ p <:+: c := by
  obtain ⟨a, b, hab⟩ := h
  by_cases ha : l.length ≤ a.length
  · right
    exact infix_of_suffix_window p l c a b hab.symm ha
  · left
    -- a ++ p is a prefix of l ++ c.take n
    have hlen := congrArg List.length hab
    simp at hlen
    have hpre : a ++ p <+: l ++ c.take n := by
      have h1 : a ++ p <+: l ++ c := by rw [← hab]; exact List.prefix_append _ _
      have h2 : l ++ c.take n <+: l ++ c := by
        exact (List.prefix_append_right_inj l).mpr (List.take_prefix n c)
      apply List.prefix_of_prefix_length_le h1 h2
      simp [List.length_take]
      omega
    obtain ⟨t, ht⟩ := hpre
    exact ⟨a, t, ht⟩

theorem lastN_append_of_le (n : Nat) (s c : Bytes) (h : n ≤ c.length) : lastN n (s ++ c) = lastN n c := by
  simp only [lastN, List.length_append]
  have : s.length + c.length - n = s.length + (c.length - n) := by omega
  rw [this, List.drop_length_add_append]

theorem lastN_length (n : Nat) (s : Bytes) (h : n ≤ s.length) : (lastN n s).length = n := by
  simp [lastN]; omega

def pat : Fin 3 → Bytes
  | 0 => patTimestamp | 1 => patTime | 2 => patDate
def flag : Fin 3 → Finder → Bool
  | 0, f => f.foundTimestamp | 1, f => f.foundTime | 2, f => f.foundDate

theorem pat_len (i : Fin 3) : (pat i).length ≤ 13 := by
  match i with
  | 0 => decide
  | 1 => decide
  | 2 => decide

@[simp] theorem flag_findMacros (i : Fin 3) (f : Finder) (buf : Bytes) :
    flag i (f.findMacros buf) = (flag i f || hasInfix (pat i) buf) := by
  match i with
  | 0 => rfl
  | 1 => rfl
  | 2 => rfl

theorem flag_search (i : Fin 3) (f : Finder) (bufs : List Bytes) :
    flag i (f.search bufs) = (flag i f || bufs.any (hasInfix (pat i))) := by
  unfold Finder.search
  induction bufs generalizing f with
  | nil => simp
  | cons b bs ih => simp [List.foldl_cons, ih, Bool.or_assoc]

theorem search_fields (f : Finder) (bufs : List Bytes) :
    (f.search bufs).left = f.left ∧ (f.search bufs).right = f.right ∧
    (f.search bufs).psr = f.psr ∧ (f.search bufs).fullChunks = f.fullChunks := by
  unfold Finder.search
  induction bufs generalizing f with
  | nil => simp
  | cons b bs ih =>
    simp only [List.foldl_cons]
    have := ih (f.findMacros b)
    exact ⟨this.1, this.2.1, this.2.2.1, this.2.2.2⟩

/-- the flag of any record that copies its three flags from `g` -/
theorem flag_with (i : Fin 3) (g : Finder) (l r : Bytes) (n : Nat) (p : Bytes) :
    flag i { g with left := l, right := r, fullChunks := n, psr := p } = flag i g := by
  match i with | 0 => rfl | 1 => rfl | 2 => rfl

/-- if one of the searched buffers contains the pattern (or the flag was already set), the flag is set -/
theorem flag_search_of (i : Fin 3) (f : Finder) (bufs : List Bytes)
    (h : flag i f = true ∨ ∃ b ∈ bufs, pat i <:+: b) : flag i (f.search bufs) = true := by
  rw [flag_search]
  rcases h with h | ⟨b, hb, hi⟩
  · simp [h]
  · have : bufs.any (hasInfix (pat i)) = true := List.any_eq_true.mpr ⟨b, hb, (hasInfix_iff _ _).mpr hi⟩
    simp [this]

structure FInv (f : Finder) (seen : Bytes) : Prop where
  zero : f.fullChunks = 0 → f.psr = seen
  pos : f.fullChunks ≠ 0 → ∃ pre smalls, seen = pre ++ smalls ∧ 13 ≤ pre.length ∧ f.left = lastN 13 pre ∧
          (smalls = [] → f.psr = []) ∧ (smalls ≠ [] → f.psr = f.left ++ smalls)
  found : ∀ i : Fin 3, pat i <:+: seen → flag i f = true

theorem inv_init : FInv {} [] := by
  refine ⟨fun _ => rfl, fun h => absurd rfl h, ?_⟩
  intro i h
  have := List.eq_nil_of_infix_nil h
  match i with
  | 0 => exact absurd this (by decide)
  | 1 => exact absurd this (by decide)
  | 2 => exact absurd this (by decide)

theorem flag_updA (i : Fin 3) (g : Finder) (p : Bytes) : flag i { g with psr := p } = flag i g := by
  match i with | 0 => rfl | 1 => rfl | 2 => rfl
theorem flag_updB (i : Fin 3) (g : Finder) (l : Bytes) (n : Nat) (p : Bytes) :
    flag i { g with left := l, fullChunks := n, psr := p } = flag i g := by
  match i with | 0 => rfl | 1 => rfl | 2 => rfl
theorem flag_updC (i : Fin 3) (g : Finder) (p r : Bytes) : flag i { g with psr := p, right := r } = flag i g := by
  match i with | 0 => rfl | 1 => rfl | 2 => rfl

/-- the heart: one call of `find_time_macros` preserves the invariant -/
theorem step_inv (f : Finder) (seen c : Bytes) (hc : c ≠ []) (h : FInv f seen) :
    FInv (f.step c) (seen ++ c) := by
  have hclen : 0 < c.length := List.length_pos_iff.mpr hc
  have sf := search_fields f
  by_cases h0 : f.fullChunks = 0
  · have hpsr := h.zero h0
    by_cases hs : c.length ≤ maxHay
    · -- A: small read before any full chunk
      have hstep : f.step c = { f.search [f.psr ++ c] with psr := f.psr ++ c } := by
        simp only [Finder.step, h0, hs, if_true]
      rw [hstep]
      refine ⟨fun _ => by simp [hpsr], fun hne => absurd (by simp [(sf _).2.2.2, h0]) hne, ?_⟩
      intro i hi
      rw [flag_updA]
      exact flag_search_of i f _ (Or.inr ⟨f.psr ++ c, by simp, by rw [hpsr]; exact hi⟩)
    · -- B: first full chunk
      have hbig : 13 < c.length := by simp [maxHay] at hs; omega
      have hstep : f.step c = { f.search ((if f.psr.isEmpty then [] else [f.psr ++ c]) ++ [c]) with
            left := lastN maxHay c, fullChunks := f.fullChunks + 1, psr := [] } := by
        simp only [Finder.step, h0, hs, if_true, if_false]
      rw [hstep]
      refine ⟨fun hz => by simp at hz, fun _ => ⟨seen ++ c, [], by simp, by simp; omega,
        by simp [maxHay, lastN_append_of_le 13 seen c (by omega)], by simp, by simp⟩, ?_⟩
      intro i hi
      rw [flag_updB]
      by_cases hp : f.psr.isEmpty
      · have : seen = [] := by rw [← hpsr]; exact List.isEmpty_iff.mp hp
        subst this
        exact flag_search_of i f _ (Or.inr ⟨c, by simp, by simpa using hi⟩)
      · exact flag_search_of i f _ (Or.inr ⟨f.psr ++ c, by simp [hp], by rw [hpsr]; exact hi⟩)
  · obtain ⟨pre, smalls, hseen, hpre, hleft, hnil, hcons⟩ := h.pos h0
    have hleftlen : f.left.length = 13 := by rw [hleft]; exact lastN_length 13 pre hpre
    have hwin : ∀ i : Fin 3, pat i <:+: seen ++ c → flag i f = true ∨ pat i <:+: f.left ++ (smalls ++ c) := by
      intro i hi
      rcases infix_append_cases _ _ _ hi with hold | ⟨a, b, hab, hb⟩
      · exact Or.inl (h.found i hold)
      · right
        rw [hleft]
        apply occurrence_in_tail_window (pat i) pre (smalls ++ c) a b (pat_len i)
        · rw [← List.append_assoc, ← hseen]; exact hab
        · simp; omega
    have hpsr' : (if f.psr.isEmpty then f.left ++ c else f.psr ++ c) = f.left ++ (smalls ++ c) := by
      by_cases hsm : smalls = []
      · simp [hnil hsm, hsm]
      · have := hcons hsm
        have hne : f.psr.isEmpty = false := by
          rw [this]; simp; intro hl; rw [hl] at hleftlen; simp at hleftlen
        simp [hne, this]
    by_cases hs : c.length < maxHay
    · -- C: small read after a full chunk
      have hstep : f.step c = { f.search [(if f.psr.isEmpty then f.left ++ c else f.psr ++ c), f.left ++ padTo maxHay c] with
            psr := (if f.psr.isEmpty then f.left ++ c else f.psr ++ c), right := padTo maxHay c } := by
        simp only [Finder.step, h0, hs, if_true, if_false]
      rw [hstep]
      refine ⟨fun hz => absurd (by simpa [(sf _).2.2.2] using hz) h0, fun _ => ⟨pre, smalls ++ c, by simp [hseen], hpre,
        by simpa [(sf _).1] using hleft, ?_, ?_⟩, ?_⟩
      · intro hn; simp at hn; exact absurd hn.2 hc
      · intro _; simp only [(sf _).1]; exact hpsr'
      · intro i hi
        rw [flag_updC]
        rcases hwin i hi with hf | hw
        · exact flag_search_of i f _ (Or.inl hf)
        · exact flag_search_of i f _ (Or.inr ⟨(if f.psr.isEmpty then f.left ++ c else f.psr ++ c), by simp, by rw [hpsr']; exact hw⟩)
    · -- D: full chunk after a full chunk
      have hbig : 13 ≤ c.length := by simp [maxHay] at hs; omega
      have hstep : f.step c = { f.search ([f.left ++ c.take maxHay, lastN maxHay c ++ List.replicate maxHay 0]
              ++ (if f.psr.isEmpty then [] else [f.psr ++ c]) ++ [c]) with
            left := lastN maxHay c, right := List.replicate maxHay 0, fullChunks := f.fullChunks + 1, psr := [] } := by
        simp only [Finder.step, h0, hs, if_true, if_false]
      rw [hstep]
      refine ⟨fun hz => by simp at hz, fun _ => ⟨seen ++ c, [], by simp, by simp; omega,
        by simp [maxHay, lastN_append_of_le 13 seen c hbig], by simp, by simp⟩, ?_⟩
      intro i hi
      rw [flag_with]
      rcases hwin i hi with hf | hw
      · exact flag_search_of i f _ (Or.inl hf)
      · by_cases hsm : smalls = []
        · subst hsm
          simp at hw
          rcases infix_straddle (pat i) f.left c 13 (pat_len i) hw with h1 | h2
          · exact flag_search_of i f _ (Or.inr ⟨f.left ++ c.take maxHay, by simp, h1⟩)
          · exact flag_search_of i f _ (Or.inr ⟨c, by simp, h2⟩)
        · have hpe := hcons hsm
          have hne : f.psr.isEmpty = false := by
            rw [hpe]; simp; intro hl; rw [hl] at hleftlen; simp at hleftlen
          exact flag_search_of i f _ (Or.inr ⟨f.psr ++ c, by simp [hne], by rw [hpe, List.append_assoc]; exact hw⟩)

theorem run_inv (chunks : List Bytes) (hne : ∀ c ∈ chunks, c ≠ []) :
    ∀ (f : Finder) (seen : Bytes), FInv f seen → FInv (chunks.foldl Finder.step f) (seen ++ chunks.flatten) := by
  induction chunks with
  | nil => intro f seen h; simpa using h
  | cons c cs ih =>
    intro f seen h
    have := ih (fun x hx => hne x (by simp [hx])) (f.step c) (seen ++ c) (step_inv f seen c (hne c (by simp)) h)
    simpa [List.foldl_cons, List.flatten_cons, List.append_assoc] using this

/-- C04 `finder_sound`: no split of the bytes into non-empty reads hides a time macro -/
theorem finder_sound (chunks : List Bytes) (hne : ∀ c ∈ chunks, c ≠ []) (i : Fin 3)
    (h : hasInfix (pat i) chunks.flatten = true) : flag i (Finder.run chunks) = true := by
  have := run_inv chunks hne {} [] inv_init
  simp at this
  exact this.found i ((hasInfix_iff _ _).mp h)

#print axioms finder_sound

end TM
