import SccacheModel.Model.Lru

namespace LruM

/-! Proofs: the size-limit half of C07 on the model of the code after the fixes of F-C07-a/b. -/
namespace Lru

def reservedSum (c : Lru) : Nat := (c.temps.map (·.reserved)).sum

/-- index + reservations within capacity, and every live handle's reservation is still counted
    (so `pending_size -= size` never underflows); a poisoned cache is excused -/
def Acct (c : Lru) : Prop := c.poisoned = false → c.lruSize + c.pendingSize ≤ c.cap ∧ c.reservedSum ≤ c.pendingSize

theorem sum_eraseKey_le (es : List (Key × Nat)) (k : Key) :
    ((eraseKey es k).map (·.2)).sum ≤ (es.map (·.2)).sum := by
  induction es with
  | nil => simp [eraseKey]
  | cons e es ih =>
    simp only [eraseKey, List.filter_cons]
    split
    · simp only [List.map_cons, List.sum_cons]; simp only [eraseKey] at ih; omega
    · simp only [List.map_cons, List.sum_cons]; simp only [eraseKey] at ih; omega

theorem lruInsertFuel_noop (f cap : Nat) (es : List (Key × Nat)) (h : (es.map (·.2)).sum ≤ cap) :
    lruInsertFuel f cap es = es := by
  cases f with
  | zero => rfl
  | succ f => simp [lruInsertFuel]; omega

/-- frame of `make_space`: only `entries` and `files` can change, the index only shrinks, and on success the request fits -/
theorem makeSpaceFuel_spec (f : Nat) (c c' : Lru) (n : Nat) (r : Res) (h : makeSpaceFuel f c n = (c', r)) :
    c'.pendingSize = c.pendingSize ∧ c'.temps = c.temps ∧ c'.cap = c.cap ∧ c'.pendingKeys = c.pendingKeys ∧
    c'.lruSize ≤ c.lruSize ∧ c'.poisoned = c.poisoned ∧
    (r = .ok → c'.lruSize + c'.pendingSize + n ≤ c'.cap) ∧ (r = .ok ∨ r = .tooLarge) := by
  induction f generalizing c with
  | zero => simp only [makeSpaceFuel] at h; cases h; simp
  | succ f ih =>
    unfold makeSpaceFuel at h
    by_cases hgt : c.size + n > c.cap
    · simp only [hgt, if_true] at h
      cases he : c.entries with
      | nil => simp only [he] at h; cases h; simp
      | cons e rest =>
        obtain ⟨k, sz⟩ := e
        simp only [he] at h
        have := ih { c with entries := rest, files := eraseKey c.files k } h
        obtain ⟨h1, h2, h3, h4, h5, h6, h7, h8⟩ := this
        refine ⟨h1, h2, h3, h4, ?_, h6, h7, h8⟩
        have : lruSize { c with entries := rest, files := eraseKey c.files k } ≤ c.lruSize := by simp [lruSize, he]
        omega
    · simp only [hgt, if_false] at h
      cases h
      refine ⟨rfl, rfl, rfl, rfl, Nat.le_refl _, rfl, fun _ => by simp only [size] at hgt; omega, Or.inl rfl⟩

theorem makeSpace_spec (c c' : Lru) (n : Nat) (r : Res) (h : c.makeSpace n = (c', r)) :
    c'.pendingSize = c.pendingSize ∧ c'.temps = c.temps ∧ c'.cap = c.cap ∧ c'.pendingKeys = c.pendingKeys ∧
    c'.lruSize ≤ c.lruSize ∧ c'.poisoned = c.poisoned ∧
    (r = .ok → c'.lruSize + c'.pendingSize + n ≤ c'.cap) ∧ (r = .ok ∨ r = .tooLarge) := by
  unfold makeSpace at h
  by_cases hn : n > c.cap
  · simp only [hn, if_true] at h; cases h
    exact ⟨rfl, rfl, rfl, rfl, Nat.le_refl _, rfl, fun e => Res.noConfusion e, Or.inr rfl⟩
  · simp only [hn, if_false] at h
    exact makeSpaceFuel_spec _ c c' n r h

/-- the accounting invariant survives anything that only shrinks the index -/
theorem acct_mono (c c' : Lru) (hA : Acct c) (h1 : c'.pendingSize = c.pendingSize) (h2 : c'.temps = c.temps) (h3 : c'.cap = c.cap)
    (h5 : c'.lruSize ≤ c.lruSize) (h6 : c'.poisoned = c.poisoned) : Acct c' := by
  intro hnp
  have := hA (by rw [← h6]; exact hnp)
  refine ⟨by omega, ?_⟩
  simp only [reservedSum, h2, h1] at *; exact this.2

theorem lruInsert_spec (c : Lru) (k : Key) (n : Nat) (h : c.lruSize + n ≤ c.cap) :
    (c.lruInsert k n).lruSize ≤ c.lruSize + n ∧
    (c.lruInsert k n).pendingSize = c.pendingSize ∧ (c.lruInsert k n).temps = c.temps ∧
    (c.lruInsert k n).cap = c.cap ∧ (c.lruInsert k n).poisoned = c.poisoned := by
  have hs : ((eraseKey c.entries k ++ [(k, n)]).map (·.2)).sum ≤ c.cap := by
    have := sum_eraseKey_le c.entries k
    simp [lruSize] at h ⊢; omega
  have he : (c.lruInsert k n).entries = eraseKey c.entries k ++ [(k, n)] := by
    simp only [lruInsert]; exact lruInsertFuel_noop _ _ _ hs
  refine ⟨?_, rfl, rfl, rfl, rfl⟩
  have := sum_eraseKey_le c.entries k
  simp [lruSize, he] at *; omega

theorem acct_of_poisoned (c : Lru) (h : c.poisoned = true) : Acct c := by
  intro hn; rw [h] at hn; cases hn

theorem prepareAdd_acct (c : Lru) (k : Key) (n : Nat) (h : Acct c) : Acct (c.prepareAdd k n).1 := by
  unfold prepareAdd
  rcases hr : c.makeSpace n with ⟨c', r⟩
  obtain ⟨h1, h2, h3, h4, h5, hpo, h6, h8⟩ := makeSpace_spec c c' n r hr
  rcases h8 with rfl | rfl
  · simp only
    have hsz := h6 rfl
    intro hnp
    have hA := h (by rw [← hpo]; exact hnp)
    refine ⟨?_, ?_⟩
    · show lruSize _ + (c'.pendingSize + n) ≤ c'.cap
      simp only [lruSize] at hsz ⊢; omega
    · show reservedSum _ ≤ c'.pendingSize + n
      simp only [reservedSum, List.map_append, List.sum_append, List.map_cons, List.map_nil, List.sum_cons, List.sum_nil, h2]
      have := hA.2; simp only [reservedSum] at this; omega
  · simp only; exact acct_mono c c' h h1 h2 h3 h5 hpo

theorem insertBytes_acct (c : Lru) (k : Key) (n : Nat) (h : Acct c) : Acct (c.insertBytes k n).1 := by
  unfold insertBytes
  by_cases hn : n > c.cap
  · simp only [hn, if_true]; exact h
  · simp only [hn, if_false]
    unfold addFile
    have hA' : Acct { c with files := eraseKey c.files k ++ [(k, n)], entries := eraseKey c.entries k } :=
      acct_mono c _ h rfl rfl rfl (by simpa [lruSize] using sum_eraseKey_le c.entries k) rfl
    rcases hr : makeSpace { c with files := eraseKey c.files k ++ [(k, n)], entries := eraseKey c.entries k } n with ⟨c', r⟩
    obtain ⟨h1, h2, h3, h4, h5, hpo, h6, h8⟩ := makeSpace_spec _ c' n r hr
    rcases h8 with rfl | rfl
    · simp only
      have hsz := h6 rfl
      intro hnp
      have hins := lruInsert_spec c' k n (by omega)
      have hA := hA' (by rw [← hpo, ← hins.2.2.2.2]; exact hnp)
      refine ⟨?_, ?_⟩
      · rw [hins.2.1, hins.2.2.2.1]; omega
      · simp only [reservedSum, hins.2.2.1, hins.2.1, h2, h1]; exact hA.2
    · simp only
      exact acct_mono _ _ (acct_mono _ c' hA' h1 h2 h3 h5 hpo) rfl rfl rfl (Nat.le_refl _) rfl

theorem reservedSum_filter_le (ts : List Pend) (h : Nat) :
    ((ts.filter (·.handle != h)).map (·.reserved)).sum ≤ (ts.map (·.reserved)).sum := by
  induction ts with
  | nil => simp
  | cons t ts ih =>
    simp only [List.filter_cons]
    split <;> simp only [List.map_cons, List.sum_cons] <;> omega

/-- removing the committed handle frees at least its reservation -/
theorem reservedSum_filter_find (ts : List Pend) (h : Nat) (p : Pend) (hf : ts.find? (·.handle == h) = some p) :
    ((ts.filter (·.handle != h)).map (·.reserved)).sum + p.reserved ≤ (ts.map (·.reserved)).sum := by
  induction ts with
  | nil => simp at hf
  | cons t ts ih =>
    simp only [List.find?_cons] at hf
    split at hf
    · rename_i ht
      cases hf
      have hne : (p.handle != h) = false := by
        have : p.handle = h := by simpa using ht
        simp [this]
      have := reservedSum_filter_le ts h
      simp only [List.filter_cons, hne, Bool.false_eq_true, if_false, List.map_cons, List.sum_cons]
      omega
    · rename_i ht
      have hne : (t.handle != h) = true := by
        have : ¬ t.handle = h := by simpa using ht
        simp [this]
      simp only [List.filter_cons, hne, if_true, List.map_cons, List.sum_cons]
      have := ih hf
      omega

theorem write_acct (c : Lru) (h m : Nat) (hA : Acct c) : Acct (c.write h m) := by
  intro hnp
  have := hA hnp
  refine ⟨this.1, ?_⟩
  have e : reservedSum (c.write h m) = reservedSum c := by
    simp only [reservedSum, write, List.map_map]
    congr 1
    apply List.map_congr_left
    intro p _
    simp only [Function.comp]
    split <;> rfl
  rw [e]; exact this.2

theorem dropEntry_acct (c : Lru) (h : Nat) (hA : Acct c) : Acct (c.dropEntry h) := by
  intro hnp
  have := hA hnp
  refine ⟨this.1, ?_⟩
  have := reservedSum_filter_le c.temps h
  simp only [reservedSum, dropEntry] at *
  omega

def commitCore (c1 : Lru) (p : Pend) : Lru :=
  { c1 with pendingKeys := eraseFirst c1.pendingKeys p.key,
            pendingSize := c1.pendingSize - p.reserved,
            files := eraseKey c1.files p.key ++ [(p.key, p.written)] }

theorem commit_acct (c : Lru) (h : Nat) (hA : Acct c) : Acct (c.commit h).1 := by
  unfold commit
  cases hf : c.temps.find? (·.handle == h) with
  | none => simp only; exact hA
  | some p =>
    simp only
    have hfree := reservedSum_filter_find c.temps h p hf
    have hle := reservedSum_filter_le c.temps h
    have hbase : Acct { c with temps := c.temps.filter (·.handle != h) } := by
      intro hnp; have := hA hnp
      exact ⟨this.1, by simp only [reservedSum] at *; omega⟩
    split
    · exact hbase
    rcases hr : makeSpace { c with temps := c.temps.filter (·.handle != h) } (p.written - p.reserved) with ⟨c1, r⟩
    obtain ⟨h1, h2, h3, h4, h5, hpo, h6, h8⟩ := makeSpace_spec _ c1 _ r hr
    simp only at h1 h2 h3 hpo
    cases r with
    | ok =>
      show Acct ((commitCore c1 p).lruInsert p.key p.written)
      have hsz := h6 rfl
      intro hnp
      have hnp1 : c1.poisoned = false := hnp
      have hnp0 : c.poisoned = false := by rw [← hpo]; exact hnp1
      have hA0 := hA hnp0
      have hres : p.reserved ≤ c.pendingSize := by
        have := hA0.2; simp only [reservedSum] at this; omega
      have hfit : (commitCore c1 p).lruSize + p.written ≤ (commitCore c1 p).cap := by
        show c1.lruSize + p.written ≤ c1.cap
        omega
      have hins := lruInsert_spec (commitCore c1 p) p.key p.written hfit
      refine ⟨?_, ?_⟩
      · rw [hins.2.1, hins.2.2.2.1]
        have := hins.1
        show _ + (c1.pendingSize - p.reserved) ≤ c1.cap
        have e : (commitCore c1 p).lruSize = c1.lruSize := rfl
        omega
      · simp only [reservedSum, hins.2.2.1, hins.2.1]
        show ((c1.temps).map (·.reserved)).sum ≤ c1.pendingSize - p.reserved
        rw [h2, h1]
        simp only [reservedSum] at hA0
        omega
    | tooLarge => exact acct_mono _ c1 hbase h1 h2 h3 h5 hpo
    | panic => rcases h8 with e | e <;> cases e
    | notInCache => rcases h8 with e | e <;> cases e
    | ioErr => rcases h8 with e | e <;> cases e

theorem get_acct (c : Lru) (k : Key) (hA : Acct c) : Acct (c.get k).1 := by
  unfold get
  split
  · exact hA
  · rename_i e he
    have hsz : ∀ c' : Lru, c'.entries = eraseKey c.entries k ++ [e] → c'.pendingSize = c.pendingSize → c'.temps = c.temps →
        c'.cap = c.cap → c'.poisoned = c.poisoned → Acct c' := by
      intro c' h1 h2 h3 h4 h5 hnp
      have hA0 := hA (by rw [← h5]; exact hnp)
      have hmem : e ∈ c.entries := List.mem_of_find?_eq_some he
      have hk : e.1 = k := by have := List.find?_some he; simpa using this
      -- moving an entry to the back does not change the sum
      have hsum : ((eraseKey c.entries k ++ [e]).map (·.2)).sum ≤ (c.entries.map (·.2)).sum := by
        have : ∀ (es : List (Key × Nat)), e ∈ es → ((eraseKey es k).map (·.2)).sum + e.2 ≤ (es.map (·.2)).sum := by
          intro es
          induction es with
          | nil => intro h; cases h
          | cons x xs ih =>
            intro hm
            simp only [eraseKey, List.filter_cons]
            rcases List.mem_cons.mp hm with hx | hx
            · subst hx
              have : (e.1 != k) = false := by simp [hk]
              simp only [this, Bool.false_eq_true, if_false, List.map_cons, List.sum_cons]
              have := sum_eraseKey_le xs k
              simp only [eraseKey] at this
              omega
            · have := ih hx
              simp only [eraseKey] at this
              split <;> simp only [List.map_cons, List.sum_cons] <;> omega
        have := this c.entries hmem
        simp only [List.map_append, List.sum_append, List.map_cons, List.map_nil, List.sum_cons, List.sum_nil]
        omega
      refine ⟨?_, ?_⟩
      · simp only [lruSize, h1, h2, h4] at *; omega
      · simp only [reservedSum, h3, h2] at *; exact hA0.2
    split
    · exact hsz _ rfl rfl rfl rfl rfl
    · exact hsz _ rfl rfl rfl rfl rfl

theorem remove_acct (c : Lru) (k : Key) (hA : Acct c) : Acct (c.remove k).1 := by
  unfold remove
  have hsz : ∀ c' : Lru, c'.entries = eraseKey c.entries k → c'.pendingSize = c.pendingSize → c'.temps = c.temps →
      c'.cap = c.cap → c'.poisoned = c.poisoned → Acct c' := by
    intro c' h1 h2 h3 h4 h5 hnp
    have hA0 := hA (by rw [← h5]; exact hnp)
    have := sum_eraseKey_le c.entries k
    refine ⟨?_, ?_⟩
    · simp only [lruSize, h1, h2, h4] at *; omega
    · simp only [reservedSum, h3, h2] at *; exact hA0.2
  split
  · split
    · exact hsz _ rfl rfl rfl rfl rfl
    · exact hsz _ rfl rfl rfl rfl rfl
  · exact hA

theorem externalDelete_acct (c : Lru) (k : Key) (hA : Acct c) : Acct (c.externalDelete k) := hA

theorem addFile_acct (c : Lru) (k : Key) (n : Nat) (hA : Acct c) : Acct (c.addFile k n).1 := by
  unfold addFile
  rcases hr : makeSpace c n with ⟨c', r⟩
  obtain ⟨h1, h2, h3, h4, h5, hpo, h6, h8⟩ := makeSpace_spec _ c' n r hr
  rcases h8 with rfl | rfl
  · simp only
    have hsz := h6 rfl
    intro hnp
    have hins := lruInsert_spec c' k n (by omega)
    have hA0 := hA (by rw [← hpo, ← hins.2.2.2.2]; exact hnp)
    refine ⟨?_, ?_⟩
    · rw [hins.2.1, hins.2.2.2.1]; omega
    · simp only [reservedSum, hins.2.2.1, hins.2.1, h2, h1]; exact hA0.2
  · simp only; exact acct_mono c c' hA h1 h2 h3 h5 hpo

theorem reopen_acct (c : Lru) (order : List (Key × Nat)) : Acct (c.reopen order) := by
  unfold reopen
  have : ∀ (l : List (Key × Nat)) (acc : Lru), Acct acc →
      Acct (l.foldl (fun acc (kn : Key × Nat) => if kn.2 > acc.cap then { acc with files := eraseKey acc.files kn.1 } else (acc.addFile kn.1 kn.2).1) acc) := by
    intro l
    induction l with
    | nil => intro acc h; exact h
    | cons kn l ih =>
      intro acc h
      simp only [List.foldl_cons]
      apply ih
      split
      · exact h
      · exact addFile_acct acc kn.1 kn.2 h
  apply this
  intro _
  simp [lruSize, reservedSum]

/-- the operations of the public API (and of the outside world) -/
inductive LOp where
  | insertBytes (k n : Nat) | prepareAdd (k n : Nat) | write (h m : Nat) | commit (h : Nat) | dropEntry (h : Nat)
  | get (k : Nat) | remove (k : Nat) | externalDelete (k : Nat) | reopen (order : List (Key × Nat))

def lstep (c : Lru) : LOp → Lru
  | .insertBytes k n => (c.insertBytes k n).1
  | .prepareAdd k n => (c.prepareAdd k n).1
  | .write h m => c.write h m
  | .commit h => (c.commit h).1
  | .dropEntry h => c.dropEntry h
  | .get k => (c.get k).1
  | .remove k => (c.remove k).1
  | .externalDelete k => c.externalDelete k
  | .reopen o => c.reopen o

/-- C07 `size_limit`: for every sequence of inserts, two-phase stores (with more or less written than
    reserved, committed or dropped), lookups, removals, external deletions and reopenings, as long as the
    cache has not panicked, stored entries plus reservations never exceed the capacity -/
theorem size_limit (cap : Nat) (ops : List LOp) :
    let c := ops.foldl lstep { cap := cap }
    c.poisoned = false → c.lruSize + c.pendingSize ≤ c.cap := by
  have : ∀ (ops : List LOp) (c : Lru), Acct c → Acct (ops.foldl lstep c) := by
    intro ops
    induction ops with
    | nil => intro c h; exact h
    | cons o os ih =>
      intro c h
      simp only [List.foldl_cons]
      apply ih
      cases o with
      | insertBytes k n => exact insertBytes_acct c k n h
      | prepareAdd k n => exact prepareAdd_acct c k n h
      | write hh m => exact write_acct c hh m h
      | commit hh => exact commit_acct c hh h
      | dropEntry hh => exact dropEntry_acct c hh h
      | get k => exact get_acct c k h
      | remove k => exact remove_acct c k h
      | externalDelete k => exact externalDelete_acct c k h
      | reopen o => exact reopen_acct c o
  intro c hnp
  exact (this ops { cap := cap } (by intro _; simp [lruSize, reservedSum]) hnp).1

/-! ### `no_panic`: after the fix of F-C07-a no operation of the model panics or poisons the cache -/

theorem lruInsert_poisoned (c : Lru) (k : Key) (n : Nat) : (c.lruInsert k n).poisoned = c.poisoned := rfl

theorem addFile_np (c : Lru) (k : Key) (n : Nat) : (c.addFile k n).1.poisoned = c.poisoned ∧ (c.addFile k n).2 ≠ .panic := by
  unfold addFile
  rcases hr : makeSpace c n with ⟨c', r⟩
  obtain ⟨_, _, _, _, _, hpo, _, h8⟩ := makeSpace_spec _ c' n r hr
  rcases h8 with rfl | rfl
  · exact ⟨by simp only [lruInsert_poisoned]; exact hpo, by simp⟩
  · exact ⟨hpo, by simp⟩

theorem insertBytes_np (c : Lru) (k : Key) (n : Nat) :
    (c.insertBytes k n).1.poisoned = c.poisoned ∧ (c.insertBytes k n).2 ≠ .panic := by
  unfold insertBytes
  by_cases hn : n > c.cap
  · simp [hn]
  · simp only [hn, if_false]
    have := addFile_np { c with files := eraseKey c.files k ++ [(k, n)], entries := eraseKey c.entries k } k n
    rcases hr : addFile { c with files := eraseKey c.files k ++ [(k, n)], entries := eraseKey c.entries k } k n with ⟨c2, r⟩
    rw [hr] at this
    cases r <;> simp_all

theorem prepareAdd_np (c : Lru) (k : Key) (n : Nat) :
    (c.prepareAdd k n).1.poisoned = c.poisoned ∧ (c.prepareAdd k n).2 ≠ .panic := by
  unfold prepareAdd
  rcases hr : c.makeSpace n with ⟨c', r⟩
  obtain ⟨_, _, _, _, _, hpo, _, h8⟩ := makeSpace_spec _ c' n r hr
  rcases h8 with rfl | rfl
  · exact ⟨hpo, by simp⟩
  · exact ⟨hpo, by simp⟩

theorem commit_np (c : Lru) (h : Nat) : (c.commit h).1.poisoned = c.poisoned ∧ (c.commit h).2 ≠ .panic := by
  unfold commit
  cases hf : c.temps.find? (·.handle == h) with
  | none => simp
  | some p =>
    simp only
    split
    · exact ⟨rfl, by simp⟩
    rcases hr : makeSpace { c with temps := c.temps.filter (·.handle != h) } (p.written - p.reserved) with ⟨c1, r⟩
    obtain ⟨_, _, _, _, _, hpo, _, h8⟩ := makeSpace_spec _ c1 _ r hr
    rcases h8 with rfl | rfl
    · exact ⟨by simp only [lruInsert_poisoned]; exact hpo, by simp⟩
    · exact ⟨hpo, by simp⟩

theorem get_np (c : Lru) (k : Key) : (c.get k).1.poisoned = c.poisoned ∧ (c.get k).2 ≠ .panic := by
  unfold get; split
  · simp
  · split <;> simp

theorem remove_np (c : Lru) (k : Key) : (c.remove k).1.poisoned = c.poisoned ∧ (c.remove k).2 ≠ .panic := by
  unfold remove; split
  · split <;> simp
  · simp

theorem reopen_np (c : Lru) (order : List (Key × Nat)) : (c.reopen order).poisoned = false := by
  unfold reopen
  have : ∀ (l : List (Key × Nat)) (acc : Lru), acc.poisoned = false →
      (l.foldl (fun acc (kn : Key × Nat) => if kn.2 > acc.cap then { acc with files := eraseKey acc.files kn.1 } else (acc.addFile kn.1 kn.2).1) acc).poisoned = false := by
    intro l
    induction l with
    | nil => intro acc h; exact h
    | cons kn l ih =>
      intro acc h
      simp only [List.foldl_cons]
      apply ih
      split
      · exact h
      · rw [(addFile_np acc kn.1 kn.2).1]; exact h
  exact this _ _ rfl

/-- the result of a public operation (`-` for those that return nothing) -/
def lres (c : Lru) : LOp → Res
  | .insertBytes k n => (c.insertBytes k n).2
  | .prepareAdd k n => (c.prepareAdd k n).2
  | .commit h => (c.commit h).2
  | .get k => (c.get k).2
  | .remove k => (c.remove k).2
  | _ => .ok

theorem lstep_np (c : Lru) (o : LOp) (h : c.poisoned = false) : (lstep c o).poisoned = false ∧ lres c o ≠ .panic := by
  cases o with
  | insertBytes k n => exact ⟨by simp only [lstep]; rw [(insertBytes_np c k n).1]; exact h, (insertBytes_np c k n).2⟩
  | prepareAdd k n => exact ⟨by simp only [lstep]; rw [(prepareAdd_np c k n).1]; exact h, (prepareAdd_np c k n).2⟩
  | write hh m => exact ⟨h, by simp [lres]⟩
  | commit hh => exact ⟨by simp only [lstep]; rw [(commit_np c hh).1]; exact h, (commit_np c hh).2⟩
  | dropEntry hh => exact ⟨h, by simp [lres]⟩
  | get k => exact ⟨by simp only [lstep]; rw [(get_np c k).1]; exact h, (get_np c k).2⟩
  | remove k => exact ⟨by simp only [lstep]; rw [(remove_np c k).1]; exact h, (remove_np c k).2⟩
  | externalDelete k => exact ⟨h, by simp [lres]⟩
  | reopen o => exact ⟨reopen_np c o, by simp [lres]⟩

/-- C07 `no_panic`: no sequence of public operations — including concurrent reservations that together exceed the
    limit, overwrites, dropped entries, external deletions and reopenings — makes the cache panic or poisons it -/
theorem no_panic (cap : Nat) (ops : List LOp) (next : LOp) :
    let c := ops.foldl lstep { cap := cap }
    c.poisoned = false ∧ lres c next ≠ .panic := by
  have : ∀ (ops : List LOp) (c : Lru), c.poisoned = false → (ops.foldl lstep c).poisoned = false := by
    intro ops
    induction ops with
    | nil => intro c h; exact h
    | cons o os ih => intro c h; exact ih _ (lstep_np c o h).1
  have h := this ops { cap := cap } rfl
  exact ⟨h, (lstep_np _ next h).2⟩

/-- C07 `oversize_refused`: an entry larger than the whole cache is refused without disturbing anything -/
theorem oversize_refused (c : Lru) (k n : Nat) (h : n > c.cap) :
    c.insertBytes k n = (c, .tooLarge) ∧ c.prepareAdd k n = (c, .tooLarge) := by
  simp [insertBytes, prepareAdd, makeSpace, h]

/-- F-C07-a (fixed in /repo): two reservations that together exceed the capacity with an empty index are now
    refused (`tooLarge`) — on the pinned tree this was `expect("Unexpectedly empty cache!")` -/
theorem over_reservation_refused :
    ((({ cap := 25 } : Lru).prepareAdd 1 15).1.prepareAdd 2 15).2 = .tooLarge := by decide

/-- F-C07-b (fixed in /repo): overwriting the least-recently-used key keeps the new file -/
theorem self_eviction_fixed :
    let c := (((({ cap := 20 } : Lru).insertBytes 1 10).1.insertBytes 2 10).1.insertBytes 1 10).1
    c.containsKey 1 = true ∧ c.files.any (·.1 == 1) = true := by decide

end Lru

#print axioms Lru.size_limit

end LruM
