namespace EntryM

/-! Proof spike: the zero-input CRC-32 step is injective (no `bv_decide`). -/
def P : BitVec 32 := 0xEDB88320#32

def bstep (c : BitVec 32) : BitVec 32 := (c >>> 1) ^^^ (if c.getLsbD 0 then P else 0#32)

theorem P_top : P.getLsbD 31 = true := by decide

theorem bstep_bit31 (c : BitVec 32) : (bstep c).getLsbD 31 = c.getLsbD 0 := by
  unfold bstep
  rw [BitVec.getLsbD_xor, BitVec.getLsbD_ushiftRight]
  have : c.getLsbD (1 + 31) = false := by
    apply BitVec.getLsbD_of_ge; omega
  rw [this]
  by_cases h : c.getLsbD 0
  · rw [if_pos h, P_top, h]; rfl
  · have h' : c.getLsbD 0 = false := by simpa using h
    rw [if_neg h, h']; simp

theorem bstep_inj (a b : BitVec 32) (h : bstep a = bstep b) : a = b := by
  have h0 : a.getLsbD 0 = b.getLsbD 0 := by rw [← bstep_bit31, ← bstep_bit31, h]
  have hs : a >>> 1 = b >>> 1 := by
    unfold bstep at h
    rw [h0] at h
    exact (BitVec.xor_left_inj _).mp h
  apply BitVec.eq_of_getLsbD_eq
  intro i hi
  cases i with
  | zero => exact h0
  | succ j =>
    have := congrArg (fun v => v.getLsbD j) hs
    simp only [BitVec.getLsbD_ushiftRight] at this
    rw [Nat.add_comm 1 j] at this
    exact this

theorem bstep_ne_zero (c : BitVec 32) (h : c ≠ 0#32) : bstep c ≠ 0#32 := by
  intro hz
  have : bstep c = bstep 0#32 := by rw [hz]; decide
  exact h (bstep_inj _ _ this)

#print axioms bstep_inj

def step8 (c : BitVec 32) : BitVec 32 := bstep (bstep (bstep (bstep (bstep (bstep (bstep (bstep c)))))))

theorem step8_inj (a b : BitVec 32) (h : step8 a = step8 b) : a = b := by
  unfold step8 at h
  exact bstep_inj _ _ (bstep_inj _ _ (bstep_inj _ _ (bstep_inj _ _ (bstep_inj _ _ (bstep_inj _ _ (bstep_inj _ _ (bstep_inj _ _ h)))))))

def byteBV (b : UInt8) : BitVec 32 := BitVec.ofNat 32 b.toNat

theorem byteBV_inj (a b : UInt8) (h : byteBV a = byteBV b) : a = b := by
  have := congrArg BitVec.toNat h
  simp only [byteBV, BitVec.toNat_ofNat] at this
  have ha : a.toNat < 256 := a.toNat_lt
  have hb : b.toNat < 256 := b.toNat_lt
  have : a.toNat = b.toNat := by omega
  exact UInt8.toNat_inj.mp this

/-- one byte of CRC-32 update, on the register -/
def crcUpd (s : BitVec 32) (b : UInt8) : BitVec 32 := step8 (s ^^^ byteBV b)

theorem crcUpd_inj_state (s t : BitVec 32) (b : UInt8) (h : crcUpd s b = crcUpd t b) : s = t :=
  (BitVec.xor_left_inj _).mp (step8_inj _ _ h)

theorem crcUpd_inj_byte (s : BitVec 32) (a b : UInt8) (h : crcUpd s a = crcUpd s b) : a = b :=
  byteBV_inj _ _ ((BitVec.xor_right_inj _).mp (step8_inj _ _ h))

def crcBV (xs : List UInt8) : BitVec 32 := (xs.foldl crcUpd 0xFFFFFFFF#32) ^^^ 0xFFFFFFFF#32

theorem foldl_crcUpd_inj (suf : List UInt8) : ∀ s t : BitVec 32, s ≠ t → suf.foldl crcUpd s ≠ suf.foldl crcUpd t := by
  induction suf with
  | nil => intro s t h; simpa using h
  | cons b bs ih =>
    intro s t h
    simp only [List.foldl_cons]
    exact ih _ _ (fun e => h (crcUpd_inj_state s t b e))

/-- C08 `crc_single_byte`: substituting one byte anywhere changes the CRC-32 -/
theorem crc_single_byte (pre suf : List UInt8) (a b : UInt8) (hab : a ≠ b) :
    crcBV (pre ++ [a] ++ suf) ≠ crcBV (pre ++ [b] ++ suf) := by
  unfold crcBV
  intro h
  have h' := (BitVec.xor_left_inj _).mp h
  simp only [List.foldl_append, List.foldl_cons, List.foldl_nil] at h'
  exact foldl_crcUpd_inj suf _ _ (fun e => hab (crcUpd_inj_byte _ a b e)) h'

#print axioms crc_single_byte

end EntryM
