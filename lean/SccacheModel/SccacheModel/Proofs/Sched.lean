import SccacheModel.Model.Sched

namespace SchedM

/-! Proofs: C18 invariants for the scheduler after the fix of F-C18-a
    (`allocRecordFixed`, Model/Sched.lean: record the job only if the chosen server still lists it). -/
namespace Sched

theorem findSrv_setSrv (c : Sched) (v : Srv) (s : Nat) :
    (c.setSrv v).findSrv s = if s = v.id then some v else c.findSrv s := by
  simp only [findSrv, setSrv]
  by_cases h : s = v.id
  · subst h
    simp only [if_true]
    rw [List.find?_append]
    have : (c.servers.filter (·.id != v.id)).find? (·.id == v.id) = none := by
      apply List.find?_eq_none.mpr
      intro x hx
      have := (List.mem_filter.mp hx).2
      simp at this ⊢
      exact this
    simp [this]
  · simp only [h, if_false]
    rw [List.find?_append]
    have hfilt : (c.servers.filter (·.id != v.id)).find? (·.id == s) = c.servers.find? (·.id == s) := by
      induction c.servers with
      | nil => rfl
      | cons x xs ih =>
        simp only [List.filter_cons]
        by_cases hx : x.id = v.id
        · have hne : (x.id != v.id) = false := by simp [hx]
          have hxs : (x.id == s) = false := by simp [hx]; exact fun e => h e.symm
          simp only [hne, Bool.false_eq_true, if_false, List.find?_cons, hxs]
          exact ih
        · have hne : (x.id != v.id) = true := by simp [hx]
          simp only [hne, if_true, List.find?_cons]
          split
          · rfl
          · exact ih
    rw [hfilt]
    cases hf : c.servers.find? (·.id == s) with
    | some w => simp
    | none =>
      have : (v.id == s) = false := by simp; exact fun e => h e.symm
      simp [this]

/-- J1 + freshness: every recorded job is listed by its (registered) server; ids are below the counter -/
structure SInv (c : Sched) : Prop where
  attributed : ∀ job ∈ c.jobs, ∃ v, c.findSrv job.server = some v ∧ job.id ∈ v.assigned
  freshJobs : ∀ job ∈ c.jobs, job.id < c.jobCount
  capacity : ∀ s v, c.findSrv s = some v → v.assigned.length ≤ capOf v.cpus
  notPoisoned : c.poisoned = false

theorem sinv_init : SInv {} := by
  refine ⟨by simp, by simp, ?_, rfl⟩
  intro s v h; simp [findSrv] at h

theorem findSrv_jobs (c : Sched) (js : List Job) (s : Nat) : ({ c with jobs := js } : Sched).findSrv s = c.findSrv s := rfl

theorem allocRecordFixed_inv (c : Sched) (h : SInv c) (j s : Nat) (st : JState) (hj : j < c.jobCount) :
    SInv (c.allocRecordFixed j s st).1 := by
  unfold allocRecordFixed
  cases hf : c.findSrv s with
  | none => simp only; exact h
  | some v =>
    simp only
    split
    · rename_i hc
      simp only [Bool.and_eq_true] at hc
      refine ⟨?_, ?_, h.capacity, h.notPoisoned⟩
      · intro job hjob
        rcases List.mem_append.mp hjob with hm | hm
        · exact h.attributed job hm
        · simp only [List.mem_singleton] at hm
          subst hm
          exact ⟨v, hf, by simpa using hc.1⟩
      · intro job hjob
        rcases List.mem_append.mp hjob with hm | hm
        · exact h.freshJobs job hm
        · simp only [List.mem_singleton] at hm
          subst hm; exact hj
    · exact h

/-- replacing a server record by one with the same id whose `assigned` still contains what the jobs need -/
theorem setSrv_inv (c : Sched) (h : SInv c) (v' : Srv)
    (hkeep : ∀ job ∈ c.jobs, job.server = v'.id → job.id ∈ v'.assigned)
    (hcap : v'.assigned.length ≤ capOf v'.cpus) : SInv (c.setSrv v') := by
  refine ⟨?_, h.freshJobs, ?_, h.notPoisoned⟩
  · intro job hj
    rw [findSrv_setSrv]
    by_cases hs : job.server = v'.id
    · simp only [hs, if_true]; exact ⟨v', rfl, hkeep job hj hs⟩
    · simp only [hs, if_false]; exact h.attributed job hj
  · intro s v hf
    rw [findSrv_setSrv] at hf
    by_cases hs : s = v'.id
    · simp only [hs, if_true] at hf; cases hf; exact hcap
    · simp only [hs, if_false] at hf; exact h.capacity s v hf

theorem jobs_sub_inv (c : Sched) (h : SInv c) (js : List Job) (hsub : ∀ x ∈ js, x ∈ c.jobs) : SInv { c with jobs := js } :=
  ⟨fun job hj => h.attributed job (hsub job hj), fun job hj => h.freshJobs job (hsub job hj), h.capacity, h.notPoisoned⟩

theorem setState_inv (j : Nat) (st : JState) (c' : Sched) (h' : SInv c') :
    SInv { c' with jobs := c'.jobs.map fun x => if x.id == j then { x with state := st } else x } := by
  refine ⟨?_, ?_, h'.capacity, h'.notPoisoned⟩
  · intro job' hj'
    obtain ⟨x, hx, rfl⟩ := List.mem_map.mp hj'
    have := h'.attributed x hx
    split <;> exact this
  · intro job' hj'
    obtain ⟨x, hx, rfl⟩ := List.mem_map.mp hj'
    have := h'.freshJobs x hx
    split <;> exact this

theorem update_inv (c : Sched) (h : SInv c) (j s : Nat) (st : JState) :
    SInv (c.update j s st).1 ∧ (c.update j s st).2 ≠ .panic := by
  unfold update
  cases hfj : c.jobs.find? (·.id == j) with
  | none => simp only; exact ⟨h, by simp⟩
  | some job =>
    simp only
    have hjm : job ∈ c.jobs := List.mem_of_find?_eq_some hfj
    have hjid : job.id = j := by have := List.find?_some hfj; simpa using this
    by_cases hs : (job.server != s) = true
    · simp only [hs, if_true]; exact ⟨h, by simp⟩
    · simp only [hs]
      have hsrv : job.server = s := by simpa using hs
      obtain ⟨v0, hv0, hmem0⟩ := h.attributed job hjm
      rw [hsrv] at hv0
      cases hst : job.state <;> cases st <;> simp only [Bool.false_eq_true, if_false]
      all_goals first
        | exact ⟨h, by simp⟩
        | exact ⟨setState_inv j _ c h, by simp⟩
        | skip
      · -- ready → started
        simp only [hv0]
        refine ⟨setState_inv j _ _ (setSrv_inv c h { v0 with unclaimed := v0.unclaimed.erase j } ?_ (h.capacity s v0 hv0)), by simp⟩
        intro job' hj' hs'
        obtain ⟨v1, hv1, hm1⟩ := h.attributed job' hj'
        have hid : v0.id = s := by
          have := List.find?_some hv0
          simpa using this
        simp only at hs'
        rw [hs', hid, hv0] at hv1
        cases hv1; exact hm1
      · -- started → complete
        have hid : v0.id = s := by
          have := List.find?_some hv0
          simpa using this
        have hfs : ({ c with jobs := c.jobs.filter (·.id != j) } : Sched).findSrv s = some v0 := hv0
        simp only [hfs]
        have hcont : v0.assigned.contains j = true := by rw [← hjid]; simpa using hmem0
        simp only [hcont, if_true]
        refine ⟨?_, by simp⟩
        have hbase : SInv { c with jobs := c.jobs.filter (·.id != j) } :=
          jobs_sub_inv c h _ (fun x hx => (List.mem_filter.mp hx).1)
        apply setSrv_inv _ hbase { v0 with assigned := v0.assigned.erase j }
        · intro job' hj' hs'
          have hj'' := List.mem_filter.mp hj'
          obtain ⟨v1, hv1, hm1⟩ := h.attributed job' hj''.1
          simp only at hs'
          rw [hs', hid, hv0] at hv1
          cases hv1
          have hne : job'.id ≠ j := by simpa using hj''.2
          exact (List.mem_erase_of_ne hne).mpr hm1
        · have := h.capacity s v0 hv0
          have hl := List.length_erase_le (a := j) (l := v0.assigned)
          simp only
          omega

theorem heartbeat_inv (c : Sched) (h : SInv c) (s nonce cpus : Nat) : SInv (c.heartbeat s nonce cpus).1 := by
  unfold heartbeat
  by_cases hc : cpus = 0
  · simp only [hc, if_true]; exact h
  · simp only [hc, if_false]
    cases hf : c.findSrv s with
    | none =>
      simp only
      apply setSrv_inv c h
      · intro job hj hs
        obtain ⟨v1, hv1, _⟩ := h.attributed job hj
        simp only at hs
        rw [hs, hf] at hv1; cases hv1
      · simp
    | some v =>
      simp only
      split
      · exact h
      · have hbase : SInv { c with jobs := c.jobs.filter fun j => !v.assigned.contains j.id } :=
          jobs_sub_inv c h _ (fun x hx => (List.mem_filter.mp hx).1)
        apply setSrv_inv _ hbase
        · intro job hj hs
          exfalso
          have hj' := List.mem_filter.mp hj
          obtain ⟨v1, hv1, hm1⟩ := h.attributed job hj'.1
          simp only at hs
          rw [hs, hf] at hv1
          cases hv1
          have hj2 : job ∈ c.jobs ∧ ¬ job.id ∈ v.assigned := by simpa using hj'
          exact hj2.2 hm1
        · simp

theorem allocChoose_inv (c : Sched) (h : SInv c) (choice : Option Nat) :
    SInv (c.allocChoose choice).1 ∧
    (∀ j, (c.allocChoose choice).2.2 = some j → j = c.jobCount ∧ (c.allocChoose choice).1.jobCount = c.jobCount + 1) ∧
    c.jobCount ≤ (c.allocChoose choice).1.jobCount := by
  unfold allocChoose
  cases choice with
  | none => simp only; split <;> exact ⟨h, by simp, Nat.le_refl _⟩
  | some s =>
    simp only
    split
    · exact ⟨h, by simp, Nat.le_refl _⟩
    · cases hf : c.findSrv s with
      | none => simp only; exact ⟨h, by simp, Nat.le_refl _⟩
      | some v =>
        simp only
        split
        · exact ⟨h, by simp, Nat.le_refl _⟩
        · rename_i hload
          have hid : v.id = s := by have := List.find?_some hf; simpa using this
          refine ⟨?_, by intro j hj; cases hj; exact ⟨rfl, rfl⟩, Nat.le_succ _⟩
          have hbase : SInv { c with jobCount := c.jobCount + 1 } :=
            ⟨h.attributed, fun job hj => Nat.lt_succ_of_lt (h.freshJobs job hj), h.capacity, h.notPoisoned⟩
          apply setSrv_inv _ hbase
          · intro job hj hs
            obtain ⟨v1, hv1, hm1⟩ := h.attributed job hj
            simp only at hs
            rw [hs, hid, hf] at hv1
            cases hv1
            exact List.mem_append_left _ hm1
          · simp only [List.length_append, List.length_singleton]
            simp only [loadOk, Bool.not_eq_true, Bool.and_eq_false_iff, decide_eq_false_iff_not, Bool.not_eq_false] at hload
            have : v.assigned.length < capOf v.cpus := by
              by_cases h1 : v.assigned.length < capOf v.cpus
              · exact h1
              · exfalso; simp [loadOk, h1] at hload
            omega

theorem allocFail_inv (c : Sched) (h : SInv c) (j s : Nat) (hnot : ∀ job ∈ c.jobs, job.id ≠ j) :
    SInv (c.allocFail j s).1 := by
  unfold allocFail
  have hbase : SInv { c with clock := c.clock + 1 } := ⟨h.attributed, h.freshJobs, h.capacity, h.notPoisoned⟩
  cases hf : ({ c with clock := c.clock + 1 } : Sched).findSrv s with
  | none => simp only [hf]; exact hbase
  | some v =>
    simp only [hf]
    have hid : v.id = s := by have := List.find?_some hf; simpa using this
    apply setSrv_inv _ hbase
    · intro job hj hs
      obtain ⟨v1, hv1, hm1⟩ := h.attributed job hj
      simp only at hs
      have : c.findSrv job.server = some v := by rw [hs, hid]; exact hf
      rw [this] at hv1; cases hv1
      exact (List.mem_erase_of_ne (hnot job hj)).mpr hm1
    · have := h.capacity s v hf
      have hl := List.length_erase_le (a := j) (l := v.assigned)
      simp only
      omega

/-- messages as the scheduler sees them; an allocation is three of them and anything may come in between -/
inductive WAct where
  | choose (s : Option Nat)
  | record (j s : Nat) (st : JState)
  | fail (j s : Nat)
  | heartbeat (s nonce cpus : Nat)
  | update (j s : Nat) (st : JState)

/-- run with the ghost set of allocations in flight (chosen, not yet recorded or failed) -/
def wstep (ci : Sched × List Nat) : WAct → Sched × List Nat
  | .choose s => let r := ci.1.allocChoose s; (r.1, ci.2 ++ r.2.2.toList)
  | .record j s st => if j ∈ ci.2 then ((ci.1.allocRecordFixed j s st).1, ci.2.erase j) else ci
  | .fail j s => if j ∈ ci.2 then ((ci.1.allocFail j s).1, ci.2.erase j) else ci
  | .heartbeat s n cp => ((ci.1.heartbeat s n cp).1, ci.2)
  | .update j s st => ((ci.1.update j s st).1, ci.2)

structure WInv (ci : Sched × List Nat) : Prop where
  sinv : SInv ci.1
  inflightFresh : ∀ j ∈ ci.2, j < ci.1.jobCount
  inflightNotRecorded : ∀ j ∈ ci.2, ∀ job ∈ ci.1.jobs, job.id ≠ j
  nodup : ci.2.Nodup

/-! frame lemmas: what each handler does to `jobs` (ids) and to `jobCount` -/

theorem setSrv_jobs (c : Sched) (v : Srv) : (c.setSrv v).jobs = c.jobs ∧ (c.setSrv v).jobCount = c.jobCount := ⟨rfl, rfl⟩

theorem allocChoose_frame (c : Sched) (choice : Option Nat) :
    (c.allocChoose choice).1.jobs = c.jobs := by
  unfold allocChoose
  cases choice with
  | none => simp only; split <;> rfl
  | some s =>
    simp only
    split
    · rfl
    · cases c.findSrv s with
      | none => rfl
      | some v => simp only; split <;> rfl

theorem allocRecordFixed_frame (c : Sched) (j s : Nat) (st : JState) :
    (c.allocRecordFixed j s st).1.jobCount = c.jobCount ∧
    ∀ job ∈ (c.allocRecordFixed j s st).1.jobs, job ∈ c.jobs ∨ job.id = j := by
  unfold allocRecordFixed
  cases c.findSrv s with
  | none => exact ⟨rfl, fun job hj => Or.inl hj⟩
  | some v =>
    simp only
    split
    · refine ⟨rfl, ?_⟩
      intro job hj
      rcases List.mem_append.mp hj with hm | hm
      · exact Or.inl hm
      · simp only [List.mem_singleton] at hm; subst hm; exact Or.inr rfl
    · exact ⟨rfl, fun job hj => Or.inl hj⟩

theorem allocFail_frame (c : Sched) (j s : Nat) :
    (c.allocFail j s).1.jobCount = c.jobCount ∧ (c.allocFail j s).1.jobs = c.jobs := by
  unfold allocFail
  simp only
  split <;> exact ⟨rfl, rfl⟩

theorem heartbeat_frame (c : Sched) (s n cp : Nat) :
    (c.heartbeat s n cp).1.jobCount = c.jobCount ∧ ∀ job ∈ (c.heartbeat s n cp).1.jobs, job ∈ c.jobs := by
  unfold heartbeat
  split
  · exact ⟨rfl, fun _ h => h⟩
  · split
    · split
      · exact ⟨rfl, fun _ h => h⟩
      · exact ⟨rfl, fun job hj => (List.mem_filter.mp hj).1⟩
    · exact ⟨rfl, fun _ h => h⟩

theorem update_frame (c : Sched) (j s : Nat) (st : JState) :
    (c.update j s st).1.jobCount = c.jobCount ∧ ∀ job ∈ (c.update j s st).1.jobs, ∃ job0 ∈ c.jobs, job0.id = job.id := by
  have keepAll : ∀ job ∈ c.jobs, ∃ job0 ∈ c.jobs, job0.id = job.id := fun job hj => ⟨job, hj, rfl⟩
  have setSt : ∀ job ∈ c.jobs.map (fun x => if x.id == j then { x with state := st } else x), ∃ job0 ∈ c.jobs, job0.id = job.id := by
    intro job hj
    obtain ⟨x, hx, rfl⟩ := List.mem_map.mp hj
    refine ⟨x, hx, ?_⟩
    split <;> rfl
  have filt : ∀ job ∈ c.jobs.filter (·.id != j), ∃ job0 ∈ c.jobs, job0.id = job.id :=
    fun job hj => ⟨job, (List.mem_filter.mp hj).1, rfl⟩
  unfold update
  split
  · exact ⟨rfl, keepAll⟩
  · split
    · exact ⟨rfl, keepAll⟩
    · split
      · exact ⟨rfl, setSt⟩
      · split
        · exact ⟨rfl, setSt⟩
        · exact ⟨rfl, setSt⟩
      · simp only
        split
        · split
          · exact ⟨rfl, filt⟩
          · exact ⟨rfl, filt⟩
        · exact ⟨rfl, filt⟩
      · exact ⟨rfl, keepAll⟩

theorem winv_init : WInv (({} : Sched), []) := ⟨sinv_init, by simp, by simp, by simp⟩

theorem winv_step (ci : Sched × List Nat) (h : WInv ci) (a : WAct) : WInv (wstep ci a) := by
  obtain ⟨c, infl⟩ := ci
  have hF : ∀ j ∈ infl, j < c.jobCount := h.inflightFresh
  have hN : ∀ j ∈ infl, ∀ job ∈ c.jobs, job.id ≠ j := h.inflightNotRecorded
  have hD : infl.Nodup := h.nodup
  have hS : SInv c := h.sinv
  cases a with
  | choose s =>
    simp only [wstep]
    obtain ⟨hs, hnew, hmono⟩ := allocChoose_inv c h.sinv s
    have hjobs := allocChoose_frame c s
    refine ⟨hs, ?_, ?_, ?_⟩
    · intro j hj
      rcases List.mem_append.mp hj with hm | hm
      · exact Nat.lt_of_lt_of_le (hF j hm) hmono
      · have hj' : (c.allocChoose s).2.2 = some j := by simpa using hm
        have h2 := hnew j hj'
        show j < (c.allocChoose s).1.jobCount
        omega
    · intro j hj job hjob
      rw [hjobs] at hjob
      rcases List.mem_append.mp hj with hm | hm
      · exact hN j hm job hjob
      · have hj' : (c.allocChoose s).2.2 = some j := by simpa using hm
        have h2 := (hnew j hj').1
        have h3 := hS.freshJobs job hjob
        omega
    · rw [List.nodup_append]
      refine ⟨h.nodup, ?_, ?_⟩
      · cases (c.allocChoose s).2.2 <;> simp
      · intro a ha b hb
        have hb' : (c.allocChoose s).2.2 = some b := by simpa using hb
        have h2 := (hnew b hb').1
        have h3 := hF a ha
        omega
  | record j s st =>
    simp only [wstep]
    split
    · rename_i hin
      have hfr := allocRecordFixed_frame c j s st
      refine ⟨allocRecordFixed_inv c h.sinv j s st (h.inflightFresh j hin), ?_, ?_, h.nodup.erase j⟩
      · intro j' hj'; rw [hfr.1]; exact h.inflightFresh j' (List.mem_of_mem_erase hj')
      · intro j' hj' job hjob
        have hj'in := List.mem_of_mem_erase hj'
        have hne : j' ≠ j := fun e => (List.Nodup.not_mem_erase h.nodup) (e ▸ hj')
        rcases hfr.2 job hjob with hm | hm
        · exact h.inflightNotRecorded j' hj'in job hm
        · rw [hm]; exact fun e => hne e.symm
    · exact h
  | fail j s =>
    simp only [wstep]
    split
    · rename_i hin
      have hfr := allocFail_frame c j s
      refine ⟨allocFail_inv c h.sinv j s (h.inflightNotRecorded j hin), ?_, ?_, h.nodup.erase j⟩
      · intro j' hj'; rw [hfr.1]; exact h.inflightFresh j' (List.mem_of_mem_erase hj')
      · intro j' hj' job hjob
        rw [hfr.2] at hjob
        exact h.inflightNotRecorded j' (List.mem_of_mem_erase hj') job hjob
    · exact h
  | heartbeat s n cp =>
    simp only [wstep]
    have hfr := heartbeat_frame c s n cp
    refine ⟨heartbeat_inv c h.sinv s n cp, ?_, ?_, h.nodup⟩
    · intro j hj; rw [hfr.1]; exact h.inflightFresh j hj
    · intro j hj job hjob; exact h.inflightNotRecorded j hj job (hfr.2 job hjob)
  | update j s st =>
    simp only [wstep]
    have hfr := update_frame c j s st
    refine ⟨(update_inv c h.sinv j s st).1, ?_, ?_, h.nodup⟩
    · intro j' hj'; rw [hfr.1]; exact h.inflightFresh j' hj'
    · intro j' hj' job hjob
      obtain ⟨job0, hj0, hid⟩ := hfr.2 job hjob
      rw [← hid]; exact h.inflightNotRecorded j' hj' job0 hj0

/-- C18 (for the repaired allocation handler): for every sequence of messages — allocations split into their
    three steps with anything in between, heartbeats with the same or a fresh nonce, job-state updates with
    every state from every server — every recorded job is listed by its registered server, no server lists
    more jobs than `cpus + 1 + cpus/8`, and no handler panics -/
theorem scheduler_consistent (msgs : List WAct) :
    let ci := msgs.foldl wstep (({} : Sched), [])
    SInv ci.1 ∧ ∀ j s st, (ci.1.update j s st).2 ≠ .panic := by
  have : ∀ (msgs : List WAct) (ci : Sched × List Nat), WInv ci → WInv (msgs.foldl wstep ci) := by
    intro msgs
    induction msgs with
    | nil => intro ci h; exact h
    | cons a as ih => intro ci h; exact ih _ (winv_step ci h a)
  have hw := this msgs _ winv_init
  exact ⟨hw.sinv, fun j s st => (update_inv _ hw.sinv j s st).2⟩

end Sched

#print axioms Sched.scheduler_consistent

end SchedM
