import SccacheModel.Model.Sched

namespace SchedM

open Sched

/-- the C18 witness: a heartbeat with a fresh nonce overtakes the assignment -/
def witness : Sched × SRes :=
  let c0 : Sched := {}
  let c1 := (c0.heartbeat 0 1 1).1            -- server 0 registers (nonce 1, 1 cpu)
  let c2 := (c1.allocChoose (some 0)).1        -- job 0 chosen for server 0, locks released
  let c3 := (c2.heartbeat 0 2 1).1            -- server 0 re-registers with nonce 2 inside the window
  let c4 := (c3.allocRecord 0 0 .ready).1      -- assignment succeeded, job recorded
  let c5 := (c4.update 0 0 .started).1
  c5.update 0 0 .complete

theorem sched_panic_witness : witness.2 = .panic ∧ witness.1.poisoned = true := by decide

/-- before the panic the job is attributed to a server that does not list it -/
theorem sched_attribution_witness :
    let c0 : Sched := {}
    let c4 := ((((c0.heartbeat 0 1 1).1.allocChoose (some 0)).1.heartbeat 0 2 1).1.allocRecord 0 0 .ready).1
    c4.jobs.map (·.id) = [0] ∧ (c4.servers.map (·.assigned)) = [[]] := by decide

end SchedM
