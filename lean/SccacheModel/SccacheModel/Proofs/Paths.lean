import SccacheModel.Model.Paths

namespace PathsM

/-! Proofs (design round): the positive half of C19 for the path arithmetic — `confined_partial`. -/

theorem splitSlash_cons (x : UInt8) (xs : Bytes) :
    splitSlash (x :: xs) =
      (if x == slash then [] :: splitSlash xs
       else match splitSlash xs with | [] => [[x]] | y :: ys => (x :: y) :: ys) := rfl

theorem splitSlash_ne_nil (s : Bytes) : splitSlash s ≠ [] := by
  induction s with
  | nil => simp [splitSlash]
  | cons x xs ih =>
    rw [splitSlash_cons]
    split
    · simp
    · split <;> simp

/-- splitting distributes over a separator -/
theorem splitSlash_append (a b : Bytes) : splitSlash (a ++ slash :: b) = splitSlash a ++ splitSlash b := by
  induction a with
  | nil =>
    rw [List.nil_append, splitSlash_cons]
    simp [splitSlash]
  | cons x xs ih =>
    rw [List.cons_append, splitSlash_cons, splitSlash_cons, ih]
    by_cases hx : (x == slash) = true
    · simp [hx]
    · simp only [hx]
      cases hs : splitSlash xs with
      | nil => exact absurd hs (splitSlash_ne_nil xs)
      | cons y ys => simp

def rstep (stack : List Bytes) (c : Bytes) : List Bytes :=
  if c.isEmpty || c == [dot] then stack
  else if c == [dot, dot] then stack.dropLast
  else stack ++ [c]

theorem resolve_eq (p : Bytes) : resolve p = (splitSlash p).foldl rstep [] := rfl

/-- without `..` components the stack only grows -/
theorem foldl_rstep_prefix (cs : List Bytes) (h : ∀ c ∈ cs, c ≠ [dot, dot]) (pre st : List Bytes) (hp : pre <+: st) :
    pre <+: cs.foldl rstep st := by
  induction cs generalizing st with
  | nil => exact hp
  | cons c cs ih =>
    simp only [List.foldl_cons]
    apply ih (fun x hx => h x (by simp [hx]))
    unfold rstep
    have hc : (c == [dot, dot]) = false := by
      have := h c (by simp)
      simpa using this
    split
    · exact hp
    · simp only [hc]
      exact List.IsPrefix.trans hp (List.prefix_append st [c])

/-- C19 `confined_partial`: for every job root `target` (non-empty, not ending in a separator) and every relative
    remainder `rest` — what `join_suffix` keeps of the client-supplied path after stripping its root — that contains
    **no `..` component**, the joined path resolves under the job root, whatever else it contains (empty components,
    `.` components, any bytes). -/
theorem confined_partial (target rest : Bytes)
    (ht : target ≠ []) (hl : target.getLast? ≠ some slash)
    (hr : hasRoot rest = false) (hdd : ∀ c ∈ splitSlash rest, c ≠ [dot, dot]) :
    confined target (pjoin target rest) = true := by
  have hj : pjoin target rest = target ++ slash :: rest := by
    unfold pjoin
    have he : target.isEmpty = false := by cases target <;> simp_all
    have hl' : (target.getLast? == some slash) = false := by simpa using hl
    simp [hr, he, hl']
  unfold confined
  rw [List.isPrefixOf_iff_prefix, hj, resolve_eq, resolve_eq, splitSlash_append, List.foldl_append]
  exact foldl_rstep_prefix _ hdd _ _ (List.prefix_refl _)

/-- the stripped remainder of a rooted suffix never has a root again -/
theorem trimLeftFuel_noRoot (fuel : Nat) (s : Bytes) (h : s.length < fuel) : hasRoot (trimLeftFuel fuel s) = false := by
  induction fuel generalizing s with
  | zero => omega
  | succ n ih =>
    cases s with
    | nil => simp [trimLeftFuel, hasRoot]
    | cons c rest =>
      have hlen : rest.length < n := by simp at h; omega
      by_cases hc : (c == slash) = true
      · simp only [trimLeftFuel, hc, if_true]
        exact ih rest hlen
      · have hnr : hasRoot (c :: rest) = false := by simpa [hasRoot] using hc
        by_cases hd : (c == dot) = true
        · cases rest with
          | nil => simp [trimLeftFuel, hc, hd, hasRoot]
          | cons d r =>
            by_cases hs : (d == slash) = true
            · simp only [trimLeftFuel, hc, hd, hs, if_true]
              exact ih (d :: r) hlen
            · simp only [trimLeftFuel, hc, hd, hs]
              exact hnr
        · simp only [trimLeftFuel, hc, hd]
          exact hnr

/-- non-vacuity: an ordinary job root and output path meet the hypotheses -/
example : confined [47, 115, 114, 118] (pjoin [47, 115, 114, 118] [119, 47, 46, 47, 111, 46, 111]) = true :=
  confined_partial _ _ (by decide) (by decide) (by decide) (by decide)

#print axioms confined_partial

end PathsM
