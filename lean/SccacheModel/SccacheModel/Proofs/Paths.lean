import SccacheModel.Model.Paths

namespace PathsM

/-! Proofs (design round): the positive half of C19 for the path arithmetic — `confined_partial`. -/

theorem splitSlash_cons (x : UInt8) (xs : Bytes) :
    splitSlash (x :: xs) =
      (if x == slash then [] :: splitSlash xs
       else match splitSlash xs with | [] => [[x]] | y :: ys => (x :: y) :: ys) := rfl

theorem splitSlash_ne_nil (s : Bytes) : splitSlash s ≠ [] := by
  induction s with
  | nil => simp [splitSlash]
  | cons x xs ih =>
    rw [splitSlash_cons]
    split
    · simp
    · split <;> simp

/-- splitting distributes over a separator -/
theorem splitSlash_append (a b : Bytes) : splitSlash (a ++ slash :: b) = splitSlash a ++ splitSlash b := by
  induction a with
  | nil =>
    rw [List.nil_append, splitSlash_cons]
    simp [splitSlash]
  | cons x xs ih =>
    rw [List.cons_append, splitSlash_cons, splitSlash_cons, ih]
    by_cases hx : (x == slash) = true
    · simp [hx]
    · simp only [hx]
      cases hs : splitSlash xs with
      | nil => exact absurd hs (splitSlash_ne_nil xs)
      | cons y ys => simp

def rstep (stack : List Bytes) (c : Bytes) : List Bytes :=
  if c.isEmpty || c == [dot] then stack
  else if c == [dot, dot] then stack.dropLast
  else stack ++ [c]

theorem resolve_eq (p : Bytes) : resolve p = (splitSlash p).foldl rstep [] := rfl

/-- without `..` components the stack only grows -/
theorem foldl_rstep_prefix (cs : List Bytes) (h : ∀ c ∈ cs, c ≠ [dot, dot]) (pre st : List Bytes) (hp : pre <+: st) :
    pre <+: cs.foldl rstep st := by
  induction cs generalizing st with
  | nil => exact hp
  | cons c cs ih =>
    simp only [List.foldl_cons]
    apply ih (fun x hx => h x (by simp [hx]))
    unfold rstep
    have hc : (c == [dot, dot]) = false := by
      have := h c (by simp)
      simpa using this
    split
    · exact hp
    · simp only [hc]
      exact List.IsPrefix.trans hp (List.prefix_append st [c])

/-- C19 `confined_partial`: for every job root `target` (non-empty, not ending in a separator) and every relative
    remainder `rest` — what `join_suffix` keeps of the client-supplied path after stripping its root — that contains
    **no `..` component**, the joined path resolves under the job root, whatever else it contains (empty components,
    `.` components, any bytes). -/
theorem confined_partial (target rest : Bytes)
    (ht : target ≠ []) (hl : target.getLast? ≠ some slash)
    (hr : hasRoot rest = false) (hdd : ∀ c ∈ splitSlash rest, c ≠ [dot, dot]) :
    confined target (pjoin target rest) = true := by
  have hj : pjoin target rest = target ++ slash :: rest := by
    unfold pjoin
    have he : target.isEmpty = false := by cases target <;> simp_all
    have hl' : (target.getLast? == some slash) = false := by simpa using hl
    simp [hr, he, hl']
  unfold confined
  rw [List.isPrefixOf_iff_prefix, hj, resolve_eq, resolve_eq, splitSlash_append, List.foldl_append]
  exact foldl_rstep_prefix _ hdd _ _ (List.prefix_refl _)

/-! ### `resolve_inside` (the repaired server): sound, step-wise inside, and refusing only real escapes -/

theorem foldl_istep_none (cs : List Bytes) : cs.foldl istep none = none := by
  induction cs with
  | nil => rfl
  | cons c cs ih => simpa [List.foldl_cons, istep] using ih

/-- what `resolve_inside` accepts is exactly where the kernel's resolution lands, from any base stack -/
theorem foldl_istep_sound (cs : List Bytes) (s q base : List Bytes) (h : cs.foldl istep (some s) = some q) :
    cs.foldl rstep (base ++ s) = base ++ q := by
  induction cs generalizing s with
  | nil => simp only [List.foldl_nil] at h ⊢; injection h with h; rw [h]
  | cons c cs ih =>
    simp only [List.foldl_cons] at h ⊢
    by_cases h1 : (c.isEmpty || c == [dot]) = true
    · have hi : istep (some s) c = some s := by simp [istep, h1]
      have hr : rstep (base ++ s) c = base ++ s := by simp [rstep, h1]
      rw [hi] at h; rw [hr]; exact ih s h
    · by_cases h2 : (c == [dot, dot]) = true
      · by_cases h3 : s.isEmpty = true
        · have hi : istep (some s) c = none := by simp [istep, h1, h2, h3]
          rw [hi, foldl_istep_none] at h; cases h
        · have hi : istep (some s) c = some s.dropLast := by simp [istep, h1, h2, h3]
          have hne : s ≠ [] := by intro e; rw [e] at h3; exact h3 rfl
          have hr : rstep (base ++ s) c = base ++ s.dropLast := by simp [rstep, h1, h2, List.dropLast_append_of_ne_nil hne]
          rw [hi] at h; rw [hr]; exact ih s.dropLast h
      · have hi : istep (some s) c = some (s ++ [c]) := by simp [istep, h1, h2]
        have hr : rstep (base ++ s) c = base ++ (s ++ [c]) := by simp [rstep, h1, h2, List.append_assoc]
        rw [hi] at h; rw [hr]; exact ih (s ++ [c]) h

/-- if the whole walk is accepted, so is every prefix of it (a refusal is final) -/
theorem foldl_istep_prefix_some (cs₁ cs₂ : List Bytes) (s q : List Bytes) (h : (cs₁ ++ cs₂).foldl istep (some s) = some q) :
    ∃ q₁, cs₁.foldl istep (some s) = some q₁ := by
  rw [List.foldl_append] at h
  cases h1 : cs₁.foldl istep (some s) with
  | none => rw [h1, foldl_istep_none] at h; cases h
  | some q₁ => exact ⟨q₁, rfl⟩

theorem pjoin_rel (target rest : Bytes) (ht : target ≠ []) (hl : target.getLast? ≠ some slash) (hr : hasRoot rest = false) :
    pjoin target rest = target ++ slash :: rest := by
  unfold pjoin
  have he : target.isEmpty = false := by cases target <;> simp_all
  have hl' : (target.getLast? == some slash) = false := by simpa using hl
  simp [hr, he, hl']

/-- C19 `confined`: whatever `resolve_inside` accepts resolves (by the kernel's lexical rules) to the root followed by the
    returned names — inside the root, **for every client-supplied remainder**, `..` included -/
theorem resolveInside_sound (target rest : Bytes) (q : List Bytes)
    (ht : target ≠ []) (hl : target.getLast? ≠ some slash) (hr : hasRoot rest = false)
    (h : resolveInside rest = some q) :
    resolve (pjoin target rest) = resolve target ++ q := by
  rw [pjoin_rel target rest ht hl hr, resolve_eq, resolve_eq, splitSlash_append, List.foldl_append]
  have := foldl_istep_sound (splitSlash rest) [] q ((splitSlash target).foldl rstep []) h
  simpa using this

/-- … and so does every intermediate step of the walk: with `create_dirs` no directory is ever created outside the root -/
theorem resolveInside_steps_inside (target rest : Bytes) (q : List Bytes) (h : resolveInside rest = some q)
    (cs₁ cs₂ : List Bytes) (hs : splitSlash rest = cs₁ ++ cs₂) :
    resolve target <+: cs₁.foldl rstep (resolve target) := by
  unfold resolveInside at h
  rw [hs] at h
  obtain ⟨q₁, h1⟩ := foldl_istep_prefix_some cs₁ cs₂ [] q h
  have := foldl_istep_sound cs₁ [] q₁ (resolve target) h1
  rw [List.append_nil] at this
  rw [this]
  exact List.prefix_append _ _

/-- a refusal is never gratuitous: there is a prefix of the walk after which the kernel's resolution has left the root
    (root not `/` itself) -/
theorem foldl_istep_refuses_only_escapes (cs : List Bytes) (s base : List Bytes) (hb : base ≠ [])
    (h : cs.foldl istep (some s) = none) :
    ∃ cs₁ cs₂, cs = cs₁ ++ cs₂ ∧ ¬ (base <+: cs₁.foldl rstep (base ++ s)) := by
  induction cs generalizing s with
  | nil => simp at h
  | cons c cs ih =>
    simp only [List.foldl_cons] at h
    by_cases h1 : (c.isEmpty || c == [dot]) = true
    · have hi : istep (some s) c = some s := by simp [istep, h1]
      rw [hi] at h
      obtain ⟨a, b, e, hn⟩ := ih s h
      refine ⟨c :: a, b, by rw [e]; rfl, ?_⟩
      simpa [List.foldl_cons, rstep, h1] using hn
    · by_cases h2 : (c == [dot, dot]) = true
      · by_cases h3 : s.isEmpty = true
        · -- the escape happens here
          have hs : s = [] := by simpa using h3
          refine ⟨[c], cs, rfl, ?_⟩
          simp only [List.foldl_cons, List.foldl_nil, rstep, h1, h2, if_true, hs, List.append_nil]
          intro hp
          have hl := hp.length_le
          simp [List.length_dropLast] at hl
          have : base.length ≠ 0 := by intro e; exact hb (List.eq_nil_of_length_eq_zero e)
          omega
        · have hi : istep (some s) c = some s.dropLast := by simp [istep, h1, h2, h3]
          rw [hi] at h
          obtain ⟨a, b, e, hn⟩ := ih s.dropLast h
          have hne : s ≠ [] := by intro e'; rw [e'] at h3; exact h3 rfl
          refine ⟨c :: a, b, by rw [e]; rfl, ?_⟩
          simpa [List.foldl_cons, rstep, h1, h2, List.dropLast_append_of_ne_nil hne] using hn
      · have hi : istep (some s) c = some (s ++ [c]) := by simp [istep, h1, h2]
        rw [hi] at h
        obtain ⟨a, b, e, hn⟩ := ih (s ++ [c]) h
        refine ⟨c :: a, b, by rw [e]; rfl, ?_⟩
        simpa [List.foldl_cons, rstep, h1, h2, List.append_assoc] using hn

/-! ### toolchain ids (`dist/cache.rs` `valid_archive_id` + `make_lru_key_path`, fix 718dc21) -/

def isHexByte (b : UInt8) : Bool := (48 ≤ b && b ≤ 57) || (97 ≤ b && b ≤ 102) || (65 ≤ b && b ≤ 70)

/-- `valid_archive_id`: at least two bytes, all ASCII hex digits -/
def validId (id : Bytes) : Bool := 2 ≤ id.length && id.all isHexByte

/-- `make_lru_key_path(id)` below the cache root, as text: `root/<id[0]>/<id[1]>/<id>` -/
def keyPath (root id : Bytes) : Bytes := root ++ [slash] ++ id.take 1 ++ [slash] ++ (id.drop 1).take 1 ++ [slash] ++ id

theorem splitSlash_noslash (s : Bytes) (h : ∀ b ∈ s, b ≠ slash) : splitSlash s = [s] := by
  induction s with
  | nil => rfl
  | cons x xs ih =>
    rw [splitSlash_cons]
    have hx : (x == slash) = false := by simpa using h x (by simp)
    simp only [hx]
    rw [ih (fun b hb => h b (by simp [hb]))]
    simp

theorem hex_ne (b : UInt8) (h : isHexByte b = true) : b ≠ slash ∧ b ≠ dot := by
  unfold isHexByte at h
  constructor <;> (intro e; subst e; revert h; decide)

theorem rstep_normal (st : List Bytes) (c : Bytes) (hne : c ≠ []) (hd : c ≠ [dot]) (hdd : c ≠ [dot, dot]) : rstep st c = st ++ [c] := by
  unfold rstep
  have h1 : c.isEmpty = false := by cases c <;> simp_all
  have h2 : (c == [dot]) = false := by simpa using hd
  have h3 : (c == [dot, dot]) = false := by simpa using hdd
  simp [h1, h2, h3]

/-- `toolchain_path_confined`: for every id `valid_archive_id` accepts, the path the toolchain cache uses resolves to exactly three
    names below the cache root — no id can name a file outside it, and the slicing cannot fail -/
theorem keyPath_confined (root id : Bytes) (hv : validId id = true) :
    resolve (keyPath root id) = resolve root ++ [id.take 1, (id.drop 1).take 1, id] := by
  unfold validId at hv
  simp only [Bool.and_eq_true, decide_eq_true_eq] at hv
  obtain ⟨hlen, hall⟩ := hv
  have hhex : ∀ b ∈ id, isHexByte b = true := List.all_eq_true.mp hall
  have hns : ∀ (s : Bytes), (∀ b ∈ s, b ∈ id) → ∀ b ∈ s, b ≠ slash := fun s hs b hb => (hex_ne b (hhex b (hs b hb))).1
  -- the three components
  have h1 : ∀ b ∈ id.take 1, b ∈ id := fun b hb => List.mem_of_mem_take hb
  have h2 : ∀ b ∈ (id.drop 1).take 1, b ∈ id := fun b hb => List.mem_of_mem_drop (List.mem_of_mem_take hb)
  have norm : ∀ (c : Bytes), c ≠ [] → (∀ b ∈ c, b ∈ id) → c ≠ [] ∧ c ≠ [dot] ∧ c ≠ [dot, dot] := by
    intro c hne hc
    refine ⟨hne, ?_, ?_⟩
    · intro e; have := (hex_ne dot (hhex dot (hc dot (by rw [e]; simp)))).2; exact this rfl
    · intro e; have := (hex_ne dot (hhex dot (hc dot (by rw [e]; simp)))).2; exact this rfl
  have t1 : id.take 1 ≠ [] := by cases id with
    | nil => simp at hlen
    | cons _ _ => simp
  have t2 : (id.drop 1).take 1 ≠ [] := by
    cases id with
    | nil => simp at hlen
    | cons a r => cases r with
      | nil => simp at hlen
      | cons _ _ => simp
  have t3 : id ≠ [] := by intro e; rw [e] at hlen; simp at hlen
  obtain ⟨a1, a2, a3⟩ := norm _ t1 h1
  obtain ⟨b1, b2, b3⟩ := norm _ t2 h2
  obtain ⟨c1, c2, c3⟩ := norm _ t3 (fun b hb => hb)
  unfold keyPath
  rw [resolve_eq, resolve_eq]
  have e : root ++ [slash] ++ id.take 1 ++ [slash] ++ (id.drop 1).take 1 ++ [slash] ++ id
      = root ++ slash :: (id.take 1 ++ slash :: ((id.drop 1).take 1 ++ slash :: id)) := by simp
  rw [e, splitSlash_append, splitSlash_append, splitSlash_append,
      splitSlash_noslash _ (hns _ h1), splitSlash_noslash _ (hns _ h2), splitSlash_noslash _ (hns _ (fun b hb => hb))]
  simp only [List.foldl_append, List.foldl_cons, List.foldl_nil]
  rw [rstep_normal _ _ a1 a2 a3, rstep_normal _ _ b1 b2 b3, rstep_normal _ _ c1 c2 c3]
  simp

/-- the name of the directory below the builder directory that holds the unpacked toolchains: `"toolchains"` -/
def tcDirName : Bytes := [116, 111, 111, 108, 99, 104, 97, 105, 110, 115]

/-- `OverlayBuilder::prepare_overlay_dirs` after fix aa1c43e: `<builder>/toolchains/<id>` is created only after the toolchain cache
    has returned the archive of `id` — which it does only for ids `valid_archive_id` accepts (`TcCache::get`) -/
def overlayDir (builder id : Bytes) (inCache : Bool) : Option Bytes :=
  if validId id && inCache then some (builder ++ [slash] ++ tcDirName ++ [slash] ++ id) else none

/-- … before the fix the directory was created first, from whatever identifier the client sent (`Path::join` twice) -/
def overlayDirBefore (builder id : Bytes) : Bytes := pjoin (pjoin builder tcDirName) id

/-- C19 `overlay_dir_confined`: whatever identifier a client supplies, a directory the overlay builder creates for it is exactly
    `<builder>/toolchains/<id>` — two names below the builder directory -/
theorem overlayDir_confined (builder id : Bytes) (c : Bool) (p : Bytes) (h : overlayDir builder id c = some p) :
    resolve p = resolve builder ++ [tcDirName, id] := by
  unfold overlayDir at h
  split at h
  · rename_i hv
    simp only [Bool.and_eq_true] at hv
    have hvalid := hv.1
    cases h
    unfold validId at hvalid
    simp only [Bool.and_eq_true, decide_eq_true_eq] at hvalid
    obtain ⟨hlen, hall⟩ := hvalid
    have hhex : ∀ b ∈ id, isHexByte b = true := List.all_eq_true.mp hall
    have hns : ∀ b ∈ id, b ≠ slash := fun b hb => (hex_ne b (hhex b hb)).1
    have t3 : id ≠ [] := by intro e; rw [e] at hlen; simp at hlen
    have c2 : id ≠ [dot] := by
      intro e; have := (hex_ne dot (hhex dot (by rw [e]; simp))).2; exact this rfl
    have c3 : id ≠ [dot, dot] := by
      intro e; have := (hex_ne dot (hhex dot (by rw [e]; simp))).2; exact this rfl
    have hT : ∀ b ∈ tcDirName, b ≠ slash := by decide
    rw [resolve_eq, resolve_eq]
    have e : builder ++ [slash] ++ tcDirName ++ [slash] ++ id = builder ++ slash :: (tcDirName ++ slash :: id) := by simp
    rw [e, splitSlash_append, splitSlash_append, splitSlash_noslash _ hT, splitSlash_noslash _ hns]
    simp only [List.foldl_append, List.foldl_cons, List.foldl_nil]
    rw [rstep_normal _ tcDirName (by decide) (by decide) (by decide), rstep_normal _ id t3 c2 c3]
    simp
  · cases h

/-- identifiers that are not digests get no directory at all -/
theorem overlayDir_refuses_bad_ids (builder : Bytes) (c : Bool) :
    overlayDir builder [46, 46, 47, 46, 46, 47, 120] c = none ∧ overlayDir builder [47, 116, 109, 112, 47, 120] c = none ∧
    overlayDir builder [] c = none := by
  refine ⟨?_, ?_, ?_⟩ <;> simp [overlayDir, validId, isHexByte]

/-- F-C19-c (fixed aa1c43e), kernel-checked: before the fix the ids `../../x` and `/tmp/x` named directories outside `/b/d` -/
theorem overlayDirBefore_escape_witness :
    confined [47, 98, 47, 100] (overlayDirBefore [47, 98, 47, 100] [46, 46, 47, 46, 46, 47, 120]) = false ∧
    confined [47, 98, 47, 100] (overlayDirBefore [47, 98, 47, 100] [47, 116, 109, 112, 47, 120]) = false := by decide

/-- the stripped remainder of a rooted suffix never has a root again -/
theorem trimLeftFuel_noRoot (fuel : Nat) (s : Bytes) (h : s.length < fuel) : hasRoot (trimLeftFuel fuel s) = false := by
  induction fuel generalizing s with
  | zero => omega
  | succ n ih =>
    cases s with
    | nil => simp [trimLeftFuel, hasRoot]
    | cons c rest =>
      have hlen : rest.length < n := by simp at h; omega
      by_cases hc : (c == slash) = true
      · simp only [trimLeftFuel, hc, if_true]
        exact ih rest hlen
      · have hnr : hasRoot (c :: rest) = false := by simpa [hasRoot] using hc
        by_cases hd : (c == dot) = true
        · cases rest with
          | nil => simp [trimLeftFuel, hc, hd, hasRoot]
          | cons d r =>
            by_cases hs : (d == slash) = true
            · simp only [trimLeftFuel, hc, hd, hs, if_true]
              exact ih (d :: r) hlen
            · simp only [trimLeftFuel, hc, hd, hs]
              exact hnr
        · simp only [trimLeftFuel, hc, hd]
          exact hnr

/-- non-vacuity: an ordinary job root and output path meet the hypotheses -/
example : confined [47, 115, 114, 118] (pjoin [47, 115, 114, 118] [119, 47, 46, 47, 111, 46, 111]) = true :=
  confined_partial _ _ (by decide) (by decide) (by decide) (by decide)

#print axioms confined_partial

end PathsM
