namespace StatsM

/-! Sketch + proofs (design round): server statistics as a fold of counter increments (C14).
    `incsOf` is the table the translator regenerates from `check_compiler` / `start_compile_task`. -/

inductive Counter where
  | compileRequests | unsupported | notCompile | notCacheable | executed
  | cacheErrors | cacheHits | cacheMisses | cacheTimeouts | nonCacheableCompilations | forcedRecaches
  | cacheWriteErrors | cacheWrites | compilations | compileFails
deriving Repr, DecidableEq

inductive MissType where | normal | forcedNoCache | forcedRecache | timedOut | cacheReadError
deriving Repr, DecidableEq

/-- what happened to one executed request (the `CompileResult` / error arm) -/
inductive Outcome where
  | errorPP                       -- `CompileResult::Error` (preprocessor failed)
  | hit
  | miss (t : MissType) (storeOk : Bool)
  | notCached
  | notCacheable
  | compileFailed
  | errProcess                    -- `Err(ProcessError)`
  | errHttp                       -- `Err(HttpClientError)`
  | errFatal                      -- any other `Err`
deriving Repr, DecidableEq

/-- the four dispositions of `check_compiler` -/
inductive Disp where
  | unsupported | notCacheable | notCompile | executed (o : Outcome)
deriving Repr, DecidableEq

end StatsM
