namespace L0

/-! Sketch + proofs (design round): L0 — the abstract cache and the properties stated on it
    (C01 transparency, C03 repeat hits, C09 fault tolerance, C15 read-only). -/

/-- what the compiler produces for a request; `ok = false` is a failed compile -/
structure Result where
  ok : Bool
  artefacts : Nat      -- identifies exit status, stdout, stderr and every output file's bytes and mode
deriving Repr, DecidableEq

/-- assumption A1 packaged: the direct compiler's result is a function of the fingerprint, i.e. of the
    components that C02 shows the key to determine (and to be determined by) -/
abbrev CC := Nat → Result

abbrev Cache := Nat → Option Result

inductive Ev where
  | request (fp : Nat) (lookupFault storeFault : Bool)   -- faults: lookup error / time-out / undecodable entry; failing or refused store
  | evict (fp : Nat)
  | corrupt (fp : Nat)      -- the entry is damaged on disk: it can no longer be decoded (C08) and acts as a miss
  | restart                 -- server stops and starts again: the disk cache persists
deriving Repr, DecidableEq

structure Obs where
  reply : Result
  ranCompiler : Bool
deriving Repr, DecidableEq

def upd (c : Cache) (k : Nat) (v : Option Result) : Cache := fun x => if x = k then v else c x

def estep (cc : CC) (c : Cache) : Ev → Cache × Option Obs
  | .request fp lf sf =>
    match (if lf then none else c fp) with
    | some r => (c, some ⟨r, false⟩)
    | none =>
      let r := cc fp
      (if r.ok && !sf then upd c fp (some r) else c, some ⟨r, true⟩)
  | .evict fp => (upd c fp none, none)
  | .corrupt fp => (upd c fp none, none)
  | .restart => (c, none)

def erun (cc : CC) (c : Cache) : List Ev → Cache
  | [] => c
  | e :: es => erun cc (estep cc c e).1 es

def Sound (cc : CC) (c : Cache) : Prop := ∀ k r, c k = some r → r = cc k ∧ r.ok = true

theorem sound_step (cc : CC) (c : Cache) (h : Sound cc c) (e : Ev) : Sound cc (estep cc c e).1 := by
  cases e with
  | request fp lf sf =>
    simp only [estep]
    split
    · exact h
    · simp only
      split
      · rename_i hc
        intro k r hk
        simp only [upd] at hk
        split at hk
        · rename_i e; cases hk; subst e
          simp only [Bool.and_eq_true] at hc
          exact ⟨rfl, hc.1⟩
        · exact h k r hk
      · exact h
  | evict fp =>
    intro k r hk
    simp only [estep, upd] at hk
    split at hk
    · cases hk
    · exact h k r hk
  | corrupt fp =>
    intro k r hk
    simp only [estep, upd] at hk
    split at hk
    · cases hk
    · exact h k r hk
  | restart => exact h

theorem sound_run (cc : CC) (es : List Ev) : ∀ c, Sound cc c → Sound cc (erun cc c es) := by
  induction es with
  | nil => intro c h; exact h
  | cons e es ih => intro c h; exact ih _ (sound_step cc c h e)

/-- C01 `transparent` / C09: after any history of requests, faults, evictions, corruptions and restarts,
    the reply to a request is the direct compiler's result for that request -/
theorem transparent (cc : CC) (hist : List Ev) (fp : Nat) (lf sf : Bool) (o : Obs)
    (h : (estep cc (erun cc (fun _ => none) hist) (.request fp lf sf)).2 = some o) : o.reply = cc fp := by
  have hs := sound_run cc hist (fun _ => none) (by intro k r hk; cases hk)
  simp only [estep] at h
  split at h
  · rename_i r hr
    cases h
    by_cases hlf : lf = true
    · simp [hlf] at hr
    · simp only [hlf] at hr
      exact (hs fp r hr).1
  · cases h; rfl

/-- C09: a failed compile is never stored -/
theorem failed_never_cached (cc : CC) (hist : List Ev) (k : Nat) (r : Result)
    (h : erun cc (fun _ => none) hist k = some r) : r.ok = true :=
  (sound_run cc hist (fun _ => none) (by intro k r hk; cases hk) k r h).2

/-- events that leave the entry of `fp` alone -/
def Keeps (fp : Nat) : Ev → Prop
  | .evict k => k ≠ fp
  | .corrupt k => k ≠ fp
  | _ => True

theorem keeps_run (cc : CC) (fp : Nat) (es : List Ev) (hk : ∀ e ∈ es, Keeps fp e) :
    ∀ c, Sound cc c → c fp = some (cc fp) → erun cc c es fp = some (cc fp) := by
  induction es with
  | nil => intro c _ h; exact h
  | cons e es ih =>
    intro c hs h
    apply ih (fun x hx => hk x (by simp [hx])) _ (sound_step cc c hs e)
    have hke := hk e (by simp)
    cases e with
    | request fp' lf sf =>
      simp only [estep]
      split
      · exact h
      · simp only
        split
        · simp only [upd]
          split
          · rename_i e; subst e; rfl
          · exact h
        · exact h
    | evict k => simp only [estep, upd]; simp only [Keeps] at hke; simp [Ne.symm hke, h]
    | corrupt k => simp only [estep, upd]; simp only [Keeps] at hke; simp [Ne.symm hke, h]
    | restart => exact h

/-- C03 `repeat_hits`: once a successful compile of `fp` has been stored, then after any sequence of other
    requests (with or without faults), evictions and corruptions of *other* entries, and restarts, the same
    request is answered from the cache without running the compiler -/
theorem repeat_hits (cc : CC) (before after : List Ev) (fp : Nat) (hok : (cc fp).ok = true)
    (hkeep : ∀ e ∈ after, Keeps fp e) (sf : Bool) :
    let c := erun cc (fun _ => none) (before ++ [.request fp false false] ++ after)
    (estep cc c (.request fp false sf)).2 = some ⟨cc fp, false⟩ := by
  have hs0 := sound_run cc before (fun _ => none) (by intro k r hk; cases hk)
  have erun_append : ∀ (a b : List Ev) (c : Cache), erun cc c (a ++ b) = erun cc (erun cc c a) b := by
    intro a
    induction a with
    | nil => intro b c; rfl
    | cons x xs ih => intro b c; simp only [List.cons_append, erun]; exact ih b _
  simp only [erun_append, erun]
  -- after the storing request the entry is there
  have hstored : (estep cc (erun cc (fun _ => none) before) (.request fp false false)).1 fp = some (cc fp) := by
    cases hc : erun cc (fun _ => none) before fp with
    | some r =>
      have := (hs0 fp r hc).1
      simp only [estep, Bool.false_eq_true, if_false, hc]
      rw [this]
    | none =>
      simp only [estep, Bool.false_eq_true, if_false, hc, hok, Bool.not_false, Bool.and_self, if_true, upd]
  have hs1 := sound_step cc _ hs0 (.request fp false false)
  have hfin := keeps_run cc fp after hkeep _ hs1 hstored
  generalize erun cc (estep cc (erun cc (fun _ => none) before) (.request fp false false)).1 after = cfin at hfin
  simp only [estep, Bool.false_eq_true, if_false, hfin]

/-- C15: with every store refused (read-only cache) no history changes the cache -/
theorem readonly_unchanged (cc : CC) (c : Cache) (es : List Ev)
    (hro : ∀ e ∈ es, match e with | .request _ _ sf => sf = true | .restart => True | _ => False) :
    erun cc c es = c := by
  induction es generalizing c with
  | nil => rfl
  | cons e es ih =>
    have he := hro e (by simp)
    simp only [erun]
    have : (estep cc c e).1 = c := by
      cases e with
      | request fp lf sf =>
        simp only at he
        subst he
        simp only [estep]
        split <;> simp
      | restart => rfl
      | evict k => cases he
      | corrupt k => cases he
    rw [this]
    exact ih c (fun x hx => hro x (by simp [hx]))
#print axioms transparent
#print axioms repeat_hits

end L0
