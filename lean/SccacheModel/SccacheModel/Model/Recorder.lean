namespace RecM

/-! The include recorder of preprocessor-cache mode (C04, second tier): a transcription of
    `process_preprocessed_file`, `process_preprocessor_line` and `remember_include_file` (`src/compiler/c.rs`), at the
    level of *which files get recorded and whether direct mode stays enabled* (the text digest it also computes is
    dropped by the caller and is not modelled).  Bytes of the preprocessor output in, verdict + recorded paths out.
    The file system is a parameter.  Loops take fuel = remaining length. -/

abbrev Bytes := List UInt8

def bQuote : UInt8 := 34
def bNl : UInt8 := 10
def bHash : UInt8 := 35
def bSp : UInt8 := 32
def bSlash : UInt8 := 47
def bDot : UInt8 := 46
def b3 : UInt8 := 51

def sb (s : List Nat) : Bytes := s.map UInt8.ofNat

/-- "pragma GCC pch_preprocess" -/
def pragmaPch : Bytes := sb [112, 114, 97, 103, 109, 97, 32, 71, 67, 67, 32, 112, 99, 104, 95, 112, 114, 101, 112, 114, 111, 99, 101, 115, 115]
/-- "# 31 \"<command-line>\"\n" -/
def hash31 : Bytes := sb [35, 32, 51, 49, 32, 34, 60, 99, 111, 109, 109, 97, 110, 100, 45, 108, 105, 110, 101, 62, 34, 10]
/-- "# 32 \"<command-line>\" 2\n" -/
def hash32 : Bytes := sb [35, 32, 51, 50, 32, 34, 60, 99, 111, 109, 109, 97, 110, 100, 45, 108, 105, 110, 101, 62, 34, 32, 50, 10]
/-- ".incbin" -/
def incbin : Bytes := sb [46, 105, 110, 99, 98, 105, 110]
/-- eleven underscores (distcc-pump banner) -/
def underscores : Bytes := List.replicate 11 95

inductive FileKind where
  | missing | dir | other
  | file (tooNew openFails hasTime : Bool)
deriving Repr, DecidableEq

structure Cfg where
  skipSystemHeaders : Bool
  ignoreTimeMacros : Bool
deriving Repr, DecidableEq

/-! ### paths: Rust `Path::components`, `normalize_path`, `cwd.join`, `PathBuf` equality (= equality of components) -/

def splitSlash (s : Bytes) : List Bytes :=
  s.foldr (fun b acc => if b == bSlash then [] :: acc else match acc with | [] => [[b]] | x :: xs => (b :: x) :: xs) [[]]

def isAbs (p : Bytes) : Bool := p.head? == some bSlash
def dotdot : Bytes := [bDot, bDot]

/-- `Path::components` without the root: empty pieces and `.` are dropped, except a leading `.` of a relative path (`CurDir`) -/
def rustComps (p : Bytes) : List Bytes :=
  let cs := (splitSlash p).filter (fun c => !c.isEmpty)
  match isAbs p, cs with
  | false, c :: rest => if c == [bDot] then c :: rest.filter (· != [bDot]) else c :: rest.filter (· != [bDot])
  | _, cs => cs.filter (· != [bDot])

/-- one step of `normalize_path` **after the fix of F-C04-c**: a `..` with nothing to cancel is kept in a relative path -/
def normStep (abs : Bool) (st : List Bytes) (c : Bytes) : List Bytes :=
  if c == [bDot] then st
  else if c == dotdot then
    if st.getLast? == some dotdot then st ++ [c]
    else if st.isEmpty then (if abs then st else st ++ [c])
    else st.dropLast
  else st ++ [c]

/-- the pinned step: `ret.pop()` on an empty path is a no-op, so a leading `..` vanished (F-C04-c) -/
def normStepPinned (_abs : Bool) (st : List Bytes) (c : Bytes) : List Bytes :=
  if c == [bDot] then st else if c == dotdot then st.dropLast else st ++ [c]

def normCompsWith (step : Bool → List Bytes → Bytes → List Bytes) (p : Bytes) : List Bytes :=
  (rustComps p).foldl (step (isAbs p)) []
def normComps (p : Bytes) : List Bytes := normCompsWith normStep p

/-- canonical text of a path given as (absolute?, components) -/
def render (abs : Bool) (cs : List Bytes) : Bytes :=
  (if abs then [bSlash] else []) ++ (match cs with | [] => [] | c :: rest => rest.foldl (fun acc x => acc ++ [bSlash] ++ x) c)

/-- the include path as it reaches `remember_include_file`: `normalized == path_buf` (components) keeps the raw spelling,
    otherwise the normalised path is re-encoded -/
def normalizedTextWith (step : Bool → List Bytes → Bytes → List Bytes) (raw : Bytes) : Bytes :=
  let n := normCompsWith step raw
  if rustComps raw == n then raw else render (isAbs raw) n
def normalizedText (raw : Bytes) : Bytes := normalizedTextWith normStep raw

/-- "Canonicalize path for comparison; Clang uses ./header.h" -/
def stripDot (path : Bytes) : Bytes := if path.take 2 == [bDot, bSlash] then path.drop 2 else path

/-- the `PathBuf` that `remember_include_file` keys on, as its list of components below the root: `cwd.join(path)` for a
    relative path (a `.` is no longer leading there, so it is dropped); `..` components are *not* resolved here -/
def keyComps (cwd path : Bytes) : List Bytes :=
  if isAbs path then rustComps path else rustComps cwd ++ (rustComps path).filter (· != [bDot])

def fullPath (cwd path : Bytes) : Bytes := render true (keyComps cwd path)

/-! ### the file system: a finite world of directories and files without directory symlinks; `stat` resolves `..` physically -/

def kindOf (world : List (List Bytes × FileKind)) (cs : List Bytes) : FileKind :=
  match world.find? (fun e => e.1 == cs) with
  | some e => e.2
  | none => .missing

/-- `cur`: an existing directory (components below `/`); remaining components to walk -/
def resolve (world : List (List Bytes × FileKind)) : List Bytes → List Bytes → FileKind
  | _, [] => .dir
  | cur, c :: rest =>
    if c == dotdot then resolve world cur.dropLast rest
    else match kindOf world (cur ++ [c]) with
      | .dir => resolve world (cur ++ [c]) rest
      | k => if rest.isEmpty then k else .missing      -- ENOTDIR / ENOENT below something that is no directory

inductive Remember where
  | ok (record : Option Bytes)   -- keep going; `some p`: p is recorded
  | disable                      -- "too new", unreadable, `__TIME__`, …: direct mode is switched off for this compile
deriving Repr, DecidableEq

/-- `remember_include_file` -/
def remember (cfg : Cfg) (fs : Bytes → FileKind) (cwd input : Bytes) (known : List Bytes) (path : Bytes) (system : Bool) : Remember :=
  if path.length ≥ 2 && path.head? == some 60 && path.getLast? == some 62 then .ok none          -- <built-in>, <command-line>
  else if system && cfg.skipSystemHeaders then .ok none
  else
    let full := fullPath cwd (stripDot path)
    if known.contains full then .ok none
    else if full == fullPath cwd input then .ok none
    else match fs full with
      | .missing => .disable
      | .dir => .ok none
      | .other => .disable
      | .file tooNew openFails hasTime =>
        -- `<cwd>/a.h/`: the trailing slash survives `cwd.join`, and stat of a regular file through it fails (ENOTDIR)
        if (stripDot path).getLast? == some bSlash then .disable
        else if tooNew then .disable
        else if openFails then .disable
        else if hasTime && !cfg.ignoreTimeMacros then .disable
        else .ok (some full)

/-! ### the scanner -/

def startsAt (bytes : Bytes) (i : Nat) (pat : Bytes) : Bool := pat.isPrefixOf (bytes.drop i)
def at' (bytes : Bytes) (i : Nat) : UInt8 := bytes.getD i 0

/-- advance `start` while `start < total ∧ bytes[start] ∉ stop` -/
def skipUntil (bytes : Bytes) (stop : List UInt8) : Nat → Nat → Nat
  | 0, start => start
  | fuel + 1, start => if start < bytes.length && !(stop.contains (at' bytes start)) then skipUntil bytes stop fuel (start + 1) else start

/-- any `3` between `from` and the end of the line -/
def flag3 (bytes : Bytes) : Nat → Nat → Bool
  | 0, _ => false
  | fuel + 1, p => if p < bytes.length && at' bytes p != bNl then (at' bytes p == b3) || flag3 bytes fuel (p + 1) else false

inductive LineRes where
  | cont (start hashStart : Nat) (bytes : Bytes) (known : List Bytes)            -- ControlFlow::Continue
  | brk (start hashStart : Nat) (keep : Bool) (bytes : Bytes) (known : List Bytes) -- ControlFlow::Break
  | err
deriving Repr

/-- `process_preprocessor_line` -/
def processLine (cfg : Cfg) (fs : Bytes → FileKind) (cwd input : Bytes) (bytes : Bytes) (known : List Bytes) (start0 hashStart0 : Nat) : LineRes :=
  let total := bytes.length
  -- GCC 6 workarounds
  let is3 := (bytes.drop start0)[2]? == some b3
  if is3 && startsAt bytes start0 hash31 then
    -- `while start < hash_start && slice[0] != '\n' { start += 1 }` : slice is not re-sliced, so this only catches up to hash_start
    let s1 := if start0 < hashStart0 then hashStart0 else start0
    .brk (s1 + 1) (s1 + 1) true bytes known
  else
    let (bytes, start1, hashStart1) :=
      if is3 && startsAt bytes start0 hash32 then
        let s := start0 + 1
        (((bytes.set s bHash).set (s + 1) bSp).set (s + 2) 49, s, s)
      else (bytes, start0, hashStart0)
    let start2 := skipUntil bytes [bQuote, bNl] (total + 1) start1
    if start2 < total && at' bytes start2 == bNl then .brk start2 hashStart1 true bytes known
    else
      let start3 := start2 + 1
      if start3 ≥ total then .err
      else
        let hashStart2 := start3
        let start4 := skipUntil bytes [bQuote] (total + 1) start3
        if start4 == hashStart2 then .brk start4 hashStart2 true bytes known
        else
          let system := flag3 bytes (total + 1) (start4 + 1)
          let raw := (bytes.drop hashStart2).take (start4 - hashStart2)
          match remember cfg fs cwd input known (normalizedText raw) system with
          | .disable => .brk start4 hashStart2 false bytes known
          | .ok none => .cont start4 start4 bytes known
          | .ok (some p) => .cont start4 start4 bytes (known ++ [p])

inductive Res where
  | err
  | panic      -- index out of bounds in the real code (the distcc-pump banner as unterminated last line)
  | ok (keep : Bool) (recorded : List Bytes)
deriving Repr, DecidableEq

def isDigit (b : UInt8) : Bool := 48 ≤ b && b ≤ 57

/-- is this position a line-marker line as the scanner sees it? (`&slice[1..5] == b"line "` compares 4 bytes with 5: never true) -/
def isMarker (bytes : Bytes) (start : Nat) : Bool :=
  at' bytes start == bHash
    && ((at' bytes (start + 1) == bSp && isDigit (at' bytes (start + 2))) || startsAt bytes (start + 1) pragmaPch)
    && (start == 0 || at' bytes (start - 1) == bNl)

def isIncbin (bytes : Bytes) (start : Nat) : Bool :=
  startsAt bytes start incbin &&
    (let r := bytes.drop (start + 7)
     [bQuote].isPrefixOf r || [bSp, bQuote].isPrefixOf r || [bSp, 92, bQuote].isPrefixOf r)

/-- `process_preprocessed_file`: main loop with fuel -/
def scan (cfg : Cfg) (fs : Bytes → FileKind) (cwd input : Bytes) : Nat → Bytes → List Bytes → Nat → Nat → Res
  | 0, _, known, _, _ => .ok true known
  | fuel + 1, bytes, known, start, hashStart =>
    let total := bytes.length
    if !(start < total - 7) then .ok true known
    else if isMarker bytes start then
      match processLine cfg fs cwd input bytes known start hashStart with
      | .err => .err
      | .cont s h b k => scan cfg fs cwd input fuel b k s h
      | .brk s h keep b k => if !keep then .ok false k else scan cfg fs cwd input fuel b k s h
    else if isIncbin bytes start then .ok false known
    else if startsAt bytes start underscores && (start == 0 || at' bytes (start - 1) == bNl) then
      let s1 := skipUntil bytes [bNl] (total + 1) start
      -- `slice = &bytes[start..]; if slice[0] == b'\n'` panics when the banner is the unterminated last line
      if s1 ≥ total then .panic
      else scan cfg fs cwd input fuel bytes known (s1 + 1) (s1 + 1)
    else scan cfg fs cwd input fuel bytes known (start + 1) hashStart

def processPreprocessedFile (cfg : Cfg) (fs : Bytes → FileKind) (cwd input bytes : Bytes) : Res :=
  scan cfg fs cwd input (2 * bytes.length + 2) bytes [] 0 0

/-- the world-based instance used by the correspondence driver -/
def fsOf (world : List (List Bytes × FileKind)) (full : Bytes) : FileKind := resolve world [] (rustComps full)

/-- kernel-checked witness of F-C04-c (pinned code): `../inc/a.h` lost its leading `..` … -/
theorem pinned_drops_leading_dotdot :
    normalizedTextWith normStepPinned (sb [46, 46, 47, 105, 110, 99, 47, 97, 46, 104]) = sb [105, 110, 99, 47, 97, 46, 104] := by decide
/-- … and the fixed code keeps the spelling -/
theorem fixed_keeps_leading_dotdot :
    normalizedText (sb [46, 46, 47, 105, 110, 99, 47, 97, 46, 104]) = sb [46, 46, 47, 105, 110, 99, 47, 97, 46, 104] := by decide

/-! ### properties of the recording decision (`remember`) -/

/-- a regular, old-enough, readable user header that is not yet known is **recorded** — unless it is the input file, a
    `<…>` pseudo file, holds `__TIME__` (default handling), or is a system header while system headers are skipped -/
theorem remember_records (cfg : Cfg) (fs : Bytes → FileKind) (cwd input : Bytes) (known : List Bytes) (path : Bytes) (system : Bool)
    (hpseudo : ¬ (path.length ≥ 2 ∧ path.head? = some 60 ∧ path.getLast? = some 62))
    (hsys : ¬ (system = true ∧ cfg.skipSystemHeaders = true))
    (hknown : known.contains (fullPath cwd (stripDot path)) = false)
    (hinput : fullPath cwd (stripDot path) ≠ fullPath cwd input)
    (hslash : (stripDot path).getLast? ≠ some bSlash)
    (ht : Bool) (hfs : fs (fullPath cwd (stripDot path)) = .file false false ht)
    (htime : ht = false ∨ cfg.ignoreTimeMacros = true) :
    remember cfg fs cwd input known path system = .ok (some (fullPath cwd (stripDot path))) := by
  unfold remember
  have h1 : (path.length ≥ 2 && path.head? == some 60 && path.getLast? == some 62) = false := by
    cases h : (path.length ≥ 2 && path.head? == some 60 && path.getLast? == some 62) with
    | false => rfl
    | true =>
      exfalso; apply hpseudo
      simp only [Bool.and_eq_true, decide_eq_true_eq, beq_iff_eq] at h
      exact ⟨h.1.1, h.1.2, h.2⟩
  have h2 : (system && cfg.skipSystemHeaders) = false := by
    cases hs : system <;> cases hc : cfg.skipSystemHeaders <;> simp_all
  simp only [h1, h2, Bool.false_eq_true, if_false, hknown, hfs]
  have h3 : (fullPath cwd (stripDot path) == fullPath cwd input) = false := by
    simpa using hinput
  have h4 : ((stripDot path).getLast? == some bSlash) = false := by simpa using hslash
  simp only [h3, h4, Bool.false_eq_true, if_false]
  rcases htime with h | h <;> simp [h]

/-- the system-header escape is the only way a readable, old, unknown user header goes unrecorded while direct mode
    stays on: whenever `remember` says "keep going, record nothing" for such a file, it was flagged as a system header
    with `skip_system_headers`, or is a pseudo file, already known, the input itself, or a directory -/
theorem remember_skip_reasons (cfg : Cfg) (fs : Bytes → FileKind) (cwd input : Bytes) (known : List Bytes) (path : Bytes) (system : Bool)
    (h : remember cfg fs cwd input known path system = .ok none) :
    (path.length ≥ 2 ∧ path.head? = some 60 ∧ path.getLast? = some 62) ∨ (system = true ∧ cfg.skipSystemHeaders = true) ∨
    known.contains (fullPath cwd (stripDot path)) = true ∨
    fullPath cwd (stripDot path) = fullPath cwd input ∨
    fs (fullPath cwd (stripDot path)) = .dir := by
  unfold remember at h
  split at h
  · rename_i hc
    simp only [Bool.and_eq_true, decide_eq_true_eq, beq_iff_eq] at hc
    exact Or.inl ⟨hc.1.1, hc.1.2, hc.2⟩
  · split at h
    · rename_i hc
      simp only [Bool.and_eq_true] at hc
      exact Or.inr (Or.inl hc)
    · simp only at h
      split at h
      · rename_i hk; exact Or.inr (Or.inr (Or.inl hk))
      · split at h
        · rename_i he; exact Or.inr (Or.inr (Or.inr (Or.inl (by simpa using he))))
        · split at h
          · cases h
          · rename_i hd; exact Or.inr (Or.inr (Or.inr (Or.inr hd)))
          · cases h
          · split at h
            · cases h
            · split at h
              · cases h
              · split at h
                · cases h
                · split at h <;> cases h

end RecM
