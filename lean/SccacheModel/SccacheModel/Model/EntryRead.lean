import SccacheModel.Model.Entry

namespace EntryM

/-! Sketch (design round): the reader's side of a cache entry — `zip 0.6.6` `ZipArchive::new` + `by_name` +
    `find_content` + the CRC-32 check of `Crc32Reader`, as used by `CacheRead::from` / `get_object`.
    The model **under-approximates acceptance**: where the real reader has paths that sccache's own writer never
    produces (ZIP64 records, extra fields, non-Stored methods, encryption, prepended data) the model rejects.
    On every archive produced by `archive` it must agree with the real reader exactly (that is `roundtrip`). -/

def rd16 (a b : UInt8) : Nat := a.toNat + 256 * b.toNat
def rd32 (a b c d : UInt8) : Nat := a.toNat + 256 * b.toNat + 65536 * c.toNat + 16777216 * d.toNat

/-- one parsed central-directory record (only what `get_object` uses) -/
structure CRec where
  system : Nat           -- high byte of "version made by"
  flags : Nat
  method : Nat
  crc : Nat
  csize : Nat
  ext : Nat              -- external attributes
  offset : Nat           -- of the local header
  name : Bytes
deriving Repr, DecidableEq

/-- `core::str::from_utf8` accepts exactly these byte sequences (Unicode Table 3-7) -/
def validUtf8 : Bytes → Bool
  | [] => true
  | b0 :: rest =>
    let cont (b : UInt8) : Bool := 128 ≤ b && b ≤ 191
    if b0 < 128 then validUtf8 rest
    else if 194 ≤ b0 && b0 ≤ 223 then
      match rest with
      | b1 :: r => cont b1 && validUtf8 r
      | _ => false
    else if 224 ≤ b0 && b0 ≤ 239 then
      match rest with
      | b1 :: b2 :: r =>
        (if b0 = 224 then 160 ≤ b1 && b1 ≤ 191 else if b0 = 237 then 128 ≤ b1 && b1 ≤ 159 else cont b1)
          && cont b2 && validUtf8 r
      | _ => false
    else if 240 ≤ b0 && b0 ≤ 244 then
      match rest with
      | b1 :: b2 :: b3 :: r =>
        (if b0 = 240 then 144 ≤ b1 && b1 ≤ 191 else if b0 = 244 then 128 ≤ b1 && b1 ≤ 143 else cont b1)
          && cont b2 && cont b3 && validUtf8 r
      | _ => false
    else false

/-- the reader turns the raw name into a `String`: UTF-8 (lossily) when flag bit 11 is set, code page 437
    otherwise. Both are the identity on ASCII names, and the first is the identity on valid UTF-8. In every other
    case the decoded name differs from the raw bytes; the model then rejects the archive (under-approximation). -/
def nameDecodesToItself (flags : Nat) (name : Bytes) : Bool :=
  isAscii name || (flags / 2048 % 2 == 1 && validUtf8 name)

/-- `central_header_to_zip_file`: 46 fixed bytes, then name, extra field, comment -/
def parseCentral : Bytes → Option (CRec × Bytes)
  | s0 :: s1 :: s2 :: s3 :: _vm0 :: vm1 :: _ve0 :: _ve1 :: f0 :: f1 :: m0 :: m1 :: _t0 :: _t1 :: _d0 :: _d1
      :: c0 :: c1 :: c2 :: c3 :: z0 :: z1 :: z2 :: z3 :: _u0 :: _u1 :: _u2 :: _u3 :: n0 :: n1 :: e0 :: e1
      :: k0 :: k1 :: _dn0 :: _dn1 :: _ia0 :: _ia1 :: a0 :: a1 :: a2 :: a3 :: o0 :: o1 :: o2 :: o3 :: rest =>
    if s0 = 80 ∧ s1 = 75 ∧ s2 = 1 ∧ s3 = 2 then
      let n := rd16 n0 n1
      let e := rd16 e0 e1
      let k := rd16 k0 k1
      if e ≠ 0 then none                         -- extra fields: never written by sccache; model rejects
      else if rd16 m0 m1 = 99 then none          -- method 99 = AES marker: without the AES extra field the zip crate refuses the whole archive
      else if rest.length < n + k then none      -- `read_exact` fails
      else if !nameDecodesToItself (rd16 f0 f1) (rest.take n) then none   -- name would be re-coded; model rejects
      else some ({ system := vm1.toNat, flags := rd16 f0 f1, method := rd16 m0 m1, crc := rd32 c0 c1 c2 c3,
                   csize := rd32 z0 z1 z2 z3, ext := rd32 a0 a1 a2 a3, offset := rd32 o0 o1 o2 o3,
                   name := rest.take n }, rest.drop (n + k))
    else none
  | _ => none

def parseCentrals : Nat → Bytes → Option (List CRec)
  | 0, _ => some []
  | n + 1, bs =>
    match parseCentral bs with
    | none => none
    | some (r, rest) =>
      match parseCentrals n rest with
      | none => none
      | some rs => some (r :: rs)

structure Eocd where
  disk : Nat
  cdDisk : Nat
  count : Nat
  cdSize : Nat
  cdOffset : Nat
  commentLen : Nat
deriving Repr, DecidableEq

/-- `CentralDirectoryEnd::parse` at a position whose first four bytes are the signature -/
def parseEocd : Bytes → Option Eocd
  | s0 :: s1 :: s2 :: s3 :: d0 :: d1 :: w0 :: w1 :: n0 :: n1 :: _t0 :: _t1 :: z0 :: z1 :: z2 :: z3
      :: o0 :: o1 :: o2 :: o3 :: c0 :: c1 :: rest =>
    if s0 = 80 ∧ s1 = 75 ∧ s2 = 5 ∧ s3 = 6 then
      if rest.length < rd16 c0 c1 then none
      else some { disk := rd16 d0 d1, cdDisk := rd16 w0 w1, count := rd16 n0 n1, cdSize := rd32 z0 z1 z2 z3,
                  cdOffset := rd32 o0 o1 o2 o3, commentLen := rd16 c0 c1 }
    else none
  | _ => none

def sigAt (bs : Bytes) (pos : Nat) (sig : Bytes) : Bool := (bs.drop pos).take 4 == sig

/-- `find_and_parse`: probe `pos`, `pos-1`, … (at most `fuel + 1` probes, never below 0) -/
def findEocd (bs : Bytes) : Nat → Nat → Option Nat
  | pos, fuel =>
    if sigAt bs pos [80, 75, 5, 6] then some pos
    else match pos, fuel with
      | p + 1, f + 1 => findEocd bs p f
      | _, _ => none

structure Archive where
  bytes : Bytes
  recs : List CRec
deriving Repr

/-- `ZipArchive::new` -/
def openArchive (bs : Bytes) : Option Archive :=
  if bs.length < 22 then none else
  match findEocd bs (bs.length - 22) 65535 with
  | none => none
  | some pos =>
    match parseEocd (bs.drop pos) with
    | none => none
    | some e =>
      let tooSmall := e.disk = 65535 ∨ e.cdDisk = 65535 ∨ e.count = 65535 ∨ e.cdSize = 4294967295 ∨ e.cdOffset = 4294967295
      if ¬ tooSmall ∧ e.disk ≠ e.cdDisk then none
      else if 42 + e.commentLen ≤ bs.length ∧ sigAt bs (bs.length - (42 + e.commentLen)) [80, 75, 6, 7] then none  -- ZIP64 locator: model rejects
      else if pos < e.cdSize + e.cdOffset then none
      else if pos - e.cdSize - e.cdOffset ≠ 0 then none     -- prepended data: model rejects
      else match parseCentrals e.count (bs.drop e.cdOffset) with
        | none => none
        | some rs => some { bytes := bs, recs := rs }

/-- `names_map`: a later record with the same name replaces an earlier one -/
def findRec (rs : List CRec) (name : Bytes) : Option CRec := rs.reverse.find? (·.name == name)

/-- `ZipFile::unix_mode` -/
def unixMode (r : CRec) : Option Nat :=
  if r.ext = 0 then none
  else if r.system = 3 then some (r.ext / 65536)
  else if r.system = 0 then                                  -- DOS attributes (never written by sccache)
    let dir := decide (r.ext % 32 ≥ 16)
    let ro := decide (r.ext % 2 = 1)
    some (if ro then (if dir then 365 else 292) else (if dir then 16893 else 33204))
  else none

/-- `by_name` + `find_content` + `Crc32Reader` at end of data: the stored bytes, or failure -/
def getStored (a : Archive) (name : Bytes) : Option (Bytes × Option Nat) :=
  match findRec a.recs name with
  | none => none
  | some r =>
    if r.flags % 2 = 1 then none                -- encrypted
    else if r.method ≠ 0 then none              -- only Stored is compiled in
    else
      match a.bytes.drop r.offset with
      | s0 :: s1 :: s2 :: s3 :: _ :: _ :: _ :: _ :: _ :: _ :: _ :: _ :: _ :: _ :: _ :: _ :: _ :: _ :: _ :: _ :: _ :: _
          :: _ :: _ :: _ :: _ :: n0 :: n1 :: e0 :: e1 :: rest =>
        if s0 = 80 ∧ s1 = 75 ∧ s2 = 3 ∧ s3 = 4 then
          let data := (rest.drop (rd16 n0 n1 + rd16 e0 e1)).take r.csize
          if crc32 data = r.crc then some (data, unixMode r) else none
        else none
      | _ => none

end EntryM
