namespace L1

/-! Sketch + proofs (design round): the L1 decision functions (Appendix D.1–D.3), for C01/C03/C09/C15. -/

inductive HashRes where | processError | otherError | ok
deriving Repr, DecidableEq
inductive Control where | default | forceRecache | forceNoCache
deriving Repr, DecidableEq
inductive Lookup where | hit | miss | err | timeout
deriving Repr, DecidableEq
inductive Extract where | ok | decompressionFailure | otherErr
deriving Repr, DecidableEq
/-- `failure`: the local compiler exited non-zero — `run_input_output` turns that into `Err(ProcessError o)`,
    which leaves `get_cached_or_compile` through `?` and is mapped back to the compiler's own status and output
    by `start_compile_task`; `failureDist`: a distributed compile returned a non-zero status —
    `Ok(CompileFailed, o)`. Both give the same reply; they differ only in the counters (B.6). -/
inductive Compile where | spawnErr | success | failure | failureDist
deriving Repr, DecidableEq

structure In where
  hash : HashRes
  control : Control
  lookup : Lookup
  extract : Extract
  compile : Compile
  cacheable : Bool
  pack : Bool            -- zipping the outputs succeeded
  storeOk : Bool         -- the store future succeeded (read-only / full / broken cache ⇒ false)
deriving Repr, DecidableEq

inductive Reply where
  | preprocessorFailed       -- the compiler's own (preprocessor) status and stderr
  | cachedResult             -- status 0, stored stdout/stderr, outputs restored from the entry
  | compilerResult (ok : Bool) -- the local/distributed compiler's own status, stdout, stderr, outputs
  | fatal                    -- retcode −2 "sccache: encountered fatal error"
deriving Repr, DecidableEq

structure Out where
  reply : Reply
  ranCompiler : Bool
  storeIssued : Bool
deriving Repr, DecidableEq

def needCompile (i : In) : Bool :=
  match i.control with
  | .forceNoCache | .forceRecache => true
  | .default =>
    match i.lookup with
    | .hit => i.extract == .decompressionFailure
    | _ => true

def decide1 (i : In) : Out :=
  match i.hash with
  | .processError => ⟨.preprocessorFailed, false, false⟩
  | .otherError => ⟨.fatal, false, false⟩
  | .ok =>
    if i.control == .default && i.lookup == .hit && i.extract == .ok then ⟨.cachedResult, false, false⟩
    else if i.control == .default && i.lookup == .hit && i.extract == .otherErr then ⟨.fatal, false, false⟩
    else
      match i.compile with
      | .spawnErr => ⟨.fatal, true, false⟩
      | .failure => ⟨.compilerResult false, true, false⟩
      | .failureDist => ⟨.compilerResult false, true, false⟩
      | .success =>
        if i.control == .forceNoCache then ⟨.compilerResult true, true, false⟩
        else if !i.cacheable then ⟨.compilerResult true, true, false⟩
        else if !i.pack then ⟨.fatal, true, false⟩
        else ⟨.compilerResult true, true, true⟩

/-- C09 `storage_fault_total`: whatever the cache does on lookup and on store — miss, error, time-out,
    undecodable entry, failing or refused store — a request whose hash and compile steps work is answered
    with the compiler's own result -/
theorem storage_fault_total (i : In) (hh : i.hash = .ok) (hc : i.compile ≠ .spawnErr) (hp : i.pack = true)
    (hl : i.lookup ≠ .hit ∨ i.extract = .decompressionFailure) :
    ∃ ok, (decide1 i).reply = .compilerResult ok ∧ (decide1 i).ranCompiler = true := by
  obtain ⟨hash, control, lookup, extract, compile, cacheable, pack, storeOk⟩ := i
  simp only at hh hc hp hl
  subst hh hp
  cases control <;> cases lookup <;> cases extract <;> cases compile <;> cases cacheable <;>
    simp_all [decide1]

/-- C09 `failed_not_stored`: a failed compilation is never stored -/
theorem failed_not_stored (i : In) (h : (decide1 i).reply = .compilerResult false) : (decide1 i).storeIssued = false := by
  obtain ⟨hash, control, lookup, extract, compile, cacheable, pack, storeOk⟩ := i
  cases hash <;> cases control <;> cases lookup <;> cases extract <;> cases compile <;> cases cacheable <;> cases pack <;>
    simp_all [decide1]

/-- C01/C14 `hit_runs_nothing`: a cached result never runs the compiler and never stores -/
theorem hit_runs_nothing (i : In) (h : (decide1 i).reply = .cachedResult) :
    (decide1 i).ranCompiler = false ∧ (decide1 i).storeIssued = false ∧ i.control = .default ∧ i.lookup = .hit := by
  obtain ⟨hash, control, lookup, extract, compile, cacheable, pack, storeOk⟩ := i
  cases hash <;> cases control <;> cases lookup <;> cases extract <;> cases compile <;> cases cacheable <;> cases pack <;>
    simp_all [decide1]

/-- the store outcome (`storeOk`) never influences the reply: read-only, full or broken caches only move counters -/
theorem store_outcome_irrelevant (i : In) (b : Bool) : decide1 { i with storeOk := b } = decide1 i := by
  obtain ⟨hash, control, lookup, extract, compile, cacheable, pack, storeOk⟩ := i
  rfl

/-! Preprocessor-cache section of `generate_hash_key` (Appendix D.2) -/

inductive PEntry where | absent | emptyFile | valid (hit : Bool) (updated : Bool) | undecodable | readError
deriving Repr, DecidableEq

inductive HashStep where
  | directHit          -- recorded result key returned without running the preprocessor
  | preprocess         -- run the preprocessor and hash its output
  | propagateError     -- `?` leaves `generate_hash_key` with a non-process error ⇒ `fatal`
deriving Repr, DecidableEq

/-- pinned behaviour -/
def ppSectionPinned (usePP : Bool) (controlDefault : Bool) (e : PEntry) (updatePutOk : Bool) : HashStep :=
  if !(usePP && controlDefault) then .preprocess else
  match e with
  | .absent | .emptyFile => .preprocess
  | .undecodable | .readError => .propagateError
  | .valid hit updated => if updated && !updatePutOk then .preprocess else if hit then .directHit else .preprocess

/-- F-C09-a: a preprocessor-cache file that does not decode makes the request fatal -/
theorem ppsection_garbage_witness : ppSectionPinned true true .undecodable true = .propagateError := rfl

/-- after the fix (treat as absent) no state of the preprocessor-cache file can make a request fatal -/
def ppSectionFixed (usePP controlDefault : Bool) (e : PEntry) (updatePutOk : Bool) : HashStep :=
  match e with
  | .undecodable | .readError => ppSectionPinned usePP controlDefault .absent updatePutOk
  | e => ppSectionPinned usePP controlDefault e updatePutOk

theorem ppsection_fixed_total (u c : Bool) (e : PEntry) (p : Bool) : ppSectionFixed u c e p ≠ .propagateError := by
  cases u <;> cases c <;> cases e <;> cases p <;> simp [ppSectionFixed, ppSectionPinned] <;>
    (rename_i h up; cases h <;> cases up <;> simp)

end L1
