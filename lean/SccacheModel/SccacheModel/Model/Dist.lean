namespace DistM

/-! Sketch + proofs (design round): distributed-or-local decision and the exit-status mapping (C13). -/

/-- Unix wait status as `ExitStatus::from_raw` interprets it -/
def codeOfRaw (raw : Nat) : Option Nat := if raw % 128 = 0 then some (raw / 256 % 256) else none
def signalOfRaw (raw : Nat) : Option Nat := if raw % 128 = 0 then none else some (raw % 128)

/-- `dist::exit_status(code)` on the pinned tree: the remote exit code is used as a raw wait status -/
def ofRemotePinned (code : Nat) : Nat := code
/-- what a correct mapping does -/
def ofRemoteFixed (code : Nat) : Nat := code % 256 * 256

theorem exit_status_roundtrip_fixed (c : Nat) (h : c < 256) : codeOfRaw (ofRemoteFixed c) = some c := by
  simp [codeOfRaw, ofRemoteFixed]; omega

/-- negative result: a remote exit code 1 comes back as "killed by signal 1" -/
theorem exit_status_pinned_witness : codeOfRaw (ofRemotePinned 1) = none ∧ signalOfRaw (ofRemotePinned 1) = some 1 := by decide

inductive ErrClass where | http4xx | toolchainTooLarge | other
deriving Repr, DecidableEq

inductive Stage where | putToolchain | alloc | submit | run | writeOutput (j : Nat) | rewrite
deriving Repr, DecidableEq

inductive DistResult where
  | remote            -- the remote result, mapped back
  | local_            -- the local compiler's result (after the warning)
  | error             -- reported as an sccache error
deriving Repr, DecidableEq

/-- `dist_or_local_compile`: no dist command or no client ⇒ local; otherwise the first failing stage decides -/
def distDecide (hasDistCmd hasClient : Bool) (failure : Option (Stage × ErrClass)) : DistResult :=
  if !(hasDistCmd && hasClient) then .local_ else
  match failure with
  | none => .remote
  | some (_, .http4xx) => .error
  | some (_, .toolchainTooLarge) => .error
  | some (_, .other) => .local_

/-- outputs left on disk after a failure at stage `st` when `k` outputs were expected: `try_or_cleanup`
    removes everything written so far -/
def leftovers (written : List Nat) (cleanup : Bool) : List Nat := if cleanup then [] else written

theorem fallback_total (d c : Bool) (f : Option (Stage × ErrClass)) :
    distDecide d c f = .error → ∃ st e, f = some (st, e) ∧ (e = .http4xx ∨ e = .toolchainTooLarge) := by
  unfold distDecide
  split
  · simp
  · cases f with
    | none => simp
    | some p =>
      obtain ⟨st, e⟩ := p
      cases e with
      | http4xx => intro _; exact ⟨st, _, rfl, Or.inl rfl⟩
      | toolchainTooLarge => intro _; exact ⟨st, _, rfl, Or.inr rfl⟩
      | other => simp

end DistM
