namespace FrameM

/-! The wire protocol between client and server (`protocol.rs`, `server.rs` `SccacheService::bind` / `BincodeCodec`, `client.rs`):
    a connection carries length-delimited frames (4-byte big-endian length, at most `maxFrame` bytes of body), each body is the
    bincode encoding (fixed-width little-endian integers, trailing bytes allowed) of a `Request`.  Bytes are `Nat`s below 256
    here (the driver converts); an `OsString` on Unix is the enum variant `Unix(Vec<u8>)`: tag 0, length, bytes. -/

abbrev Bytes := List Nat

inductive Req where
  | zeroStats | getStats | distStatus | shutdown
  | compile (exe cwd : Bytes) (args : List Bytes) (env : List (Bytes × Bytes))
deriving Repr, DecidableEq

/-! ## bincode -/

def leBytes : Nat → Nat → Bytes
  | 0, _ => []
  | k + 1, n => n % 256 :: leBytes k (n / 256)

def u32 (n : Nat) : Bytes := leBytes 4 n
def u64 (n : Nat) : Bytes := leBytes 8 n

def leVal : Bytes → Nat
  | [] => 0
  | b :: r => b + 256 * leVal r

/-- split off `k` bytes (none if fewer are left) -/
def takeN (k : Nat) (b : Bytes) : Option (Bytes × Bytes) := if k ≤ b.length then some (b.take k, b.drop k) else none

def takeU32 (b : Bytes) : Option (Nat × Bytes) := (takeN 4 b).map fun (x, r) => (leVal x, r)
def takeU64 (b : Bytes) : Option (Nat × Bytes) := (takeN 8 b).map fun (x, r) => (leVal x, r)

def encOs (s : Bytes) : Bytes := u32 0 ++ u64 s.length ++ s

/-- an `OsString`: the tag must be 0 (`Unix`); tag 1 (`Windows`) is refused on Unix, anything else is no variant -/
def takeOs (b : Bytes) : Option (Bytes × Bytes) :=
  match takeU32 b with
  | some (0, r) =>
    match takeU64 r with
    | some (n, r2) => takeN n r2
    | none => none
  | _ => none

def encList (xs : List Bytes) : Bytes := u64 xs.length ++ (xs.map encOs).flatten
def encPairs (xs : List (Bytes × Bytes)) : Bytes := u64 xs.length ++ (xs.map fun x => encOs x.1 ++ encOs x.2).flatten

def takeOsN : Nat → Bytes → Option (List Bytes × Bytes)
  | 0, b => some ([], b)
  | n + 1, b =>
    match takeOs b with
    | none => none
    | some (x, r) => (takeOsN n r).map fun (xs, r2) => (x :: xs, r2)

def takePairN : Nat → Bytes → Option (List (Bytes × Bytes) × Bytes)
  | 0, b => some ([], b)
  | n + 1, b =>
    match takeOs b with
    | none => none
    | some (k, r) =>
      match takeOs r with
      | none => none
      | some (v, r2) => (takePairN n r2).map fun (xs, r3) => ((k, v) :: xs, r3)

/-- a sequence of `n` elements of at least 12 bytes each cannot be there if `n` exceeds what is left: refuse without counting
    (the real decoder runs into the end of the buffer) -/
def takeOsList (b : Bytes) : Option (List Bytes × Bytes) :=
  match takeU64 b with
  | none => none
  | some (n, r) => if n ≤ r.length then takeOsN n r else none

def takePairList (b : Bytes) : Option (List (Bytes × Bytes) × Bytes) :=
  match takeU64 b with
  | none => none
  | some (n, r) => if n ≤ r.length then takePairN n r else none

def encReq : Req → Bytes
  | .zeroStats => u32 0
  | .getStats => u32 1
  | .distStatus => u32 2
  | .shutdown => u32 3
  | .compile exe cwd args env => u32 4 ++ encOs exe ++ encOs cwd ++ encList args ++ encPairs env

/-- `bincode::deserialize::<Request>` (trailing bytes are allowed) -/
def decReq (b : Bytes) : Option Req :=
  match takeU32 b with
  | some (0, _) => some .zeroStats
  | some (1, _) => some .getStats
  | some (2, _) => some .distStatus
  | some (3, _) => some .shutdown
  | some (4, r) =>
    match takeOs r with
    | none => none
    | some (exe, r1) =>
      match takeOs r1 with
      | none => none
      | some (cwd, r2) =>
        match takeOsList r2 with
        | none => none
        | some (args, r3) =>
          match takePairList r3 with
          | none => none
          | some (env, _) => some (.compile exe cwd args env)
  | _ => none

/-! ## framing and the connection -/

def beVal : Bytes → Nat
  | [] => 0
  | b :: r => b * 256 ^ r.length + beVal r

def beBytes4 (n : Nat) : Bytes := [n / 16777216 % 256, n / 65536 % 256, n / 256 % 256, n % 256]

def frame (body : Bytes) : Bytes := beBytes4 body.length ++ body

/-- `length_delimited`'s default `max_frame_length` (8 MiB) unless SCCACHE_MAX_FRAME_LENGTH says otherwise -/
def defaultMaxFrame : Nat := 8 * 1024 * 1024

inductive Out where
  | request (r : Req)        -- handed to the service
  | closed                   -- the connection ends with an error (undecodable body, frame too long); later bytes are not read
deriving Repr, DecidableEq

structure Conn where
  maxFrame : Nat
  buf : Bytes
  dead : Bool
deriving Repr, DecidableEq

/-- take complete frames off the front of the buffer (fuel: each frame consumes at least its 4-byte head) -/
def drain (maxFrame : Nat) : Nat → Bytes → List Out × Bytes × Bool
  | 0, b => ([], b, false)
  | f + 1, b =>
    if b.length < 4 then ([], b, false) else
    let n := beVal (b.take 4)
    if maxFrame < n then ([.closed], [], true) else
    if b.length < 4 + n then ([], b, false) else
    match decReq ((b.drop 4).take n) with
    | none => ([.closed], [], true)
    | some r =>
      let (os, rest, d) := drain maxFrame f (b.drop (4 + n))
      (.request r :: os, rest, d)

def Conn.init (maxFrame : Nat) : Conn := { maxFrame := maxFrame, buf := [], dead := false }

/-- one read from the socket -/
def feed (c : Conn) (chunk : Bytes) : Conn × List Out :=
  if c.dead then (c, []) else
  let b := c.buf ++ chunk
  let (os, rest, d) := drain c.maxFrame (b.length + 1) b
  ({ c with buf := rest, dead := d }, os)

def feedAll (c : Conn) : List Bytes → Conn × List Out
  | [] => (c, [])
  | ch :: rest =>
    let (c1, o1) := feed c ch
    let (c2, o2) := feedAll c1 rest
    (c2, o1 ++ o2)

end FrameM
