namespace AtomicM

/-! Sketch (design round): inode-level model of the two-phase store of `DiskCache::put` / `get`
    under arbitrary interleavings, with crash and reopen (C06, reused by C10). -/

structure Content where
  key : Nat        -- ghost: the key the writer intends
  val : Nat        -- ghost: identifies the stored value
  written : Nat
  total : Nat

inductive Name where
  | key (k : Nat)
  | tmp (t : Nat)
deriving DecidableEq

inductive Thread where
  | idle
  | putStart (k v total : Nat)
  | putWriting (k v t i total : Nat)
  | getStart (k : Nat)
  | getReading (k i : Nat)
  | done

inductive Obs where
  | none
  | miss (tid : Nat)
  | ioErr (tid : Nat)
  | hit (tid : Nat) (c : Content)

structure Sys where
  names : Name → Option Nat
  inodes : Nat → Content
  nextIno : Nat
  nextTmp : Nat
  idx : Nat → Bool
  threads : Nat → Thread

inductive Act where
  | spawnPut (tid k v total : Nat)
  | spawnGet (tid k : Nat)
  | putPrepare (tid : Nat)      -- lock { make_space; pending.push; create temp }
  | putWrite (tid : Nat)        -- unlocked write of one chunk
  | putCommit (tid : Nat)       -- lock { …; rename temp → key; index }
  | putAbort (tid : Nat)        -- error path: the temp file is dropped
  | getOpen (tid : Nat)         -- lock { index lookup; touch; open }
  | getRead (tid : Nat)         -- unlocked read through the descriptor
  | extOpen (tid : Nat)         -- any other process opens the path at any moment (C10: a reader of an output file)
  | evict (k : Nat)             -- any eviction inside any locked section (over-approximation of make_space)
  | crash                       -- process dies; on restart `init` scans the directory

def upd {α β} [DecidableEq α] (f : α → β) (a : α) (b : β) : α → β := fun x => if x = a then b else f x

def Sys.init : Sys :=
  { names := fun _ => none, inodes := fun _ => ⟨0, 0, 0, 0⟩, nextIno := 0, nextTmp := 0,
    idx := fun _ => false, threads := fun _ => .idle }

def spawnPut (s : Sys) (tid k v total : Nat) : Sys × Obs :=
  match s.threads tid with
  | .idle => ({ s with threads := upd s.threads tid (.putStart k v total) }, .none)
  | _ => (s, .none)

def spawnGet (s : Sys) (tid k : Nat) : Sys × Obs :=
  match s.threads tid with
  | .idle => ({ s with threads := upd s.threads tid (.getStart k) }, .none)
  | _ => (s, .none)

def putPrepare (s : Sys) (tid : Nat) : Sys × Obs :=
  match s.threads tid with
  | .putStart k v total =>
    ({ s with names := upd s.names (.tmp s.nextTmp) (some s.nextIno),
              inodes := upd s.inodes s.nextIno ⟨k, v, 0, total⟩,
              nextIno := s.nextIno + 1, nextTmp := s.nextTmp + 1,
              threads := upd s.threads tid (.putWriting k v s.nextTmp s.nextIno total) }, .none)
  | _ => (s, .none)

def putWrite (s : Sys) (tid : Nat) : Sys × Obs :=
  match s.threads tid with
  | .putWriting _ _ _ i _ =>
    if (s.inodes i).written < (s.inodes i).total then
      ({ s with inodes := upd s.inodes i { s.inodes i with written := (s.inodes i).written + 1 } }, .none)
    else (s, .none)
  | _ => (s, .none)

def putCommit (s : Sys) (tid : Nat) : Sys × Obs :=
  match s.threads tid with
  | .putWriting k _ t i _ =>
    if (s.inodes i).written = (s.inodes i).total then
      ({ s with names := upd (upd s.names (.tmp t) none) (.key k) (some i),
                idx := upd s.idx k true,
                threads := upd s.threads tid .done }, .none)
    else (s, .none)
  | _ => (s, .none)

def putAbort (s : Sys) (tid : Nat) : Sys × Obs :=
  match s.threads tid with
  | .putWriting _ _ t _ _ =>
    ({ s with names := upd s.names (.tmp t) none, threads := upd s.threads tid .done }, .none)
  | _ => (s, .none)

def getOpen (s : Sys) (tid : Nat) : Sys × Obs :=
  match s.threads tid with
  | .getStart k =>
    if s.idx k then
      match s.names (.key k) with
      | some i => ({ s with threads := upd s.threads tid (.getReading k i) }, .none)
      | none => ({ s with threads := upd s.threads tid .done }, .ioErr tid)
    else ({ s with threads := upd s.threads tid .done }, .miss tid)
  | _ => (s, .none)

/-- a process that does not go through the cache index simply opens the path (C10) -/
def extOpen (s : Sys) (tid : Nat) : Sys × Obs :=
  match s.threads tid with
  | .getStart k =>
    match s.names (.key k) with
    | some i => ({ s with threads := upd s.threads tid (.getReading k i) }, .none)
    | none => ({ s with threads := upd s.threads tid .done }, .miss tid)
  | _ => (s, .none)

def getRead (s : Sys) (tid : Nat) : Sys × Obs :=
  match s.threads tid with
  | .getReading _ i => ({ s with threads := upd s.threads tid .done }, .hit tid (s.inodes i))
  | _ => (s, .none)

def evict (s : Sys) (k : Nat) : Sys × Obs :=
  ({ s with names := upd s.names (.key k) none, idx := upd s.idx k false }, .none)

/-- memory and threads are gone; `init` deletes temp-prefixed files and indexes the rest -/
def crash (s : Sys) : Sys × Obs :=
  ({ s with names := fun n => match n with | .key k => s.names (.key k) | .tmp _ => none,
            idx := fun k => (s.names (.key k)).isSome,
            threads := fun _ => .idle }, .none)

def step (s : Sys) : Act → Sys × Obs
  | .spawnPut tid k v total => spawnPut s tid k v total
  | .spawnGet tid k => spawnGet s tid k
  | .putPrepare tid => putPrepare s tid
  | .putWrite tid => putWrite s tid
  | .putCommit tid => putCommit s tid
  | .putAbort tid => putAbort s tid
  | .getOpen tid => getOpen s tid
  | .getRead tid => getRead s tid
  | .extOpen tid => extOpen s tid
  | .evict k => evict s k
  | .crash => crash s

def run (s : Sys) : List Act → Sys
  | [] => s
  | a :: as => run (step s a).1 as

/-- the invariant -/
structure AInv (s : Sys) : Prop where
  bound : ∀ k i, s.names (.key k) = some i →
            i < s.nextIno ∧ (s.inodes i).key = k ∧ (s.inodes i).written = (s.inodes i).total
  writer : ∀ tid k v t i total, s.threads tid = .putWriting k v t i total →
            i < s.nextIno ∧ t < s.nextTmp ∧ (s.inodes i).key = k ∧ (s.inodes i).val = v ∧
            (s.inodes i).total = total ∧ (∀ k', s.names (.key k') ≠ some i)
  writersDistinct : ∀ t1 t2 k1 v1 p1 i1 n1 k2 v2 p2 i2 n2,
            s.threads t1 = .putWriting k1 v1 p1 i1 n1 → s.threads t2 = .putWriting k2 v2 p2 i2 n2 →
            t1 ≠ t2 → i1 ≠ i2
  reader : ∀ tid k i, s.threads tid = .getReading k i →
            i < s.nextIno ∧ (s.inodes i).key = k ∧ (s.inodes i).written = (s.inodes i).total

/-- C06 `get_complete` (statement): whatever a lookup returns is the complete value of a store to that key -/
def GetComplete : Prop :=
  ∀ (acts : List Act) (a : Act) (tid : Nat) (c : Content),
    let s := run Sys.init acts
    (step s a).2 = .hit tid c →
    ∃ k i, s.threads tid = .getReading k i ∧ c.key = k ∧ c.written = c.total

/-- C06 `crash_safe` (statement): after a crash at any point and reopen, every key is absent or complete,
    no temp name survives, and the index is exactly the set of bound keys -/
def CrashSafe : Prop :=
  ∀ (acts : List Act),
    let s := (step (run Sys.init acts) .crash).1
    (∀ t, s.names (.tmp t) = none) ∧
    (∀ k, s.idx k = (s.names (.key k)).isSome) ∧
    (∀ k i, s.names (.key k) = some i → (s.inodes i).key = k ∧ (s.inodes i).written = (s.inodes i).total)

end AtomicM
