import SccacheModel.Gen.Consts

/-! # Model of the local-disk part of `config.rs`: `parse_size`, `bool_from_env_var`, the "Local" section of
`config_from_env`, serde defaults of `[cache.disk]`, `CacheConfigs::merge`, `into_fallback`.

What the server is finally configured with (`Config::load().fallback_cache`) as a function of the four disk-cache
environment variables and the `[cache.disk]` section of the configuration file.  Tied to the real
`sccache::config::Config::load` by `harness/src/bin/h_config.rs` + `modeld config`. -/

namespace ConfigM

abbrev Bytes := List UInt8

inductive Rw | readOnly | readWrite
deriving DecidableEq, Repr

/-- `PreprocessorCacheModeConfig` -/
structure PP where
  use : Bool
  stat : Bool
  ctime : Bool
  ignoreTime : Bool
  skipSys : Bool
  hashCwd : Bool
deriving DecidableEq, Repr

/-- `PreprocessorCacheModeConfig::default()` — note `use = false` -/
def PP.dflt : PP :=
  match GenC.ppDefault with
  | [a, b, c, d, e, f] => ⟨a, b, c, d, e, f⟩
  | _ => ⟨false, false, true, false, false, true⟩
/-- `PreprocessorCacheModeConfig::activated()` -/
def PP.activated : PP := { PP.dflt with use := true }

/-- `TEN_GIGS`, regenerated from config.rs -/
def tenGigs : Nat := GenC.tenGigs

/-- `DiskCacheConfig`; `dir = none` stands for `default_disk_cache_dir()` -/
structure Disk where
  dir : Option Bytes
  size : Nat
  pp : PP
  rw : Rw
deriving DecidableEq, Repr

/-- `DiskCacheConfig::default()` -/
def Disk.dflt : Disk := ⟨none, tenGigs, PP.activated, .readWrite⟩

/-! ## `parse_size` -/

def isDigit (b : UInt8) : Bool := 48 ≤ b && b ≤ 57

def digitsVal : List UInt8 → Nat → Nat
  | [], acc => acc
  | d :: ds, acc => digitsVal ds (acc * 10 + (d.toNat - 48))

def u64Max : Nat := 2 ^ 64 - 1

/-- `u64::from_str`: an optional `+`, then at least one ASCII digit, nothing else, value ≤ `u64::MAX` -/
def stripPlus : Bytes → Bytes
  | 43 :: r => r
  | s => s

def u64FromStr (s : Bytes) : Option Nat :=
  let ds := stripPlus s
  if ds.isEmpty || !ds.all isDigit then none
  else let v := digitsVal ds 0; if v ≤ u64Max then some v else none

inductive SizeRes | none | some (n : Nat) | overflow
deriving DecidableEq, Repr

/-- the suffix table of `parse_size` is regenerated from config.rs -/
def multiplierOf (s : Bytes) : Nat :=
  match s.getLast? with
  | some c => ((GenC.sizeSuffixes.find? (·.1 == c)).map (·.2)).getD 1
  | none => 1

/-- `parse_size` (`overflow` = `size * multiplier` leaves `u64`: a panic in debug builds, a wrapped value in release) -/
def parseSize (s : Bytes) : SizeRes :=
  let m := multiplierOf s
  let body := if m > 1 then s.dropLast else s
  match u64FromStr body with
  | Option.none => .none
  | Option.some v => if v * m ≤ u64Max then .some (v * m) else .overflow

/-! ## `bool_from_env_var` -/

def lower (b : UInt8) : UInt8 := if 65 ≤ b && b ≤ 90 then b + 32 else b


/-- `none` = the variable is unset (or not unicode); `error` makes `Config::load` fail -/
def boolFromEnv (v : Option Bytes) : Except Unit (Option Bool) :=
  match v with
  | none => .ok none
  | some b =>
    let l := b.map lower
    if GenC.boolTrueWords.contains l then .ok (some true)
    else if GenC.boolFalseWords.contains l then .ok (some false)
    else .error ()

/-- the two accepted values of `SCCACHE_LOCAL_RW_MODE`, regenerated from config.rs -/
def sReadOnly : Bytes := GenC.rwReadOnlyWord
def sReadWrite : Bytes := GenC.rwReadWriteWord

/-- the four disk-cache variables; `dir` is an `OsString` (any bytes), the others are read with `env::var`
    (the harness passes a non-unicode value as unset, which is what `.ok()` makes of it) -/
structure Env where
  dir : Option Bytes := none
  size : Option Bytes := none
  direct : Option Bytes := none
  rw : Option Bytes := none
deriving Repr

/-- the "Local" section of `config_from_env`: `error` = `SCCACHE_DIRECT` invalid; `ok none` = no disk section from the
    environment; an overflowing `SCCACHE_CACHE_SIZE` is reported as `overflow` -/
inductive EnvDisk | error | overflow | ok (d : Option Disk)
deriving DecidableEq, Repr

def envSize (e : Env) : SizeRes := match e.size with | none => .none | some v => parseSize v

def sizeOpt : SizeRes → Option Nat
  | .some n => Option.some n
  | _ => Option.none

/-- `SCCACHE_LOCAL_RW_MODE`: the mode and whether it counts as an override; any other value is "invalid, defaulting to
    READ_WRITE" and does **not** count -/
def envRw (v : Option Bytes) : Rw × Bool :=
  match v with
  | some v => if v = sReadOnly then (.readOnly, true) else if v = sReadWrite then (.readWrite, true) else (.readWrite, false)
  | none => (.readWrite, false)

def ppOf (direct : Option Bool) : PP :=
  match direct with
  | some v => { PP.activated with use := v }
  | none => PP.activated

/-- the section exists as soon as one of the four variables counts as set; every field not set by a variable is the
    **default**, not the file's value -/
def envDiskOf (e : Env) (sz : Option Nat) (direct : Option Bool) : Option Disk :=
  if e.dir.isSome || sz.isSome || direct.isSome || (envRw e.rw).2 then
    some ⟨e.dir, sz.getD tenGigs, ppOf direct, (envRw e.rw).1⟩
  else none

def envDisk (e : Env) : EnvDisk :=
  match envSize e with
  | .overflow => .overflow
  | sz =>
    match boolFromEnv e.direct with
    | .error _ => .error
    | .ok direct => .ok (envDiskOf e (sizeOpt sz) direct)

/-! ## the `[cache.disk]` section of the file (serde: `#[serde(default)]` on both structs) -/

structure FilePP where
  use : Option Bool := none
  stat : Option Bool := none
  ctime : Option Bool := none
  ignoreTime : Option Bool := none
  skipSys : Option Bool := none
  hashCwd : Option Bool := none
deriving Repr

structure FileDisk where
  dir : Option Bytes := none
  size : Option Nat := none
  pp : Option FilePP := none
  rw : Option Rw := none
deriving Repr

/-- a present `[cache.disk.preprocessor_cache_mode]` table takes its missing fields from
    `PreprocessorCacheModeConfig::default()` (mode **off**); an absent table is `activated()` -/
def filePP (f : Option FilePP) : PP :=
  match f with
  | none => PP.activated
  | some p => ⟨p.use.getD PP.dflt.use, p.stat.getD PP.dflt.stat, p.ctime.getD PP.dflt.ctime, p.ignoreTime.getD PP.dflt.ignoreTime,
               p.skipSys.getD PP.dflt.skipSys, p.hashCwd.getD PP.dflt.hashCwd⟩

def fileDisk (f : FileDisk) : Disk := ⟨f.dir, f.size.getD tenGigs, filePP f.pp, f.rw.getD .readWrite⟩

inductive Loaded | error | overflow | ok (d : Disk)
deriving DecidableEq, Repr

/-- `Config::load().fallback_cache`: file section merged first, then the environment section **replaces it as a
    whole** (`CacheConfigs::merge`), then `into_fallback` supplies the default -/
def load (e : Env) (file : Option FileDisk) : Loaded :=
  match envDisk e with
  | .error => .error
  | .overflow => .overflow
  | .ok (some d) => .ok d
  | .ok none => .ok ((file.map fileDisk).getD Disk.dflt)

/-- what the server does with it: `DiskCache::new(.., rw_mode)`; `storage.check()` returns it and the server wraps the
    storage in `ReadOnlyStorage` exactly when it is `ReadOnly` -/
def servesReadOnly (d : Disk) : Bool := d.rw = .readOnly

end ConfigM
