namespace PathsM

/-! Sketch (design round): the textual path arithmetic of the build server (C19):
    `Path::join`, `Path::parent`, `build::join_suffix`, and lexical resolution of `..`. Unix only. -/
abbrev Bytes := List UInt8
def slash : UInt8 := 47
def dot : UInt8 := 46

def splitSlash (s : Bytes) : List Bytes :=
  s.foldr (fun b acc => if b == slash then [] :: acc else match acc with | [] => [[b]] | x :: xs => (b :: x) :: xs) [[]]

def hasRoot (s : Bytes) : Bool := s.head? == some slash

/-- `Path::join` / `PathBuf::push` -/
def pjoin (base p : Bytes) : Bytes :=
  if hasRoot p then p
  else if base.isEmpty then p
  else if base.getLast? == some slash then base ++ p
  else base ++ [slash] ++ p

/-- drop trailing separators and trailing `.` components (`Components::trim_right`) -/
def trimRightFuel : Nat → Bytes → Bool → Bytes
  | 0, s, _ => s
  | fuel + 1, s, rooted =>
    match s.getLast? with
    | none => s
    | some c =>
      if c == slash then
        -- never trim the root slash itself
        if s.length == 1 && rooted then s else trimRightFuel fuel s.dropLast rooted
      else if c == dot then
        -- a final "." component: preceded by a separator (or it is not the leading component of a relative path)
        match s.dropLast.getLast? with
        | some p => if p == slash then trimRightFuel fuel s.dropLast rooted else s
        | none => s
      else s

def trimRight (s : Bytes) : Bytes := trimRightFuel (s.length + 1) s (hasRoot s)

/-- drop leading separators and leading `.` components after the root (`Components::trim_left` with front = Body) -/
def trimLeftFuel : Nat → Bytes → Bytes
  | 0, s => s
  | fuel + 1, s =>
    match s with
    | [] => []
    | c :: rest =>
      if c == slash then trimLeftFuel fuel rest
      else if c == dot then
        match rest with
        | [] => []
        | d :: _ => if d == slash then trimLeftFuel fuel rest else s
      else s

def trimLeft (s : Bytes) : Bytes := trimLeftFuel (s.length + 1) s

/-- `build::join_suffix(path, suffix)`: strip the root of `suffix`, keep everything else textually -/
def joinSuffix (target suffix : Bytes) : Bytes :=
  let rest := if hasRoot suffix then trimRight (trimLeft suffix) else trimRight suffix
  pjoin target rest

/-- components that matter for resolution: `..` and normal names (empty and `.` components vanish) -/
def resolve (p : Bytes) : List Bytes :=
  (splitSlash p).foldl (fun stack c =>
    if c.isEmpty || c == [dot] then stack
    else if c == [dot, dot] then stack.dropLast
    else stack ++ [c]) []

/-- one step of `build::resolve_inside` (the repair of F-C19-a/b/c) on the stack of names **below the root**, in a world without
    symbolic links: a name pushes, `.` and empty components vanish (`Path::components`), `..` pops — and popping at the
    root itself leaves the build root, which is refused (`!resolved.starts_with(&root)` ⇒ `bail!`) -/
def istep (st : Option (List Bytes)) (c : Bytes) : Option (List Bytes) :=
  match st with
  | none => none
  | some s =>
    if c.isEmpty || c == [dot] then some s
    else if c == [dot, dot] then (if s.isEmpty then none else some s.dropLast)
    else some (s ++ [c])

/-- `resolve_inside(root, path, _)` for the remainder `rest` that `join_suffix` keeps of the client-supplied path:
    `some q` = resolved to `root/q…`, `none` = refused -/
def resolveInside (rest : Bytes) : Option (List Bytes) := (splitSlash rest).foldl istep (some [])

/-- the remainder `join_suffix` keeps of a client-supplied path -/
def suffixRest (suffix : Bytes) : Bytes := if hasRoot suffix then trimRight (trimLeft suffix) else trimRight suffix

def confined (target p : Bytes) : Bool := (resolve target).isPrefixOf (resolve p)

def s (x : String) : Bytes := x.toUTF8.toList

/-- C19 negative result: an output path with enough `..` leaves the job's root (F-C19-a):
    target `/srv/b/t`, cwd `/w`, output `../../etc/passwd` -/
example : confined [47, 115, 114, 118, 47, 98, 47, 116] (joinSuffix [47, 115, 114, 118, 47, 98, 47, 116] (pjoin [47, 119] [46, 46, 47, 46, 46, 47, 101, 116, 99, 47, 112, 97, 115, 115, 119, 100])) = false := by decide
example : joinSuffix [47, 115, 114, 118, 47, 98, 47, 116] (pjoin [47, 119] [46, 46, 47, 46, 46, 47, 101, 116, 99, 47, 112, 97, 115, 115, 119, 100]) = [47, 115, 114, 118, 47, 98, 47, 116, 47, 119, 47, 46, 46, 47, 46, 46, 47, 101, 116, 99, 47, 112, 97, 115, 115, 119, 100] := by decide

end PathsM
