import SccacheModel.Gen.Consts

namespace SchedM

/-! Sketch (design round): executable model of the sccache-dist `Scheduler` (as written), time frozen. -/

inductive JState where | pending | ready | started | complete
deriving Repr, DecidableEq

structure Srv where
  id : Nat
  assigned : List Nat := []
  unclaimed : List Nat := []
  cpus : Nat
  nonce : Nat
  lastErr : Option Nat := none       -- logical time of the last failed assignment
deriving Repr, DecidableEq

structure Job where
  id : Nat
  server : Nat
  state : JState
deriving Repr, DecidableEq

structure Sched where
  jobCount : Nat := 0
  jobs : List Job := []
  servers : List Srv := []
  clock : Nat := 0
  poisoned : Bool := false
deriving Repr, DecidableEq

inductive SRes where
  | ok | err | panic | fail            -- `fail` = AllocJobResult::Fail (no capacity)
deriving Repr, DecidableEq

namespace Sched

def capOf (cpus : Nat) : Nat := cpus + 1 + cpus / 8

/-- `cores_plus_slack` and `MAX_PER_CORE_LOAD` are what sccache-dist/main.rs says **now** (`Gen/Consts.lean` is regenerated on
    every run; the translator also checks the text of the formula and its `>=`) -/
theorem capacity_matches_source : (∀ c, capOf c = GenC.capOf c) ∧ GenC.maxPerCoreLoad = 2 := ⟨fun _ => rfl, rfl⟩

/-- `load_weight < MAX_PER_CORE_LOAD` in exact arithmetic -/
def loadOk (s : Srv) : Bool := s.assigned.length < capOf s.cpus && s.assigned.length < 2 * s.cpus

/-- `load a < load b` for two servers that are both below their slack limit -/
def loadLt (a b : Srv) : Bool := a.assigned.length * b.cpus < b.assigned.length * a.cpus

def findSrv (c : Sched) (s : Nat) : Option Srv := c.servers.find? (·.id == s)
def setSrv (c : Sched) (v : Srv) : Sched :=
  { c with servers := (c.servers.filter (·.id != v.id)) ++ [v] }

/-- the servers `handle_alloc_job` may pick, whatever the hash-map iteration order -/
def admissible (c : Sched) : List Nat :=
  let ne := c.servers.filter fun s => s.lastErr.isNone && loadOk s
  if !ne.isEmpty then
    (ne.filter fun s => ne.all fun t => !loadLt t s).map (·.id)
  else
    let er := c.servers.filter fun s => s.lastErr.isSome && loadOk s
    (er.filter fun s => er.all fun t => (t.lastErr.getD 0) ≥ (s.lastErr.getD 0)).map (·.id)

/-- first locked section of `handle_alloc_job`; `choice` is what the implementation picked -/
def allocChoose (c : Sched) (choice : Option Nat) : Sched × SRes × Option Nat :=
  match choice with
  | none => if c.admissible.isEmpty then (c, .fail, none) else (c, .err, none)   -- model rejects the trace
  | some s =>
    if !c.admissible.contains s then (c, .err, none) else
    match c.findSrv s with
    | none => (c, .err, none)
    | some v =>
      if !loadOk v then (c, .err, none) else       -- implied by admissibility; stated for the proofs
      let j := c.jobCount
      let v' := { v with assigned := v.assigned ++ [j], unclaimed := v.unclaimed ++ [j] }
      (({ c with jobCount := j + 1 }).setSrv v', .ok, some j)

/-- third step of `handle_alloc_job` after the fix of F-C18-a (under both locks): record the job only if the
    chosen server still lists it and the id is fresh; otherwise the allocation fails and nothing changes -/
def allocRecordFixed (c : Sched) (j s : Nat) (st : JState) : Sched × SRes :=
  match c.findSrv s with
  | some v => if v.assigned.contains j && !c.jobs.any (·.id == j) then ({ c with jobs := c.jobs ++ [⟨j, s, st⟩] }, .ok) else (c, .err)
  | none => (c, .err)

/-- the third step as it was on the pinned tree (kept for the witness of F-C18-a) -/
def allocRecord (c : Sched) (j s : Nat) (st : JState) : Sched × SRes :=
  if c.jobs.any (·.id == j) then ({ c with poisoned := true }, .panic)
  else ({ c with jobs := c.jobs ++ [⟨j, s, st⟩] }, .ok)

/-- `do_assign_job` failed: un-assign -/
def allocFail (c : Sched) (j s : Nat) : Sched × SRes :=
  let c1 := { c with clock := c.clock + 1 }
  match c1.findSrv s with
  | none => (c1, .err)
  | some v => (c1.setSrv { v with lastErr := some c1.clock, unclaimed := v.unclaimed.erase j,
                                  assigned := v.assigned.erase j }, .err)

def heartbeat (c : Sched) (s nonce cpus : Nat) : Sched × SRes × Bool :=
  if cpus = 0 then (c, .err, false) else
  match c.findSrv s with
  | some v =>
    if v.nonce == nonce then (c, .ok, false)
    else
      let c1 := { c with jobs := c.jobs.filter fun j => !v.assigned.contains j.id }
      (c1.setSrv { id := s, cpus := cpus, nonce := nonce }, .ok, true)
  | none => (c.setSrv { id := s, cpus := cpus, nonce := nonce }, .ok, true)

def update (c : Sched) (j s : Nat) (st : JState) : Sched × SRes :=
  match c.jobs.find? (·.id == j) with
  | none => (c, .err)
  | some job =>
    if job.server != s then (c, .err) else
    let setState (c : Sched) : Sched :=
      { c with jobs := c.jobs.map fun x => if x.id == j then { x with state := st } else x }
    match job.state, st with
    | .pending, .ready => (setState c, .ok)
    | .ready, .started =>
      match c.findSrv s with
      | some v => (setState (c.setSrv { v with unclaimed := v.unclaimed.erase j }), .ok)
      | none => (setState c, .ok)
    | .started, .complete =>
      let c1 := { c with jobs := c.jobs.filter (·.id != j) }
      match c1.findSrv s with
      | some v =>
        if v.assigned.contains j then (c1.setSrv { v with assigned := v.assigned.erase j }, .ok)
        else ({ c1 with poisoned := true }, .panic)              -- assert!(jobs_assigned.remove(..))
      | none => (c1, .err)
    | _, _ => (c, .err)

def status (c : Sched) : Nat × Nat × Nat :=
  (c.servers.length, (c.servers.map (·.cpus)).sum, c.jobs.length)

/-! Property predicates of C18 (statements; proofs belong to the implementation rounds) -/

def Attribution (c : Sched) : Prop :=
  ∀ j ∈ c.jobs, ∃ v ∈ c.servers, v.id = j.server ∧ j.id ∈ v.assigned

def Capacity (c : Sched) : Prop :=
  ∀ v ∈ c.servers, v.assigned.length ≤ capOf v.cpus ∧
    (c.jobs.filter (·.server == v.id)).length ≤ capOf v.cpus

end Sched

end SchedM
