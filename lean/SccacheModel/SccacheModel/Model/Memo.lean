namespace MemoM

/-! Sketch + proofs (design round): the per-path compiler memo of `SccacheService::compiler_info` (C12). -/

structure Bin where
  content : Nat      -- identifies the bytes of the executable (its digest, collisions aside)
  mtime : Nat
deriving Repr, DecidableEq

structure MemoEntry where
  digest : Nat
  mtime : Nat
deriving Repr, DecidableEq

/-- one request for the compiler at a path whose file currently is `b`: reuse iff the mtime matches -/
def lookup (memo : Option MemoEntry) (b : Bin) : MemoEntry × Nat :=
  match memo with
  | some e => if e.mtime = b.mtime then (e, e.digest) else (⟨b.content, b.mtime⟩, b.content)
  | none => (⟨b.content, b.mtime⟩, b.content)

/-- a history: the file at the path at each successive request -/
def digestsUsed : Option MemoEntry → List Bin → List Nat
  | _, [] => []
  | m, b :: bs => let (m', d) := lookup m b; d :: digestsUsed (some m') bs

/-- the statement's hypothesis made precise: at this path, equal mtime means equal contents -/
def MtimeDeterminesContent (bs : List Bin) : Prop := ∀ a ∈ bs, ∀ b ∈ bs, a.mtime = b.mtime → a.content = b.content

theorem memo_fresh_aux (bs : List Bin) (all : List Bin) (hsub : ∀ b ∈ bs, b ∈ all) (h : MtimeDeterminesContent all)
    (m : Option MemoEntry) (hm : ∀ e, m = some e → ∃ b ∈ all, b.mtime = e.mtime ∧ b.content = e.digest) :
    digestsUsed m bs = bs.map (·.content) := by
  induction bs generalizing m with
  | nil => rfl
  | cons b bs ih =>
    have hb : b ∈ all := hsub b (by simp)
    simp only [digestsUsed, List.map_cons]
    cases m with
    | none =>
      simp only [lookup]
      rw [ih (fun x hx => hsub x (by simp [hx])) _ (by intro e he; cases he; exact ⟨b, hb, rfl, rfl⟩)]
    | some e =>
      simp only [lookup]
      obtain ⟨b0, hb0, hmt, hct⟩ := hm e rfl
      by_cases heq : e.mtime = b.mtime
      · simp only [heq, if_true]
        have : b0.content = b.content := h b0 hb0 b hb (by rw [hmt, heq])
        rw [ih (fun x hx => hsub x (by simp [hx])) _ (by intro e' he'; cases he'; exact ⟨b0, hb0, hmt, hct⟩)]
        rw [← hct, this]
      · simp only [heq, if_false]
        rw [ih (fun x hx => hsub x (by simp [hx])) _ (by intro e' he'; cases he'; exact ⟨b, hb, rfl, rfl⟩)]

/-- C12 `memo_fresh`: for every history of binary swaps in which equal mtime implies equal contents,
    the digest used for each request is the digest of the binary then at the path -/
theorem memo_fresh (bs : List Bin) (h : MtimeDeterminesContent bs) : digestsUsed none bs = bs.map (·.content) :=
  memo_fresh_aux bs bs (fun _ hb => hb) h none (by intro e he; cases he)

/-- negative result outside the hypothesis: restoring an old mtime with new contents defeats the memo -/
theorem memo_stale_witness : digestsUsed none [⟨1, 10⟩, ⟨2, 10⟩] = [1, 1] := by decide

end MemoM
