namespace MemoM

/-! Sketch + proofs (design round): the per-path compiler memo of `SccacheService::compiler_info` (C12). -/

structure Bin where
  content : Nat      -- identifies the bytes of the executable (its digest, collisions aside)
  mtime : Nat
deriving Repr, DecidableEq

structure MemoEntry where
  digest : Nat
  mtime : Nat
deriving Repr, DecidableEq

/-- one request for the compiler at a path whose file currently is `b`: reuse iff the mtime matches -/
def lookup (memo : Option MemoEntry) (b : Bin) : MemoEntry × Nat :=
  match memo with
  | some e => if e.mtime = b.mtime then (e, e.digest) else (⟨b.content, b.mtime⟩, b.content)
  | none => (⟨b.content, b.mtime⟩, b.content)

/-- a history: the file at the path at each successive request -/
def digestsUsed : Option MemoEntry → List Bin → List Nat
  | _, [] => []
  | m, b :: bs => let (m', d) := lookup m b; d :: digestsUsed (some m') bs

/-- the statement's hypothesis made precise: at this path, equal mtime means equal contents -/
def MtimeDeterminesContent (bs : List Bin) : Prop := ∀ a ∈ bs, ∀ b ∈ bs, a.mtime = b.mtime → a.content = b.content

theorem memo_fresh_aux (bs : List Bin) (all : List Bin) (hsub : ∀ b ∈ bs, b ∈ all) (h : MtimeDeterminesContent all)
    (m : Option MemoEntry) (hm : ∀ e, m = some e → ∃ b ∈ all, b.mtime = e.mtime ∧ b.content = e.digest) :
    digestsUsed m bs = bs.map (·.content) := by
  induction bs generalizing m with
  | nil => rfl
  | cons b bs ih =>
    have hb : b ∈ all := hsub b (by simp)
    simp only [digestsUsed, List.map_cons]
    cases m with
    | none =>
      simp only [lookup]
      rw [ih (fun x hx => hsub x (by simp [hx])) _ (by intro e he; cases he; exact ⟨b, hb, rfl, rfl⟩)]
    | some e =>
      simp only [lookup]
      obtain ⟨b0, hb0, hmt, hct⟩ := hm e rfl
      by_cases heq : e.mtime = b.mtime
      · simp only [heq, if_true]
        have : b0.content = b.content := h b0 hb0 b hb (by rw [hmt, heq])
        rw [ih (fun x hx => hsub x (by simp [hx])) _ (by intro e' he'; cases he'; exact ⟨b0, hb0, hmt, hct⟩)]
        rw [← hct, this]
      · simp only [heq, if_false]
        rw [ih (fun x hx => hsub x (by simp [hx])) _ (by intro e' he'; cases he'; exact ⟨b, hb, rfl, rfl⟩)]

/-- C12 `memo_fresh`: for every history of binary swaps in which equal mtime implies equal contents,
    the digest used for each request is the digest of the binary then at the path -/
theorem memo_fresh (bs : List Bin) (h : MtimeDeterminesContent bs) : digestsUsed none bs = bs.map (·.content) :=
  memo_fresh_aux bs bs (fun _ hb => hb) h none (by intro e he; cases he)

/-- negative result outside the hypothesis: restoring an old mtime with new contents defeats the memo -/
theorem memo_stale_witness : digestsUsed none [⟨1, 10⟩, ⟨2, 10⟩] = [1, 1] := by decide

/-! ### which entry of the compiler map a request uses (`compiler_info`)

The map is keyed by a path: the canonical (symlink-free) path of the requested executable **if** that has the same file name, the
requested path otherwise ("don't canonicalize if the file name differs so it works with clang's multicall"). A driver decides by
its *name* what it is (`gcc` / `g++`, `clang` / `clang++`), so two names must never share an entry. -/

/-- the facts about one requested path that the rule looks at; paths are identified by numbers, `nameOf` gives the file name of a path -/
structure Req where
  self : Nat            -- the requested path
  canon : Nat           -- its canonical path (`canonicalize()`)
deriving Repr, DecidableEq

/-- the key of the compiler map for a request -/
def memoKey (nameOf : Nat → Nat) (r : Req) : Nat :=
  if nameOf r.canon = nameOf r.self then r.canon else r.self

/-- the file name of the key is the file name the request was made under — whatever links there are -/
theorem memoKey_name (nameOf : Nat → Nat) (r : Req) : nameOf (memoKey nameOf r) = nameOf r.self := by
  unfold memoKey; split
  · assumption
  · rfl

/-- C12 / C01 `names_never_share_an_entry`: two requests that use the same entry of the compiler map were made under the same
    file name — `gcc` and `g++`, `clang` and `clang++` (links to one binary) never inherit each other's detected compiler -/
theorem names_never_share_an_entry (nameOf : Nat → Nat) (r₁ r₂ : Req) (h : memoKey nameOf r₁ = memoKey nameOf r₂) :
    nameOf r₁.self = nameOf r₂.self := by
  rw [← memoKey_name nameOf r₁, ← memoKey_name nameOf r₂, h]

/-- … while two spellings of one file name that resolve to one file do share their entry (that is what the canonicalisation is for) -/
theorem same_name_links_share (nameOf : Nat → Nat) (r₁ r₂ : Req) (hc : r₁.canon = r₂.canon)
    (h1 : nameOf r₁.canon = nameOf r₁.self) (h2 : nameOf r₂.canon = nameOf r₂.self) :
    memoKey nameOf r₁ = memoKey nameOf r₂ := by
  unfold memoKey; rw [if_pos h1, if_pos h2, hc]

/-- the rule S-C01-3 replaced it with (always canonicalize): `gcc` and `g++` as links to one binary collapse (kernel-checked) -/
theorem always_canonicalize_collapses_witness :
    let nameOf : Nat → Nat := fun p => if p = 1 then 10 else if p = 2 then 20 else 30      -- path 1 = gcc, path 2 = g++, path 3 = the binary
    -- under "always canonicalize" both requests would use the entry of path 3; the real rule keeps them at paths 1 and 2
    (⟨1, 3⟩ : Req).canon = (⟨2, 3⟩ : Req).canon ∧ memoKey nameOf ⟨1, 3⟩ = 1 ∧ memoKey nameOf ⟨2, 3⟩ = 2 := by decide

end MemoM
