namespace CK

/-! Sketch (design round): pre-image of `c::hash_key` and `preprocessor_cache_entry_hash_key`. -/
abbrev Bytes := List UInt8

def sb (s : String) : Bytes := s.toUTF8.toList

def le64 (n : Nat) : Bytes := (List.range 8).map fun i => UInt8.ofNat ((n / 256 ^ i) % 256)

/-- what `OsStr::hash` feeds to `HashToDigest` : `write_length_prefix` (usize, native endian) then the bytes -/
def encArg (a : Bytes) : Bytes := le64 a.length ++ a

inductive Lang where
  | c | cxx | genericHeader | cHeader | cxxHeader | objc | objcxx | objcxxHeader
  | cuda | cudaFE | ptx | cubin | rust | hip
deriving Repr, DecidableEq

/-- GENERATED from `Language::as_str` in the real project (hand-copied in this sketch) -/
def langTag : Lang → String
  | .c => "c" | .cHeader => "cHeader" | .cxx => "c++" | .cxxHeader => "c++Header"
  | .genericHeader => "c/c++" | .objc => "objc" | .objcxx => "objc++" | .objcxxHeader => "objc++"
  | .cuda => "cuda" | .cudaFE => "cuda" | .ptx => "ptx" | .cubin => "cubin" | .rust => "rust" | .hip => "hip"

/-- the tags as byte lists (what the translator emits; string literals do not reduce in the kernel) -/
def langTagBytes : Lang → Bytes
  | .c => [99]   -- c
  | .cHeader => [99, 72, 101, 97, 100, 101, 114]   -- cHeader
  | .cxx => [99, 43, 43]   -- c++
  | .cxxHeader => [99, 43, 43, 72, 101, 97, 100, 101, 114]   -- c++Header
  | .genericHeader => [99, 47, 99, 43, 43]   -- c/c++
  | .objc => [111, 98, 106, 99]   -- objc
  | .objcxx => [111, 98, 106, 99, 43, 43]   -- objc++
  | .objcxxHeader => [111, 98, 106, 99, 43, 43]   -- objc++
  | .cuda => [99, 117, 100, 97]   -- cuda
  | .cudaFE => [99, 117, 100, 97]   -- cuda
  | .ptx => [112, 116, 120]   -- ptx
  | .cubin => [99, 117, 98, 105, 110]   -- cubin
  | .rust => [114, 117, 115, 116]   -- rust
  | .hip => [104, 105, 112]   -- hip

def cCacheVersion : Bytes := [49, 49]
def cCachedEnv : List Bytes := ["SCCACHE_C_CUSTOM_CACHE_BUSTER", "MACOSX_DEPLOYMENT_TARGET",
  "IPHONEOS_DEPLOYMENT_TARGET", "TVOS_DEPLOYMENT_TARGET", "WATCHOS_DEPLOYMENT_TARGET", "SDKROOT",
  "CCC_OVERRIDE_OPTIONS"].map sb

structure CReq where
  digest : Bytes
  plusplus : Bool
  lang : Lang
  args : List Bytes
  extra : List Bytes
  env : List (Bytes × Bytes)
  pp : Bytes

def encEnv (allow : List Bytes) (env : List (Bytes × Bytes)) : Bytes :=
  (env.filter fun kv => allow.contains kv.1).flatMap fun kv => encArg kv.1 ++ [61] ++ encArg kv.2

def encHash (r : CReq) : Bytes :=
  r.digest ++ [if r.plusplus then 1 else 0] ++ cCacheVersion ++ langTagBytes r.lang
    ++ r.args.flatMap encArg ++ r.extra.flatten ++ encEnv cCachedEnv r.env ++ r.pp

def isHexLower (b : UInt8) : Bool := (48 ≤ b && b ≤ 57) || (97 ≤ b && b ≤ 102)

def startsWith64Hex (b : Bytes) : Bool := b.length ≥ 64 && (b.take 64).all isHexLower

def tagExtensions : List Bytes :=
  [[72, 101, 97, 100, 101, 114],
   [43, 43],
   [47, 99, 43, 43],
   [117, 100, 97],
   [117, 98, 105, 110],
   [43, 43, 72, 101, 97, 100, 101, 114]]   -- Header ++ /c++ uda ubin ++Header

structure WF (r : CReq) : Prop where
  digest : r.digest.length = 64 ∧ r.digest.all isHexLower = true
  extra : ∀ e ∈ r.extra, e.length = 64 ∧ e.all isHexLower = true
  args : ∀ a ∈ r.args, a.length < 2 ^ 56 ∧ (0 : UInt8) ∉ a
  env : ∀ kv ∈ r.env, kv.1.length < 2 ^ 56 ∧ kv.2.length < 2 ^ 56 ∧ (0 : UInt8) ∉ kv.1 ∧ (0 : UInt8) ∉ kv.2
  ppNul : (0 : UInt8) ∉ r.pp
  ppHex : startsWith64Hex r.pp = false

def canonEnv (r : CReq) : List (Bytes × Bytes) := r.env.filter fun kv => cCachedEnv.contains kv.1

/-- C02 main statement (components, given equal tags) -/
def EncHashComponentsInj : Prop :=
  ∀ r₁ r₂ : CReq, WF r₁ → WF r₂ → langTagBytes r₁.lang = langTagBytes r₂.lang → encHash r₁ = encHash r₂ →
    r₁.digest = r₂.digest ∧ r₁.plusplus = r₂.plusplus ∧ r₁.args = r₂.args ∧ r₁.extra = r₂.extra ∧
    canonEnv r₁ = canonEnv r₂ ∧ r₁.pp = r₂.pp

/-- C02 tag separation -/
def EncHashLangSep : Prop :=
  ∀ r₁ r₂ : CReq, WF r₁ → WF r₂ →
    (∀ x ∈ tagExtensions, ¬ (x <+: r₁.pp) ∧ ¬ (x <+: r₂.pp)) →
    encHash r₁ = encHash r₂ → langTagBytes r₁.lang = langTagBytes r₂.lang

-- negative results (kernel-checked by evaluation)
example : langTagBytes .objcxx = langTagBytes .objcxxHeader := rfl
example : langTagBytes .cuda = langTagBytes .cudaFE := rfl

end CK
