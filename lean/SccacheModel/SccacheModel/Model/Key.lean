import SccacheModel.Gen.KeyConsts

namespace CK

/-! Sketch (design round): pre-image of `c::hash_key` and `preprocessor_cache_entry_hash_key`. -/
abbrev Bytes := List UInt8

def sb (s : String) : Bytes := s.toUTF8.toList

def le64 (n : Nat) : Bytes := (List.range 8).map fun i => UInt8.ofNat ((n / 256 ^ i) % 256)

/-- what `OsStr::hash` feeds to `HashToDigest` : `write_length_prefix` (usize, native endian) then the bytes -/
def encArg (a : Bytes) : Bytes := le64 a.length ++ a

-- `Lang`, `langTagBytes`, `cCacheVersion`, `cCachedEnv`, `ppFormatVersion`, `ppCachedEnv` are GENERATED from the Rust
-- sources on every run (Gen/KeyConsts.lean); the theorems below are therefore re-checked against what the code says now.

structure CReq where
  digest : Bytes
  plusplus : Bool
  lang : Lang
  args : List Bytes
  extra : List Bytes
  env : List (Bytes × Bytes)
  pp : Bytes

def encEnv (allow : List Bytes) (env : List (Bytes × Bytes)) : Bytes :=
  (env.filter fun kv => allow.contains kv.1).flatMap fun kv => encArg kv.1 ++ [61] ++ encArg kv.2

/-- the common layout of both keys: `ver` is the version constant, `allow` the allow-listed variable names -/
def encGen (ver : Bytes) (allow : List Bytes) (r : CReq) : Bytes :=
  r.digest ++ [if r.plusplus then 1 else 0] ++ ver ++ langTagBytes r.lang
    ++ r.args.flatMap encArg ++ r.extra.flatten ++ encEnv allow r.env ++ r.pp

/-- pre-image of `c::hash_key` -/
def encHash (r : CReq) : Bytes := encGen cCacheVersion cCachedEnv r

/-- request of the preprocessor-level key (`preprocessor_cache_entry_hash_key`): the C request components plus the
    input path bytes, the hex digest of the input file, and whether the input holds `__TIME__` -/
structure PReq where
  digest : Bytes
  plusplus : Bool
  lang : Lang
  args : List Bytes
  extra : List Bytes
  env : List (Bytes × Bytes)
  path : Bytes
  inputDigest : Bytes
  hasTime : Bool

/-- the payload of the preprocessor-level key is the raw input path followed by the input's hex digest -/
def PReq.toC (r : PReq) : CReq :=
  { digest := r.digest, plusplus := r.plusplus, lang := r.lang, args := r.args, extra := r.extra, env := r.env,
    pp := r.path ++ r.inputDigest }

/-- pre-image of the preprocessor-level key; `none` = direct mode disabled for this request -/
def encPre (ignoreTimeMacros : Bool) (r : PReq) : Option Bytes :=
  if !ignoreTimeMacros && r.hasTime then none else
  some (encGen [ppFormatVersion] ppCachedEnv r.toC)

def isHexLower (b : UInt8) : Bool := (48 ≤ b && b ≤ 57) || (97 ≤ b && b ≤ 102)

def startsWith64Hex (b : Bytes) : Bool := b.length ≥ 64 && (b.take 64).all isHexLower

def tagExtensions : List Bytes :=
  [[72, 101, 97, 100, 101, 114],
   [43, 43],
   [47, 99, 43, 43],
   [117, 100, 97],
   [117, 98, 105, 110],
   [43, 43, 72, 101, 97, 100, 101, 114]]   -- Header ++ /c++ uda ubin ++Header

structure WF (r : CReq) : Prop where
  digest : r.digest.length = 64 ∧ r.digest.all isHexLower = true
  extra : ∀ e ∈ r.extra, e.length = 64 ∧ e.all isHexLower = true
  args : ∀ a ∈ r.args, a.length < 2 ^ 56 ∧ (0 : UInt8) ∉ a
  env : ∀ kv ∈ r.env, kv.1.length < 2 ^ 56 ∧ kv.2.length < 2 ^ 56 ∧ (0 : UInt8) ∉ kv.1 ∧ (0 : UInt8) ∉ kv.2
  ppNul : (0 : UInt8) ∉ r.pp
  ppHex : startsWith64Hex r.pp = false

def canonEnvG (allow : List Bytes) (r : CReq) : List (Bytes × Bytes) := r.env.filter fun kv => allow.contains kv.1
def canonEnv (r : CReq) : List (Bytes × Bytes) := canonEnvG cCachedEnv r

/-- C02 main statement (components, given equal tags) -/
def EncHashComponentsInj : Prop :=
  ∀ r₁ r₂ : CReq, WF r₁ → WF r₂ → langTagBytes r₁.lang = langTagBytes r₂.lang → encHash r₁ = encHash r₂ →
    r₁.digest = r₂.digest ∧ r₁.plusplus = r₂.plusplus ∧ r₁.args = r₂.args ∧ r₁.extra = r₂.extra ∧
    canonEnv r₁ = canonEnv r₂ ∧ r₁.pp = r₂.pp

/-- C02 tag separation -/
def EncHashLangSep : Prop :=
  ∀ r₁ r₂ : CReq, WF r₁ → WF r₂ →
    (∀ x ∈ tagExtensions, ¬ (x <+: r₁.pp) ∧ ¬ (x <+: r₂.pp)) →
    encHash r₁ = encHash r₂ → langTagBytes r₁.lang = langTagBytes r₂.lang

-- negative results (kernel-checked by evaluation)
example : langTagBytes .objcxx ≠ langTagBytes .objcxxHeader := by decide     -- since fix 55dc400 (F-C02-d)
example : langTagBytes .cuda = langTagBytes .cudaFE := rfl

end CK
