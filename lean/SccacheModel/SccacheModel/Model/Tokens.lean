namespace TokensM

/-! Sketch + proofs (design round): the job-token pool of `jobserver::Client` / `AsyncCommand::spawn` (C16). -/

structure Waiter where
  id : Nat
  cancelled : Bool
deriving Repr, DecidableEq

structure Pool where
  n : Nat                     -- tokens created at server start (`num_cpus`)
  avail : Nat                 -- tokens in the pipe
  next : Nat                  -- fresh request ids
  queue : List Waiter         -- oneshot senders queued for the helper thread, FIFO
  holding : List Nat          -- requests that own an `Acquired` (before spawn or while the child runs)
  running : List Nat          -- requests whose child process is alive
deriving Repr, DecidableEq

inductive TAct where
  | request                   -- `acquire()`: request_token + queue the sender (gets id `next`)
  | cancel (id : Nat)         -- the waiting future is dropped (client went away)
  | grant                     -- helper thread got a token from the pipe and hands it to the queue head
  | spawnOk (id : Nat)        -- `Command::spawn` succeeded: the Child keeps the token
  | spawnErr (id : Nat)       -- spawn failed: `?` drops the token
  | exit (id : Nat)           -- `wait`/`wait_with_output` returned: token dropped
deriving Repr, DecidableEq

def Pool.init (n : Nat) : Pool := { n := n, avail := n, next := 0, queue := [], holding := [], running := [] }

def tstep (p : Pool) : TAct → Pool
  | .request => { p with queue := p.queue ++ [⟨p.next, false⟩], next := p.next + 1 }
  | .cancel id => { p with queue := p.queue.map fun w => if w.id == id then { w with cancelled := true } else w }
  | .grant =>
    match p.queue with
    | [] => p
    | w :: rest =>
      if p.avail = 0 then p
      else if w.cancelled then { p with queue := rest }                         -- send fails, token goes straight back
      else { p with queue := rest, avail := p.avail - 1, holding := w.id :: p.holding }
  | .spawnOk id => if id ∈ p.holding ∧ id ∉ p.running then { p with running := id :: p.running } else p
  | .spawnErr id =>
    if id ∈ p.holding ∧ id ∉ p.running then { p with holding := p.holding.erase id, avail := p.avail + 1 } else p
  | .exit id =>
    if id ∈ p.running ∧ id ∈ p.holding then
      { p with running := p.running.erase id, holding := p.holding.erase id, avail := p.avail + 1 } else p

def trun (p : Pool) (as : List TAct) : Pool := as.foldl tstep p

structure TInv (p : Pool) : Prop where
  cons : p.avail + p.holding.length = p.n                 -- tokens are conserved
  sub : ∀ id ∈ p.running, id ∈ p.holding                  -- every live child owns a token
  nodupR : p.running.Nodup
  nodupH : p.holding.Nodup
  freshH : ∀ id ∈ p.holding, id < p.next
  freshQ : ∀ w ∈ p.queue, w.id < p.next
  sepQH : ∀ w ∈ p.queue, w.id ∉ p.holding
  nodupQ : (p.queue.map (·.id)).Nodup

theorem tinv_init (n : Nat) : TInv (Pool.init n) := by
  constructor <;> simp [Pool.init]

theorem tinv_step (p : Pool) (h : TInv p) (a : TAct) : TInv (tstep p a) := by
  cases a with
  | request =>
    simp only [tstep]
    refine ⟨h.cons, h.sub, h.nodupR, h.nodupH, fun id hi => Nat.lt_succ_of_lt (h.freshH id hi), ?_, ?_, ?_⟩
    · intro w hw
      simp only [List.mem_append, List.mem_singleton] at hw
      rcases hw with hw | hw
      · exact Nat.lt_succ_of_lt (h.freshQ w hw)
      · subst hw; exact Nat.lt_succ_self _
    · intro w hw
      simp only [List.mem_append, List.mem_singleton] at hw
      rcases hw with hw | hw
      · exact h.sepQH w hw
      · subst hw; intro hc; exact Nat.lt_irrefl _ (h.freshH _ hc)
    · simp only [List.map_append, List.map_cons, List.map_nil]
      rw [List.nodup_append]
      refine ⟨h.nodupQ, by simp, ?_⟩
      intro a ha b hb
      simp only [List.mem_singleton] at hb
      subst hb
      obtain ⟨w, hw, rfl⟩ := List.mem_map.mp ha
      exact Nat.ne_of_lt (h.freshQ w hw)
  | cancel id =>
    simp only [tstep]
    have hmap : (p.queue.map fun w => if w.id == id then { w with cancelled := true } else w).map (·.id) = p.queue.map (·.id) := by
      simp only [List.map_map]
      apply List.map_congr_left
      intro w _
      simp only [Function.comp]
      split <;> rfl
    refine ⟨h.cons, h.sub, h.nodupR, h.nodupH, h.freshH, ?_, ?_, by rw [hmap]; exact h.nodupQ⟩
    · intro w hw
      obtain ⟨w', hw', rfl⟩ := List.mem_map.mp hw
      have := h.freshQ w' hw'
      split <;> simpa using this
    · intro w hw
      obtain ⟨w', hw', rfl⟩ := List.mem_map.mp hw
      have := h.sepQH w' hw'
      split <;> simpa using this
  | grant =>
    simp only [tstep]
    cases hq : p.queue with
    | nil => simp only; exact h
    | cons w rest =>
      simp only
      have hfq := h.freshQ; have hsq := h.sepQH; have hnq := h.nodupQ
      rw [hq] at hfq hsq hnq
      by_cases ha : p.avail = 0
      · simp only [ha, if_true]; exact h
      · simp only [ha, if_false]
        have hrestQ : ∀ w' ∈ rest, w'.id < p.next := fun w' hw' => hfq w' (by simp [hw'])
        have hrestS : ∀ w' ∈ rest, w'.id ∉ p.holding := fun w' hw' => hsq w' (by simp [hw'])
        have hrestN : (rest.map (·.id)).Nodup := by simp only [List.map_cons, List.nodup_cons] at hnq; exact hnq.2
        by_cases hc : w.cancelled
        · simp only [hc, if_true]
          exact ⟨h.cons, h.sub, h.nodupR, h.nodupH, h.freshH, hrestQ, hrestS, hrestN⟩
        · simp only [hc]
          have hwn : w.id ∉ p.holding := hsq w (by simp)
          refine ⟨?_, ?_, h.nodupR, ?_, ?_, hrestQ, ?_, hrestN⟩
          · have := h.cons; show p.avail - 1 + (w.id :: p.holding).length = p.n; simp only [List.length_cons]; omega
          · intro id hid; exact List.mem_cons_of_mem _ (h.sub id hid)
          · exact List.nodup_cons.mpr ⟨hwn, h.nodupH⟩
          · intro id hid
            rcases List.mem_cons.mp hid with e | hm
            · subst e; exact hfq w (by simp)
            · exact h.freshH id hm
          · intro w' hw' hc'
            rcases List.mem_cons.mp hc' with e | hm
            · simp only [List.map_cons, List.nodup_cons] at hnq
              exact hnq.1 (e ▸ List.mem_map_of_mem hw')
            · exact hrestS w' hw' hm
  | spawnOk id =>
    simp only [tstep]
    split
    · rename_i hc
      refine ⟨h.cons, ?_, List.nodup_cons.mpr ⟨hc.2, h.nodupR⟩, h.nodupH, h.freshH, h.freshQ, h.sepQH, h.nodupQ⟩
      intro x hx
      rcases List.mem_cons.mp hx with e | hm
      · subst e; exact hc.1
      · exact h.sub x hm
    · exact h
  | spawnErr id =>
    simp only [tstep]
    split
    · rename_i hc
      refine ⟨?_, ?_, h.nodupR, h.nodupH.erase id, ?_, h.freshQ, ?_, h.nodupQ⟩
      · have h1 := h.cons; have h2 := List.length_erase_of_mem hc.1; have h3 := List.length_pos_of_mem hc.1
        show p.avail + 1 + (p.holding.erase id).length = p.n; omega
      · intro x hx
        have hne : x ≠ id := fun e => hc.2 (e ▸ hx)
        exact (List.mem_erase_of_ne hne).mpr (h.sub x hx)
      · intro x hx; exact h.freshH x (List.mem_of_mem_erase hx)
      · intro w hw hc'; exact h.sepQH w hw (List.mem_of_mem_erase hc')
    · exact h
  | exit id =>
    simp only [tstep]
    split
    · rename_i hc
      refine ⟨?_, ?_, h.nodupR.erase id, h.nodupH.erase id, ?_, h.freshQ, ?_, h.nodupQ⟩
      · have h1 := h.cons; have h2 := List.length_erase_of_mem hc.2; have h3 := List.length_pos_of_mem hc.2
        show p.avail + 1 + (p.holding.erase id).length = p.n; omega
      · intro x hx
        have hxr : x ∈ p.running := List.mem_of_mem_erase hx
        have hne : x ≠ id := fun e => (List.Nodup.not_mem_erase h.nodupR) (e ▸ hx)
        exact (List.mem_erase_of_ne hne).mpr (h.sub x hxr)
      · intro x hx; exact h.freshH x (List.mem_of_mem_erase hx)
      · intro w hw hc'; exact h.sepQH w hw (List.mem_of_mem_erase hc')
    · exact h

theorem tinv_run (as : List TAct) : ∀ p, TInv p → TInv (trun p as) := by
  induction as with
  | nil => intro p h; exact h
  | cons a as ih => intro p h; exact ih _ (tinv_step p h a)

/-- C16 `bound`: never more live compiler processes than tokens, in every reachable state -/
theorem token_bound (n : Nat) (as : List TAct) : (trun (Pool.init n) as).running.length ≤ n := by
  have h := tinv_run as _ (tinv_init n)
  have hsub : (trun (Pool.init n) as).running.length ≤ (trun (Pool.init n) as).holding.length :=
    List.Nodup.length_le_of_subset h.nodupR h.sub
  have hn : (trun (Pool.init n) as).n = n := by
    have : ∀ (as : List TAct) (p : Pool), (trun p as).n = p.n := by
      intro as
      induction as with
      | nil => intro p; rfl
      | cons a as ih =>
        intro p
        show (trun (tstep p a) as).n = p.n
        rw [ih]
        cases a <;> simp only [tstep] <;> (try split) <;> (try split) <;> (try split) <;> rfl
    exact this as _
  have := h.cons
  omega

/-- C16 `no_leak`: whenever nothing holds a token, the pool is full again -/
theorem token_no_leak (n : Nat) (as : List TAct) (hq : (trun (Pool.init n) as).holding = []) :
    (trun (Pool.init n) as).avail = (trun (Pool.init n) as).n := by
  have h := tinv_run as _ (tinv_init n)
  have := h.cons
  rw [hq] at this
  simpa using this

/-- C16 `progress`: a token in the pipe and a live waiter at the head means `grant` hands it over (FIFO) -/
theorem token_progress (p : Pool) (w : Waiter) (rest : List Waiter) (hq : p.queue = w :: rest)
    (ha : 0 < p.avail) (hc : w.cancelled = false) :
    (tstep p .grant).holding = w.id :: p.holding ∧ (tstep p .grant).queue = rest := by
  simp only [tstep, hq]
  have : ¬ p.avail = 0 := by omega
  simp [this, hc]

#print axioms token_bound

end TokensM
