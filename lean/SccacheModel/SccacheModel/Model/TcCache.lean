namespace TcM

/-! Sketch + proofs (design round): the toolchain cache at content level (C17). Evictions of the underlying
    LRU are an arbitrary `evict` step; `digest` identifies content (collisions aside). -/

abbrev Store := Nat → Option Nat     -- archive id ↦ digest of the bytes stored under that id

inductive TcOp where
  | insertWith (id : Nat) (contentDigest : Nat)    -- upload under a declared id
  | insertFile (contentDigest : Nat)               -- client side: id := digest of the file
  | remove (id : Nat)
  | evict (id : Nat)
  | reopen
deriving Repr, DecidableEq

def supd (s : Store) (k : Nat) (v : Option Nat) : Store := fun x => if x = k then v else s x

/-- pinned `TcCache::insert_with`: the file is written under the declared id, re-hashed, and on a mismatch an
    error is returned — but the file stays (`// TODO: remove created toolchain?`) -/
def tcStepPinned (s : Store) : TcOp → Store
  | .insertWith id d => supd s id (some d)
  | .insertFile d => supd s d (some d)
  | .remove id => supd s id none
  | .evict id => supd s id none
  | .reopen => s

/-- planned repair: remove the entry when the digest does not match -/
def tcStepFixed (s : Store) : TcOp → Store
  | .insertWith id d => if d = id then supd s id (some d) else supd s id none
  | .insertFile d => supd s d (some d)
  | .remove id => supd s id none
  | .evict id => supd s id none
  | .reopen => s

def TcSound (s : Store) : Prop := ∀ id d, s id = some d → d = id

theorem tc_step_fixed (s : Store) (h : TcSound s) (op : TcOp) : TcSound (tcStepFixed s op) := by
  intro id d hd
  cases op with
  | insertWith i c =>
    simp only [tcStepFixed] at hd
    split at hd
    · rename_i e; subst e
      simp only [supd] at hd
      split at hd
      · rename_i e2; cases hd; exact e2.symm
      · exact h id d hd
    · simp only [supd] at hd
      split at hd
      · cases hd
      · exact h id d hd
  | insertFile c =>
    simp only [tcStepFixed, supd] at hd
    split at hd
    · rename_i e; cases hd; exact e.symm
    · exact h id d hd
  | remove i =>
    simp only [tcStepFixed, supd] at hd
    split at hd
    · cases hd
    · exact h id d hd
  | evict i =>
    simp only [tcStepFixed, supd] at hd
    split at hd
    · cases hd
    · exact h id d hd
  | reopen => exact h id d hd

/-- C17 `tc_sound` (repaired code): after any history of uploads (matching or not), insert-file, removals,
    evictions and reopenings, whatever is present under an id has content whose digest is that id -/
theorem tc_sound (ops : List TcOp) : TcSound (ops.foldl tcStepFixed (fun _ => none)) := by
  have : ∀ (ops : List TcOp) (s : Store), TcSound s → TcSound (ops.foldl tcStepFixed s) := by
    intro ops
    induction ops with
    | nil => intro s h; exact h
    | cons o os ih => intro s h; exact ih _ (tc_step_fixed s h o)
  exact this ops _ (by intro id d h; cases h)

/-- F-C17-a, kernel-checked: on the pinned code a mismatching upload leaves foreign content under the id -/
theorem tc_pinned_witness : ([TcOp.insertWith 1 2].foldl tcStepPinned (fun _ => none)) 1 = some 2 := by decide

end TcM
