namespace LruM

/-! Executable model of `lru_disk_cache::LruDiskCache` after the `fix:` commits for F-C07-a (no panic on an empty
    index: `make_space` refuses) and F-C07-b (an overwritten key is un-indexed before space is made).
    F-C07-c (reservations of dropped / failed entries are never released) is modelled as it is in the code. -/

abbrev Key := Nat

inductive Res where
  | ok | tooLarge | notInCache | ioErr | panic
deriving Repr, DecidableEq

structure Pend where
  handle : Nat
  key : Key
  reserved : Nat
  written : Nat        -- size of the temp file so far
deriving Repr, DecidableEq

structure Lru where
  cap : Nat
  entries : List (Key × Nat) := []     -- head = least recently used
  pendingKeys : List Key := []          -- `pending: Vec<OsString>`
  pendingSize : Nat := 0
  files : List (Key × Nat) := []        -- non-temporary files on disk, key ↦ size
  temps : List Pend := []               -- live temp files (handles the caller still owns)
  nextHandle : Nat := 0
  poisoned : Bool := false              -- a panic happened inside (the enclosing mutex would be poisoned)
deriving Repr, DecidableEq

namespace Lru

def lruSize (c : Lru) : Nat := (c.entries.map (·.2)).sum
def size (c : Lru) : Nat := c.lruSize + c.pendingSize
def len (c : Lru) : Nat := c.entries.length
def containsKey (c : Lru) (k : Key) : Bool := c.entries.any (·.1 == k)

def eraseKey (l : List (Key × Nat)) (k : Key) : List (Key × Nat) := l.filter (·.1 != k)

/-- `LruCache::insert` : replace and move to the back (most recent). The inner
`while size > capacity { remove_lru() }` is modelled too (it would drop index entries
without deleting files). -/
def lruInsertFuel : Nat → Nat → List (Key × Nat) → List (Key × Nat)
  | 0, _, es => es
  | f + 1, cap, es => if (es.map (·.2)).sum > cap then lruInsertFuel f cap es.tail else es

def lruInsert (c : Lru) (k : Key) (n : Nat) : Lru :=
  let es := eraseKey c.entries k ++ [(k, n)]
  { c with entries := lruInsertFuel (es.length) c.cap es }

/-- `make_space(size)` with fuel = number of index entries + 1 (the fuel never runs out: each round removes an entry) -/
def makeSpaceFuel : Nat → Lru → Nat → Lru × Res
  | 0, c, _ => (c, .tooLarge)
  | f + 1, c, n =>
    if c.size + n > c.cap then
      match c.entries with
      | [] => (c, .tooLarge)          -- nothing left to evict: refuse (was: expect("Unexpectedly empty cache!"))
      | (k, _) :: rest => makeSpaceFuel f { c with entries := rest, files := eraseKey c.files k } n
    else (c, .ok)

def makeSpace (c : Lru) (n : Nat) : Lru × Res :=
  if n > c.cap then (c, .tooLarge) else makeSpaceFuel (c.entries.length + 1) c n

def addFile (c : Lru) (k : Key) (n : Nat) : Lru × Res :=
  match c.makeSpace n with
  | (c', .ok) => (c'.lruInsert k n, .ok)
  | r => r

/-- `insert_bytes(key, bytes)` with `bytes.len() = n` -/
def insertBytes (c : Lru) (k : Key) (n : Nat) : Lru × Res :=
  if n > c.cap then (c, .tooLarge) else
  -- File::create + write_all, then the stale index entry of `k` is dropped (fix of F-C07-b)
  let c1 := { c with files := eraseKey c.files k ++ [(k, n)], entries := eraseKey c.entries k }
  match c1.addFile k n with
  | (c2, .ok) => (c2, .ok)
  | (c2, r) => ({ c2 with files := eraseKey c2.files k }, r)     -- the file just created is removed again

/-- `prepare_add(key, size)`; the handle is returned through `nextHandle - 1` -/
def prepareAdd (c : Lru) (k : Key) (n : Nat) : Lru × Res :=
  match c.makeSpace n with
  | (c', .ok) =>
    ({ c' with pendingKeys := c'.pendingKeys ++ [k], pendingSize := c'.pendingSize + n,
               temps := c'.temps ++ [⟨c'.nextHandle, k, n, 0⟩], nextHandle := c'.nextHandle + 1 }, .ok)
  | r => r

def write (c : Lru) (h : Nat) (m : Nat) : Lru :=
  { c with temps := c.temps.map fun p => if p.handle == h then { p with written := p.written + m } else p }

def eraseFirst (l : List Key) (k : Key) : List Key := l.erase k

/-- `commit(entry)` -/
def commit (c : Lru) (h : Nat) : Lru × Res :=
  match c.temps.find? (·.handle == h) with
  | none => (c, .ioErr)
  | some p =>
    let c0 := { c with temps := c.temps.filter (·.handle != h) }   -- the entry is consumed either way
    if p.written > c0.cap then (c0, .tooLarge) else      -- fix F-C07-d: an entry larger than the whole cache is refused before anything is evicted for it
    match c0.makeSpace (p.written - p.reserved) with
    | (c1, .ok) =>
      let c2 := { c1 with pendingKeys := eraseFirst c1.pendingKeys p.key,
                          pendingSize := c1.pendingSize - p.reserved,
                          files := eraseKey c1.files p.key ++ [(p.key, p.written)] }
      (c2.lruInsert p.key p.written, .ok)
    | r => r

/-- dropping an uncommitted entry: the temp file disappears, the reservation stays -/
def dropEntry (c : Lru) (h : Nat) : Lru := { c with temps := c.temps.filter (·.handle != h) }

def get (c : Lru) (k : Key) : Lru × Res :=
  match c.entries.find? (·.1 == k) with
  | none => (c, .notInCache)
  | some e =>
    let c1 := { c with entries := eraseKey c.entries k ++ [e] }       -- get_refresh
    if c.files.any (·.1 == k) then (c1, .ok) else (c1, .ioErr)        -- set_file_times on a missing file

def remove (c : Lru) (k : Key) : Lru × Res :=
  if c.containsKey k then
    let c1 := { c with entries := eraseKey c.entries k }
    if c.files.any (·.1 == k) then ({ c1 with files := eraseKey c.files k }, .ok) else (c1, .ioErr)
  else (c, .ok)

def externalDelete (c : Lru) (k : Key) : Lru := { c with files := eraseKey c.files k }

/-- another process stores a file at a key's path behind the cache's back (a directory shared between servers): the index does
    not know it until the next start-up scan; a lookup of that key is a miss and touches nothing -/
def externalAdd (c : Lru) (k : Key) (n : Nat) : Lru := { c with files := eraseKey c.files k ++ [(k, n)] }

/-- drop the value and open the directory again; `order` lists the files oldest-mtime first -/
def reopen (c : Lru) (order : List (Key × Nat)) : Lru :=
  let fresh : Lru := { cap := c.cap, files := order, nextHandle := c.nextHandle }
  order.foldl (fun acc (k, n) =>
    if n > acc.cap then { acc with files := eraseKey acc.files k }
    else (acc.addFile k n).1) fresh

/-- `DiskCache::new` opens the index of a **read-only** cache with `u64::MAX` as its size limit (fix a5fe656, F-C15-a): nothing is ever
    stored there, so nothing has to make room -/
def u64Max : Nat := 18446744073709551615

def openReadOnly (c : Lru) (order : List (Key × Nat)) : Lru := ({ c with cap := u64Max } : Lru).reopen order

end Lru

end LruM
