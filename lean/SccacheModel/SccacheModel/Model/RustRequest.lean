import SccacheModel.Model.RustKey
import SccacheModel.Gen.RustArgs

/-! # From a rustc command line to the key pre-image

`RustHasher::generate_hash_key` end to end on the model side: `RArgsM.parseArguments` (the parsed argument list, the sorted
externs, the json target), the environment filter (`RUSTC_COLOR` dropped, sorted, `CARGO_*` kept except `CARGO_MAKEFLAGS` and
`CARGO_REGISTRIES_*`), the sorted env-deps of the dep-info, and `RustKeyM.encRust`.  The compiler (dep-info: source list and
env-deps) and the file digests are inputs. Tied byte-exactly (BLAKE3 of the pre-image = the real key) by
`harness/src/bin/h_rustkey.rs` with a real rustc. -/

namespace RustReqM
open RArgsM

abbrev Bytes := List UInt8

def lePair (a b : Bytes × Bytes) : Bool := if a.1 == b.1 then RustKeyM.leBytes a.2 b.2 else RustKeyM.leBytes a.1 b.1

def sCargo : Bytes := [67, 65, 82, 71, 79, 95]                                        -- CARGO_
def sCargoMakeflags : Bytes := [67, 65, 82, 71, 79, 95, 77, 65, 75, 69, 70, 76, 65, 71, 83]
def sCargoRegistries : Bytes := [67, 65, 82, 71, 79, 95, 82, 69, 71, 73, 83, 84, 82, 73, 69, 83, 95]
def sRustcColor : Bytes := [82, 85, 83, 84, 67, 95, 67, 79, 76, 79, 82]

/-- the `CARGO_*` part of the key: `RUSTC_COLOR` filtered out, sorted, prefix kept, two exclusions -/
def cargoEnv (env : List (Bytes × Bytes)) : List (Bytes × Bytes) :=
  ((env.filter fun kv => kv.1 != sRustcColor).mergeSort lePair).filter fun kv =>
    sCargo.isPrefixOf kv.1 && kv.1 != sCargoMakeflags && !sCargoRegistries.isPrefixOf kv.1

/-- digest of a file by path (`none` = not supplied: the real code would fail to hash it); the file system does not distinguish
    `a/./b`, `a//b` and `a/b` -/
def lookup (files : List (Bytes × Bytes)) (p : Bytes) : Option Bytes := (files.find? (fun f => comps f.1 == comps p)).map (·.2)

inductive KeyRes where
  | notCacheable (r : String)
  | missingDigest (p : Bytes)
  | ok (pre : Bytes)

/-- the pre-image for a command line, or why there is none -/
def preimage (version : Bytes) (shlibs : List Bytes) (exists_ : Bytes → Bool) (cwd : Bytes) (argv : List Bytes)
    (env : List (Bytes × Bytes)) (sources : List Bytes) (envDeps : List (Bytes × Bytes)) (files : List (Bytes × Bytes))
    (rustcVersion : Bytes) : KeyRes :=
  match parseArguments rustArgs allowedEmit exists_ cwd argv with
  | .notCompilation => .notCacheable "not_compilation"
  | .cannotCache _ => .notCacheable "cannot_cache"
  | .ok st staticlibs _ _ _ =>
    let need (ps : List Bytes) : Except Bytes (List Bytes) :=
      ps.foldr (fun p acc => match lookup files p, acc with
        | some d, .ok l => .ok (d :: l) | none, _ => .error p | _, .error e => .error e) (.ok [])
    match need sources, need (st.externs.map (pjoin cwd)), need (staticlibs.map (pjoin cwd)), need ((st.targetJson.toList).map (pjoin cwd)) with
    | .ok sh, .ok eh, .ok lh, .ok th =>
      .ok (RustKeyM.encRust { version := version, shlibDigests := shlibs, args := st.args, targetJson := st.targetJson.isSome,
                              sourceHashes := sh, externHashes := eh, staticlibHashes := lh, targetJsonHash := th,
                              envDeps := envDeps.mergeSort lePair, cargoEnv := cargoEnv env, cwd := cwd, rustcVersion := rustcVersion })
    | .error p, _, _, _ | _, .error p, _, _ | _, _, .error p, _ | _, _, _, .error p => .missingDigest p

end RustReqM
