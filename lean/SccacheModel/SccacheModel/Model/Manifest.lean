namespace ManifestM

/-! Sketch + proofs (design round): the manifest check of preprocessor-cache mode (C04),
    `PreprocessorCacheEntry::result_matches` as written on the pinned tree. -/

structure FileSt where
  content : Nat          -- identifies the bytes (their digest, collisions aside)
  size : Nat
  mtime : Nat
  ctime : Nat
  hasDate : Bool
  hasTime : Bool
  hasTimestamp : Bool
deriving Repr, DecidableEq

abbrev FS := Nat → Option FileSt

structure Inc where
  path : Nat
  digest : Nat
  size : Nat
  mtime : Option Nat     -- recorded only when the compile started strictly after max(mtime, ctime)
  ctime : Option Nat
deriving Repr, DecidableEq

structure Cfg where
  fileStatMatches : Bool
  useCtimeForStat : Bool
  ignoreTimeMacros : Bool
deriving Repr, DecidableEq

def statHit (cfg : Cfg) (f : FileSt) (inc : Inc) : Bool :=
  cfg.fileStatMatches &&
    match inc.mtime, inc.ctime with
    | some m, some c => cfg.useCtimeForStat && f.mtime == m && f.ctime == c
    | some m, none => f.mtime == m
    | _, _ => false

/-- `result_matches` (after the fix of F-C04-a: with `ignore_time_macros` every include is compared); note the
    skipped comparison when a time macro is present (F-C04-b) -/
def resultMatches (cfg : Cfg) (fs : FS) : List Inc → Bool
  | [] => true
  | inc :: rest =>
    match fs inc.path with
    | none => false
    | some f =>
      if f.size != inc.size then false
      else if statHit cfg f inc then resultMatches cfg fs rest
      else if cfg.ignoreTimeMacros then inc.digest == f.content && resultMatches cfg fs rest
      else
        let anyTM := f.hasDate || f.hasTime || f.hasTimestamp
        if !anyTM && inc.digest != f.content then false
        else if f.hasTime then false
        else resultMatches cfg fs rest

/-- what `add_result` records for a file (at compile start `t0`) -/
def record (t0 : Nat) (path : Nat) (f : FileSt) : Inc :=
  let ok := decide (t0 > max f.mtime f.ctime)
  { path := path, digest := f.content, size := f.size,
    mtime := if ok then some f.mtime else none, ctime := if ok then some f.ctime else none }

/-- every file that differs from its state at recording time was (re)written at or after `t0`:
    the kernel sets ctime from a monotone clock on every change -/
def EvolvedSince (t0 : Nat) (fs0 fs1 : FS) : Prop :=
  ∀ p f1, fs1 p = some f1 → fs0 p = some f1 ∨ t0 ≤ f1.ctime

def NoTimeMacros (fs : FS) (incs : List Inc) : Prop :=
  ∀ inc ∈ incs, ∀ f, fs inc.path = some f → f.hasDate = false ∧ f.hasTime = false ∧ f.hasTimestamp = false

/-- no header holds time-macro text, or time macros are ignored by configuration (then contents are always compared) -/
def TimeMacroFree (cfg : Cfg) (fs : FS) (incs : List Inc) : Prop :=
  cfg.ignoreTimeMacros = true ∨ NoTimeMacros fs incs

/-- C04 `manifest_hit_sound_partial`: for every option combination, every recorded include list and every file
    system evolved from the recorded one, a manifest hit implies that **every** recorded include still has its
    recorded contents — provided no header holds time-macro text under the default handling (F-C04-b). -/
theorem manifest_hit_sound_partial (cfg : Cfg) (t0 : Nat) (fs0 fs1 : FS)
    (hev : EvolvedSince t0 fs0 fs1)
    (incs : List Inc) (hrec : ∀ inc ∈ incs, ∃ f0, fs0 inc.path = some f0 ∧ inc = record t0 inc.path f0)
    (hntm : TimeMacroFree cfg fs1 incs)
    (hm : resultMatches cfg fs1 incs = true) :
    ∀ inc ∈ incs, ∃ f1, fs1 inc.path = some f1 ∧ f1.content = inc.digest := by
  induction incs with
  | nil => intro inc h; cases h
  | cons inc rest ih =>
    obtain ⟨f0, hf0, hinc⟩ := hrec inc (by simp)
    simp only [resultMatches] at hm
    cases hfs : fs1 inc.path with
    | none => simp [hfs] at hm
    | some f1 =>
      simp only [hfs] at hm
      by_cases hsz : (f1.size != inc.size) = true
      · simp [hsz] at hm
      · simp only [hsz] at hm
        have hntm' : TimeMacroFree cfg fs1 rest := by
          rcases hntm with h | h
          · exact Or.inl h
          · exact Or.inr (fun x hx => h x (by simp [hx]))
        have hrest : ∀ (h' : resultMatches cfg fs1 rest = true), ∀ x ∈ rest, ∃ f, fs1 x.path = some f ∧ f.content = x.digest :=
          fun h' => ih (fun x hx => hrec x (by simp [hx])) hntm' h'
        by_cases hst : statHit cfg f1 inc = true
        · simp only [hst, if_true] at hm
          -- stat hit: recorded ctime < t0, equal to the current one, so the file is unchanged
          have hc : f1.content = inc.digest := by
            rcases hev inc.path f1 hfs with hsame | hnew
            · rw [hf0] at hsame; cases hsame; rw [hinc]; rfl
            · exfalso
              simp only [statHit, Bool.and_eq_true] at hst
              rw [hinc] at hst
              simp only [record] at hst
              by_cases hok : t0 > max f0.mtime f0.ctime
              · simp only [hok, decide_true, if_true, Bool.and_eq_true, beq_iff_eq] at hst
                have : f1.ctime = f0.ctime := hst.2.2
                omega
              · simp [hok] at hst
          intro x hx
          rcases List.mem_cons.mp hx with e | hx'
          · subst e; exact ⟨f1, hfs, hc⟩
          · exact hrest hm x hx'
        · simp only [hst] at hm
          by_cases hig : cfg.ignoreTimeMacros = true
          · simp only [hig, if_true, Bool.false_eq_true, if_false, Bool.and_eq_true, beq_iff_eq] at hm
            intro x hx
            rcases List.mem_cons.mp hx with e | hx'
            · subst e; exact ⟨f1, hfs, hm.1.symm⟩
            · exact hrest hm.2 x hx'
          · have hig' : cfg.ignoreTimeMacros = false := by simpa using hig
            have hnt : f1.hasDate = false ∧ f1.hasTime = false ∧ f1.hasTimestamp = false := by
              rcases hntm with h | h
              · rw [hig'] at h; cases h
              · exact h inc (by simp) f1 hfs
            simp only [hig', Bool.false_eq_true, if_false] at hm
            simp only [hnt.1, hnt.2.1, hnt.2.2, Bool.or_false, Bool.not_false, Bool.true_and] at hm
            by_cases hd : (inc.digest != f1.content) = true
            · simp [hd] at hm
            · simp only [hd] at hm
              have hc' : inc.digest = f1.content := by simpa using hd
              intro x hx
              rcases List.mem_cons.mp hx with e | hx'
              · subst e; exact ⟨f1, hfs, hc'.symm⟩
              · exact hrest (by simpa using hm) x hx'

/-- F-C04-a (fixed in /repo): with `ignore_time_macros`, an edit of the *second* header is now detected.
    On the pinned tree this evaluated to `true` (the loop returned after the first include). -/
theorem ignore_time_macros_second_header_detected :
    let cfg : Cfg := ⟨false, true, true⟩
    let fs1 : FS := fun p => if p = 0 then some ⟨10, 5, 1, 1, false, false, false⟩ else if p = 1 then some ⟨99, 5, 9, 9, false, false, false⟩ else none
    resultMatches cfg fs1 [⟨0, 10, 5, none, none⟩, ⟨1, 20, 5, none, none⟩] = false := by decide

/-- F-C04-b: a header containing `__DATE__` is never content-compared -/
theorem date_header_witness :
    let cfg : Cfg := ⟨false, true, false⟩
    let fs1 : FS := fun p => if p = 0 then some ⟨77, 5, 1, 1, true, false, false⟩ else none
    resultMatches cfg fs1 [⟨0, 10, 5, none, none⟩] = true := by decide

#print axioms manifest_hit_sound_partial

end ManifestM
