namespace ManifestM

/-! Sketch + proofs (design round): the manifest check of preprocessor-cache mode (C04),
    `PreprocessorCacheEntry::result_matches` as written on the pinned tree. -/

structure FileSt where
  content : Nat          -- identifies the bytes (their digest, collisions aside)
  size : Nat
  mtime : Nat
  ctime : Nat
  hasDate : Bool
  hasTime : Bool
  hasTimestamp : Bool
deriving Repr, DecidableEq

abbrev FS := Nat → Option FileSt

structure Inc where
  path : Nat
  digest : Nat
  size : Nat
  mtime : Option Nat     -- recorded only when the compile started strictly after max(mtime, ctime)
  ctime : Option Nat
deriving Repr, DecidableEq

structure Cfg where
  fileStatMatches : Bool
  useCtimeForStat : Bool
  ignoreTimeMacros : Bool
deriving Repr, DecidableEq

def statHit (cfg : Cfg) (f : FileSt) (inc : Inc) : Bool :=
  cfg.fileStatMatches &&
    match inc.mtime, inc.ctime with
    | some m, some c => cfg.useCtimeForStat && f.mtime == m && f.ctime == c
    | some m, none => f.mtime == m
    | _, _ => false

/-- `result_matches` after the fixes of F-C04-a (with `ignore_time_macros` every include is compared) and F-C04-b (contents are compared
    whether or not the file mentions a time macro; `__TIME__` and `__DATE__` never hit; `__TIMESTAMP__` hits only at the recorded mtime) -/
def resultMatches (cfg : Cfg) (fs : FS) : List Inc → Bool
  | [] => true
  | inc :: rest =>
    match fs inc.path with
    | none => false
    | some f =>
      if f.size != inc.size then false
      else if statHit cfg f inc then resultMatches cfg fs rest
      else if cfg.ignoreTimeMacros then inc.digest == f.content && resultMatches cfg fs rest
      else
        if inc.digest != f.content then false
        else if f.hasTime then false
        else if f.hasDate then false
        else if f.hasTimestamp && inc.mtime != some f.mtime then false
        else resultMatches cfg fs rest

/-- the same function before the fix of F-C04-b: no comparison at all for a file that mentions a time macro -/
def resultMatchesBefore (cfg : Cfg) (fs : FS) : List Inc → Bool
  | [] => true
  | inc :: rest =>
    match fs inc.path with
    | none => false
    | some f =>
      if f.size != inc.size then false
      else if statHit cfg f inc then resultMatchesBefore cfg fs rest
      else if cfg.ignoreTimeMacros then inc.digest == f.content && resultMatchesBefore cfg fs rest
      else
        let anyTM := f.hasDate || f.hasTime || f.hasTimestamp
        if !anyTM && inc.digest != f.content then false
        else if f.hasTime then false
        else resultMatchesBefore cfg fs rest

/-- what `add_result` records for a file (at compile start `t0`) -/
def record (t0 : Nat) (path : Nat) (f : FileSt) : Inc :=
  let ok := decide (t0 > max f.mtime f.ctime)
  { path := path, digest := f.content, size := f.size,
    mtime := if ok then some f.mtime else none, ctime := if ok then some f.ctime else none }

/-- every file that differs from its state at recording time was (re)written at or after `t0`:
    the kernel sets ctime from a monotone clock on every change -/
def EvolvedSince (t0 : Nat) (fs0 fs1 : FS) : Prop :=
  ∀ p f1, fs1 p = some f1 → fs0 p = some f1 ∨ t0 ≤ f1.ctime

def NoTimeMacros (fs : FS) (incs : List Inc) : Prop :=
  ∀ inc ∈ incs, ∀ f, fs inc.path = some f → f.hasDate = false ∧ f.hasTime = false ∧ f.hasTimestamp = false

/-- no header holds time-macro text, or time macros are ignored by configuration (then contents are always compared) -/
def TimeMacroFree (cfg : Cfg) (fs : FS) (incs : List Inc) : Prop :=
  cfg.ignoreTimeMacros = true ∨ NoTimeMacros fs incs

/-- C04 `manifest_hit_sound`: for every option combination, every recorded include list and every file
    system evolved from the recorded one, a manifest hit implies that **every** recorded include still has its
    recorded contents (since the fix of F-C04-b also when headers hold time-macro text). -/
theorem manifest_hit_sound (cfg : Cfg) (t0 : Nat) (fs0 fs1 : FS)
    (hev : EvolvedSince t0 fs0 fs1)
    (incs : List Inc) (hrec : ∀ inc ∈ incs, ∃ f0, fs0 inc.path = some f0 ∧ inc = record t0 inc.path f0)
    (hm : resultMatches cfg fs1 incs = true) :
    ∀ inc ∈ incs, ∃ f1, fs1 inc.path = some f1 ∧ f1.content = inc.digest := by
  induction incs with
  | nil => intro inc h; cases h
  | cons inc rest ih =>
    obtain ⟨f0, hf0, hinc⟩ := hrec inc (by simp)
    simp only [resultMatches] at hm
    cases hfs : fs1 inc.path with
    | none => simp [hfs] at hm
    | some f1 =>
      simp only [hfs] at hm
      by_cases hsz : (f1.size != inc.size) = true
      · simp [hsz] at hm
      · simp only [hsz] at hm
        have hrest : ∀ (h' : resultMatches cfg fs1 rest = true), ∀ x ∈ rest, ∃ f, fs1 x.path = some f ∧ f.content = x.digest :=
          fun h' => ih (fun x hx => hrec x (by simp [hx])) h'
        by_cases hst : statHit cfg f1 inc = true
        · simp only [hst, if_true] at hm
          -- stat hit: recorded ctime < t0, equal to the current one, so the file is unchanged
          have hc : f1.content = inc.digest := by
            rcases hev inc.path f1 hfs with hsame | hnew
            · rw [hf0] at hsame; cases hsame; rw [hinc]; rfl
            · exfalso
              simp only [statHit, Bool.and_eq_true] at hst
              rw [hinc] at hst
              simp only [record] at hst
              by_cases hok : t0 > max f0.mtime f0.ctime
              · simp only [hok, decide_true, if_true, Bool.and_eq_true, beq_iff_eq] at hst
                have : f1.ctime = f0.ctime := hst.2.2
                omega
              · simp [hok] at hst
          intro x hx
          rcases List.mem_cons.mp hx with e | hx'
          · subst e; exact ⟨f1, hfs, hc⟩
          · exact hrest hm x hx'
        · simp only [hst] at hm
          by_cases hig : cfg.ignoreTimeMacros = true
          · simp only [hig, if_true, Bool.false_eq_true, if_false, Bool.and_eq_true, beq_iff_eq] at hm
            intro x hx
            rcases List.mem_cons.mp hx with e | hx'
            · subst e; exact ⟨f1, hfs, hm.1.symm⟩
            · exact hrest hm.2 x hx'
          · have hig' : cfg.ignoreTimeMacros = false := by simpa using hig
            simp only [hig', Bool.false_eq_true, if_false] at hm
            by_cases hd : (inc.digest != f1.content) = true
            · simp [hd] at hm
            · simp only [hd] at hm
              have hc' : inc.digest = f1.content := by simpa using hd
              have hr : resultMatches cfg fs1 rest = true := by
                by_cases h1 : f1.hasTime = true
                · simp [h1] at hm
                · by_cases h2 : f1.hasDate = true
                  · simp [h1, h2] at hm
                  · by_cases h3 : (f1.hasTimestamp && inc.mtime != some f1.mtime) = true
                    · simp [h1, h2, h3] at hm
                    · simpa [h1, h2, h3] using hm
              intro x hx
              rcases List.mem_cons.mp hx with e | hx'
              · subst e; exact ⟨f1, hfs, hc'.symm⟩
              · exact hrest hr x hx'

/-- `__TIMESTAMP__` expands to the header's modification time: a hit on a header that mentions it (default handling, no stat hit)
    implies the header still has the modification time it was recorded with — and a header that mentions `__DATE__` or `__TIME__` never hits -/
theorem time_macro_header_hit (cfg : Cfg) (fs : FS) (inc : Inc) (rest : List Inc) (f : FileSt)
    (hf : fs inc.path = some f) (hcfg : cfg.ignoreTimeMacros = false) (hst : statHit cfg f inc = false)
    (hm : resultMatches cfg fs (inc :: rest) = true) :
    f.hasTime = false ∧ f.hasDate = false ∧ (f.hasTimestamp = true → inc.mtime = some f.mtime) := by
  simp only [resultMatches, hf, hst, hcfg] at hm
  by_cases hsz : (f.size != inc.size) = true
  · simp [hsz] at hm
  · simp only [hsz] at hm
    by_cases hd : (inc.digest != f.content) = true
    · simp [hd] at hm
    · simp only [hd] at hm
      by_cases h1 : f.hasTime = true
      · simp [h1] at hm
      · by_cases h2 : f.hasDate = true
        · simp [h1, h2] at hm
        · refine ⟨by simpa using h1, by simpa using h2, ?_⟩
          intro h3
          by_cases h4 : (inc.mtime != some f.mtime) = true
          · simp [h1, h2, h3, h4] at hm
          · simpa using h4

/-- F-C04-a (fixed in /repo): with `ignore_time_macros`, an edit of the *second* header is now detected.
    On the pinned tree this evaluated to `true` (the loop returned after the first include). -/
theorem ignore_time_macros_second_header_detected :
    let cfg : Cfg := ⟨false, true, true⟩
    let fs1 : FS := fun p => if p = 0 then some ⟨10, 5, 1, 1, false, false, false⟩ else if p = 1 then some ⟨99, 5, 9, 9, false, false, false⟩ else none
    resultMatches cfg fs1 [⟨0, 10, 5, none, none⟩, ⟨1, 20, 5, none, none⟩] = false := by decide

/-- F-C04-b (fixed): before the fix a header containing `__DATE__` was never content-compared; now the same state misses -/
theorem date_header_witness :
    let cfg : Cfg := ⟨false, true, false⟩
    let fs1 : FS := fun p => if p = 0 then some ⟨77, 5, 1, 1, true, false, false⟩ else none
    resultMatchesBefore cfg fs1 [⟨0, 10, 5, none, none⟩] = true ∧ resultMatches cfg fs1 [⟨0, 10, 5, none, none⟩] = false := by decide

/-- … and a touched header that uses `__TIMESTAMP__` (same contents, new mtime) was a hit -/
theorem timestamp_header_witness :
    let cfg : Cfg := ⟨false, true, false⟩
    let fs1 : FS := fun p => if p = 0 then some ⟨10, 5, 9, 9, false, false, true⟩ else none
    resultMatchesBefore cfg fs1 [⟨0, 10, 5, some 1, some 1⟩] = true ∧ resultMatches cfg fs1 [⟨0, 10, 5, some 1, some 1⟩] = false := by decide

#print axioms manifest_hit_sound

end ManifestM
