namespace StartupM

/-! Sketch + proofs (design round): cold start of several clients against one address (C20). -/

inductive SrvState where
  | starting            -- process spawned, has not tried to bind yet
  | serving             -- bound the address, notified `Ok`, serves
  | exitedAddrInUse     -- bind failed with AddrInUse, notified the parent, exited
deriving Repr, DecidableEq

inductive CliState where
  | fresh
  | waiting (srv : Nat)     -- connection refused, spawned server `srv`, waits for its start-up notification
  | connected (srv : Nat)
deriving Repr, DecidableEq

structure Net where
  unixSocket : Bool                 -- `true`: the UNREPAIRED Unix-path bind (unlink whatever is there, then bind); `false`: an exclusive bind —
                                    -- a TCP port, and since fix F-C20-a also a Unix path (lock file, liveness probe, only then unlink + bind)
  bound : Option Nat                -- which server the address currently leads to
  servers : List SrvState           -- index = server id
  clients : List CliState           -- index = client id
deriving Repr, DecidableEq

inductive SAct where
  | connect (c : Nat)       -- `connect_to_server`; on refusal spawn a server and wait
  | bind (s : Nat)          -- the spawned server tries to bind
  | notified (c : Nat)      -- the client got `Ok` or `AddrInUse` from its child and reconnects
deriving Repr, DecidableEq

def Net.init (unixSocket : Bool) (nClients : Nat) : Net :=
  { unixSocket := unixSocket, bound := none, servers := [], clients := List.replicate nClients .fresh }

/-- what `bind` does to the address table: (new owner, outcome for the binding server) -/
def bindOutcome (unixSocket : Bool) (bound : Option Nat) (s : Nat) : Option Nat × SrvState :=
  if unixSocket then (some s, .serving)            -- remove_file + bind: always succeeds (before fix F-C20-a)
  else match bound with
    | none => (some s, .serving)
    | some b => (some b, .exitedAddrInUse)

def sstep (n : Net) : SAct → Net
  | .connect c =>
    match n.clients[c]? with
    | some .fresh =>
      match n.bound with
      | some s => { n with clients := n.clients.set c (.connected s) }
      | none => { n with servers := n.servers ++ [.starting], clients := n.clients.set c (.waiting n.servers.length) }
    | _ => n
  | .bind s =>
    match n.servers[s]? with
    | some .starting =>
      { n with bound := (bindOutcome n.unixSocket n.bound s).1,
               servers := n.servers.set s (bindOutcome n.unixSocket n.bound s).2 }
    | _ => n
  | .notified c =>
    match n.clients[c]? with
    | some (.waiting s) =>
      match n.servers[s]?, n.bound with
      | some .starting, _ => n                                   -- no notification yet
      | some _, some b => { n with clients := n.clients.set c (.connected b) }
      | _, _ => n
    | _ => n

def srun (n : Net) (as : List SAct) : Net := as.foldl sstep n

def servingCount (n : Net) : Nat := (n.servers.filter (· = .serving)).length

/-- TCP: the bound server is serving, and it is the only serving one -/
structure TcpInv (n : Net) : Prop where
  tcp : n.unixSocket = false
  boundServing : ∀ s : Nat, n.bound = some s → n.servers[s]? = some SrvState.serving
  onlyBound : ∀ s : Nat, n.servers[s]? = some SrvState.serving → n.bound = some s
  connectedToBound : ∀ c s : Nat, n.clients[c]? = some (CliState.connected s) → n.bound = some s

theorem tcp_init (k : Nat) : TcpInv (Net.init false k) := by
  refine ⟨rfl, by simp [Net.init], by simp [Net.init], ?_⟩
  intro c s h
  simp only [Net.init] at h
  rw [List.getElem?_replicate] at h
  split at h <;> cases h

theorem tcp_step (n : Net) (h : TcpInv n) (a : SAct) : TcpInv (sstep n a) := by
  cases a with
  | connect c =>
    simp only [sstep]
    split
    · split
      · rename_i b hb
        refine ⟨h.tcp, h.boundServing, h.onlyBound, ?_⟩
        intro c' s' hc
        simp only [List.getElem?_set] at hc
        split at hc
        · split at hc
          · cases hc; exact hb
          · cases hc
        · exact h.connectedToBound c' s' hc
      · rename_i hb
        refine ⟨h.tcp, ?_, ?_, ?_⟩
        · intro s hs; rw [hb] at hs; cases hs
        · intro s hs
          rw [List.getElem?_append] at hs
          split at hs
          · exact absurd (h.onlyBound s hs) (by simp [hb])
          · rw [List.getElem?_singleton] at hs
            split at hs <;> cases hs
        · intro c' s' hc
          simp only [List.getElem?_set] at hc
          split at hc
          · split at hc <;> cases hc
          · exact h.connectedToBound c' s' hc
    · exact h
  | bind s =>
    simp only [sstep]
    split
    · rename_i hst
      have hlt : s < n.servers.length := by
        rcases Nat.lt_or_ge s n.servers.length with hl | hg
        · exact hl
        · rw [List.getElem?_eq_none hg] at hst; cases hst
      cases hb : n.bound with
      | none =>
        have ho : bindOutcome n.unixSocket none s = (some s, .serving) := by simp [bindOutcome, h.tcp]
        rw [ho]
        refine ⟨h.tcp, ?_, ?_, ?_⟩
        · intro s' hs'
          cases hs'
          simp [hlt]
        · intro s' hs'
          simp only [List.getElem?_set] at hs'
          split at hs'
          · rename_i e; rw [e]
          · exact absurd (h.onlyBound s' hs') (by simp [hb])
        · intro c s' hc
          exact absurd (h.connectedToBound c s' hc) (by simp [hb])
      | some b =>
        have ho : bindOutcome n.unixSocket (some b) s = (some b, .exitedAddrInUse) := by simp [bindOutcome, h.tcp]
        rw [ho]
        refine ⟨h.tcp, ?_, ?_, ?_⟩
        · intro s' hs'
          have := h.boundServing s' (by rw [hb]; exact hs')
          simp only [List.getElem?_set]
          split
          · rename_i e; subst e; rw [hst] at this; cases this
          · exact this
        · intro s' hs'
          simp only [List.getElem?_set] at hs'
          split at hs'
          · first | cases hs' | (split at hs' <;> cases hs')
          · rw [← hb]; exact h.onlyBound s' hs'
        · intro c s' hc; rw [← hb]; exact h.connectedToBound c s' hc
    · exact h
  | notified c =>
    simp only [sstep]
    split
    · split
      · exact h
      · rename_i b _ hb
        refine ⟨h.tcp, h.boundServing, h.onlyBound, ?_⟩
        intro c' s' hc
        simp only [List.getElem?_set] at hc
        split at hc
        · split at hc
          · cases hc; exact hb
          · cases hc
        · exact h.connectedToBound c' s' hc
      · exact h
    · exact h

theorem tcp_run (as : List SAct) : ∀ n, TcpInv n → TcpInv (srun n as) := by
  induction as with
  | nil => intro n h; exact h
  | cons a as ih => intro n h; exact ih _ (tcp_step n h a)

/-- C20 `tcp_singleton`: with a TCP address, in every interleaving of any number of clients and servers
    two different servers are never serving at the same time, and every connected client talks to the
    one that is -/
theorem tcp_singleton (k : Nat) (as : List SAct) (s1 s2 : Nat)
    (h1 : (srun (Net.init false k) as).servers[s1]? = some .serving)
    (h2 : (srun (Net.init false k) as).servers[s2]? = some .serving) : s1 = s2 := by
  have h := tcp_run as _ (tcp_init k)
  have e1 := h.onlyBound s1 h1
  have e2 := h.onlyBound s2 h2
  rw [e1] at e2
  exact Option.some.inj e2

/-- C20 negative result for the unrepaired Unix-socket bind (F-C20-a, fixed): two clients, both refused, both servers end up serving;
    the first one is unreachable but alive -/
theorem unix_second_server :
    let n := srun (Net.init true 2) [.connect 0, .connect 1, .bind 0, .bind 1]
    servingCount n = 2 ∧ n.bound = some 1 := by decide

#print axioms tcp_singleton

end StartupM
