import SccacheModel.Gen.Consts

namespace ShutM

/-! The life of a running server as `SccacheServer::run` (`server.rs`) arranges it, with a logical clock in milliseconds:

    * **running**: connections are accepted; every request arrival (`ServerMessage::Request`, sent by `call` for every kind of
      request) re-arms the inactivity sleep to `now + T` (`T = 0`: no sleep at all);
    * the `select!` of `run` ends — the **drain** begins — when a `Shutdown` request arrives or when the armed sleep elapses;
      the accept loop and the listener are dropped at that moment (later connection attempts are refused), connections
      that are open keep being served;
    * `time::timeout(SHUTDOWN_TIMEOUT, wait)`: the server **exits** as soon as the last open connection is closed
      (`WaitUntilZero`), at the latest `grace` after the drain began.

    Every event carries its time; `advance` fires the timers that are due before the event is applied.  The fields
    `last`, `drainAt`, `byStop` are ghost state for the theorems.  Driver: `Driver/Shutdown.lean` (`modeld shutdown`), tied to
    the real `SccacheServer::run` on an in-memory listener under tokio's paused clock by `h_server`. -/

inductive Phase where
  | running (deadline : Option Nat)
  | draining (since : Nat)
  | exited (at_ : Nat)
deriving Repr, DecidableEq

structure Srv where
  T : Nat
  grace : Nat
  phase : Phase
  conns : List Nat
  next : Nat
  now : Nat
  last : Nat
  drainAt : Option Nat
  byStop : Bool
deriving Repr, DecidableEq

inductive Ev where
  | connect (t : Nat)
  | request (t c : Nat)
  | stop (t c : Nat)
  | close (t c : Nat)
  | tick (t : Nat)
deriving Repr, DecidableEq

inductive Out where
  | accepted (c : Nat) | refused | served | closed | noconn | dead | none
deriving Repr, DecidableEq

def arm (T t : Nat) : Option Nat := if T = 0 then none else some (t + T)

def init (T grace : Nat) : Srv :=
  { T := T, grace := grace, phase := .running (arm T 0), conns := [], next := 0, now := 0, last := 0, drainAt := none, byStop := false }

/-- the `select!` of `run` has ended at time `d`: with no connection open `WaitUntilZero` is ready at once -/
def enterDrain (s : Srv) (d : Nat) (stop : Bool) : Srv :=
  if s.conns = [] then { s with drainAt := some d, byStop := stop, phase := .exited d }
  else { s with drainAt := some d, byStop := stop, phase := .draining d }

def fireIdle (s : Srv) (t : Nat) : Srv :=
  match s.phase with
  | .running (some d) => if d ≤ t then enterDrain s d false else s
  | _ => s

def fireGrace (s : Srv) (t : Nat) : Srv :=
  match s.phase with
  | .draining since => if since + s.grace ≤ t then { s with phase := .exited (since + s.grace) } else s
  | _ => s

def advance (s : Srv) (t : Nat) : Srv :=
  let t := max s.now t
  { fireGrace (fireIdle s t) t with now := t }

def isExited (s : Srv) : Bool := match s.phase with | .exited _ => true | _ => false

def Ev.time : Ev → Nat
  | .connect t | .request t _ | .stop t _ | .close t _ | .tick t => t

/-- the event itself, once the timers that were due have fired -/
def act (s : Srv) : Ev → Srv × Out
  | .tick _ => (s, .none)
  | .connect _ =>
    match s.phase with
    | .running _ => ({ s with conns := s.next :: s.conns, next := s.next + 1 }, .accepted s.next)
    | .draining _ => ({ s with next := s.next + 1 }, .refused)
    | .exited _ => (s, .dead)
  | .request _ c =>
    match s.phase with
    | .exited _ => (s, .dead)
    | .running _ => if c ∈ s.conns then ({ s with phase := .running (arm s.T s.now), last := s.now }, .served) else (s, .noconn)
    | .draining _ => if c ∈ s.conns then (s, .served) else (s, .noconn)
  | .stop _ c =>
    match s.phase with
    | .exited _ => (s, .dead)
    | .running _ => if c ∈ s.conns then (enterDrain { s with last := s.now } s.now true, .served) else (s, .noconn)
    | .draining _ => if c ∈ s.conns then (s, .served) else (s, .noconn)
  | .close _ c =>
    match s.phase with
    | .exited _ => (s, .dead)
    | .running _ => if c ∈ s.conns then ({ s with conns := s.conns.erase c }, .closed) else (s, .noconn)
    | .draining _ =>
      if c ∈ s.conns then
        (if s.conns.erase c = [] then { s with conns := [], phase := .exited s.now } else { s with conns := s.conns.erase c }, .closed)
      else (s, .noconn)

def step (s0 : Srv) (e : Ev) : Srv × Out := act (advance s0 e.time) e

def run (s : Srv) (evs : List Ev) : Srv := evs.foldl (fun s e => (step s e).1) s

/-- outputs of a history, in order -/
def outs : Srv → List Ev → List Out
  | _, [] => []
  | s, e :: es => (step s e).2 :: outs (step s e).1 es

end ShutM
