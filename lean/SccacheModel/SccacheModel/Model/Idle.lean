namespace IdleM

/-! The inactivity timer of the server (`server.rs` `ShutdownOrInactive`), with a logical clock: the timer is re-armed
    to `now + T` on every request *arrival* (`ServerMessage::Request`), `T = 0` disables it, and the future resolves when
    the armed sleep has elapsed.  (The explicit `Shutdown` message and the 10 s drain are in `Model/Startup.lean`.) -/

structure Srv where
  T : Nat                    -- SCCACHE_IDLE_TIMEOUT in clock units; 0 = never
  deadline : Option Nat      -- the armed sleep, if any
  last : Nat                 -- time of the last request arrival (or of start-up)
  exited : Option Nat        -- time at which the server exited by inactivity
deriving Repr, DecidableEq

inductive Ev where
  | request (t : Nat)        -- a request arrives at time t
  | poll (t : Nat)           -- the runtime polls the future at time t
deriving Repr, DecidableEq

def arm (T t : Nat) : Option Nat := if T = 0 then none else some (t + T)

def init (T t0 : Nat) : Srv := { T := T, deadline := arm T t0, last := t0, exited := none }

def step (s : Srv) : Ev → Srv
  | .request t => if s.exited.isSome then s else { s with last := t, deadline := arm s.T t }
  | .poll t =>
    if s.exited.isSome then s else
    match s.deadline with
    | some d => if d ≤ t then { s with exited := some t } else s
    | none => s

def run (s : Srv) (evs : List Ev) : Srv := evs.foldl step s

structure IInv (s : Srv) : Prop where
  armed : s.exited = none → s.deadline = arm s.T s.last
  late : ∀ t, s.exited = some t → s.last + s.T ≤ t ∧ s.T ≠ 0

theorem inv_init (T t0 : Nat) : IInv (init T t0) := ⟨fun _ => rfl, fun t h => by simp [init] at h⟩

theorem inv_step (s : Srv) (h : IInv s) (e : Ev) : IInv (step s e) := by
  cases e with
  | request t =>
    simp only [step]
    split
    · exact h
    · rename_i hne
      have hn : s.exited = none := by cases hx : s.exited <;> simp_all
      exact ⟨fun _ => rfl, fun t' ht => by simp [hn] at ht⟩
  | poll t =>
    simp only [step]
    split
    · exact h
    · rename_i hne
      have hn : s.exited = none := by cases hx : s.exited <;> simp_all
      split
      · rename_i d hd
        split
        · rename_i hle
          refine ⟨fun hx => by simp at hx, fun t' ht => ?_⟩
          have : t' = t := by simpa using ht.symm
          subst this
          have ha := h.armed hn
          rw [hd] at ha
          simp only [arm] at ha
          split at ha
          · cases ha
          · rename_i hT
            have : d = s.last + s.T := by simpa using ha
            refine ⟨?_, hT⟩
            show s.last + s.T ≤ t'
            omega
        · exact h
      · exact h

theorem inv_run (evs : List Ev) : ∀ s, IInv s → IInv (run s evs) := by
  induction evs with
  | nil => intro s h; exact h
  | cons e es ih => intro s h; exact ih _ (inv_step s h e)

end IdleM
