import SccacheModel.Proofs.Crc

namespace EntryM

/-! Sketch (design round): byte-level writer of a cache entry as produced by `CacheWrite` through `zip 0.6.6`
    (method Stored, default options, seekable sink), and the reader's view. The codec (zstd) is a parameter:
    members carry the already-compressed frame. -/
abbrev Bytes := List UInt8

def le16 (n : Nat) : Bytes := [UInt8.ofNat (n % 256), UInt8.ofNat (n / 256 % 256)]
def le32 (n : Nat) : Bytes := [UInt8.ofNat (n % 256), UInt8.ofNat (n / 256 % 256), UInt8.ofNat (n / 65536 % 256), UInt8.ofNat (n / 16777216 % 256)]

/-- CRC-32 (IEEE, reflected, as `crc32fast`), on a `BitVec 32` register (see `Proofs/Crc.lean`) -/
def crc32 (data : Bytes) : Nat := (crcBV data).toNat

structure Member where
  name : Bytes            -- UTF-8 bytes of the object key ("obj", "stdout", …)
  mode : Option Nat       -- `Some(st_mode)` for files, `None` for stdout/stderr
  frame : Bytes           -- what `zstd::stream::copy_encode` produced
deriving Repr, DecidableEq

def isAscii (b : Bytes) : Bool := b.all (· < 128)
def flagOf (m : Member) : Nat := if isAscii m.name then 0 else 2048
def permsOf (m : Member) : Nat := (match m.mode with | some md => md % 512 | none => 420) + 32768   -- (mode & 0o777) | 0o100000
def dosTime : Bytes := [0, 0]
def dosDate : Bytes := [33, 0]                 -- 1980-01-01

def localHeader (m : Member) : Bytes :=
  [80, 75, 3, 4] ++ le16 20 ++ le16 (flagOf m) ++ le16 0 ++ dosTime ++ dosDate ++ le32 (crc32 m.frame)
    ++ le32 m.frame.length ++ le32 m.frame.length ++ le16 m.name.length ++ le16 0 ++ m.name

def centralHeader (m : Member) (offset : Nat) : Bytes :=
  [80, 75, 1, 2] ++ le16 (3 * 256 + 46) ++ le16 20 ++ le16 (flagOf m) ++ le16 0 ++ dosTime ++ dosDate
    ++ le32 (crc32 m.frame) ++ le32 m.frame.length ++ le32 m.frame.length ++ le16 m.name.length
    ++ le16 0 ++ le16 0 ++ le16 0 ++ le16 0 ++ le32 (permsOf m * 65536) ++ le32 offset ++ m.name

/-- local records with their offsets -/
def layout : Nat → List Member → List (Member × Nat)
  | _, [] => []
  | off, m :: ms => (m, off) :: layout (off + (localHeader m).length + m.frame.length) ms

def archive (ms : List Member) : Bytes :=
  let lay := layout 0 ms
  let locals := ms.flatMap fun m => localHeader m ++ m.frame
  let cd := lay.flatMap fun (m, off) => centralHeader m off
  locals ++ cd ++ [80, 75, 5, 6] ++ le16 0 ++ le16 0 ++ le16 ms.length ++ le16 ms.length
    ++ le32 cd.length ++ le32 locals.length ++ le16 0

/-- `CacheWrite::put_bytes` skips empty stdout/stderr -/
def entryMembers (objects : List Member) (stdout stderr : Option Member) : List Member :=
  objects ++ stdout.toList ++ stderr.toList

end EntryM
