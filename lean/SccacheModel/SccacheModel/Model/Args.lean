import SccacheModel.Model.RustArgs

namespace ArgsM

/-! Sketch (design round): model of `compiler::args::ArgsIter` and of the gcc/clang
    `parse_arguments` classification + `generate_compile_commands` argument vector. -/
abbrev Bytes := List UInt8
def sb (s : String) : Bytes := s.toUTF8.toList

inductive Disp where
  | separated
  | canBeConcatenated (d : Option UInt8)
  | canBeSeparated (d : Option UInt8)
  | concatenated (d : Option UInt8)
deriving Repr, DecidableEq

inductive Kind where
  | flag
  | take (d : Disp)
deriving Repr, DecidableEq

inductive Variant where
  | arch | clangProfileUse | coverage | depArgumentPath | depTarget | diagnosticsColor | diagnosticsColorFlag
  | doCompilation | extraHashFile | language | needDepTarget | noDiagnosticsColorFlag | output | passThrough
  | passThroughFlag | passThroughPath | pedanticFlag | preprocessorArgument | preprocessorArgumentFlag
  | preprocessorArgumentPath | profileGenerate | serializeDiagnostics | splitDwarf | standard | testCoverage
  | tooHard | tooHardFlag | xClang | unhashed | unhashedFlag
deriving Repr, DecidableEq

structure ArgInfo where
  name : Bytes
  kind : Kind
  variant : Variant
deriving Repr, DecidableEq

inductive Argument where
  | raw (s : Bytes)
  | unknownFlag (s : Bytes)
  | flag (name : Bytes) (v : Variant)
  | withValue (name : Bytes) (v : Variant) (value : Bytes) (d : Disp)
deriving Repr, DecidableEq

/-- lexicographic comparison of byte strings (`str::cmp`) -/
def cmpBytes : Bytes → Bytes → Ordering
  | [], [] => .eq
  | [], _ :: _ => .lt
  | _ :: _, [] => .gt
  | a :: as, b :: bs => if a < b then .lt else if b < a then .gt else cmpBytes as bs

def cmpU8 (a b : UInt8) : Ordering := if a < b then .lt else if b < a then .gt else .eq

/-- `ArgInfo::cmp(&self, arg)` -/
def ArgInfo.cmp (i : ArgInfo) (arg : Bytes) : Ordering :=
  match i.kind with
  | .take (.canBeSeparated none) | .take (.concatenated none) =>
    if i.name.isPrefixOf arg then .eq else cmpBytes i.name arg
  | .take (.canBeSeparated (some d)) | .take (.concatenated (some d)) =>
    if arg.length > i.name.length && i.name.isPrefixOf arg then cmpU8 (arg.getD i.name.length 0) d
    else cmpBytes i.name arg
  | _ => cmpBytes i.name arg

/-- `bsearch` with its "keep looking to the right after a match" rule -/
def bsearch (key : Bytes) : Nat → List ArgInfo → Option ArgInfo
  | 0, _ => none
  | fuel + 1, items =>
    if items.isEmpty then none else
    let middle := items.length / 2
    match items[middle]? with
    | none => none
    | some it =>
      match it.cmp key with
      | .eq =>
        let after := if items.length == 1 then none else bsearch key fuel (items.drop (middle + 1))
        after.orElse fun _ => some it
      | .gt => bsearch key fuel (items.take middle)
      | .lt => bsearch key fuel (items.drop (middle + 1))

def search1 (t : List ArgInfo) (key : Bytes) : Option ArgInfo := bsearch key (t.length + 1) t

/-- search over `(gcc, clang)`: the longer/greater flag string wins, the second table on ties -/
def search2 (t1 t2 : List ArgInfo) (key : Bytes) : Option ArgInfo :=
  match search1 t1 key, search1 t2 key with
  | none, none => none
  | some a, none => some a
  | none, some b => some b
  | some a, some b => if cmpBytes a.name b.name == .gt then some a else some b

inductive PErr where
  | unexpectedEnd
deriving Repr, DecidableEq

/-- `ArgInfo::process`; returns the parsed argument and the remaining raw arguments -/
def processInfo (i : ArgInfo) (arg : Bytes) (rest : List Bytes) : Except PErr (Argument × List Bytes) :=
  let concat (d : Option UInt8) : Bytes :=
    let len := i.name.length
    let len := match d with
      | some dd => if arg.getD len 0 == dd && len < arg.length then len + 1 else len
      | none => len
    arg.drop len
  match i.kind with
  | .flag => .ok (.flag i.name i.variant, rest)
  | .take .separated =>
    match rest with
    | v :: rest' => .ok (.withValue i.name i.variant v .separated, rest')
    | [] => .error .unexpectedEnd
  | .take (.concatenated d) => .ok (.withValue i.name i.variant (concat d) (.concatenated d), rest)
  | .take (.canBeSeparated d) | .take (.canBeConcatenated d) =>
    if arg == i.name then
      match rest with
      | v :: rest' => .ok (.withValue i.name i.variant v (.canBeConcatenated d), rest')
      | [] => if d.isNone then .ok (.withValue i.name i.variant [] (.concatenated d), rest) else .error .unexpectedEnd
    else .ok (.withValue i.name i.variant (concat d) (.canBeSeparated d), rest)

/-- `ArgsIter` run to completion (`ddMode` = `with_double_dashes`, clang only). The iterator is lazy in the
    real code, so a parse error is an *item* of the result: what precedes it is classified first. -/
def tokenize (search : Bytes → Option ArgInfo) (ddMode : Bool) : Nat → Bool → List Bytes → List (Except PErr Argument)
  | 0, _, _ => []
  | _, _, [] => []
  | fuel + 1, seenDD, raw :: rest =>
    let seenDD := seenDD || (ddMode && raw == sb "--")
    if ddMode && seenDD then .ok (.raw raw) :: tokenize search ddMode fuel seenDD rest
    else
      -- the table is searched and concatenated values are cut on `arg.to_string_lossy()`; raw and unknown arguments and
      -- separated values keep their bytes (finding F-C01-b: a non-UTF-8 byte in a concatenated value becomes U+FFFD)
      let arg := RArgsM.lossy raw
      match search arg with
      | some i =>
        match processInfo i arg rest with
        | .ok (a, rest') => .ok a :: tokenize search ddMode fuel seenDD rest'
        | .error e => [.error e]
      | none =>
        let a := if arg.head? == some 45 then Argument.unknownFlag raw else Argument.raw raw
        .ok a :: tokenize search ddMode fuel seenDD rest

def Argument.flagStr : Argument → Option Bytes
  | .flag n _ => some n | .withValue n _ _ _ => some n | _ => none
def Argument.variant : Argument → Option Variant
  | .flag _ v => some v | .withValue _ v _ _ => some v | _ => none

/-- `normalize(norm).iter_os_strings()` with `norm = Concatenated` iff the flag has two bytes -/
def Argument.strings : Argument → List Bytes
  | .raw s => [s]
  | .unknownFlag s => [s]
  | .flag n _ => [n]
  | .withValue n _ v d =>
    let joined (d : Option UInt8) : List Bytes :=
      [n ++ (match d with | some dd => if v.isEmpty then [] else [dd] | none => []) ++ v]
    match d with
    | .separated => [n, v]
    | .concatenated d => joined d
    | .canBeConcatenated d | .canBeSeparated d => if n.length == 2 then joined d else [n, v]

inductive Lang where
  | c | cxx | genericHeader | cHeader | cxxHeader | objc | objcxx | objcxxHeader | cuda | rust | hip | ptx | cubin
deriving Repr, DecidableEq

def langOfX (v : Bytes) : Option Lang :=
  if v == sb "c" then some .c else if v == sb "c-header" then some .cHeader
  else if v == sb "c++" then some .cxx else if v == sb "c++-header" then some .cxxHeader
  else if v == sb "objective-c" then some .objc else if v == sb "objective-c++" then some .objcxx
  else if v == sb "objective-c++-header" then some .objcxxHeader
  else if v == sb "cu" then some .cuda else if v == sb "rs" then some .rust
  else if v == sb "cuda" then some .cuda else if v == sb "hip" then some .hip else none

def langGccArg : Lang → Option Bytes
  | .c => some (sb "c") | .cHeader => some (sb "c-header") | .cxx => some (sb "c++") | .cxxHeader => some (sb "c++-header")
  | .objc => some (sb "objective-c") | .objcxx => some (sb "objective-c++") | .objcxxHeader => some (sb "objective-c++-header")
  | .cuda => some (sb "cu") | .hip => some (sb "hip") | _ => none

/-- file-name helpers on byte strings without directory separators in the last component -/
def splitLast (p : Bytes) (c : UInt8) : Option (Bytes × Bytes) :=
  match (p.reverse.span (· != c)) with
  | (_, []) => none
  | (suf, _ :: pre) => some (pre.reverse, suf.reverse)

/-- trailing separators and trailing `/.` do not belong to the last component (`sub/`, `sub/.` name `sub`); fuel = length -/
def trimTrailFuel : Nat → Bytes → Bytes
  | 0, p => p
  | f + 1, p =>
    match p.reverse with
    | 47 :: r => if r.isEmpty then p else trimTrailFuel f r.reverse              -- "x/"  (a lone "/" stays)
    | 46 :: 47 :: r => if r.isEmpty then p else trimTrailFuel f r.reverse        -- "x/."
    | _ => p
def trimTrail (p : Bytes) : Bytes := trimTrailFuel p.length p

def fileName (p0 : Bytes) : Bytes := let p := trimTrail p0; match splitLast p 47 with | some (_, f) => f | none => p
def dirPart (p0 : Bytes) : Bytes := let p := trimTrail p0; match splitLast p 47 with | some (d, _) => d ++ [47] | none => []

def extension (p : Bytes) : Option Bytes :=
  let f := fileName p
  match splitLast f 46 with
  | some (stem, ext) => if stem.isEmpty then none else some ext
  | none => none

/-- `Path::file_name` is `None`: the path is empty, `/`, `.` or ends in `..` (empty components and `.` do not count) -/
def noFileName (p : Bytes) : Bool :=
  let comps := (p.splitOn 47).filter fun c => !c.isEmpty && c != [46]
  match comps.getLast? with
  | none => true
  | some c => c == [46, 46]

/-- `Path::with_extension` for paths whose last component is a plain file name -/
def withExtension (p : Bytes) (ext : Bytes) : Bytes :=
  let f := fileName p
  if f.isEmpty then p else
  let stem := match splitLast f 46 with
    | some (stem, _) => if stem.isEmpty then f else stem
    | none => f
  dirPart p ++ stem ++ [46] ++ ext

def langOfFile (p : Bytes) : Option Lang :=
  match extension p with
  | none => none
  | some e =>
    if e == sb "c" then some .c else if e == sb "h" then some .genericHeader
    else if [sb "C", sb "cc", sb "cp", sb "cpp", sb "CPP", sb "cxx", sb "c++"].contains e then some .cxx
    else if [sb "H", sb "hh", sb "hp", sb "hpp", sb "HPP", sb "hxx", sb "h++", sb "tcc"].contains e then some .cxxHeader
    else if e == sb "m" then some .objc else if [sb "M", sb "mm"].contains e then some .objcxx
    else if e == sb "cu" then some .cuda else if e == sb "ptx" then some .ptx else if e == sb "cubin" then some .cubin
    else if e == sb "rs" then some .rust else if e == sb "hip" then some .hip else none

structure Parsed where
  input : Bytes
  doubleDash : Bool
  lang : Lang
  cflag : Bytes
  outputs : List (Bytes × Bytes × Bool)     -- (key, path, optional), sorted by key for printing
  dep : List Bytes
  pre : List Bytes
  common : List Bytes
  arch : List Bytes
  unhashed : List Bytes
  profileGenerate : Bool
  tooHardPP : Option Bytes
  extraHash : List Bytes := []     -- `extra_hash_files`: the values of ExtraHashFile / ClangProfileUse arguments, to be joined to the working directory (their *contents* enter the key)
  suppressRio : Bool := false      -- `suppress_rewrite_includes_only` (gcc: `-pedantic…` together with a gnu standard / no `-std`)
deriving Repr, DecidableEq

inductive PRes where
  | ok (p : Parsed)
  | cannotCache (why : Bytes)
  | notCompilation
deriving Repr, DecidableEq

structure St where
  output : Option Bytes := none
  input : Option Bytes := none
  doubleDash : Bool := false
  depTargets : List (Bytes × Bytes) := []          -- every (-MT | -MQ, target) given, in order (fix F-C01-p: all of them reach the dependency file)
  common : List Bytes := []
  arch : List Bytes := []
  unhashed : List Bytes := []
  pre : List Bytes := []
  dep : List Bytes := []
  compilation : Bool := false
  multipleInput : Bool := false
  splitDwarf : Bool := false
  needDepTarget : Bool := false
  depPath : Nat := 0                      -- 0 NotNeeded, 1 Missing, 2 Provided
  lang : Option Lang := none
  cflag : Bytes := []
  profileGenerate : Bool := false
  gcno : Bool := false
  xclangs : List Bytes := []
  seenArch : Option Bytes := none
  serDiag : Option Bytes := none
  tooHardPP : Option Bytes := none
  pedantic : Bool := false
  extraHash : List Bytes := []
  langExt : Bool := true                  -- `language_extensions`: the last `-std=` value starts with "gnu" (or none given)

/-- `quote_for_make` (fix F-C01-o): the quoting gcc and clang apply to the default target of a dependency file — white space gets a
    backslash and every backslash right before it is doubled, `$` is doubled, `#` gets a backslash; a string that is not UTF-8 is left alone -/
def makeQuoteGo (bs : Nat) : Bytes → Bytes
  | [] => []
  | c :: r =>
    (if c == 32 || c == 9 then List.replicate (bs + 1) 92 else if c == 36 then [36] else if c == 35 then [92] else [])
      ++ c :: makeQuoteGo (if c == 92 then bs + 1 else 0) r

def makeQuote (t : Bytes) : Bytes := if RArgsM.validUtf8 t then makeQuoteGo 0 t else t

def valueOf : Argument → Bytes
  | .withValue _ _ v _ => v | _ => []

/-- a second, different `-arch` without SCCACHE_CACHE_MULTIARCH -/
def archBad (multiArchOk : Bool) (seen : Option Bytes) (v : Bytes) : Bool :=
  match seen with
  | some s => s != v && !multiArchOk
  | none => false

/-- the '@' rule: a separated / can-be-separated value that starts with '@' -/
def atBad : Argument → Bool
  | .withValue _ _ v .separated => v.head? == some 64
  | .withValue _ _ v (.canBeConcatenated _) => v.head? == some 64
  | .withValue _ _ v (.canBeSeparated _) => v.head? == some 64
  | _ => false

/-- one iteration of the main loop of `parse_arguments` after the '@' rule -/
def classifyCore (multiArchOk : Bool) (st : St) (a : Argument) : Except Bytes St :=
  let strs := a.strings
  match a.variant with
  | some .tooHardFlag | some .tooHard => .error ((a.flagStr).getD [])
  | some .pedanticFlag => .ok { st with pedantic := true, common := st.common ++ strs }
  | some .standard => .ok { st with langExt := (sb "gnu").isPrefixOf (valueOf a), common := st.common ++ strs }
  | some .diagnosticsColor | some .diagnosticsColorFlag
  | some .noDiagnosticsColorFlag | some .passThrough | some .passThroughFlag | some .passThroughPath
  =>
    .ok { st with common := st.common ++ strs }
  | some .clangProfileUse | some .extraHashFile =>
    .ok { st with common := st.common ++ strs, extraHash := st.extraHash ++ [valueOf a] }
  | some .splitDwarf => .ok { st with splitDwarf := true, common := st.common ++ strs }
  | some .profileGenerate => .ok { st with profileGenerate := true, common := st.common ++ strs }
  | some .testCoverage => .ok { st with gcno := true, common := st.common ++ strs }
  | some .coverage => .ok { st with gcno := true, profileGenerate := true, common := st.common ++ strs }
  | some .doCompilation => .ok { st with compilation := true, cflag := (a.flagStr).getD [] }
  | some .output => .ok { st with output := some (valueOf a) }
  | some .needDepTarget =>
    .ok { st with tooHardPP := some ((a.flagStr).getD []), needDepTarget := true,
                  depPath := if st.depPath == 0 then 1 else st.depPath, dep := st.dep ++ strs }
  | some .depTarget => .ok { st with depTargets := st.depTargets ++ [((a.flagStr).getD [], valueOf a)] }
  | some .depArgumentPath => .ok { st with depPath := 2, dep := st.dep ++ strs }
  | some .serializeDiagnostics => .ok { st with serDiag := some (valueOf a) }
  | some .language =>
    match langOfX (valueOf a) with
    | some l => .ok { st with lang := some l }
    | none => .error (sb "-x")
  | some .arch =>
    if archBad multiArchOk st.seenArch (valueOf a) then .error (sb "multiple different -arch, and SCCACHE_CACHE_MULTIARCH not set")
    else .ok { st with seenArch := some (valueOf a), arch := st.arch ++ strs }
  | some .xClang => .ok { st with xclangs := st.xclangs ++ [valueOf a] }
  | some .preprocessorArgument =>
    let th := if a.flagStr == some (sb "-Xpreprocessor") || a.flagStr == some (sb "-Wp") then a.flagStr else none
    .ok { st with tooHardPP := th, pre := st.pre ++ strs }
  | some .preprocessorArgumentFlag | some .preprocessorArgumentPath => .ok { st with pre := st.pre ++ strs }
  | some .unhashed | some .unhashedFlag => .ok { st with unhashed := st.unhashed ++ strs }
  | none =>
    match a with
    | .raw v =>
      if v == sb "--" then .ok { st with doubleDash := st.doubleDash || st.input.isNone }
      else .ok { st with multipleInput := st.multipleInput || st.input.isSome, input := some v }
    | _ => .ok { st with common := st.common ++ strs }

def classify (multiArchOk : Bool) (st : St) (a : Argument) : Except Bytes St :=
  if atBad a then .error (sb "@") else classifyCore multiArchOk st a

def classifyAll (multiArchOk : Bool) : St → List (Except PErr Argument) → Except Bytes St
  | st, [] => .ok st
  | _, .error _ :: _ => .error (sb "argument parse")
  | st, .ok a :: as =>
    match classify multiArchOk st a with
    | .ok st' => classifyAll multiArchOk st' as
    | .error e => .error e

/-- construction of `ParsedArguments` once input and language are known -/
def finishWith (st : St) (input : Bytes) (lang : Lang) : Parsed :=
  let output := st.output.getD (fileName (withExtension input (sb "o")))
  { input := input, doubleDash := st.doubleDash, lang := lang, cflag := st.cflag,
    outputs :=
      (match st.serDiag with | some p => [(sb "dia", p, false)] | none => [])
      ++ (if st.splitDwarf then [(sb "dwo", withExtension output (sb "dwo"), true)] else [])
      ++ (if st.gcno then [(sb "gcno", withExtension output (sb "gcno"), false)] else [])
      ++ [(sb "obj", output, false)],
    dep := st.dep ++ (if st.needDepTarget then (if st.depTargets.isEmpty then [sb "-MT", makeQuote output] else st.depTargets.flatMap fun (f, t) => [f, t]) else [])
                  ++ (if st.depPath == 1 then [sb "-MF", withExtension output (sb "d")] else []),
    pre := st.pre,
    common := st.common ++ (if st.splitDwarf then [sb "-D_gsplit_dwarf_path=" ++ withExtension output (sb "dwo")] else []),
    arch := st.arch, unhashed := st.unhashed,
    profileGenerate := st.profileGenerate || st.gcno, tooHardPP := st.tooHardPP, extraHash := st.extraHash,
    suppressRio := st.langExt && st.pedantic }

def resolveLang (plusplus : Bool) (st : St) (input : Bytes) : Option Lang :=
  match st.lang with
  | some l => some l
  | none => match langOfFile input with
    | some .c => if plusplus then some .cxx else some .c
    | l => l

/-- the part of `parse_arguments` after the loops (no `-Xclang` arguments in this sketch) -/
def finish (plusplus : Bool) (st : St) : PRes :=
  if !st.compilation then .notCompilation else
  if st.multipleInput then .cannotCache (sb "multiple input files") else
  match st.input with
  | none => .cannotCache (sb "no input file")
  | some input =>
    match resolveLang plusplus st input with
    | none => .cannotCache (sb "unknown source language")
    | some lang =>
      if st.output.isNone && noFileName input then .cannotCache (sb "no output file name")      -- fix F-C14-d: `..` has no name to derive the object's from
      else .ok (finishWith st input lang)

/-- one iteration of the second loop of `parse_arguments`: the values collected from `-Xclang` are parsed again (both tables, no
    `--` mode) and sorted into the same lists, each string preceded by `-Xclang`; `follows` = the previous argument was `-plugin-arg` -/
def classifyX (follows : Bool) (st : St) (a : Argument) : Except Bytes (St × Bool) :=
  let strs := a.strings.flatMap fun s => [sb "-Xclang", s]
  let next := a.flagStr == some (sb "-plugin-arg")
  match a.variant with
  | some .splitDwarf | some .pedanticFlag | some .standard | some .profileGenerate | some .clangProfileUse | some .testCoverage
  | some .coverage | some .doCompilation | some .language | some .output | some .tooHardFlag | some .xClang | some .tooHard =>
    .error ((a.flagStr).getD (sb "Can't handle complex arguments through clang"))
  | some .diagnosticsColor | some .diagnosticsColorFlag | some .noDiagnosticsColorFlag | some .arch | some .passThrough
  | some .passThroughFlag | some .passThroughPath | some .serializeDiagnostics =>
    .ok ({ st with common := st.common ++ strs }, next)
  | some .extraHashFile => .ok ({ st with common := st.common ++ strs, extraHash := st.extraHash ++ [valueOf a] }, next)
  | some .unhashed | some .unhashedFlag => .ok ({ st with unhashed := st.unhashed ++ strs }, next)
  | some .preprocessorArgumentFlag | some .preprocessorArgument | some .preprocessorArgumentPath => .ok ({ st with pre := st.pre ++ strs }, next)
  | some .depTarget | some .depArgumentPath | some .needDepTarget => .ok ({ st with dep := st.dep ++ strs }, next)
  | none =>
    match a with
    | .raw _ => if follows then .ok ({ st with common := st.common ++ strs }, next) else .error (sb "Can't handle Raw arguments with -Xclang")
    | _ => .error (sb "Can't handle UnknownFlag arguments with -Xclang")

def classifyXAll : Bool → St → List (Except PErr Argument) → Except Bytes St
  | _, st, [] => .ok st
  | _, _, .error _ :: _ => .error (sb "argument parse")
  | follows, st, .ok a :: as =>
    match classifyX follows st a with
    | .ok (st', f') => classifyXAll f' st' as
    | .error e => .error e

/-- `searchX` = the search over (gcc, clang) tables used for the `-Xclang` values, whatever the compiler kind -/
def parseArgs (search : Bytes → Option ArgInfo) (clang plusplus multiArchOk : Bool) (argv : List Bytes)
    (searchX : Bytes → Option ArgInfo := search) : PRes :=
  match classifyAll multiArchOk {} (tokenize search clang (argv.length + 1) false argv) with
  | .error e => .cannotCache e
  | .ok st =>
    match classifyXAll false st (tokenize searchX false (st.xclangs.length + 1) false st.xclangs) with
    | .error e => .cannotCache e
    | .ok st' => finish plusplus st'

/-- argument vector of `generate_compile_commands` -/
def regen (p : Parsed) : List Bytes :=
  (match langGccArg p.lang with | some l => [sb "-x", l] | none => [])
  ++ [p.cflag, sb "-o", ((p.outputs.find? (·.1 == sb "obj")).map (·.2.1)).getD []]
  ++ p.pre ++ p.dep ++ p.unhashed ++ p.common ++ p.arch
  ++ (if p.doubleDash then [sb "--"] else []) ++ [p.input]

/-- the argument vector of the **distributed** command of `generate_compile_commands` (`gcc` = `CCompilerKind::Gcc`; `rio` =
    the client's `rewrite_includes_only`): `none` = compiled locally (`-v` / `--verbose` among the local arguments, CUDA, a language
    without a `-x` name, or a string that is not UTF-8).  Only the language, the compilation flag, input, output and the **common**
    arguments travel: preprocessor and dependency arguments have done their work locally — and `arch` / `unhashed` arguments are not
    sent either. -/
def distLang (rio : Bool) (p : Parsed) : Option (Option Bytes) :=        -- outer none = the closure gives up (`language.as_mut()?`)
  if rio then some (langGccArg p.lang) else
  match p.lang with
  | .c => some (some (sb "cpp-output"))
  | .genericHeader | .cHeader | .cxxHeader => some (langGccArg p.lang)
  | _ => match langGccArg p.lang with | some l => some (some (l ++ sb "-cpp-output")) | none => none

/-- everything of the distributed command before the common arguments -/
def distHead (gcc rio : Bool) (p : Parsed) (l : Option Bytes) : List Bytes :=
  (match l with | some x => [sb "-x", x] | none => [])
    ++ [p.cflag, p.input, sb "-o", ((p.outputs.find? (·.1 == sb "obj")).map (·.2.1)).getD []]
    ++ (if gcc then (if rio && !p.suppressRio then [sb "-fdirectives-only"] else []) ++ [sb "-fpreprocessed"] else [])

def distLocalOnly (p : Parsed) : Bool := (regen p).contains (sb "-v") || (regen p).contains (sb "--verbose") || p.lang == .cuda

def distRegen (gcc rio : Bool) (p : Parsed) : Option (List Bytes) :=
  if distLocalOnly p then none else
  match distLang rio p with
  | none => none
  | some l => if (distHead gcc rio p l ++ p.common).all RArgsM.validUtf8 then some (distHead gcc rio p l ++ p.common) else none

end ArgsM
