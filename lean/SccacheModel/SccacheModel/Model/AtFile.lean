namespace AtFileM

/-! Response files (`@file` arguments).

    * `sccExpand` — `gcc::ExpandIncludeFile` (`src/compiler/gcc.rs`), the iterator through which every gcc / clang command line
      passes before it is parsed, hashed and re-synthesised: an argument `@name` whose file can be read as UTF-8 text and needs no
      quote handling is replaced by the whitespace-separated words of the file (recursively); every other `@name` is left
      as it is, which makes the request non-cacheable (`cannot_cache!("@")`), so the compiler sees the original command line.
    * `gccExpand` — the reference: libiberty's `expandargv` / `buildargv` as shipped with gcc and binutils (what the compiler
      itself does with the same command line): quotes, backslash escapes, C-string end at the first NUL, "too many @-files"
      after 2000 encounters, a directory is an error.

    Both are tied to the real thing by `h_atfile`: `sccExpand` to the real iterator, `gccExpand` to `c++filt` (a binutils tool
    that does nothing but `expandargv` and print its arguments).  Theorem (`Props/C01.lean`): whenever `sccExpand` leaves no
    `@` argument behind, the compiler's own expansion is the same list — so a cacheable request is parsed, hashed and
    re-run with exactly the arguments the compiler would have used. -/

abbrev Bytes := List UInt8

inductive Entry where
  | missing                 -- cannot be opened
  | dir                     -- a directory
  | file (c : Bytes)
deriving Repr, DecidableEq

/-- the file system as the expansion sees it (names relative to the compile's working directory) -/
abbrev Fs := Bytes → Entry

/-- libiberty `ISSPACE`: space, \t, \n, \v, \f, \r -/
def isSpace (b : UInt8) : Bool := b == 32 || (9 ≤ b && b ≤ 13)

def stripAt : Bytes → Option Bytes
  | 64 :: name => some name
  | _ => none

/-! ## the compiler's side: libiberty -/

/-- one argument of `buildargv`: returns the argument and the rest of the input (which starts with the separating space, if any) -/
def parseArg (sq dq bs : Bool) (acc : Bytes) : Bytes → Bytes × Bytes
  | [] => (acc.reverse, [])
  | c :: rest =>
    if isSpace c && !sq && !dq && !bs then (acc.reverse, c :: rest)
    else if bs then parseArg sq dq false (c :: acc) rest
    else if c == 92 then parseArg sq dq true acc rest
    else if sq then (if c == 39 then parseArg false dq false acc rest else parseArg sq dq false (c :: acc) rest)
    else if dq then (if c == 34 then parseArg sq false false acc rest else parseArg sq dq false (c :: acc) rest)
    else if c == 39 then parseArg true dq false acc rest
    else if c == 34 then parseArg sq true false acc rest
    else parseArg sq dq false (c :: acc) rest

/-- `buildargv` on an input that is not only white space (fuel: the input length bounds the number of arguments) -/
def buildargvFuel : Nat → Bytes → List Bytes
  | 0, _ => []
  | f + 1, input =>
    match input.dropWhile isSpace with
    | [] => []
    | i => let (a, rest) := parseArg false false false [] i; a :: buildargvFuel f rest

/-- the words `expandargv` inserts for a file with these bytes: the buffer is a C string (ends at the first NUL); a file
    of white space only gives no argument at all -/
def gccWords (c : Bytes) : List Bytes :=
  let s := c.takeWhile (· != 0)
  buildargvFuel (s.length + 1) s

/-- `expandargv`, with `b` = what is left of `iteration_limit` (2000 at the start): `none` = the compiler stops with an error
    ("too many @-files encountered", "@-file refers to a directory") -/
def gccExpand (fs : Fs) (b : Nat) (args : List Bytes) : Option (List Bytes) :=
  match args with
  | [] => some []
  | a :: rest =>
    match stripAt a with
    | none => (gccExpand fs b rest).map (a :: ·)
    | some name =>
      if b ≤ 1 then none else
      match fs name with
      | .missing => (gccExpand fs (b - 1) rest).map (a :: ·)
      | .dir => none
      | .file c => gccExpand fs (b - 1) (gccWords c ++ rest)
termination_by (b, args.length)
decreasing_by
  all_goals simp_wf
  · exact Prod.Lex.right _ (by simp)
  · exact Prod.Lex.left _ _ (by omega)
  · exact Prod.Lex.left _ _ (by omega)

/-! ## sccache's side -/

/-- well-formed UTF-8 (what `read_to_string` accepts), as in `Model/RustArgs.lean` but self-contained: 1-4 byte forms, no overlongs, no
    surrogates, nothing above U+10FFFF -/
def validUtf8 : Bytes → Bool
  | [] => true
  | b0 :: rest =>
    if b0 < 0x80 then validUtf8 rest
    else if 0xC2 ≤ b0 && b0 ≤ 0xDF then
      match rest with
      | b1 :: r => (0x80 ≤ b1 && b1 ≤ 0xBF) && validUtf8 r
      | _ => false
    else if 0xE0 ≤ b0 && b0 ≤ 0xEF then
      match rest with
      | b1 :: b2 :: r =>
        let lo : UInt8 := if b0 == 0xE0 then 0xA0 else 0x80
        let hi : UInt8 := if b0 == 0xED then 0x9F else 0xBF
        (lo ≤ b1 && b1 ≤ hi) && (0x80 ≤ b2 && b2 ≤ 0xBF) && validUtf8 r
      | _ => false
    else if 0xF0 ≤ b0 && b0 ≤ 0xF4 then
      match rest with
      | b1 :: b2 :: b3 :: r =>
        let lo : UInt8 := if b0 == 0xF0 then 0x90 else 0x80
        let hi : UInt8 := if b0 == 0xF4 then 0x8F else 0xBF
        (lo ≤ b1 && b1 ≤ hi) && (0x80 ≤ b2 && b2 ≤ 0xBF) && (0x80 ≤ b3 && b3 ≤ 0xBF) && validUtf8 r
      | _ => false
    else false

/-- the characters that need the quote handling sccache does not implement (", ', backslash), and NUL -/
def needsQuoting (c : Bytes) : Bool := c.any (fun b => b == 34 || b == 39 || b == 92 || b == 0)

/-- words separated by (ASCII) white space, empty words dropped -/
def splitWsFuel : Nat → Bytes → List Bytes
  | 0, _ => []
  | f + 1, input =>
    match input.dropWhile isSpace with
    | [] => []
    | i => i.takeWhile (fun b => !isSpace b) :: splitWsFuel f (i.dropWhile (fun b => !isSpace b))

def splitWs (c : Bytes) : List Bytes := splitWsFuel (c.length + 1) c

/-- `ExpandIncludeFile`: `b` = `@` arguments that may still be looked at (`MAX_AT_FILES` at the start); an `@name` that is not
    expanded stays in the output -/
def sccExpand (fs : Fs) (b : Nat) (args : List Bytes) : List Bytes :=
  match args with
  | [] => []
  | a :: rest =>
    match stripAt a with
    | none => a :: sccExpand fs b rest
    | some name =>
      if b ≤ 1 then a :: sccExpand fs b rest else
      match fs name with
      | .missing => a :: sccExpand fs (b - 1) rest
      | .dir => a :: sccExpand fs (b - 1) rest
      | .file c =>
        if !validUtf8 c || needsQuoting c then a :: sccExpand fs (b - 1) rest
        else sccExpand fs (b - 1) (splitWs c ++ rest)
termination_by (b, args.length)
decreasing_by
  all_goals simp_wf
  · exact Prod.Lex.right _ (by simp)
  · exact Prod.Lex.right _ (by simp)
  · exact Prod.Lex.left _ _ (by omega)
  · exact Prod.Lex.left _ _ (by omega)
  · exact Prod.Lex.left _ _ (by omega)
  · exact Prod.Lex.left _ _ (by omega)

/-- gcc's and sccache's starting budget: the 2000th `@` argument is the one that is refused -/
def maxAtFiles : Nat := 2000

end AtFileM
