namespace ClientTcM

/-! Executable model of `dist::cache::ClientToolchains::put_toolchain` (`src/dist/cache.rs`): the client-side map from a compiler's
    *weak key* (path, mtime, size) to the id of its packaged toolchain, in front of the local toolchain cache of `cap` bytes.
    A weak key already in the map short-cuts packaging; otherwise the toolchain is packaged (`size w` bytes, id `idOf w`), inserted
    into the cache — refused with `FileTooLarge` when it does not fit — and **only then** recorded in the map (which is persisted in
    `weak_map.json`, so a restart keeps it). -/

structure St where
  cap : Nat
  weak : List (Nat × Nat) := []      -- weak key ↦ archive id, newest first
  cached : List Nat := []             -- ids inserted into the local toolchain cache (the cache may evict them later; not modelled)
deriving Repr, DecidableEq

inductive Out where
  | ok (id : Nat)
  | tooLarge                          -- "Could not cache dist toolchain …": reported as an sccache error, no fallback
deriving Repr, DecidableEq

def put (size idOf : Nat → Nat) (s : St) (w : Nat) : St × Out :=
  match s.weak.lookup w with
  | some i => (s, .ok i)                                           -- "Using cached toolchain"
  | none =>
    if size w > s.cap then (s, .tooLarge)                          -- `cache.insert_file(..)?` leaves before `record_weak`
    else ({ s with weak := (w, idOf w) :: s.weak, cached := idOf w :: s.cached }, .ok (idOf w))

def run (size idOf : Nat → Nat) : St → List Nat → St × List Out
  | s, [] => (s, [])
  | s, w :: ws => let (s1, o) := put size idOf s w; let (s2, os) := run size idOf s1 ws; (s2, o :: os)

/-- a restart of the sccache server: the map is read back from `weak_map.json`, the cache from its directory -/
def restart (s : St) : St := s

/-- the map only ever names toolchains that fitted the cache -/
def Inv (size : Nat → Nat) (s : St) : Prop := ∀ w i, (w, i) ∈ s.weak → size w ≤ s.cap

end ClientTcM
