import SccacheModel.Gen.Consts

namespace TM

/-! Sketch (design round): literal transcription of `util::TimeMacroFinder`. -/
abbrev Bytes := List UInt8

def maxHay : Nat := 13

def strBytes (s : String) : Bytes := s.toUTF8.toList

def patTimestamp : Bytes := [95, 95, 84, 73, 77, 69, 83, 84, 65, 77, 80, 95, 95]
def patTime : Bytes := [95, 95, 84, 73, 77, 69, 95, 95]
def patDate : Bytes := [95, 95, 68, 65, 84, 69, 95, 95]

/-- the literals above are what `find_macros` searches for **in the current source** (`Gen/Consts.lean` is regenerated from
    util.rs on every run; a changed pattern or haystack length makes this theorem, and everything importing it, fail) -/
theorem patterns_match_source :
    patTimestamp = GenC.patTimestamp ∧ patTime = GenC.patTime ∧ patDate = GenC.patDate ∧ maxHay = GenC.maxHaystackLen :=
  ⟨rfl, rfl, rfl, rfl⟩

/-- `memmem::find(buf, pat).is_some()` -/
def hasInfix (pat : Bytes) : Bytes → Bool
  | [] => pat.isEmpty
  | b :: bs => pat.isPrefixOf (b :: bs) || hasInfix pat bs

structure Finder where
  foundDate : Bool := false
  foundTime : Bool := false
  foundTimestamp : Bool := false
  left : Bytes := List.replicate 13 0     -- overlap_buffer[..13]
  right : Bytes := List.replicate 13 0    -- overlap_buffer[13..]
  fullChunks : Nat := 0
  psr : Bytes := []                        -- previous_small_read
deriving Repr, DecidableEq

def Finder.findMacros (f : Finder) (buf : Bytes) : Finder :=
  { f with
    foundTimestamp := f.foundTimestamp || hasInfix patTimestamp buf
    foundTime := f.foundTime || hasInfix patTime buf
    foundDate := f.foundDate || hasInfix patDate buf }

def padTo (n : Nat) (b : Bytes) : Bytes := b ++ List.replicate (n - b.length) 0

def lastN (n : Nat) (b : Bytes) : Bytes := b.drop (b.length - n)

/-- search several buffers in turn (each `self.find_macros(buf)` call) -/
def Finder.search (f : Finder) (bufs : List Bytes) : Finder := bufs.foldl Finder.findMacros f

/-- one call of `find_time_macros(visit)`: the buffers searched, then the new buffer state -/
def Finder.step (f : Finder) (visit : Bytes) : Finder :=
  if f.fullChunks = 0 then
    if visit.length ≤ maxHay then
      let psr := f.psr ++ visit
      { f.search [psr] with psr := psr }
    else
      let bufs := (if f.psr.isEmpty then [] else [f.psr ++ visit]) ++ [visit]
      { f.search bufs with left := lastN maxHay visit, fullChunks := f.fullChunks + 1, psr := [] }
  else
    if visit.length < maxHay then
      let psr := if f.psr.isEmpty then f.left ++ visit else f.psr ++ visit
      let right := padTo maxHay visit
      { f.search [psr, f.left ++ right] with psr := psr, right := right }
    else
      let left' := lastN maxHay visit
      let zeros := List.replicate maxHay (0 : UInt8)
      let bufs := [f.left ++ visit.take maxHay, left' ++ zeros]
                    ++ (if f.psr.isEmpty then [] else [f.psr ++ visit]) ++ [visit]
      { f.search bufs with left := left', right := zeros, fullChunks := f.fullChunks + 1, psr := [] }

def Finder.run (chunks : List Bytes) : Finder := chunks.foldl Finder.step {}

/-- C04 `finder_sound` (statement only in this sketch) -/
def FinderSound : Prop :=
  ∀ (chunks : List Bytes), (∀ c ∈ chunks, c ≠ []) →
    (hasInfix patTime chunks.flatten = true → (Finder.run chunks).foundTime = true) ∧
    (hasInfix patDate chunks.flatten = true → (Finder.run chunks).foundDate = true) ∧
    (hasInfix patTimestamp chunks.flatten = true → (Finder.run chunks).foundTimestamp = true)

/-- exactness under the "only the last read is short" discipline -/
def FinderExactPartial : Prop :=
  ∀ (chunks : List Bytes) (last : Bytes), (∀ c ∈ chunks, maxHay ≤ c.length) →
    ((Finder.run (chunks ++ [last])).foundTime = hasInfix patTime (chunks.flatten ++ last))


end TM
