/-! # Model of the rustc argument parser (`src/compiler/rust.rs`: `ArgsIter` over the rustc table, the value types
`ArgCodegen` / `ArgCrateTypes` / `ArgExtern` / `ArgLinkLibrary` / `ArgLinkPath` / `ArgTarget` / `ArgUnstable`,
`parse_arguments`) and of the argument list `generate_hash_key` goes on to hash.

The table itself (`RArgsM.rustArgs`, `Gen/RustArgs.lean`) is regenerated from `rust.rs` on every run. Tied to the real
parser through hook H7 (`verif_parse_arguments`) by `harness/src/bin/h_rustargs.rs` + `modeld rustargs`. The file system
enters through an oracle (`exists`: which candidate static libraries / `<target>.json` files exist). -/

namespace RArgsM

abbrev Bytes := List UInt8

/-- `rust.rs` `ArgData` -/
inductive RV where
  | tooHardFlag | tooHardPath | notCompilationFlag | notCompilation | linkLibrary | linkPath | emit | extern | color | json
  | crateName | crateType | outDir | codeGen | passThrough | target | unstable
deriving Repr, DecidableEq

/-- the Rust type a value is parsed into (`FromArg`) -/
inductive RTy where
  | os | path | str | codegen | crateTypes | extern | linkLibrary | linkPath | target | unstable
deriving Repr, DecidableEq

/-- one entry of the table: a flag (`sep = none`) or `take_arg!(.., CanBeSeparated(d), ..)` (`sep = some d`) -/
structure RInfo where
  name : Bytes
  sep : Option (Option UInt8)
  ty : RTy
  v : RV
deriving Repr, DecidableEq

/-! ## `ArgsIter` (same algorithm as for gcc; the rustc table only has flags and `CanBeSeparated`) -/

def cmpBytes : Bytes → Bytes → Ordering
  | [], [] => .eq
  | [], _ :: _ => .lt
  | _ :: _, [] => .gt
  | a :: as, b :: bs => if a < b then .lt else if b < a then .gt else cmpBytes as bs

def cmpU8 (a b : UInt8) : Ordering := if a < b then .lt else if b < a then .gt else .eq

/-- `ArgInfo::cmp(&self, arg)` -/
def RInfo.cmp (i : RInfo) (arg : Bytes) : Ordering :=
  match i.sep with
  | some none => if i.name.isPrefixOf arg then .eq else cmpBytes i.name arg
  | some (some d) =>
    if arg.length > i.name.length && i.name.isPrefixOf arg then cmpU8 (arg.getD i.name.length 0) d
    else cmpBytes i.name arg
  | none => cmpBytes i.name arg

/-- `bsearch` with its "keep looking to the right after a match" rule -/
def bsearch (key : Bytes) : Nat → List RInfo → Option RInfo
  | 0, _ => none
  | fuel + 1, items =>
    if items.isEmpty then none else
    let middle := items.length / 2
    match items[middle]? with
    | none => none
    | some it =>
      match it.cmp key with
      | .eq =>
        let after := if items.length == 1 then none else bsearch key fuel (items.drop (middle + 1))
        after.orElse fun _ => some it
      | .gt => bsearch key fuel (items.take middle)
      | .lt => bsearch key fuel (items.drop (middle + 1))

def search (t : List RInfo) (key : Bytes) : Option RInfo := bsearch key (t.length + 1) t

/-! ## UTF-8 (`OsString::into_string`) -/

/-- Rust's `str::from_utf8` acceptance (no overlong forms, no surrogates, at most U+10FFFF) -/
def validUtf8 : Bytes → Bool
  | [] => true
  | b0 :: rest =>
    if b0 < 0x80 then validUtf8 rest
    else if 0xC2 ≤ b0 && b0 ≤ 0xDF then
      match rest with
      | b1 :: r => (0x80 ≤ b1 && b1 ≤ 0xBF) && validUtf8 r
      | _ => false
    else if 0xE0 ≤ b0 && b0 ≤ 0xEF then
      match rest with
      | b1 :: b2 :: r =>
        let lo : UInt8 := if b0 == 0xE0 then 0xA0 else 0x80
        let hi : UInt8 := if b0 == 0xED then 0x9F else 0xBF
        (lo ≤ b1 && b1 ≤ hi) && (0x80 ≤ b2 && b2 ≤ 0xBF) && validUtf8 r
      | _ => false
    else if 0xF0 ≤ b0 && b0 ≤ 0xF4 then
      match rest with
      | b1 :: b2 :: b3 :: r =>
        let lo : UInt8 := if b0 == 0xF0 then 0x90 else 0x80
        let hi : UInt8 := if b0 == 0xF4 then 0x8F else 0xBF
        (lo ≤ b1 && b1 ≤ hi) && (0x80 ≤ b2 && b2 ≤ 0xBF) && (0x80 ≤ b3 && b3 ≤ 0xBF) && validUtf8 r
      | _ => false
    else false

def fffd : Bytes := [0xEF, 0xBF, 0xBD]
def isCont (b : UInt8) : Bool := 0x80 ≤ b && b ≤ 0xBF

/-- `OsStr::to_string_lossy` (`String::from_utf8_lossy`): every maximal ill-formed prefix of a sequence becomes one U+FFFD.
    `ArgsIter` searches the table and cuts concatenated values on **this** string, so a byte that is not UTF-8 inside a
    concatenated value reaches the parser (and the hash) as U+FFFD, while a separated value keeps its bytes. -/
def lossyFuel : Nat → Bytes → Bytes
  | 0, _ => []
  | _, [] => []
  | fuel + 1, b0 :: rest =>
    if b0 < 0x80 then b0 :: lossyFuel fuel rest
    else if 0xC2 ≤ b0 && b0 ≤ 0xDF then
      match rest with
      | b1 :: r => if isCont b1 then b0 :: b1 :: lossyFuel fuel r else fffd ++ lossyFuel fuel rest
      | [] => fffd
    else if 0xE0 ≤ b0 && b0 ≤ 0xEF then
      let lo : UInt8 := if b0 == 0xE0 then 0xA0 else 0x80
      let hi : UInt8 := if b0 == 0xED then 0x9F else 0xBF
      match rest with
      | b1 :: r1 =>
        if lo ≤ b1 && b1 ≤ hi then
          match r1 with
          | b2 :: r2 => if isCont b2 then b0 :: b1 :: b2 :: lossyFuel fuel r2 else fffd ++ lossyFuel fuel r1
          | [] => fffd
        else fffd ++ lossyFuel fuel rest
      | [] => fffd
    else if 0xF0 ≤ b0 && b0 ≤ 0xF4 then
      let lo : UInt8 := if b0 == 0xF0 then 0x90 else 0x80
      let hi : UInt8 := if b0 == 0xF4 then 0x8F else 0xBF
      match rest with
      | b1 :: r1 =>
        if lo ≤ b1 && b1 ≤ hi then
          match r1 with
          | b2 :: r2 =>
            if isCont b2 then
              match r2 with
              | b3 :: r3 => if isCont b3 then b0 :: b1 :: b2 :: b3 :: lossyFuel fuel r3 else fffd ++ lossyFuel fuel r2
              | [] => fffd
            else fffd ++ lossyFuel fuel r1
          | [] => fffd
        else fffd ++ lossyFuel fuel rest
      | [] => fffd
    else fffd ++ lossyFuel fuel rest

def lossy (b : Bytes) : Bytes := lossyFuel (b.length + 1) b

/-! ## value types -/

/-- `splitn(2, "=")` -/
def splitEq : Bytes → Bytes × Option Bytes
  | [] => ([], none)
  | b :: rest => if b == 61 then ([], some rest) else let (k, v) := splitEq rest; (b :: k, v)

def splitComma : Bytes → List Bytes
  | [] => [[]]
  | b :: rest =>
    match splitComma rest with
    | c :: cs => if b == 44 then [] :: c :: cs else (b :: c) :: cs
    | [] => [[b]]

def sRlib : Bytes := [114, 108, 105, 98]
def sLib : Bytes := [108, 105, 98]
def sStaticlib : Bytes := [115, 116, 97, 116, 105, 99, 108, 105, 98]
def sDylib : Bytes := [100, 121, 108, 105, 98]
def sAll : Bytes := [97, 108, 108]
def sJson : Bytes := [106, 115, 111, 110]
def dotJson : Bytes := [46, 106, 115, 111, 110]

def splitSlash : Bytes → List Bytes
  | [] => [[]]
  | b :: rest =>
    match splitSlash rest with
    | c :: cs => if b == 47 then [] :: c :: cs else (b :: c) :: cs
    | [] => [[b]]

/-- last component of a path as `Path::file_name` sees it (trailing separators and `/.` ignored); `none` for `..`, `/`, empty -/
def fileName (p : Bytes) : Option Bytes :=
  let comps := (splitSlash p).filter fun c => !c.isEmpty && c != [46]
  match comps.getLast? with
  | none => none
  | some c => if c == [46, 46] then none else some c

/-- `Path::extension` -/
def extension (p : Bytes) : Option Bytes :=
  match fileName p with
  | none => none
  | some f =>
    match (f.reverse.span (· != 46)) with
    | (_, []) => none                      -- no dot
    | (suf, _ :: pre) => if pre.isEmpty then none else some suf.reverse

inductive PVal where
  | os (b : Bytes)                                     -- OsString / PathBuf: anything
  | str (b : Bytes)                                    -- String: valid UTF-8
  | kv (k : Bytes) (v : Option Bytes)                  -- ArgCodegen / ArgUnstable
  | lib (kind name : Bytes)                            -- ArgLinkLibrary
  | lpath (kind path : Bytes)                          -- ArgLinkPath
  | ext (name path : Bytes)                            -- ArgExtern
  | crateTypes (rlib staticlib : Bool) (others : List Bytes)
  | targetName (b : Bytes) | targetPath (b : Bytes) | targetUnsure (b : Bytes)
deriving Repr, DecidableEq

/-- `FromArg::process` per type; `none` = `ArgParseError` (⇒ "argument parse"); `isFile` answers `<arg>.json` probes -/
def parseVal (isFile : Bytes → Bool) (ty : RTy) (b : Bytes) : Option PVal :=
  match ty with
  | .os | .path => some (.os b)
  | .str => if validUtf8 b then some (.str b) else none
  | .codegen | .unstable => if validUtf8 b then let (k, v) := splitEq b; some (.kv k v) else none
  | .linkLibrary =>
    if validUtf8 b then (match splitEq b with | (k, some n) => some (.lib k n) | (n, none) => some (.lib sDylib n)) else none
  | .linkPath =>
    if validUtf8 b then (match splitEq b with | (k, some p) => some (.lpath k p) | (p, none) => some (.lpath sAll p)) else none
  | .extern =>
    if validUtf8 b then (match splitEq b with | (n, some p) => some (.ext n p) | (_, none) => none) else none
  | .crateTypes =>
    if validUtf8 b then
      let tys := splitComma b
      some (.crateTypes (tys.any fun t => t == sLib || t == sRlib) (tys.any (· == sStaticlib))
              (tys.filter fun t => !(t == sLib || t == sRlib || t == sStaticlib)))
    else none
  | .target =>
    if extension b == some sJson then some (.targetPath b)
    else if isFile (b ++ dotJson) then some (.targetUnsure b)
    else if validUtf8 b then some (.targetName b) else none

def leB (a b : Bytes) : Bool := cmpBytes a b != .gt

def dedup : List Bytes → List Bytes
  | [] => []
  | [a] => [a]
  | a :: b :: rest => if a == b then dedup (b :: rest) else a :: dedup (b :: rest)

def joinWith (sep : UInt8) : List Bytes → Bytes
  | [] => []
  | [a] => a
  | a :: rest => a ++ [sep] ++ joinWith sep rest

/-- `IntoArg::into_arg_os_string`: what `generate_hash_key` hashes as the value -/
def PVal.render : PVal → Bytes
  | .os b | .str b | .targetName b | .targetPath b | .targetUnsure b => b
  | .kv k none => k
  | .kv k (some v) => k ++ [61] ++ v
  | .lib k n => k ++ [61] ++ n
  | .lpath k p => k ++ [61] ++ p
  | .ext n p => n ++ [61] ++ p
  | .crateTypes r s others =>
    joinWith 44 (dedup ((others ++ (if r then [sRlib] else []) ++ (if s then [sStaticlib] else [])).mergeSort leB))

inductive Tok where
  | raw (s : Bytes)
  | unknown (s : Bytes)
  | flag (name : Bytes) (v : RV)
  | val (name : Bytes) (v : RV) (p : PVal)
deriving Repr, DecidableEq

/-- `ArgsIter` run to completion; the iterator is lazy, so a parse error is an item: what precedes it is classified first -/
def tokenize (isFile : Bytes → Bool) (t : List RInfo) : Nat → List Bytes → List (Option Tok)
  | 0, _ => []
  | _, [] => []
  | fuel + 1, raw :: rest =>
    let arg := lossy raw            -- the table is searched, and concatenated values are cut, on the lossy string
    match search t arg with
    | none => some (if arg.head? == some 45 then .unknown raw else .raw raw) :: tokenize isFile t fuel rest
    | some i =>
      match i.sep with
      | none => some (.flag i.name i.v) :: tokenize isFile t fuel rest
      | some d =>
        let concat : Bytes :=
          let len := i.name.length
          let len := match d with
            | some dd => if arg.getD len 0 == dd && len < arg.length then len + 1 else len
            | none => len
          arg.drop len
        let done (value : Bytes) (rest' : List Bytes) : List (Option Tok) :=
          match parseVal isFile i.ty value with
          | some p => some (.val i.name i.v p) :: tokenize isFile t fuel rest'
          | none => [none]
        if arg == i.name then
          match rest with
          | v :: rest' => done v rest'
          | [] => if d.isNone then done [] [] else [none]
        else done concat rest

/-! ## `parse_arguments` -/

inductive Color | on | off | auto
deriving Repr, DecidableEq

structure St where
  args : List (Bytes × Option Bytes) := []      -- flag (or raw argument), re-rendered value
  emit : Option (List Bytes) := none
  input : Option Bytes := none
  outDir : Option Bytes := none
  crateName : Option Bytes := none
  rlib : Bool := false
  staticlib : Bool := false
  extraFilename : Option Bytes := none
  externs : List Bytes := []
  linkPaths : List Bytes := []
  staticNames : List Bytes := []
  staticPaths : List Bytes := []
  color : Color := .auto
  json : Bool := false
  profile : Option Bytes := none
  gcno : Bool := false
  targetJson : Option Bytes := none
deriving Repr

inductive Res where
  | notCompilation
  | cannotCache (why : Bytes)
  | ok (s : St) (staticlibs : List Bytes) (depInfo prof gcnoF : Option Bytes)
deriving Repr

def hasRoot (s : Bytes) : Bool := s.head? == some 47

/-- `Path::join` -/
def pjoin (base p : Bytes) : Bytes :=
  if hasRoot p then p
  else if base.isEmpty then p
  else if base.getLast? == some 47 then base ++ p
  else base ++ [47] ++ p

def tokArg : Tok → Bytes × Option Bytes
  | .raw s => (s, none) | .unknown s => (s, none) | .flag n _ => (n, none) | .val n _ p => (n, some p.render)

/-- one iteration of the loop; `Except` carries the early returns -/
def step (cwd : Bytes) (st : St) (t : Tok) : Except Res St :=
  let push (s : St) : St := { s with args := s.args ++ [tokArg t] }
  match t with
  | .flag n .tooHardFlag => .error (.cannotCache n)
  | .val n .tooHardPath _ => .error (.cannotCache n)
  | .flag _ .notCompilationFlag | .val _ .notCompilation _ => .error .notCompilation
  | .val _ .linkLibrary (.lib k n) =>
    .ok (push (if k == [115, 116, 97, 116, 105, 99] then { st with staticNames := st.staticNames ++ [n] } else st))
  | .val _ .linkPath (.lpath k p) =>
    let crate := k == [99, 114, 97, 116, 101] || k == [100, 101, 112, 101, 110, 100, 101, 110, 99, 121] || k == sAll
    let native := k == [110, 97, 116, 105, 118, 101] || k == sAll
    .ok (push { st with linkPaths := st.linkPaths ++ (if crate then [pjoin cwd p] else []),
                        staticPaths := st.staticPaths ++ (if native then [pjoin cwd p] else []) })
  | .val _ .emit (.str v) =>
    if st.emit.isSome then .error (.cannotCache [109, 111, 114, 101, 32, 116, 104, 97, 110, 32, 111, 110, 101, 32, 45, 45, 101, 109, 105, 116])
    else .ok (push { st with emit := some (splitComma v) })
  | .val _ .crateType (.crateTypes r s others) =>
    if !others.isEmpty then .error (.cannotCache [99, 114, 97, 116, 101, 45, 116, 121, 112, 101])
    else .ok (push { st with rlib := st.rlib || r, staticlib := st.staticlib || s })
  | .val _ .crateName (.str v) => .ok (push { st with crateName := some v })
  | .val _ .outDir (.os v) => .ok (push { st with outDir := some v })
  | .val _ .extern (.ext _ p) => .ok (push { st with externs := st.externs ++ [p] })
  | .val _ .codeGen (.kv k v) =>
    if k == [101, 120, 116, 114, 97, 45, 102, 105, 108, 101, 110, 97, 109, 101] then
      match v with
      | some v => .ok (push { st with extraFilename := some v })
      | none => .error (.cannotCache [101, 120, 116, 114, 97, 45, 102, 105, 108, 101, 110, 97, 109, 101])
    else if k == [112, 114, 111, 102, 105, 108, 101, 45, 117, 115, 101] && v.isSome then .ok (push { st with profile := v })
    else if k == [105, 110, 99, 114, 101, 109, 101, 110, 116, 97, 108] then .error (.cannotCache [105, 110, 99, 114, 101, 109, 101, 110, 116, 97, 108])
    else if k == [115, 97, 118, 101, 45, 116, 101, 109, 112, 115] then .error (.cannotCache [115, 97, 118, 101, 45, 116, 101, 109, 112, 115])      -- "save-temps" (fix F-C05-c)
    else .ok (push st)
  | .val _ .unstable (.kv k v) =>
    let yes := v == none || v == some [121] || v == some [121, 101, 115] || v == some [111, 110]
    .ok (push (if k == [112, 114, 111, 102, 105, 108, 101] && yes then { st with gcno := true } else st))
  | .val _ .color (.str v) =>
    -- `--color` arguments are dropped from the argument list
    .ok { st with color := if v == [97, 108, 119, 97, 121, 115] then .on else if v == [110, 101, 118, 101, 114] then .off else .auto }
  | .val _ .json _ => .ok (push { st with json := true })
  | .val _ .target (.targetPath p) => .ok (push { st with targetJson := some p })
  | .val _ .target (.targetUnsure _) => .error (.cannotCache [116, 97, 114, 103, 101, 116, 32, 117, 110, 115, 117, 114, 101])
  | .raw v =>
    if st.input.isSome then .error (.cannotCache [109, 117, 108, 116, 105, 112, 108, 101, 32, 105, 110, 112, 117, 116, 32, 102, 105, 108, 101, 115])
    else .ok (push { st with input := some v })
  | _ => .ok (push st)      -- PassThrough, target names, unknown flags, and value shapes that cannot occur for a variant

def sArgParse : Bytes := [97, 114, 103, 117, 109, 101, 110, 116, 32, 112, 97, 114, 115, 101]

def loop (cwd : Bytes) : St → List (Option Tok) → Except Res St
  | st, [] => .ok st
  | _, none :: _ => .error (.cannotCache sArgParse)
  | st, some t :: ts =>
    match step cwd st t with
    | .ok st' => loop cwd st' ts
    | .error r => .error r

/-! ### order of `PathBuf`s (`externs.sort()`): component-wise, not byte-wise -/

/-- components as `Path::components` yields them, tagged so that the derived order of `Component` is the order of the
    pairs: RootDir (1) < CurDir (2, leading only) < ParentDir (3) < Normal (4, by bytes) -/
def comps (p : Bytes) : List (Nat × Bytes) :=
  let parts := splitSlash p
  let body := parts.filter fun c => !c.isEmpty && c != [46]
  let lead : List (Nat × Bytes) :=
    if hasRoot p then [(1, [])] else if parts.head? == some [46] then [(2, [])] else []
  lead ++ body.map fun c => if c == [46, 46] then (3, []) else (4, c)

def leComp (a b : Nat × Bytes) : Bool := if a.1 == b.1 then leB a.2 b.2 else a.1 < b.1

def leComps : List (Nat × Bytes) → List (Nat × Bytes) → Bool
  | [], _ => true
  | _ :: _, [] => false
  | a :: as, b :: bs => if a == b then leComps as bs else leComp a b

def lePath (a b : Bytes) : Bool := leComps (comps a) (comps b)

/-- the part of `parse_arguments` after the loop -/
def finish (exists_ : Bytes → Bool) (allowedEmit : List Bytes) (st : St) : Res :=
  match st.input, st.outDir, st.emit, st.crateName with
  | none, _, _, _ => .cannotCache [109, 105, 115, 115, 105, 110, 103, 32, 105, 110, 112, 117, 116]
  | _, none, _, _ => .cannotCache [109, 105, 115, 115, 105, 110, 103, 32, 111, 117, 116, 112, 117, 116, 95, 100, 105, 114]
  | _, _, none, _ => .cannotCache [109, 105, 115, 115, 105, 110, 103, 32, 101, 109, 105, 116]
  | _, _, _, none => .cannotCache [109, 105, 115, 115, 105, 110, 103, 32, 99, 114, 97, 116, 101, 95, 110, 97, 109, 101]
  | some _, some _, some emit, some name =>
    let link := emit.contains [108, 105, 110, 107]
    if !link && !emit.contains [109, 101, 116, 97, 100, 97, 116, 97] then .notCompilation
    else if !st.rlib && !st.staticlib then .cannotCache [99, 114, 97, 116, 101, 45, 116, 121, 112, 101]
    else if emit.any (fun e => !allowedEmit.contains e) then
      .cannotCache [117, 110, 115, 117, 112, 112, 111, 114, 116, 101, 100, 32, 45, 45, 101, 109, 105, 116]
    else
      let stem := name ++ st.extraFilename.getD []
      let depInfo := if emit.contains [100, 101, 112, 45, 105, 110, 102, 111] then some (stem ++ [46, 100]) else none
      let prof := if link then st.profile else none
      let gcnoF := if st.gcno && link then some (stem ++ [46, 103, 99, 110, 111]) else none
      let staticlibs := st.staticNames.filterMap fun n =>
        (st.staticPaths.flatMap fun p =>
          [pjoin p ([108, 105, 98] ++ n ++ [46, 97]), pjoin p (n ++ [46, 108, 105, 98]), pjoin p (n ++ [46, 97])]).find? exists_
      .ok { st with externs := st.externs.mergeSort lePath } staticlibs depInfo prof gcnoF

def parseArguments (table : List RInfo) (allowedEmit : List Bytes) (exists_ : Bytes → Bool) (cwd : Bytes) (argv : List Bytes) : Res :=
  match loop cwd {} (tokenize exists_ table (argv.length + 1) argv) with
  | .error r => r
  | .ok st => finish exists_ allowedEmit st

end RArgsM
