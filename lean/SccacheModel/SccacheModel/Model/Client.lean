namespace ClientM

/-! Sketch + proofs (design round): the client's reaction to what it reads from the server (C11),
    `commands.rs::handle_compile_response`. -/

inductive First where
  | compileStarted | unhandledCompile | unsupportedCompiler | otherResponse | ioError
deriving Repr, DecidableEq

inductive Second where
  | finished (retcode : Option Int) (signal : Option Int)
  | otherResponse
  | eof                -- `io::ErrorKind::UnexpectedEof` while reading the header or the body
  | otherError         -- reset, undecodable frame, …
deriving Repr, DecidableEq

inductive Action where
  | deliver (exit : Int)       -- print the server's stdout/stderr, exit with this status
  | localCompile               -- run the original command line locally and return its status
  | sccacheError               -- exit non-zero with an sccache error message
deriving Repr, DecidableEq

def clientDecide (ignoreIoErrors : Bool) (f : First) (s : Second) : Action :=
  match f with
  | .ioError | .otherResponse => .sccacheError
  | .unsupportedCompiler => .sccacheError
  | .unhandledCompile => .localCompile
  | .compileStarted =>
    match s with
    | .finished (some rc) _ => .deliver rc
    | .finished none (some _) => .deliver (-2)
    | .finished none none => .deliver (-3)
    | .otherResponse => .sccacheError
    | .eof => .localCompile
    | .otherError => if ignoreIoErrors then .localCompile else .sccacheError

/-- C11: exit status 0 is only ever the server's reported 0 or a local compile; never an error path -/
theorem exit0_only_if_true_result (ig : Bool) (f : First) (s : Second) :
    clientDecide ig f s = .deliver 0 → f = .compileStarted ∧ ∃ sg, s = .finished (some 0) sg := by
  cases f <;> cases s <;> simp [clientDecide]
  · rename_i rc sg
    cases rc <;> cases sg <;> simp
  · split <;> simp

/-- C11: after the acknowledgement, a closed connection always degrades to a local compile -/
theorem ack_then_eof_local (ig : Bool) : clientDecide ig .compileStarted .eof = .localCompile := rfl

/-- C11: a server lost before the acknowledgement is an sccache error, never a silent success -/
theorem lost_before_ack (ig : Bool) (s : Second) : clientDecide ig .ioError s = .sccacheError := rfl

end ClientM
