namespace RustKeyM

/-! Sketch + proofs (design round): pre-image of the Rust cache key (`RustHasher::generate_hash_key`), C05. -/
abbrev Bytes := List UInt8

def le64 (n : Nat) : Bytes := (List.range 8).map fun i => UInt8.ofNat ((n / 256 ^ i) % 256)
def encArg (a : Bytes) : Bytes := le64 a.length ++ a

/-- `impl Hash for str` through a `Hasher` that only overrides `write`: the bytes, then `0xff` -/
def encStr (s : Bytes) : Bytes := s ++ [255]

def splitSep : Bytes → List Bytes
  | [] => [[]]
  | b :: rest =>
    match splitSep rest with
    | c :: cs => if b = 47 then [] :: c :: cs else (b :: c) :: cs
    | [] => [[b]]

/-- `usize::rotate_right(2)` on 64 bits -/
def rotr2 (x : Nat) : Nat := x / 4 + (x % 4) * 4611686018427387904

/-- `impl Hash for Path` (Unix, std of the pinned toolchain): the components without separators — empty
    components and, except in first position, `.` components are skipped — then a `usize` mixing the component
    lengths. `/a/b`, `/a//b` and `/a/./b` therefore feed the same bytes. -/
def encPath (p : Bytes) : Bytes :=
  let comps : List Bytes := match splitSep p with
    | [] => []
    | c0 :: cs => (if c0.isEmpty then [] else [c0]) ++ cs.filter fun c => !c.isEmpty && c != [46]
  comps.flatten ++ le64 (comps.foldl (fun (cb : Nat) (c : Bytes) => rotr2 ((cb + c.length) % 18446744073709551616)) 0)

/-- a parsed rustc argument: the flag and its (separated) value, e.g. (`--cfg`, `feature="x"`) -/
abbrev RArg := Bytes × Option Bytes

structure RReq where
  version : Bytes               -- CACHE_VERSION
  shlibDigests : List Bytes     -- digests of the sysroot shared libraries
  args : List RArg
  targetJson : Bool             -- `--target` names a json file (then hashed by content, not as an argument)
  sourceHashes : List Bytes     -- in dep-info order
  externHashes : List Bytes     -- in sorted path order (`externs.sort()`)
  staticlibHashes : List Bytes
  targetJsonHash : List Bytes   -- 0 or 1
  envDeps : List (Bytes × Bytes)   -- sorted `# env-dep:` pairs
  cargoEnv : List (Bytes × Bytes)  -- sorted, filtered `CARGO_*` variables
  cwd : Bytes
  rustcVersion : Bytes

/-- lexicographic order on bytes and on (flag, value) pairs — what `sortables.sort()` uses -/
def leBytes : Bytes → Bytes → Bool
  | [], _ => true
  | _ :: _, [] => false
  | a :: as, b :: bs => if a < b then true else if b < a then false else leBytes as bs

def leOpt : Option Bytes → Option Bytes → Bool
  | none, _ => true
  | some _, none => false
  | some a, some b => leBytes a b

def leArg (x y : RArg) : Bool := if x.1 == y.1 then leOpt x.2 y.2 else leBytes x.1 y.1

def flagIs (s : List UInt8) (a : RArg) : Bool := a.1 == s
def fExtern : Bytes := [45, 45, 101, 120, 116, 101, 114, 110]         -- --extern
def fL : Bytes := [45, 76]                                            -- -L
def fOutDir : Bytes := [45, 45, 111, 117, 116, 45, 100, 105, 114]     -- --out-dir
def fTarget : Bytes := [45, 45, 116, 97, 114, 103, 101, 116]          -- --target
def fCfg : Bytes := [45, 45, 99, 102, 103]                            -- --cfg

def hashedArgs (r : RReq) : List RArg :=
  (r.args.filter fun a => !(flagIs fExtern a || flagIs fL a || flagIs fOutDir a)).filter fun a =>
    !(r.targetJson && flagIs fTarget a)

def restArgs (r : RReq) : List RArg := (hashedArgs r).filter fun a => !flagIs fCfg a
def cfgArgs (r : RReq) : List RArg := (hashedArgs r).filter (flagIs fCfg)

/-- the undelimited concatenation that is hashed as one length-prefixed string -/
def argString (r : RReq) : Bytes :=
  (restArgs r ++ (cfgArgs r).mergeSort leArg).flatMap fun a => a.1 ++ a.2.getD []

def envTok (kv : Bytes × Bytes) : Bytes := encArg kv.1 ++ [61] ++ encArg kv.2

def encRust (r : RReq) : Bytes :=
  r.version ++ r.shlibDigests.flatten ++ encArg (argString r)
    ++ (r.sourceHashes ++ r.externHashes ++ r.staticlibHashes ++ r.targetJsonHash).flatten
    ++ r.envDeps.flatMap envTok ++ r.cargoEnv.flatMap envTok ++ encPath r.cwd ++ encStr r.rustcVersion

/-! ### order lemmas -/

theorem leBytes_refl (a : Bytes) : leBytes a a = true := by
  induction a with
  | nil => rfl
  | cons x xs ih => simp [leBytes, ih]

theorem leBytes_total (a b : Bytes) : (leBytes a b || leBytes b a) = true := by
  induction a generalizing b with
  | nil => simp [leBytes]
  | cons x xs ih =>
    cases b with
    | nil => simp [leBytes]
    | cons y ys =>
      simp only [leBytes]
      by_cases h1 : x < y
      · simp [h1]
      · by_cases h2 : y < x
        · simp [h1, h2]
        · simp [h1, h2, ih ys]

theorem leBytes_antisymm (a b : Bytes) (h1 : leBytes a b = true) (h2 : leBytes b a = true) : a = b := by
  induction a generalizing b with
  | nil => cases b with
    | nil => rfl
    | cons y ys => simp [leBytes] at h2
  | cons x xs ih =>
    cases b with
    | nil => simp [leBytes] at h1
    | cons y ys =>
      simp only [leBytes] at h1 h2
      by_cases hxy : x < y
      · have : ¬ y < x := by intro h; exact absurd (UInt8.lt_trans hxy h) (UInt8.lt_irrefl _)
        simp [hxy, this] at h2
      · by_cases hyx : y < x
        · simp [hxy, hyx] at h1
        · simp only [hxy, hyx, if_false] at h1 h2
          have hx : x = y := by
            have := UInt8.le_antisymm (UInt8.not_lt.mp hyx) (UInt8.not_lt.mp hxy)
            exact this
          rw [hx, ih ys h1 h2]

theorem leBytes_trans (a b c : Bytes) (h1 : leBytes a b = true) (h2 : leBytes b c = true) : leBytes a c = true := by
  induction a generalizing b c with
  | nil => simp [leBytes]
  | cons x xs ih =>
    cases b with
    | nil => simp [leBytes] at h1
    | cons y ys =>
      cases c with
      | nil => simp [leBytes] at h2
      | cons z zs =>
        simp only [leBytes] at h1 h2 ⊢
        by_cases hxy : x < y
        · by_cases hyz : y < z
          · simp [UInt8.lt_trans hxy hyz]
          · by_cases hzy : z < y
            · simp [hyz, hzy] at h2
            · have : y = z := UInt8.le_antisymm (UInt8.not_lt.mp hzy) (UInt8.not_lt.mp hyz)
              subst this; simp [hxy]
        · by_cases hyx : y < x
          · simp [hxy, hyx] at h1
          · have hxy' : x = y := UInt8.le_antisymm (UInt8.not_lt.mp hyx) (UInt8.not_lt.mp hxy)
            subst hxy'
            simp only [hxy, if_false] at h1
            by_cases hxz : x < z
            · simp [hxz]
            · by_cases hzx : z < x
              · simp [hxz, hzx] at h2
              · simp only [hxz, hzx, if_false] at h2 ⊢
                exact ih ys zs h1 h2

theorem leOpt_total (a b : Option Bytes) : (leOpt a b || leOpt b a) = true := by
  cases a <;> cases b <;> simp [leOpt, leBytes_total]
theorem leOpt_antisymm (a b : Option Bytes) (h1 : leOpt a b = true) (h2 : leOpt b a = true) : a = b := by
  cases a <;> cases b <;> simp [leOpt] at h1 h2 ⊢
  exact leBytes_antisymm _ _ h1 h2
theorem leOpt_trans (a b c : Option Bytes) (h1 : leOpt a b = true) (h2 : leOpt b c = true) : leOpt a c = true := by
  cases a <;> cases b <;> cases c <;> simp [leOpt] at h1 h2 ⊢
  exact leBytes_trans _ _ _ h1 h2

theorem leArg_total (x y : RArg) : (leArg x y || leArg y x) = true := by
  unfold leArg
  by_cases h : x.1 = y.1
  · simp [h, leOpt_total]
  · have h' : ¬ y.1 = x.1 := fun e => h e.symm
    simp [h, h', leBytes_total]

theorem leArg_antisymm (x y : RArg) (h1 : leArg x y = true) (h2 : leArg y x = true) : x = y := by
  unfold leArg at h1 h2
  by_cases h : x.1 = y.1
  · simp [h] at h1 h2
    exact Prod.ext h (leOpt_antisymm _ _ h1 h2)
  · have h' : ¬ y.1 = x.1 := fun e => h e.symm
    simp [h, h'] at h1 h2
    exact absurd (leBytes_antisymm _ _ h1 h2) h

theorem leArg_iff (a b : RArg) :
    leArg a b = true ↔ (a.1 = b.1 ∧ leOpt a.2 b.2 = true) ∨ (a.1 ≠ b.1 ∧ leBytes a.1 b.1 = true) := by
  unfold leArg
  by_cases h : a.1 = b.1
  · simp [h]
  · simp [h]

theorem leArg_trans (x y z : RArg) (h1 : leArg x y = true) (h2 : leArg y z = true) : leArg x z = true := by
  rw [leArg_iff] at h1 h2 ⊢
  rcases h1 with ⟨e1, o1⟩ | ⟨n1, b1⟩ <;> rcases h2 with ⟨e2, o2⟩ | ⟨n2, b2⟩
  · exact Or.inl ⟨e1.trans e2, leOpt_trans _ _ _ o1 o2⟩
  · exact Or.inr ⟨fun e => n2 (e1.symm.trans e), by rw [e1]; exact b2⟩
  · exact Or.inr ⟨fun e => n1 (e.trans e2.symm), by rw [← e2]; exact b1⟩
  · by_cases hxz : x.1 = z.1
    · exfalso
      rw [← hxz] at b2
      exact n1 (leBytes_antisymm _ _ b1 b2)
    · exact Or.inr ⟨hxz, leBytes_trans _ _ _ b1 b2⟩

/-- sorting is insensitive to the order in which the `--cfg` arguments were given -/
theorem sort_perm_eq (l1 l2 : List RArg) (h : l1.Perm l2) : l1.mergeSort leArg = l2.mergeSort leArg := by
  apply List.Perm.eq_of_pairwise (le := fun a b => leArg a b = true)
  · intro a b _ _ h1 h2; exact leArg_antisymm a b h1 h2
  · exact List.pairwise_mergeSort (fun a b c => leArg_trans a b c) leArg_total l1
  · exact List.pairwise_mergeSort (fun a b c => leArg_trans a b c) leArg_total l2
  · exact (List.mergeSort_perm l1 leArg).trans (h.trans (List.mergeSort_perm l2 leArg).symm)

/-- C05 `rust_key_perm`: two requests whose non-`--cfg` hashed arguments agree in order and whose `--cfg`
    arguments are permutations of each other (and whose other hashed components agree) have the same key
    pre-image; `--extern` and `-L` are not part of it at all -/
theorem rust_key_perm (r1 r2 : RReq) (hrest : restArgs r1 = restArgs r2) (hcfg : (cfgArgs r1).Perm (cfgArgs r2))
    (h1 : r1.version = r2.version) (h2 : r1.shlibDigests = r2.shlibDigests) (h3 : r1.sourceHashes = r2.sourceHashes)
    (h4 : r1.externHashes = r2.externHashes) (h5 : r1.staticlibHashes = r2.staticlibHashes)
    (h6 : r1.targetJsonHash = r2.targetJsonHash) (h7 : r1.envDeps = r2.envDeps) (h8 : r1.cargoEnv = r2.cargoEnv)
    (h9 : r1.cwd = r2.cwd) (h10 : r1.rustcVersion = r2.rustcVersion) : encRust r1 = encRust r2 := by
  have : argString r1 = argString r2 := by
    simp only [argString, hrest, sort_perm_eq _ _ hcfg]
  simp only [encRust, this, h1, h2, h3, h4, h5, h6, h7, h8, h9, h10]

/-- changing only `--extern`, `-L` or `--out-dir` arguments (their paths) does not change the argument string:
    those inputs reach the key through content digests only -/
theorem rust_key_ignores_extern_paths (r : RReq) (extra : List RArg)
    (hx : ∀ a ∈ extra, (flagIs fExtern a || flagIs fL a || flagIs fOutDir a) = true) :
    argString { r with args := r.args ++ extra } = argString r := by
  have hf : (extra.filter fun a => !(flagIs fExtern a || flagIs fL a || flagIs fOutDir a)) = [] := by
    apply List.filter_eq_nil_iff.mpr
    intro a ha
    have := hx a ha
    simp [this]
  simp only [argString, restArgs, cfgArgs, hashedArgs, List.filter_append, hf, List.filter_nil, List.append_nil]

#print axioms rust_key_perm

/-! ### F-C05-a: the `name=` half of `--extern` is not part of the key -/

/-- two requests that differ only in which crate name is bound to which rlib: `--extern a=libp.rlib --extern
    b=libq.rlib` against `--extern a=libq.rlib --extern b=libp.rlib` (the extern digests are taken in sorted *path*
    order, so they are the same list) -/
def exSwap (swapped : Bool) : RReq :=
  { version := [1], shlibDigests := [], targetJson := false,
    args := if swapped then [(fExtern, some [97, 61, 113]), (fExtern, some [98, 61, 112])]     -- a=q b=p
            else [(fExtern, some [97, 61, 112]), (fExtern, some [98, 61, 113])],               -- a=p b=q
    sourceHashes := [[7]], externHashes := [[112], [113]], staticlibHashes := [], targetJsonHash := [],
    envDeps := [], cargoEnv := [], cwd := [47, 119], rustcVersion := [49] }

theorem extern_alias_witness :
    encRust (exSwap true) = encRust (exSwap false) ∧ (exSwap true).args ≠ (exSwap false).args := by
  have h (b : Bool) : argString (exSwap b) = argString { exSwap b with args := [] } := by
    have := rust_key_ignores_extern_paths { exSwap b with args := [] } (exSwap b).args (by cases b <;> decide)
    simpa using this
  refine ⟨?_, by decide⟩
  unfold encRust
  rw [h true, h false]
  rfl

end RustKeyM
