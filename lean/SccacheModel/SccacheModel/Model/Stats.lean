import SccacheModel.Gen.StatsTable

namespace StatsM

/-! Server statistics as a fold of counter increments (C14). `incsOfOutcome` / `incsOfRequest` are regenerated from
    `check_compiler` / `start_compile_task` (src/server.rs) on every run (Gen/StatsTable.lean). -/

abbrev Stats := Counter → Nat

def bump (s : Stats) (c : Counter) : Stats := fun x => if x = c then s x + 1 else s x

def statsOf (incs : List Counter) : Stats := incs.foldl bump (fun _ => 0)

theorem bump_comm (s : Stats) (a b : Counter) : bump (bump s a) b = bump (bump s b) a := by
  funext x
  simp only [bump]
  by_cases h1 : x = a <;> by_cases h2 : x = b <;> simp [h1, h2] <;> (try subst h1) <;> (try subst h2) <;> simp_all <;> omega

/-- every increment happens under one mutex, so a concurrent history is *some* interleaving of the
    per-request increment lists; the final counters do not depend on which one -/
theorem stats_interleaving_invariant (l₁ l₂ : List Counter) (p : l₁.Perm l₂) : statsOf l₁ = statsOf l₂ :=
  List.Perm.foldl_eq' p (fun _ _ _ _ s => bump_comm s _ _) _

theorem statsOf_count (incs : List Counter) (c : Counter) : statsOf incs c = incs.count c := by
  have : ∀ (s : Stats), (incs.foldl bump s) c = s c + incs.count c := by
    induction incs with
    | nil => intro s; simp
    | cons a as ih =>
      intro s
      simp only [List.foldl_cons, ih, bump, List.count_cons]
      by_cases h : c = a
      · subst h; simp; omega
      · have : ¬ (a = c) := fun e => h e.symm
        simp [h, this]
  simpa [statsOf] using this (fun _ => 0)

/-- the quiescent history: every request has run to completion -/
def history (reqs : List Disp) : List Counter := reqs.flatMap incsOfRequest

def cnt (reqs : List Disp) (c : Counter) : Nat := statsOf (history reqs) c

theorem cnt_cons (d : Disp) (ds : List Disp) (c : Counter) :
    cnt (d :: ds) c = (incsOfRequest d).count c + cnt ds c := by
  simp [cnt, statsOf_count, history, List.count_append]

/-- L1: every compile request is accounted for by exactly one disposition -/
theorem law_requests (reqs : List Disp) :
    cnt reqs .compileRequests = cnt reqs .executed + cnt reqs .notCacheable + cnt reqs .notCompile + cnt reqs .unsupported := by
  induction reqs with
  | nil => simp [cnt, history, statsOf]
  | cons d ds ih =>
    simp only [cnt_cons, ih]
    cases d with
    | unsupported => simp [incsOfRequest]; omega
    | notCacheable => simp [incsOfRequest]; omega
    | notCompile => simp [incsOfRequest]; omega
    | executed o =>
      cases o with
      | miss t ok => cases t <;> cases ok <;> simp [incsOfRequest, incsOfOutcome] <;> omega
      | _ => simp [incsOfRequest, incsOfOutcome] <;> omega

/-- L3: successful plus failed cache writes equal the number of misses -/
theorem law_writes (reqs : List Disp) :
    cnt reqs .cacheWrites + cnt reqs .cacheWriteErrors = cnt reqs .cacheMisses := by
  induction reqs with
  | nil => simp [cnt, history, statsOf]
  | cons d ds ih =>
    simp only [cnt_cons]
    cases d with
    | unsupported => simp [incsOfRequest]; exact ih
    | notCacheable => simp [incsOfRequest]; exact ih
    | notCompile => simp [incsOfRequest]; exact ih
    | executed o =>
      cases o with
      | miss t ok => cases t <;> cases ok <;> simp [incsOfRequest, incsOfOutcome] <;> omega
      | _ => simp [incsOfRequest, incsOfOutcome] <;> omega

/-- ledger: each class counter equals the number of requests of that class -/
theorem ledger_hits (reqs : List Disp) : cnt reqs .cacheHits = (reqs.filter (· = .executed .hit)).length := by
  induction reqs with
  | nil => simp [cnt, history, statsOf]
  | cons d ds ih =>
    simp only [cnt_cons, ih, List.filter_cons]
    cases d with
    | unsupported => simp [incsOfRequest]
    | notCacheable => simp [incsOfRequest]
    | notCompile => simp [incsOfRequest]
    | executed o =>
      cases o with
      | miss t ok => cases t <;> cases ok <;> simp [incsOfRequest, incsOfOutcome]
      | _ => simp [incsOfRequest, incsOfOutcome] <;> omega

/-- L2 (the part expressible in counters): an executed request compiles at most once and a hit never compiles -/
theorem law_compilations (reqs : List Disp) :
    cnt reqs .compilations + cnt reqs .cacheHits ≤ cnt reqs .executed ∧ cnt reqs .cacheMisses ≤ cnt reqs .compilations := by
  induction reqs with
  | nil => simp [cnt, history, statsOf]
  | cons d ds ih =>
    simp only [cnt_cons]
    cases d with
    | unsupported => simp [incsOfRequest]; exact ih
    | notCacheable => simp [incsOfRequest]; exact ih
    | notCompile => simp [incsOfRequest]; exact ih
    | executed o =>
      cases o with
      | miss t ok => cases t <;> cases ok <;> simp [incsOfRequest, incsOfOutcome] <;> omega
      | _ => simp [incsOfRequest, incsOfOutcome] <;> omega

#print axioms law_requests
#print axioms stats_interleaving_invariant

end StatsM
