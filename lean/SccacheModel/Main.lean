import SccacheModel.Driver.Finder
import SccacheModel.Driver.Recorder
import SccacheModel.Driver.Key
import SccacheModel.Driver.Lru
import SccacheModel.Driver.Sched
import SccacheModel.Driver.Args
import SccacheModel.Driver.Entry
import SccacheModel.Driver.Paths
import SccacheModel.Driver.Manifest
import SccacheModel.Driver.Stats
import SccacheModel.Driver.Client
import SccacheModel.Driver.Dist
import SccacheModel.Driver.Memo
import SccacheModel.Driver.L1
import SccacheModel.Driver.Framing
import SccacheModel.Driver.Tc
import SccacheModel.Driver.EntryRead
import SccacheModel.Driver.Atomic
import SccacheModel.Driver.Tokens
import SccacheModel.Driver.Config
import SccacheModel.Driver.RustArgs
import SccacheModel.Driver.RustKey
import SccacheModel.Driver.Shutdown
import SccacheModel.Driver.AtFile
import SccacheModel.Driver.Frame
import SccacheModel.Driver.ClientTc

/-- `modeld <model>`: line-protocol driver, one sub-command per executable model (DESIGN.md C.1) -/
def main (args : List String) : IO UInt32 := do
  match args with
  | ["finder"] => DrvFinder.main *> pure 0
  | ["recorder"] => DrvRec.main *> pure 0
  | ["key"] => DrvKey.main *> pure 0
  | ["lru"] => DrvLru.main *> pure 0
  | ["sched"] => DrvSched.main *> pure 0
  | ["args"] => DrvArgs.main *> pure 0
  | ["entry"] => DrvEntry.main *> pure 0
  | ["paths"] => DrvPaths.main *> pure 0
  | ["tcid"] => DrvPaths.mainIds *> pure 0
  | ["manifest"] => DrvManifest.main *> pure 0
  | ["stats"] => DrvStats.main *> pure 0
  | ["client"] => DrvClient.main *> pure 0
  | ["dist"] => DrvDist.main *> pure 0
  | ["memo"] => DrvMemo.main *> pure 0
  | ["l1"] => DrvL1.main *> pure 0
  | ["framing"] => DrvFraming.main *> pure 0
  | ["tc"] => DrvTc.main *> pure 0
  | ["entryread"] => DrvEntryRead.main *> pure 0
  | ["atomic"] => DrvAtomic.main *> pure 0
  | ["tokens"] => DrvTokens.main *> pure 0
  | ["config"] => DrvConfig.main *> pure 0
  | ["rustargs"] => DrvRustArgs.main *> pure 0
  | ["rustkey"] => DrvRustKey.main *> pure 0
  | ["shutdown"] => DrvShutdown.main *> pure 0
  | ["atfile"] => DrvAtFile.main *> pure 0
  | ["frame"] => DrvFrame.main *> pure 0
  | ["clienttc"] => DrvClientTc.main *> pure 0
  | _ => do IO.eprintln "usage: modeld <model>"; pure 2
