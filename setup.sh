#!/bin/sh
# setup_cmd: build the framework from files on disk only (offline). Idempotent.
set -e
cd "$(dirname "$0")"
export CARGO_NET_OFFLINE=true
mkdir -p .build work replays evidence
python3 tools/translate.py
(cd lean/SccacheModel && lake build SccacheModel modeld 2>&1 | grep -v '^ℹ\|^✔\|^info:' | tail -5)
cp /repo/Cargo.lock harness/Cargo.lock
(cd harness && env -u CARGO_TARGET_DIR -u CARGO_BUILD_TARGET_DIR cargo build --offline --target-dir /verif/.build/target --bins 2>&1 | tail -2)
(cd /repo && CARGO_PROFILE_DEV_DEBUG=0 RUSTFLAGS="--cfg sccache_verif" cargo build --offline --target-dir /verif/.build/target-repo \
   --no-default-features --features dist-client,dist-server --bin sccache --bin sccache-dist 2>&1 | tail -2)
echo setup done
