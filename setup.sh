#!/bin/sh
# setup_cmd: build the framework from files on disk only (offline). Idempotent.
set -e
cd "$(dirname "$0")"
export CARGO_NET_OFFLINE=true
mkdir -p .build work replays evidence
python3 tools/translate.py
(cd lean/SccacheModel && lake build SccacheModel modeld 2>&1 | grep -v '^ℹ\|^✔\|^info:' | tail -5)
cp /repo/Cargo.lock harness/Cargo.lock
(cd harness && cargo build --offline --bins 2>&1 | tail -2)
echo setup done
