"""System harness: drives the real `sccache` binary built from /repo's current tree (.build/target-repo) with a
private cache directory and server port, real gcc / clang / rustc, wrapper compilers that log their invocations."""
import os, subprocess, json, shutil, time, hashlib, stat, signal, random
from vlib import repo_bin, VERIF

def port_for(tag, k=0):
    """a private server port below the kernel's ephemeral range (32768..60999: the local port of any live outgoing
    connection there makes the server's bind fail with AddrInUse, which a client takes for 'a server is already running'),
    probed to be bindable right now"""
    import socket
    base = int(hashlib.sha1(tag.encode()).hexdigest(), 16) + k * 7 + os.getpid()
    for j in range(200):
        p = 21000 + (base + j * 13) % 11000
        s = socket.socket()
        try: s.bind(('127.0.0.1', p)); return p
        except OSError: continue
        finally: s.close()
    return 21000 + base % 11000

class Sc:
    def __init__(self, root, tag, env=None, uds=False):
        self.root = root; os.makedirs(root, exist_ok=True)
        self.cache = os.path.join(root, 'cache')
        self.bin = repo_bin('sccache')
        self.env = dict(os.environ, SCCACHE_DIR=self.cache, PATH='/usr/bin:/bin:/usr/local/bin:' + os.environ.get('PATH', ''), SCCACHE_IDLE_TIMEOUT='0', SCCACHE_LOG='off')
        for k in list(self.env):
            if k.startswith('SCCACHE_') and k not in ('SCCACHE_DIR', 'SCCACHE_IDLE_TIMEOUT', 'SCCACHE_LOG'): del self.env[k]
        if uds: self.env['SCCACHE_SERVER_UDS'] = os.path.join(root, 'sock')
        else: self.env['SCCACHE_SERVER_PORT'] = str(port_for(tag))
        self.env['SCCACHE_CONF'] = os.path.join(root, 'no-config')
        self.env['VERIF_SC_TAG'] = root            # inherited by the server process: lets the census find it
        if env: self.env.update(env)
    def use_config(self, pp_options):
        """cache location and preprocessor-cache options through a config file (SCCACHE_DIR would override the table)"""
        conf = os.path.join(self.root, 'sccache.conf')
        with open(conf, 'w') as f:
            f.write(f'[cache.disk]\ndir = "{self.cache}"\nsize = 10737418240\n\n[cache.disk.preprocessor_cache_mode]\n')
            for k, v in pp_options.items(): f.write(f'{k} = {"true" if v else "false"}\n')
        self.env['SCCACHE_CONF'] = conf; self.env.pop('SCCACHE_DIR', None)
    def run(self, args, cwd=None, env=None, timeout=120, input=None):
        e = dict(self.env);
        if env: e.update(env)
        return subprocess.run([self.bin] + args, cwd=cwd, env=e, capture_output=True, timeout=timeout, input=input)
    def start(self, env=None):
        r = self.run(['--start-server'], env=env); return r.returncode == 0 or b'already' in r.stderr
    def stop(self):
        self.run(['--stop-server'])
        self.wait_gone()
    def wait_gone(self, t=8.0):
        end = time.time() + t
        while time.time() < end:
            if not self.server_pids(): return True
            time.sleep(0.05)
        return False
    def server_pids(self):
        """pids of sccache server processes whose environment carries this instance's cache dir"""
        out = []
        for p in os.listdir('/proc'):
            if not p.isdigit(): continue
            try:
                if os.path.basename(os.readlink(f'/proc/{p}/exe')) != 'sccache': continue
                env = open(f'/proc/{p}/environ', 'rb').read().split(b'\0')
                if (b'VERIF_SC_TAG=' + self.root.encode()) in env and b'SCCACHE_START_SERVER=1' in env: out.append(int(p))
            except OSError: pass
        return out
    def kill(self):
        for p in self.server_pids():
            try: os.kill(p, signal.SIGKILL)
            except OSError: pass
        self.wait_gone()
    def stats(self):
        r = self.run(['--show-stats', '--stats-format=json'])
        try: return json.loads(r.stdout)['stats']
        except Exception: return None
    def zero(self): self.run(['--zero-stats'])
    def raw_compile(self, exe, cwd, args, timeout=20):
        """a Compile request written to the server's socket directly (what a client in another mount namespace or container sends:
        the path exists for it, not for the server); returns the bytes of the first response frame, b'' if the connection just ends"""
        import socket, struct
        os_ = lambda b: struct.pack('<IQ', 0, len(b)) + b
        body = struct.pack('<I', 4) + os_(exe.encode()) + os_(cwd.encode()) + struct.pack('<Q', len(args)) + b''.join(os_(a.encode()) for a in args) + struct.pack('<Q', 0)
        if 'SCCACHE_SERVER_UDS' in self.env: s = socket.socket(socket.AF_UNIX); s.connect(self.env['SCCACHE_SERVER_UDS'])
        else: s = socket.create_connection(('127.0.0.1', int(self.env['SCCACHE_SERVER_PORT'])))
        s.settimeout(timeout); s.sendall(struct.pack('>I', len(body)) + body)
        try:
            head = s.recv(4)
            if len(head) < 4: return b''
            n = struct.unpack('>I', head)[0]; buf = b''
            while len(buf) < n:
                c = s.recv(n - len(buf))
                if not c: break
                buf += c
            return buf
        except OSError: return b''
        finally: s.close()
    def compile(self, argv, cwd, env=None, timeout=120):
        return self.run(argv, cwd=cwd, env=env, timeout=timeout)

def counts(st):
    """flatten the counters a harness compares"""
    s = lambda d: sum(d['counts'].values()) if isinstance(d, dict) else d
    return {k: s(st[k]) for k in ('compile_requests', 'requests_executed', 'cache_hits', 'cache_misses', 'cache_errors', 'compilations', 'compile_fails',
                                  'cache_writes', 'cache_write_errors', 'non_cacheable_compilations', 'requests_not_cacheable', 'requests_not_compile', 'requests_unsupported_compiler',
                                  'forced_recaches', 'cache_timeouts', 'cache_read_errors') if k in st}

def file_state(path):
    try:
        st = os.stat(path); return (hashlib.sha256(open(path, 'rb').read()).hexdigest(), stat.S_IMODE(st.st_mode))
    except OSError: return None

def listing(d):
    out = {}
    for r, _, fs in os.walk(d):
        for f in fs:
            p = os.path.join(r, f)
            try: out[os.path.relpath(p, d)] = hashlib.sha256(open(p, 'rb').read()).hexdigest()
            except OSError: out[os.path.relpath(p, d)] = 'unreadable'
    return out

def wrapper(path, real, logfile, extra=''):
    """a compiler wrapper script: logs every real compilation (not -E / -v / --version probes) and execs the real compiler"""
    with open(path, 'w') as f:
        f.write('#!/bin/sh\ncase " $* " in *" -E "*|*" -v "*|*" --version "*|*" -vV "*|*" -dumpversion "*) ;; *) echo "$$ $*" >> %s ;; esac\n%sexec %s "$@"\n' % (logfile, extra, real))
    os.chmod(path, 0o755)

def loglines(logfile):
    try: return len(open(logfile).read().splitlines())
    except OSError: return 0
