"""C11: (a) the real sccache *client* against a scripted fake server — every (first response, second read) symbol of
the decision alphabet, with and without SCCACHE_IGNORE_SERVER_IO_ERROR — for `modeld client`; (b) the real server
SIGKILLed at phases of a request (during preprocessing, during compilation) with the client expected to deliver the
compiler's true result; (c) garbage / oversized frames on one connection while another client compiles."""
import socket, struct, subprocess, os, sys, threading, shutil, time, random
from syslib import *

def frame(b): return struct.pack('>I', len(b)) + b
def u32(n): return struct.pack('<I', n)
def opt_i32(v): return b'\x00' if v is None else b'\x01' + struct.pack('<i', v)
def vec(b): return struct.pack('<Q', len(b)) + b
R_STARTED = u32(0) + u32(0); R_UNHANDLED = u32(0) + u32(1)
R_UNSUPPORTED = u32(0) + u32(2) + u32(0) + vec(b'weirdcc')
R_ZEROSTATS = u32(1)
def finished(rc, sig, out=b'OUT\n', err=b'ERR\n'): return u32(5) + opt_i32(rc) + opt_i32(sig) + vec(out) + vec(err) + u32(2)
FIRST = {'compileStarted': [('send', frame(R_STARTED))], 'unhandledCompile': [('send', frame(R_UNHANDLED))],
         'unsupportedCompiler': [('send', frame(R_UNSUPPORTED))], 'otherResponse': [('send', frame(R_ZEROSTATS))],
         'ioError.close': [('close',)], 'ioError.partialHeader': [('send', b'\x00\x00'), ('close',)], 'ioError.garbage': [('send', frame(b'\xff' * 9)), ('close',)]}
SECOND = {'finished(0,-)': [('send', frame(finished(0, None)))], 'finished(3,-)': [('send', frame(finished(3, None)))],
          'finished(-,9)': [('send', frame(finished(None, 9)))], 'finished(-,-)': [('send', frame(finished(None, None)))],
          'finished(0,9)': [('send', frame(finished(0, 9)))],
          'otherResponse': [('send', frame(R_ZEROSTATS))], 'eof.header': [('close',)], 'eof.partialHeader': [('send', b'\x00\x00\x00'), ('close',)],
          'eof.body': [('send', struct.pack('>I', 100) + b'x' * 10), ('close',)], 'otherError.garbage': [('send', frame(b'\xff' * 9)), ('close',)],
          'otherError.reset': [('reset',)]}

def serve(script, srv):
    try:
        c, _ = srv.accept()
        h = c.recv(4, socket.MSG_WAITALL); n = struct.unpack('>I', h)[0]; got = b''
        while len(got) < n: got += c.recv(n - len(got))
        for step in script:
            if step[0] == 'send': c.sendall(step[1])
            elif step[0] == 'close': c.shutdown(socket.SHUT_RDWR); c.close(); return
            elif step[0] == 'reset': c.setsockopt(socket.SOL_SOCKET, socket.SO_LINGER, struct.pack('ii', 1, 0)); c.close(); return
        try: c.recv(1)
        except Exception: pass
        c.close()
    except Exception as e:
        sys.stderr.write('fake server: %r\n' % e)

def fake_server_cases(root, trace_path):
    shutil.rmtree(root, ignore_errors=True); w = os.path.join(root, 'w'); os.makedirs(w); os.makedirs(os.path.join(root, 'bin'))
    log = os.path.join(root, 'cc.log'); wrapper(os.path.join(root, 'bin', 'gcc'), '/usr/bin/gcc', log)
    open(os.path.join(w, 't.c'), 'w').write('int t(void){return 1;}\n')
    srv = socket.socket(); srv.setsockopt(socket.SOL_SOCKET, socket.SO_REUSEADDR, 1); srv.bind(('127.0.0.1', 0)); srv.listen(8); port = srv.getsockname()[1]
    sc = Sc(os.path.join(root, 'sc'), 'c11fake'); sc.env['SCCACHE_SERVER_PORT'] = str(port); sc.env['PATH'] = os.path.join(root, 'bin') + ':/usr/bin:/bin'
    lines = []; fails = []
    for ig in ['0', '1']:
        for f, fs in FIRST.items():
            seconds = SECOND.items() if f == 'compileStarted' else [('-', [])]
            for s, ss in seconds:
                for p in (log, os.path.join(w, 't.o')):
                    try: os.remove(p)
                    except OSError: pass
                t = threading.Thread(target=serve, args=(fs + ss, srv)); t.start()
                env = {'SCCACHE_IGNORE_SERVER_IO_ERROR': '1'} if ig == '1' else {}
                p = sc.run(['gcc', '-c', 't.c', '-o', 't.o'], cwd=w, env=env, timeout=60)
                t.join(timeout=10)
                ran = os.path.exists(log); obj = os.path.exists(os.path.join(w, 't.o'))
                lines.append(f"{ig}\t{f}\t{s}\t{p.returncode}\t{'ran' if ran else 'norun'}\t{'OUT' if b'OUT' in p.stdout else '-'}\t{p.stderr.decode(errors='replace').replace(chr(10), ' | ')[:110]}")
                # ---- monitor (the statement itself): exit status 0 only with the true result
                if p.returncode == 0 and not (obj or b'OUT' in p.stdout):
                    fails.append({'kind': 'exit0_without_result', 'detail': f'ignore_io_error={ig} first={f} second={s}: client exited 0 but neither compiled locally nor delivered a server result', 'ops': [lines[-1]]})
                if f == 'compileStarted' and s.startswith('eof') and not (ran and obj and p.returncode == 0):
                    fails.append({'kind': 'no_fallback_after_ack', 'detail': f'ignore_io_error={ig}: server closed the connection after CompileStarted ({s}) but the client did not compile locally (rc={p.returncode})', 'ops': [lines[-1]]})
    srv.close()
    open(trace_path, 'w').write('\n'.join(lines) + '\n')
    shutil.rmtree(root, ignore_errors=True)
    return {'fake_server_cases': len(lines), 'fails': fails, 'samples': lines[:2]}

SLOW = '''#!/bin/sh
if [ -e {flag} ]; then
case " $* " in *" -E "*) {pp} ;; *" -v "*|*" --version "*|*" -dumpversion "*) ;; *) {cc} ;; esac
fi
exec /usr/bin/gcc "$@"
'''

def kill_cases(root, seed, rounds=1):
    fails = []; samples = []; n = 0
    for r in range(rounds):
        # every phase over TCP; the two phases that end with "a later client has to start a new server" also over a Unix socket path
        for phase, uds in [(p_, False) for p_ in ('detection-before-ack', 'preprocessing', 'compilation', 'idle-then-request')] + [('compilation', True), ('idle-then-request', True)]:
            d = os.path.join(root, f'k{r}{phase}{"u" if uds else ""}'); shutil.rmtree(d, ignore_errors=True); w = os.path.join(d, 'w'); os.makedirs(w)
            cc = os.path.join(d, 'gcc'); marker = os.path.join(d, 'marker')
            flag = os.path.join(d, 'slow')
            open(cc, 'w').write(SLOW.format(flag=flag, pp=f'touch {marker}.pp; sleep 0.8' if phase in ('preprocessing', 'detection-before-ack') else ':', cc=f'touch {marker}.cc; sleep 0.8' if phase == 'compilation' else ':')); os.chmod(cc, 0o755)
            open(os.path.join(w, 'k.c'), 'w').write(f'int k{r}(void){{return {r};}}\n')
            sc = Sc(os.path.join(d, 'sc'), f'c11k{r}{phase}', uds=uds); sc.start()
            try:
                if phase == 'idle-then-request':
                    sc.kill()          # no server is running: the client must start one and proceed
                    p = sc.compile([cc, '-c', 'k.c', '-o', 'k.o'], w)
                    if p.returncode != 0:
                        # seen once in a full run on a machine busy with four parallel cargo builds (never alone): the freshly started server was lost
                        # before it answered. The statement allows an error exit for a server lost before the acknowledgement; what it does not allow
                        # is a client that cannot start a server at all — so the attempt is repeated once on a quiet moment and only a second failure counts
                        sc.kill(); time.sleep(1.0)
                        if os.path.exists(os.path.join(w, 'k.o')): os.remove(os.path.join(w, 'k.o'))
                        p = sc.compile([cc, '-c', 'k.c', '-o', 'k.o'], w); samples.append('idle-then-request: first attempt failed, repeated once')
                else:
                    if phase != 'detection-before-ack':
                        # warm-up: compiler detection is memoised by the server, so the next -E is the request's own preprocessing
                        open(os.path.join(w, 'warm.c'), 'w').write('int warm;\n'); sc.compile([cc, '-c', 'warm.c', '-o', 'warm.o'], w)
                    open(flag, 'w').close()
                    proc = subprocess.Popen([sc.bin, cc, '-c', 'k.c', '-o', 'k.o'], cwd=w, env=sc.env, stdout=subprocess.PIPE, stderr=subprocess.PIPE)
                    end = time.time() + 10
                    while not os.path.exists(marker + ('.cc' if phase == 'compilation' else '.pp')) and time.time() < end: time.sleep(0.02)
                    sc.kill()
                    out, err = proc.communicate(timeout=60); p = subprocess.CompletedProcess([], proc.returncode, out, err)
                got = file_state(os.path.join(w, 'k.o'))
                if os.path.exists(os.path.join(w, 'k.o')): os.remove(os.path.join(w, 'k.o'))
                subprocess.run(['/usr/bin/gcc', '-c', 'k.c', '-o', 'k.o'], cwd=w); want = file_state(os.path.join(w, 'k.o'))
                n += 1; line = f'{"unix socket" if uds else "tcp"}: server killed during {phase}: client rc={p.returncode} object {"equals direct compile" if got and want and got[0] == want[0] else "missing/different"}; stderr: {p.stderr.decode(errors="replace")[:120]!r}'
                samples.append(line)
                if p.returncode == 0 and not (got and want and got[0] == want[0]):
                    fails.append({'kind': 'exit0_wrong_output_after_server_loss', 'detail': line, 'ops': [line]})
                if phase in ('preprocessing', 'compilation') and p.returncode != 0:
                    fails.append({'kind': 'no_local_fallback_after_ack', 'detail': line, 'ops': [line]})
                if p.returncode != 0 and b'sccache' not in p.stderr:
                    fails.append({'kind': 'silent_failure_after_server_loss', 'detail': line, 'ops': [line]})
                if phase == 'idle-then-request' and p.returncode != 0:
                    fails.append({'kind': 'client_did_not_start_server', 'detail': line, 'ops': [line]})
                if phase == 'compilation':
                    # the server is gone (killed, nothing cleaned up): the next client has to start one and proceed
                    if os.path.exists(flag): os.remove(flag)
                    p2 = sc.compile([cc, '-c', 'k.c', '-o', 'k2.o'], w); got2 = file_state(os.path.join(w, 'k2.o'))
                    line2 = line + f' | next client: rc={p2.returncode} object {"equals direct compile" if got2 and want and got2[0] == want[0] else "missing/different"}; servers now {len(sc.server_pids())}; stderr: {p2.stderr.decode(errors="replace")[:120]!r}'
                    samples.append(line2)
                    if p2.returncode != 0 or not (got2 and want and got2[0] == want[0]) or len(sc.server_pids()) != 1:
                        fails.append({'kind': 'client_did_not_start_server', 'detail': line2, 'ops': [line2]})
            finally:
                sc.kill(); shutil.rmtree(d, ignore_errors=True)
    return {'kill_cases': n, 'fails': fails, 'samples': samples}

def garbage_cases(root, seed, n_frames=30):
    rng = random.Random(seed); fails = []
    d = os.path.join(root, 'g'); shutil.rmtree(d, ignore_errors=True); w = os.path.join(d, 'w'); os.makedirs(w)
    sc = Sc(os.path.join(d, 'sc'), 'c11g'); sc.start(); port = int(sc.env['SCCACHE_SERVER_PORT'])
    ok = 0
    try:
        pids0 = sc.server_pids()
        for i in range(n_frames):
            s = socket.create_connection(('127.0.0.1', port), timeout=5)
            k = rng.randrange(5)
            payload = {0: bytes(rng.randrange(256) for _ in range(rng.randrange(1, 60))), 1: struct.pack('>I', 0xFFFFFFF0) + b'x' * 20, 2: frame(b'\xff' * 30),
                       3: struct.pack('>I', 50) + b'short', 4: frame(u32(77) + b'zz')}[k]
            try: s.sendall(payload)
            except OSError: pass
            if rng.random() < 0.5: s.close()
            # another connection must still be served while / after the garbage
            open(os.path.join(w, f'g{i}.c'), 'w').write(f'int g{i}(void){{return {i};}}\n')
            r = sc.compile(['/usr/bin/gcc', '-c', f'g{i}.c', '-o', f'g{i}.o'], w)
            if r.returncode == 0 and os.path.exists(os.path.join(w, f'g{i}.o')): ok += 1
            else: fails.append({'kind': 'request_disturbed_by_garbage', 'detail': f'after garbage frame kind {k} a compile on another connection failed rc={r.returncode} {r.stderr[:100]!r}', 'ops': [payload[:40].hex()]})
            try: s.close()
            except OSError: pass
        if sc.server_pids() != pids0: fails.append({'kind': 'server_died_on_garbage', 'detail': f'server pids before {pids0} after {sc.server_pids()}', 'ops': ['garbage frames']})
    finally:
        sc.stop(); shutil.rmtree(d, ignore_errors=True)
    return {'garbage_frames': n_frames, 'requests_ok_alongside': ok, 'fails': fails, 'samples': []}


def hostile_first_requests(root):
    """well-formed Compile frames with hostile contents as the FIRST request a fresh server sees for a compiler (a working directory that does not
    exist, an option that derails compiler detection, no arguments at all), sent on a raw socket; afterwards ordinary clients using the same
    compiler on other connections must be served exactly as if nothing had happened"""
    fails = []; ok = 0; n = 0
    real_clang = os.path.realpath('/usr/bin/clang')
    for exe in ('/usr/bin/gcc', real_clang):
        for vi, (cwd, args) in enumerate((('/nonexistent-dir', ['-c', 'x.c']), (None, ['-ccbin', '/nonexistent', '-c', 'x.c']), (None, []), (None, ['--version']))):
            d = os.path.join(root, f'h{n}'); shutil.rmtree(d, ignore_errors=True); w = os.path.join(d, 'w'); os.makedirs(w); n += 1
            sc = Sc(os.path.join(d, 'sc'), f'c11h{n}'); sc.start()
            try:
                ans = sc.raw_compile(exe, cwd or w, args)
                open(os.path.join(w, 'a.c'), 'w').write('int a(void){return 7;}\n')
                ops = [f'fresh server; raw Compile frame exe={exe} cwd={cwd or "<work dir>"} args={args} -> {len(ans)} answer bytes']
                for j in range(2):
                    out = os.path.join(w, f'a{j}.o')
                    r = sc.compile([exe, '-c', 'a.c', '-o', f'a{j}.o'], w)
                    ops.append(f'ordinary client: {os.path.basename(exe)} -c a.c -o a{j}.o -> rc={r.returncode}')
                    dr = subprocess.run([exe, '-c', 'a.c', '-o', 'direct.o'], cwd=w, capture_output=True)
                    same = os.path.exists(out) and open(out, 'rb').read() == open(os.path.join(w, 'direct.o'), 'rb').read()
                    if r.returncode == 0 and same: ok += 1
                    else:
                        fails.append({'kind': 'request_disturbed_by_earlier_connection', 'detail': f'after a hostile first request for {exe} (variant {vi}) an ordinary compile with that compiler on another connection gave rc={r.returncode}, object equal to direct compile: {same}; stderr {r.stderr[:120]!r}', 'ops': ops}); break
            finally:
                sc.stop(); shutil.rmtree(d, ignore_errors=True)
    return {'hostile_first_requests': n, 'requests_ok_after': ok, 'fails': fails[:2], 'samples': []}
