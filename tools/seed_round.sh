#!/bin/bash
# usage: seed_round.sh <prop> <n> <features-or-"-"> <check ids…>
# confirm a sub-agent's seeded change in its scratch worktree /tmp/wt/<prop> (demo fails with the patch, passes with it
# reversed, rebuilt in between), keep it as seeded/S-<prop>-<n>/ and run the given checks against it.
P=$1; N=$2; FEAT=$3; shift 3
W=${SEED_WT:-/tmp/wt}/$P; ID=S-$P-$N
cd $W || exit 2
export CARGO_TARGET_DIR=$W/target CARGO_NET_OFFLINE=true
F=""; [ "$FEAT" != "-" ] && F="--features $FEAT"
git apply --check -R SEEDED/patch.diff 2>/dev/null || git apply SEEDED/patch.diff
cargo build --offline $F >/dev/null 2>&1; bash SEEDED/demo/run.sh > $W/demo_with.log 2>&1; A=$?
git apply -R SEEDED/patch.diff || { echo "cannot reverse"; exit 2; }
cargo build --offline $F >/dev/null 2>&1; bash SEEDED/demo/run.sh > $W/demo_without.log 2>&1; B=$?
git apply SEEDED/patch.diff
echo "$ID with_patch_exit=$A without_patch_exit=$B"
mkdir -p /verif/seeded/$ID && cp -r $W/SEEDED/* /verif/seeded/$ID/ && rm -rf /verif/seeded/$ID/demo/target
cd /verif; unset CARGO_TARGET_DIR
while ! git -C /repo diff --quiet; do sleep 5; done      # another evaluation has /repo patched
tools/seed_eval.sh $ID /verif/seeded/$ID/patch.diff "$@" 2>&1 | grep -v "^KNOWN-FINDING" | cut -c1-700
