"""C16 system monitor: a real server restricted to K CPUs (taskset) under bursts of concurrent clients with a wrapper
compiler that keeps an enter/leave ledger; compile failures and clients killed mid-request; then a saturating burst."""
import os, subprocess, time, shutil, random, signal
from syslib import *

WRAP = '''#!/bin/sh
case " $* " in *" -E "*|*" -v "*|*" --version "*|*" -dumpversion "*) exec /usr/bin/gcc "$@" ;; esac
echo "enter $$ $(date +%s.%N)" >> {log}
sleep 0.15
/usr/bin/gcc "$@"; rc=$?
echo "leave $$ $(date +%s.%N)" >> {log}
exit $rc
'''

def max_concurrency(log):
    ev = []
    for l in open(log).read().splitlines():
        k, pid, t = l.split(); ev.append((float(t), 1 if k == 'enter' else -1))
    ev.sort(); cur = mx = 0
    for _, d in ev: cur += d; mx = max(mx, cur)
    return mx, sum(1 for e in ev if e[1] == 1)

def run(root, tag, seed, rounds=2, k=2):
    rng = random.Random(seed); fails = []; samples = []; total = 0
    for r in range(rounds):
        d = os.path.join(root, f'r{r}'); shutil.rmtree(d, ignore_errors=True); w = os.path.join(d, 'w'); os.makedirs(w)
        log = os.path.join(d, 'ledger.log'); cc = os.path.join(d, 'gcc'); open(cc, 'w').write(WRAP.format(log=log)); os.chmod(cc, 0o755); open(log, 'w').close()
        sc = Sc(os.path.join(d, 'sc'), f'{tag}{r}')
        cpus = sorted(os.sched_getaffinity(0))[:k]
        subprocess.run(['taskset', '-c', ','.join(map(str, cpus)), sc.bin, '--start-server'], env=sc.env, capture_output=True)
        try:
            def burst(n, base, kill_some=False, fail_some=False):
                ps = []
                for i in range(n):
                    src = f'{base}{i}.c'; body = 'int f(void){return }\n' if fail_some and i % 3 == 0 else f'int f{base}{i}(void){{return {i};}}\n'
                    open(f'{w}/{src}', 'w').write(body)
                    ps.append(subprocess.Popen([sc.bin, cc, '-c', src, '-o', src + '.o'], cwd=w, env=sc.env, stdout=subprocess.DEVNULL, stderr=subprocess.DEVNULL))
                if kill_some:
                    time.sleep(0.1)
                    for p in ps[::3]: p.send_signal(signal.SIGKILL)
                for p in ps: p.wait()
            n1 = 6 + rng.randrange(6)
            burst(n1, 'a', fail_some=True); burst(n1, 'b', kill_some=True)
            time.sleep(0.5)
            mx1, runs1 = max_concurrency(log)
            # saturating burst afterwards: full parallelism must be reachable again, and never exceeded
            open(log, 'w').close(); t0 = time.time(); burst(3 * k, 'c'); dt = time.time() - t0
            mx2, runs2 = max_concurrency(log)
            total += runs1 + runs2
            line = f'server on {k} cpus: bursts of {n1} (failures), {n1} (clients killed) -> max concurrent compiler processes {mx1}; saturating burst of {3*k}: max {mx2}, {runs2} runs in {dt:.1f}s'
            samples.append(line)
            if mx1 > k or mx2 > k: fails.append({'kind': 'more_processes_than_tokens', 'detail': f'{max(mx1, mx2)} concurrent compiler processes with {k} job tokens', 'ops': [line]})
            if mx2 < k: fails.append({'kind': 'parallelism_not_restored', 'detail': f'after failures and killed clients only {mx2} of {k} compiler processes ran concurrently in a saturating burst (token leak)', 'ops': [line]})
            if runs2 != 3 * k: fails.append({'kind': 'request_starved', 'detail': f'{runs2} of {3*k} requests of the saturating burst ran the compiler', 'ops': [line]})
        finally:
            sc.stop(); shutil.rmtree(d, ignore_errors=True)
    return {'rounds': rounds, 'compiler_runs_observed': total, 'fails': fails, 'samples': samples}
