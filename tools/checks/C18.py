"""C18 — scheduler bookkeeping under every interleaving.  Proof: Props/C18.lean over Model/Sched.lean;
tie: hook H6 (verif_driver inside sccache-dist: real Scheduler, nested handler calls inside do_assign_job) + modeld sched;
monitor: attribution / capacity / transitions / in_progress / no panic on the real private maps after every message."""
import json, os, re
from vlib import *

FEATURES = 'dist-client,dist-server'

def split_cases(text):
    cases, cur = [], None
    for l in text.splitlines():
        if l.strip() == 'new':
            if cur is not None: cases.append(cur)
            cur = []
        elif cur is not None: cur.append(l)
    if cur is not None: cases.append(cur)
    return cases

def run(ctx):
    findings = load_findings('C18')
    translate(ctx, ['consts'])
    lean_props(ctx)
    if not cargo_repo_bins(ctx, ('sccache-dist',), FEATURES): return
    n = 1500 if ctx.quick() else 40000
    w = ctx.work
    e = env_offline(); e['SCCACHE_DIST_VERIF'] = f'sched-gen:{n}:{ctx.seed}:{w}/trace.txt:{w}/script.txt'
    rc, out, dt = sh([repo_bin('sccache-dist')], env=e, timeout=7200)
    if rc != 0 or not os.path.exists(f'{w}/trace.txt'):
        ctx.broken.append('H6 driver failed: ' + out[-300:]); return
    run_modeld(ctx, 'sched', f'{w}/trace.txt', 'sched')
    tcases = split_cases(open(f'{w}/trace.txt').read()); scases = split_cases(open(f'{w}/script.txt').read())
    steps = sum(len(c) for c in tcases)
    fails = []; hist = {}; res = {}; distinct = set(); nontrivial = 0; nested = 0
    for i, c in enumerate(tcases):
        key = ';'.join(c)
        has_overtake = any(l.startswith(('record', 'afail')) for l in c) and any(True for k, l in enumerate(c) if l.startswith('choose') and k + 1 < len(c) and not c[k + 1].startswith(('record', 'afail', 'choose none')))
        if key not in distinct:
            distinct.add(key)
            if has_overtake: nontrivial += 1
        if has_overtake: nested += 1
        for l in c:
            op = l.split(' ')[0]; hist[op] = hist.get(op, 0) + 1
            m = re.search(r'-> (\w+)', l)
            if m: res[m.group(1)] = res.get(m.group(1), 0) + 1
            if l.startswith('MONITOR') or l.startswith('UNEXPECTED') or '-> panic' in l:
                kind = l.split(' ')[1] if l.startswith('MONITOR') else ('panic' if 'panic' in l else 'unexpected')
                fails.append({'kind': kind, 'detail': l[:300], 'ops': scases[i] if i < len(scases) else [], 'case': i})
        if len(ctx.samples) < 3 and has_overtake: ctx.samples.append(' ; '.join(c)[:900])
    ctx.evaluations += steps; ctx.distinct_nontrivial += nontrivial
    ctx.rules.append('H6 driver: random message sequences (4-17 top-level messages over 3 servers, 4 nonces, cpus 0-2; one third are allocations with 0-2 messages nested inside the '
                     'assignment call and outcome fail/pending/ready) on the real Scheduler; non-trivial = distinct case in which some message overtakes an allocation')
    ctx.cov.update(cases=len(tcases), steps=steps, cases_with_overtaking=nested, op_histogram=hist, result_histogram=res)
    def to_replay(fl):
        return ('monitor-' + fl['kind'], ['script for the H6 driver; replay: ./check C18 --replay <this file>', 'observed: ' + fl['detail']], 'new\n' + '\n'.join(fl['ops']))
    monitor_failures(ctx, fails, findings, 'H6 scheduler monitor', to_replay)
    ctx.assumptions += ['time is frozen: heartbeat/pending/ready time-outs and pruning are excluded, as the property states',
                        'nested handler calls inside do_assign_job model "overtaken by other messages" (the handler holds no lock there)']

def replay(ctx, path):
    if not cargo_repo_bins(ctx, ('sccache-dist',), FEATURES): return 2
    out_p = os.path.join(ctx.work, 'replay-trace.txt')
    e = env_offline(); e['SCCACHE_DIST_VERIF'] = f'sched-run:{path}:{out_p}'
    sh([repo_bin('sccache-dist')], env=e)
    t = open(out_p).read(); print(t)
    return 1 if ('MONITOR' in t or 'panic' in t) else 0
