"""C14 — statistics account for every request exactly once.  Proof: Props/C14.lean over the increment table regenerated from server.rs;
tie: translator + real-server histories (tools/sys_c14.py) + modeld stats; monitor: the laws evaluated on the real counters + compiler-run ledger."""
import json, os, shutil
from vlib import *
import sys_c14

def run(ctx):
    findings = load_findings('C14')
    translate(ctx, ['stats'])
    lean_props(ctx)
    if not cargo_repo_bins(ctx, ('sccache', 'sccache-dist')): return
    n = 10 if ctx.quick() else 120
    root = os.path.join(ctx.work, 'sys'); shutil.rmtree(root, ignore_errors=True)
    res = sys_c14.run(root, 'c14', ctx.seed, n, os.path.join(ctx.work, 'stats.trace'))
    run_modeld_stats(ctx)
    ctx.evaluations += res['operations']; ctx.distinct_nontrivial += res['histories']; ctx.samples += res['samples']
    ctx.cov.update({k: v for k, v in res.items() if k not in ('fails', 'samples')})
    def rp(fl): return ('monitor-' + fl['kind'], ['request history against the real server (tools/sys_c14.py): miss hit forced missro fail pperr fatal notcacheable notcompile unsupported zero', 'observed: ' + fl['detail']], '\n'.join(fl['ops']))
    monitor_failures(ctx, res['fails'], findings, 'real-server statistics monitor', rp)
    ctx.rules.append('histories of 6-14 sequential or 3-5 x 4 concurrent requests against a real server: new / repeated / failing / #error sources, a hit whose output path is a directory (internal fatal-error path), -E, --version, unsupported compiler, --zero-stats; '
                     'every fourth with SCCACHE_RECACHE, every fifth on a read-only cache (store errors); all 15 counters compared with the fold of the regenerated increment table')
    ctx.assumptions += ['quiescence: counters are read after every client has returned', 'zeroing while requests are in flight leaves a slack of at most the number of in-flight requests (inherent, stated)']

def run_modeld_stats(ctx):
    import re
    with open(os.path.join(ctx.work, 'stats.trace')) as f: rc, out, dt = sh([MODELD, 'stats'], stdin=f)
    m = re.search(r'histories: (\d+) operations: (\d+) mismatches: (\d+)', out)
    if not m: ctx.broken.append('correspondence stats: modeld stats failed: ' + out[-300:]); return
    ctx.cov.setdefault('correspondence', {})['stats'] = {'model': 'stats', 'histories': int(m.group(1)), 'mismatches': int(m.group(3))}
    if int(m.group(3)): ctx.broken.append('correspondence stats: the counters of the real server differ from the fold of the regenerated increment table on %s histories: %s' % (m.group(3), out[:500].replace('\n', ' ')))

def replay(ctx, path):
    print(open(path).read()); return 0
