"""C13 — distributed compiles match local ones or fall back.  Proof: Props/C13.lean over Model/Dist.lean; tie: h_dist (real
get_cached_or_compile with a scripted dist::Client: every stage x error class, remote exit codes) + modeld dist; system: real server with
dist configured against no scheduler / a real scheduler without capacity / a wrong client token."""
import json, os, re, shutil
from vlib import *
import sys_c13, sys_dist

def run(ctx):
    findings = load_findings('C13')
    lean_props(ctx)
    rp = lambda fl: ('monitor-' + fl['kind'], ['harness/src/bin/h_dist.rs or tools/sys_c13.py on the real code', 'observed: ' + fl['detail']], '\n'.join(fl['ops']))
    if cargo_harness(ctx, ['h_dist']):
        w = ctx.work
        rc, out, dt = sh([harness_bin('h_dist'), f'{w}/trace.txt', f'{w}/sum.json'], env=env_offline(), timeout=3600)
        if rc != 0: ctx.broken.append('h_dist crashed: ' + out[-300:])
        else:
            s = json.load(open(f'{w}/sum.json'))
            with open(f'{w}/trace.txt') as f: rc, out, dt = sh([MODELD, 'dist'], stdin=f)
            m = re.search(r'cases: (\d+) mismatches: (\d+)', out)
            if not m: ctx.broken.append('correspondence dist: modeld dist failed: ' + out[-300:])
            else:
                ctx.cov.setdefault('correspondence', {})['dist'] = {'model': 'dist', 'cases': int(m.group(1)), 'mismatches': int(m.group(2))}
                if int(m.group(2)): ctx.broken.append('correspondence dist: the real dist_or_local_compile reacts differently from distDecide / the exit-status mapping on %s cases: %s' % (m.group(2), out[:500].replace('\n', ' ')))
            ctx.evaluations += s['cases'] + s.get('history_steps', 0); ctx.distinct_nontrivial += s['cases'] + s.get('history_steps', 0); ctx.cov['history_steps'] = s.get('history_steps', 0); ctx.samples += s['samples'][:2]; ctx.cov['fault_cases'] = s['cases']; ctx.cov['exhaustive'] = True
            monitor_failures(ctx, s['monitor_failures'], findings, 'h_dist monitor', rp)
    # the client's toolchain map: real put_toolchain histories (sizes around the cache size, restarts) vs ClientTcM
    if cargo_harness(ctx, ['h_clienttc']):
        w = ctx.work; e = env_offline(); e['VERIF_SEED'] = str(ctx.seed * 5 + 2)
        rc, out, dt = sh([harness_bin('h_clienttc'), 'gen', '150' if ctx.quick() else '3000', f'{w}/clienttc.trace', f'{w}/clienttc.json'], env=e, timeout=7200)
        if rc != 0: ctx.broken.append('h_clienttc crashed: ' + out[-300:])
        else:
            run_modeld(ctx, 'clienttc', f'{w}/clienttc.trace', 'clienttc')
            sc_ = json.load(open(f'{w}/clienttc.json')); ctx.evaluations += sc_['puts']; ctx.cov['client_toolchain_map'] = {k: v for k, v in sc_.items() if k != 'monitor_failures'}
            monitor_failures(ctx, sc_['monitor_failures'], findings, 'h_clienttc monitor', lambda fl: ('monitor-' + fl['kind'], ['trace of harness/src/bin/h_clienttc.rs (real put_toolchain): new <cap> <sizes of the four toolchains> / put <compiler> | <answer> / restart', 'observed: ' + fl['detail'], 'replay: harness h_clienttc replay <this file>'], '\n'.join(fl['ops'])))
            ctx.rules.append('h_clienttc: histories of put_toolchain over four compilers (two with generated sizes, one that fits, one that never fits) and restarts on the real ClientToolchains (through dist::http::Client), diffed line by line against ClientTcM.put; monitor: a toolchain larger than the cache is reported every time')
    # the argument vector that travels: real generate_compile_commands (both rewrite_includes_only settings) vs ArgsM.distRegen
    translate(ctx, ['args'])
    if cargo_harness(ctx, ['h_args']):
        w = ctx.work; e = env_offline(); e['VERIF_SEED'] = str(ctx.seed * 3 + 1)
        n = 6000 if ctx.quick() else 200000
        rc, out, dt = sh([harness_bin('h_args'), 'gen', str(n), f'{w}/args.trace', f'{w}/args.json'], env=e, timeout=7200)
        if rc != 0: ctx.broken.append('h_args crashed: ' + out[-300:])
        else:
            run_modeld(ctx, 'args', f'{w}/args.trace', 'dist-args')
            sa = json.load(open(f'{w}/args.json')); ctx.evaluations += sa['parsed_ok'] * 2; ctx.cov['dist_command_lines'] = sa['parsed_ok'] * 2
    if cargo_repo_bins(ctx, ('sccache', 'sccache-dist')):
        res = sys_c13.run(os.path.join(ctx.work, 'sys'), 'c13')
        ctx.evaluations += res['requests']; ctx.samples += res['samples'][:1]; ctx.cov['system_requests'] = res['requests']
        monitor_failures(ctx, res['fails'], findings, 'system dist monitor', rp)
        res = sys_dist.run_histories(os.path.join(ctx.work, 'cluster'), 'c13d', ctx.seed * 7, 2 if ctx.quick() else 20, 12 if ctx.quick() else 30)
        ctx.evaluations += res['requests']; ctx.distinct_nontrivial += res['distributed']; ctx.samples += res['samples'][:1]
        ctx.cov['real_cluster'] = {k: v for k, v in res.items() if k not in ('fails', 'samples')}
        if res['requests'] and not res['distributed']: ctx.broken.append('real cluster: no request was distributed (the comparison with local compiles is vacuous)')
        monitor_failures(ctx, res['fails'], findings, 'real cluster (scheduler + build server + client)', rp)
        res = sys_dist.run_burst(os.path.join(ctx.work, 'burst'), 'c13b', 1 if ctx.quick() else 5)
        ctx.evaluations += res['requests']; ctx.distinct_nontrivial += res['distributed']; ctx.samples += res['samples'][:1]
        ctx.cov['real_cluster_first_wave'] = {k: v for k, v in res.items() if k not in ('fails', 'samples')}
        monitor_failures(ctx, res['fails'], findings, 'real cluster, concurrent first wave', rp)
    ctx.rules.append('real cluster: request histories (source / header edits, -O / -D / -g, split dwarf, -MD, output paths, broken source, repeats) through a real scheduler + build server (OverlayBuilder, chroot stand-in for bubblewrap) with the build server killed / restarted and the scheduler killed on the way; every request compared with the direct compile (status, object, .dwo, .d), stored results must be served afterwards, a healthy cluster must really be used; first wave: six concurrent requests against a fresh and against a restarted build server (toolchain not unpacked yet)')
    ctx.rules.append('h_dist: one case per (stage x error class) of the scripted dist::Client — toolchain put {other, 4xx, too large}, alloc {no capacity, error, 4xx}, submit {job unknown, cannot cache, error}, '
                     'run {error, 4xx, job unknown, exit 1/2/42/127/255}, output write {first, second unwritable} — exhaustive over the model alphabet; system: scheduler down, real scheduler without build servers, wrong token; h_dist phase 2: a 9-step history (failing request twice, repair, repeat, result entries removed while preprocessor entries stay, header edit, repeat, break again twice) against a real disk cache in preprocessor-cache mode with a build server that records the unit it is handed')
    ctx.assumptions += ['h_dist: an emulated build server (scripted dist::Client); real cluster: bubblewrap replaced by tools/fake_bwrap.c (chroot, no namespaces)']
    ctx.notes.append('the real cluster exercises toolchain packaging, upload, overlay mount, input unpack and output collection end to end; bubblewrap itself and HTTPS to the build server are replaced / local; the remote argument vector is modelled (ArgsM.distRegen, dist_command_shape) and tied by h_args for gcc / clang — partial for the other compiler back ends')

def replay(ctx, path):
    print(open(path).read()); return 0
