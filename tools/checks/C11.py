"""C11 — losing the server degrades to a correct local compile.  Proof: Props/C11.lean over Model/Client.lean (whole decision alphabet);
tie: real client binary vs scripted fake server (exhaustive over the alphabet) + modeld client; monitors: exit 0 only with the true result;
real server SIGKILLed at request phases; garbage frames on a live server; the wire format and the per-connection frame reader (Model/Frame.lean:
request_round_trip, reads_do_not_matter, oversized_frame_ends_connection) tied by h_frames + modeld frame to bincode and to the real server loop."""
import json, os, re, shutil
from vlib import *
import sys_c11

def run(ctx):
    findings = load_findings('C11')
    lean_props(ctx)
    w = ctx.work
    if cargo_harness(ctx, ['h_frames']):
        e = env_offline(); e['VERIF_SEED'] = str(ctx.seed)
        nc, nn = (1500, 250) if ctx.quick() else (60000, 8000)
        rc, out, dt = sh([harness_bin('h_frames'), 'gen', str(nc), str(nn), f'{w}/frames.trace', f'{w}/frames.json'], env=e, timeout=7200)
        if rc != 0 or not os.path.exists(f'{w}/frames.json'): ctx.broken.append('h_frames crashed: ' + out[-300:])
        else:
            s = json.load(open(f'{w}/frames.json')); run_modeld(ctx, 'frame', f'{w}/frames.trace', 'frame')
            ctx.evaluations += s['codec_requests_encoded'] * 2 + s['connections']; ctx.distinct_nontrivial += s['connections_ended_by_the_server'] + s['codec_decode_errors']; ctx.samples += s['samples'][:1]
            ctx.cov['h_frames'] = {k: v for k, v in s.items() if k not in ('monitor_failures', 'samples')}
            def rpf(fl): return ('monitor-' + fl['kind'], ['h_frames: the real server on an in-memory listener; "conn <reads of the first connection, hex> | <answers>"; a second connection asks for statistics after every read', 'observed: ' + fl['detail']], '\n'.join(fl['ops']))
            monitor_failures(ctx, s['monitor_failures'], findings, 'h_frames monitor', rpf)
    if not cargo_repo_bins(ctx, ('sccache', 'sccache-dist')): return
    res = sys_c11.fake_server_cases(os.path.join(w, 'fake'), os.path.join(w, 'client.trace'))
    with open(os.path.join(w, 'client.trace')) as f: rc, out, dt = sh([MODELD, 'client'], stdin=f)
    m = re.search(r'cases: (\d+) mismatches: (\d+)', out)
    if not m: ctx.broken.append('correspondence client: modeld client failed: ' + out[-300:])
    else:
        ctx.cov.setdefault('correspondence', {})['client'] = {'model': 'client', 'cases': int(m.group(1)), 'mismatches': int(m.group(2))}
        if int(m.group(2)): ctx.broken.append('correspondence client: the real client binary reacts differently from clientDecide on %s cases: %s' % (m.group(2), out[:500].replace('\n', ' ')))
    ctx.evaluations += res['fake_server_cases']; ctx.distinct_nontrivial += res['fake_server_cases']; ctx.samples += res['samples']; ctx.cov['exhaustive'] = True
    rp = lambda fl: ('monitor-' + fl['kind'], ['tools/sys_c11.py against the real client / server binaries', 'observed: ' + fl['detail']], '\n'.join(fl['ops']))
    monitor_failures(ctx, res['fails'], findings, 'fake-server monitor', rp)
    res2 = sys_c11.kill_cases(os.path.join(w, 'kill'), ctx.seed, 1 if ctx.quick() else 6)
    ctx.evaluations += res2['kill_cases']; ctx.samples += res2['samples'][:2]; monitor_failures(ctx, res2['fails'], findings, 'server-kill monitor', rp)
    res3 = sys_c11.garbage_cases(os.path.join(w, 'garbage'), ctx.seed, 12 if ctx.quick() else 300)
    ctx.evaluations += res3['garbage_frames']; monitor_failures(ctx, res3['fails'], findings, 'garbage-frame monitor', rp)
    res4 = sys_c11.hostile_first_requests(os.path.join(w, 'hostile'))
    ctx.evaluations += res4['hostile_first_requests'] + res4['requests_ok_after']; ctx.cov['hostile_first_requests'] = res4['hostile_first_requests']; monitor_failures(ctx, res4['fails'], findings, 'hostile-first-request monitor', rp)
    ctx.cov.update(fake_server_cases=res['fake_server_cases'], kill_cases=res2['kill_cases'], garbage_frames=res3['garbage_frames'], requests_ok_alongside_garbage=res3['requests_ok_alongside'])
    ctx.rules.append('h_frames: codec — generated requests (all five kinds, compile requests with 0-4 arguments and 0-3 environment pairs of arbitrary bytes) encoded by bincode against encReq; their encodings mutated (byte changed, cut, extended, length fields overwritten incl. 2^64-1) and noise decoded by bincode against decReq; '
                     'connections — streams of 1-5 frames (valid, mutated, noise, bare tags), oversized and 2^31+ length prefixes, streams cut mid-frame, cut into reads of 1 byte .. everything, on the real server next to a witness connection; non-trivial = connections the server ended, decode errors')
    ctx.rules.append('fake server: 2 (ignore flag) x {7 first-response scripts; for CompileStarted 11 second-read scripts incl. EOF in header / partial header / body, reset, garbage} = 34 cases, the whole alphabet; '
                     'hostile first requests: on a fresh server a raw, well-formed Compile frame for gcc / clang with a missing working directory, a detection-derailing option, no arguments, --version; then ordinary clients for the same compiler; '
                     'kills: SIGKILL during compiler detection (before the ack), preprocessing, compilation, and no server running; garbage: random bytes, oversized length, undecodable and short frames')
    ctx.assumptions += ['which io::ErrorKind the kernel reports for a killed peer is an input symbol (EOF vs reset); a reset after the ack is an sccache error unless SCCACHE_IGNORE_SERVER_IO_ERROR=1 — allowed by the last sentence of the statement, recorded']

def replay(ctx, path):
    print(open(path).read()); return 0
