"""C01 — wrapped C/C++ compiles identical to direct ones.  Proof: Props/C01.lean (regen_partition, hashed_covers, unhashed_policy over the
regenerated tables, hit_runs_nothing, transparent, never_replayed_for_different_request); tie: translator + h_args/modeld args + h_l1/modeld l1;
monitor: real sccache + gcc/clang histories vs direct compiles (exit status, stdout, stderr, output bytes and mode)."""
import json, os
from vlib import *
from checks import sysmon

def run(ctx):
    findings = load_findings('C01')
    translate(ctx, ['args', 'key'])
    lean_props(ctx)
    if cargo_harness(ctx, ['h_atfile']):
        w = ctx.work; e = env_offline(); e['VERIF_SEED'] = str(ctx.seed)
        n = 1500 if ctx.quick() else 60000
        rc, out, dt = sh([harness_bin('h_atfile'), 'gen', str(n), f'{w}/atfile.trace', f'{w}/atfile.json'], env=e, timeout=7200)
        if rc != 0 or not os.path.exists(f'{w}/atfile.json'): ctx.broken.append('h_atfile crashed: ' + out[-300:])
        else:
            s = json.load(open(f'{w}/atfile.json'))
            if 'aborted_in_case' not in s: run_modeld(ctx, 'atfile', f'{w}/atfile.trace', 'atfile')
            else: ctx.broken.append('correspondence atfile: the real ExpandIncludeFile did not return (see the monitor failure)')
            if not s['oracle_available']: ctx.notes.append('c++filt not found: the reference side (libiberty expandargv) of the response-file tie was not exercised in this run')
            ctx.evaluations += s['cases']; ctx.distinct_nontrivial += s['fully_expanded'] + s['deep_expansions']; ctx.samples += s['samples'][:1]
            ctx.cov['atfile'] = {k: v for k, v in s.items() if k not in ('monitor_failures', 'samples')}
            def rpa(fl): return ('monitor-' + fl['kind'], ['h_atfile: files of one generated directory (new / D <dir> / F <name> <content>, hex) and the command line; the real gcc::ExpandIncludeFile next to c++filt (libiberty expandargv)', 'observed: ' + fl['detail']], '\n'.join(fl['ops']))
            monitor_failures(ctx, s['monitor_failures'], findings, 'h_atfile monitor', rpa)
    if cargo_harness(ctx, ['h_args', 'h_l1']):
        w = ctx.work; e = env_offline(); e['VERIF_SEED'] = str(ctx.seed)
        n = 20000 if ctx.quick() else 400000
        rc, out, dt = sh([harness_bin('h_args'), 'gen', str(n), f'{w}/args.trace', f'{w}/args.json'], env=e, timeout=7200)
        if rc != 0: ctx.broken.append('h_args crashed: ' + out[-300:])
        else:
            s = json.load(open(f'{w}/args.json'))
            run_modeld(ctx, 'args', f'{w}/args.trace', 'args')
            ctx.evaluations += s['cases']; ctx.distinct_nontrivial += s['distinct_nontrivial']; ctx.samples += s['samples'][:2]
            ctx.cov['args'] = {k: v for k, v in s.items() if k not in ('monitor_failures', 'samples')}
            def rp(fl): return ('monitor-' + fl['kind'], ['"<gcc|clang> <plusplus> <hex arguments>"; replay: ./check C01 --replay <this file> (real parse_arguments + generate_compile_commands)', 'observed: ' + fl['detail']], '\n'.join(fl['ops']))
            monitor_failures(ctx, s['monitor_failures'], findings, 'h_args monitor', rp)
        rc, out, dt = sh([harness_bin('h_l1'), f'{w}/l1.trace', f'{w}/l1.json'], env=e, timeout=3600)
        if rc != 0: ctx.broken.append('h_l1 crashed: ' + out[-300:])
        else:
            s = json.load(open(f'{w}/l1.json'))
            open(f'{w}/l1.model', 'w').write(''.join(l for l in open(f'{w}/l1.trace') if not l.startswith('#')))
            run_modeld(ctx, 'l1', f'{w}/l1.model', 'l1')
            ctx.evaluations += s['l1_cases'] + s['pp_fault_cases']; ctx.cov['l1'] = {k: v for k, v in s.items() if k not in ('monitor_failures', 'samples')}
    from checks import C02 as c02mod
    c02mod.key_tie(ctx, findings, 1500, 1500, own_property=False)
    ctx.rules.append('h_atfile: generated directories of response files (plain, quotes / backslashes, non-ASCII white space, NUL / invalid UTF-8, blank, nested, self- and mutually including, missing, directories) '
                     'and command lines of 1-4 arguments; the real gcc::ExpandIncludeFile against AtFileM.sccExpand, c++filt (libiberty expandargv) against AtFileM.gccExpand; non-trivial = command lines expanded completely or deeper than one level')
    ctx.rules.append('h_args: command lines built from every entry of the real gcc/clang tables in every disposition (separated, concatenated, delimited, missing value), unknown flags, --, @file, '
                     '-arch repeats, 0-2 inputs, shuffled; 1 in 20 with non-UTF-8 bytes (part of the correspondence: the model carries to_string_lossy), one clang piece in ten is a -Xclang group (second pass of parse_arguments); h_l1: exhaustive decision alphabet; system: edit/flag/language/output/env/restart histories')
    if cargo_repo_bins(ctx, ('sccache', 'sccache-dist')):
        nh, nr = (2, 10) if ctx.quick() else (12, 30)
        if any('correspondence args' in b or 'correspondence key' in b or 'proof obligations' in b for b in ctx.broken): nh *= 6   # something no longer checks: search harder for a concrete failing request
        for cc in ('/usr/bin/gcc', '/usr/bin/clang'):
            res = sysmon.st.run_corpus(sysmon.sysroot(ctx, 'c01'), 'c01c' + os.path.basename(cc), cc)
            sysmon.feed(ctx, res, findings, f'system corpus histories {os.path.basename(cc)}')
            res = sysmon.st.run_rsp(sysmon.sysroot(ctx, 'c01'), 'c01r' + os.path.basename(cc), cc)
            sysmon.feed(ctx, res, findings, f'system response-file scenarios {os.path.basename(cc)}')
            res = sysmon.st.run_side_outputs(sysmon.sysroot(ctx, 'c01'), 'c01s' + os.path.basename(cc), cc)
            sysmon.feed(ctx, res, findings, f'system side-output scenarios {os.path.basename(cc)}')
            res = sysmon.st.run_special_outputs(sysmon.sysroot(ctx, 'c01'), 'c01d' + os.path.basename(cc), cc)
            if res['requests']: sysmon.feed(ctx, res, findings, f'system special-output scenario {os.path.basename(cc)}')
            else: ctx.notes.append('special-output scenario skipped: ' + str(res.get('skipped')))
            res = sysmon.st.run_option_order(sysmon.sysroot(ctx, 'c01'), 'c01o' + os.path.basename(cc), cc)
            sysmon.feed(ctx, res, findings, f'system option-order scenario {os.path.basename(cc)}')
            if cc.endswith('gcc'):
                res = sysmon.st.run_client_umask(sysmon.sysroot(ctx, 'c01'), 'c01u', cc)
                sysmon.feed(ctx, res, findings, 'system client-umask scenario')
            res = sysmon.st.run_extra_files(sysmon.sysroot(ctx, 'c01'), 'c01x' + os.path.basename(cc), cc)
            if res['requests']: sysmon.feed(ctx, res, findings, f'system list-file scenarios {os.path.basename(cc)}')
            for dm in (True, False):
                res = sysmon.st.run_histories(sysmon.sysroot(ctx, 'c01'), f'c01{os.path.basename(cc)}{dm}', cc, ctx.seed * 7 + dm, nh, nr, direct_mode=dm)
                sysmon.feed(ctx, res, findings, f'system {os.path.basename(cc)} preprocessor_cache_mode={dm}')
    ctx.assumptions += ['A1: the result of gcc/clang is a function of the hashed components (digest, driver mode, language, common+arch arguments, allow-listed env, extra files, preprocessed text) — tested by the system monitor, not proved',
                        'A2: no BLAKE3 collision among the keys of a history (explicit disjunct in never_replayed_for_different_request)', 'A3: storage returns what was stored or fails (C06, C08)']
    ctx.notes.append('not modelled: edits during a request; the regen theorems cover command lines without -Xclang values (the second pass is modelled and tied, not yet under the partition theorems)')

def replay(ctx, path):
    if not cargo_harness(ctx, ['h_args']): return 2
    for l in open(path):
        if l.startswith('#') or not l.strip(): continue
        t = l.split('|')[0].split()
        if len(t) == 3:
            rc, out, dt = sh([harness_bin('h_args'), 'one', t[0], t[1], t[2]]); print(out)
    return 0
