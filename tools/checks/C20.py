"""C20 — one server per address, graceful shutdown, idle exit.  Proof: Props/C20.lean (tcp_singleton over all interleavings, idle_not_before
over all event sequences, Unix-socket witness; ShutM: idle_drain_not_before, stop_is_graceful, stop_terminates over all timed histories, tied by h_server + modeld shutdown); tie/monitor: process census of real cold starts (TCP, Unix socket), witness replay on the real
binary, stop during an in-flight compile, measured idle exit (tools/sys_c20.py)."""
import json, os, shutil
from vlib import *
import sys_c20

def run(ctx):
    findings = load_findings('C20')
    lean_props(ctx)
    if cargo_harness(ctx, ['h_server']):
        w = ctx.work; e = env_offline(); e['VERIF_SEED'] = str(ctx.seed)
        n = 150 if ctx.quick() else 4000
        rc, out, dt = sh([harness_bin('h_server'), 'gen', str(n), f'{w}/trace.txt', f'{w}/sum.json'], env=e, timeout=7200)
        if rc != 0: ctx.broken.append('h_server crashed: ' + out[-300:])
        else:
            s = json.load(open(f'{w}/sum.json')); run_modeld(ctx, 'shutdown', f'{w}/trace.txt', 'shutdown')
            ctx.evaluations += s['steps'] + s['cases']; ctx.distinct_nontrivial += s['exits_with_open_connection'] + s['exits_after_stop'] + s['cases_served_during_drain']; ctx.samples += s['samples'][:2]
            ctx.cov['h_server'] = {k: v for k, v in s.items() if k not in ('monitor_failures', 'samples')}
            def rp0(fl): return ('monitor-' + fl['kind'], ['trace of h_server: the real SccacheServer::run on an in-memory listener, tokio clock paused; times in ms (new <idle ms>; conn t / req t c / stop t c / close t c | answer; end horizon | exit time)', 'observed: ' + fl['detail']], '\n'.join(fl['ops']))
            monitor_failures(ctx, s['monitor_failures'], findings, 'h_server shutdown monitor', rp0)
    if not cargo_repo_bins(ctx, ('sccache', 'sccache-dist')): return
    root = os.path.join(ctx.work, 'sys'); shutil.rmtree(root, ignore_errors=True)
    sizes, uds = ((2, 8), (3,)) if ctx.quick() else ((2, 4, 8, 16, 32, 3, 5), (2, 4, 8))
    res = sys_c20.run(root, 'c20', sizes, uds)
    ctx.evaluations += res['clients_started'] + res['scenarios']; ctx.distinct_nontrivial += res['scenarios']; ctx.samples += res['samples']
    ctx.cov.update(scenarios=res['scenarios'], clients_started=res['clients_started'])
    rp = lambda fl: ('system-' + fl['kind'], ['tools/sys_c20.py against the real sccache binary', 'observed: ' + fl['detail']], '\n'.join(fl['ops']))
    monitor_failures(ctx, res['fails'], findings, 'cold-start census / shutdown / idle monitor', rp)
    ctx.rules.append('h_server: the real server loop (accept, ShutdownOrInactive, WaitUntilZero, drain) under a paused clock: idle periods 0 / 1 s .. 10 min, scripts of 4-17 timed events '
                     '(connect, request, stop request, close) placed around the idle deadline and the end of the grace period to the millisecond, compared step by step with ShutM; non-trivial = exits with a connection still open, exits after a stop request, requests served during the drain')
    ctx.rules.append('cold starts with N simultaneous clients against an address with no server (TCP and Unix socket), census of server processes carrying the run\'s cache dir, every object compared with a direct compile; '
                     '--start-server twice on a Unix socket (the model witness); --stop-server with a compile in flight; idle timeout 3 s measured from the last request')
    ctx.assumptions += ['real process schedules cannot be enumerated: the observed outcomes must be among those the model allows (trace inclusion, not equality)', 'the 10 s drain and the idle timer use a logical clock in the model']
    ctx.notes.append('the serving/drain/exit life of a server has a step-by-step correspondence driver (h_server + modeld shutdown); the cold-start model has none: its tie is the census (TCP: exactly what tcp_singleton allows) and the replay of the Unix witness; partial')

def replay(ctx, path):
    print(open(path).read()); return 0
