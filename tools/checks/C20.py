"""C20 — one server per address, graceful shutdown, idle exit.  Proof: Props/C20.lean (tcp_singleton over all interleavings, idle_not_before
over all event sequences, Unix-socket witness); tie/monitor: process census of real cold starts (TCP, Unix socket), witness replay on the real
binary, stop during an in-flight compile, measured idle exit (tools/sys_c20.py)."""
import json, os, shutil
from vlib import *
import sys_c20

def run(ctx):
    findings = load_findings('C20')
    lean_props(ctx)
    if not cargo_repo_bins(ctx, ('sccache', 'sccache-dist')): return
    root = os.path.join(ctx.work, 'sys'); shutil.rmtree(root, ignore_errors=True)
    sizes, uds = ((2, 8), (3,)) if ctx.quick() else ((2, 4, 8, 16, 32, 3, 5), (2, 4, 8))
    res = sys_c20.run(root, 'c20', sizes, uds)
    ctx.evaluations += res['clients_started'] + res['scenarios']; ctx.distinct_nontrivial += res['scenarios']; ctx.samples += res['samples']
    ctx.cov.update(scenarios=res['scenarios'], clients_started=res['clients_started'])
    rp = lambda fl: ('system-' + fl['kind'], ['tools/sys_c20.py against the real sccache binary', 'observed: ' + fl['detail']], '\n'.join(fl['ops']))
    monitor_failures(ctx, res['fails'], findings, 'cold-start census / shutdown / idle monitor', rp)
    ctx.rules.append('cold starts with N simultaneous clients against an address with no server (TCP and Unix socket), census of server processes carrying the run\'s cache dir, every object compared with a direct compile; '
                     '--start-server twice on a Unix socket (the model witness); --stop-server with a compile in flight; idle timeout 3 s measured from the last request')
    ctx.assumptions += ['real process schedules cannot be enumerated: the observed outcomes must be among those the model allows (trace inclusion, not equality)', 'the 10 s drain and the idle timer use a logical clock in the model']
    ctx.notes.append('no correspondence driver for the start-up model: the tie is the census (TCP: exactly what tcp_singleton allows) and the replay of the Unix witness; partial')

def replay(ctx, path):
    print(open(path).read()); return 0
