"""C12 — replacing the compiler binary invalidates its results.  Proof: Props/C12.lean (memo_fresh, different_binaries_different_keys);
tie: h_memo (real compiler_info) + modeld memo; monitor: digest used per request; system: swap histories on a real server vs direct runs."""
import json, os
from vlib import *
from checks import sysmon

def run(ctx):
    findings = load_findings('C12')
    translate(ctx, ['key'])
    lean_props(ctx)
    from checks import C02 as c02mod
    c02mod.key_tie(ctx, findings, 1500, 1500, own_property=False, relevant=lambda f: 'family=digest' in f['detail'])   # C12: two compiler digests must never share a key
    if cargo_harness(ctx, ['h_memo']):
        w = ctx.work; e = env_offline(); e['VERIF_SEED'] = str(ctx.seed)
        n = 30 if ctx.quick() else 1500
        rc, out, dt = sh([harness_bin('h_memo'), str(n), f'{w}/trace.txt', f'{w}/sum.json'], env=e, timeout=7200)
        if rc != 0: ctx.broken.append('h_memo crashed: ' + out[-300:])
        else:
            s = json.load(open(f'{w}/sum.json'))
            import re
            with open(f'{w}/trace.txt') as f: rc, out, dt = sh([MODELD, 'memo'], stdin=f)
            m = re.search(r'histories: (\d+) \(satisfying MtimeDeterminesContent: (\d+)\) mismatches: (\d+)', out)
            if not m: ctx.broken.append('correspondence memo: modeld memo failed: ' + out[-300:])
            else:
                ctx.cov.setdefault('correspondence', {})['memo'] = {'model': 'memo', 'histories': int(m.group(1)), 'mismatches': int(m.group(3))}
                if int(m.group(3)): ctx.broken.append('correspondence memo: digest used / re-detection of the real compiler_info differs from the model on %s histories: %s' % (m.group(3), out[:400].replace('\n', ' ')))
            ctx.evaluations += s['requests']; ctx.distinct_nontrivial += s['content_swaps']; ctx.samples += s['samples'][:2]
            ctx.cov.update({k: v for k, v in s.items() if k not in ('monitor_failures', 'samples')})
            def rp(fl): return ('monitor-' + fl['kind'], ['history "<content,mtime> …<TAB>digest used per request<TAB>re-detected?" on the real compiler_info (h_memo)', 'observed: ' + fl['detail']], '\n'.join(fl['ops']))
            monitor_failures(ctx, s['monitor_failures'], findings, 'h_memo monitor', rp)
    if cargo_repo_bins(ctx, ('sccache', 'sccache-dist')):
        res = sysmon.st.run_swap_histories(sysmon.sysroot(ctx, 'c12'), 'c12', ctx.seed * 23, 4 if ctx.quick() else 40, 10 if ctx.quick() else 25)
        res2 = sysmon.st.run_swap_during_detection(sysmon.sysroot(ctx, 'c12d'), 'c12d', 1.5 if ctx.quick() else 4)
        sysmon.feed(ctx, res2, findings, 'system swap during detection')
        sysmon.feed(ctx, res, findings, 'system compiler swaps')
    ctx.rules.append('h_memo: histories of 2-7 requests with the file at the compiler path replaced (4 contents x 3 mtimes, incl. restored mtimes), touched or left alone; non-trivial = content swaps; '
                     'h_memo phase 2: gcc / g++ / cc as links to one multicall wrapper and a different file called gcc, requested in random order on one server: every request keyed as on a fresh server (memoisation is transparent); system: 3 wrapper compilers swapped by copy+fresh mtime or symlink retargeting between requests on a live server')
    ctx.assumptions += ['the hypothesis of the statement: binaries with equal mtime at a path have equal contents (memo_stale_witness shows what happens otherwise)']

def replay(ctx, path):
    print(open(path).read()); return 0
