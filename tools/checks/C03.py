"""C03 — a repeated cacheable request hits, also after restart.  Proof: Props/C03.lean (key_deterministic, unrelated_env_irrelevant, repeat_hits,
reopen_preserves, rust_key_perm); tie: h_key (byte-exact key) + h_lru (reopen); monitor: real server histories with restarts, output deletion,
output-path and unrelated-env changes: an identical successful request stored earlier must be a hit without running the compiler."""
import json, os
from vlib import *
from checks import sysmon

def run(ctx):
    findings = load_findings('C03')
    translate(ctx, ['key'])
    lean_props(ctx)
    from checks import C02 as c02mod
    c02mod.key_tie(ctx, findings, 1500, 1500, own_property=False, relevant=lambda f: f['kind'] == 'unstable')   # C03 is about missing hits: only 'same components, different keys' counts
    if cargo_harness(ctx, ['h_lru']):
        w = ctx.work; e = env_offline(); e['VERIF_SEED'] = str(ctx.seed + 100)
        rc, out, dt = sh([harness_bin('h_lru'), 'gen', '600' if ctx.quick() else '20000', f'{w}/lru.trace', f'{w}/lru.json'], env=e, timeout=7200)
        if rc == 0:
            s = json.load(open(f'{w}/lru.json')); run_modeld(ctx, 'lru', f'{w}/lru.trace', 'lru-reopen')
            ctx.evaluations += s['steps']; ctx.cov['lru'] = {'steps': s['steps'], 'reopens': s['op_histogram'].get('reopen', 0)}
    if cargo_repo_bins(ctx, ('sccache', 'sccache-dist')):
        nh, nr = (3, 14) if ctx.quick() else (20, 40)
        for cc, dm in (('/usr/bin/gcc', True), ('/usr/bin/gcc', False), ('/usr/bin/clang', True)):
            res = sysmon.st.run_histories(sysmon.sysroot(ctx, 'c03'), f'c03{os.path.basename(cc)}{dm}', cc, ctx.seed * 11 + dm, nh, nr, direct_mode=dm)
            sysmon.feed(ctx, res, findings, f'system {os.path.basename(cc)} preprocessor_cache_mode={dm}')
        for cc in ('/usr/bin/gcc', '/usr/bin/clang'):
            res = sysmon.st.run_corpus(sysmon.sysroot(ctx, 'c03'), 'c03c' + os.path.basename(cc), cc)
            sysmon.feed(ctx, res, findings, f'system corpus histories {os.path.basename(cc)}')
        # entries damaged behind the server's back: the request after the damage recompiles and stores, the one after that must hit again
        res = sysmon.st.run_fault_histories(sysmon.sysroot(ctx, 'c03'), 'c03f', '/usr/bin/gcc', ctx.seed * 37, 4 if ctx.quick() else 30, 8 if ctx.quick() else 20)
        sysmon.feed(ctx, res, findings, 'system gcc, damaged entries then repeats')
    ctx.rules.append('system: histories of requests with reverts, output-path and unrelated-env changes and server restarts; every request whose (flags, language, file contents, cache-buster env) '
                     'equals an earlier successful one must be counted as a hit with zero compiler runs')
    ctx.assumptions += ['the entry has not been evicted (10 GB default limit, tiny histories)', 'idle periods are no-ops (timer logic is C20)']

def replay(ctx, path):
    print(open(path).read()); return 0
