"""C09 — a broken, corrupt or read-only cache never breaks a build.  Proof: Props/C09.lean; tie: h_l1 (exhaustive alphabet on the real
get_cached_or_compile + on-disk faults of the preprocessor-cache entry) + modeld l1; monitor: real server under on-disk faults of result and
preprocessor entries, removed cache directory, tiny size limit — every request must equal the direct compile."""
import json, os
from vlib import *
from checks import sysmon

def run(ctx):
    findings = load_findings('C09')
    lean_props(ctx)
    if cargo_harness(ctx, ['h_l1']):
        w = ctx.work; e = env_offline()
        rc, out, dt = sh([harness_bin('h_l1'), f'{w}/l1.trace', f'{w}/l1.json'], env=e, timeout=3600)
        if rc != 0: ctx.broken.append('h_l1 crashed: ' + out[-300:])
        else:
            s = json.load(open(f'{w}/l1.json'))
            open(f'{w}/l1.model', 'w').write(''.join(l for l in open(f'{w}/l1.trace') if not l.startswith('#')))
            run_modeld(ctx, 'l1', f'{w}/l1.model', 'l1')
            ctx.evaluations += s['l1_cases'] + s['pp_fault_cases']; ctx.distinct_nontrivial += s['distinct_nontrivial']; ctx.samples += s['samples'][:2]
            ctx.cov['l1'] = {k: v for k, v in s.items() if k not in ('monitor_failures', 'samples')}; ctx.cov['exhaustive'] = True
            def rp(fl): return ('monitor-' + fl['kind'], ['case of the L1 enumeration (harness/src/bin/h_l1.rs)', 'observed: ' + fl['detail']], '\n'.join(fl['ops']))
            monitor_failures(ctx, s['monitor_failures'], findings, 'h_l1 monitor', rp)
    if cargo_repo_bins(ctx, ('sccache', 'sccache-dist')):
        nh, nr = (4, 10) if ctx.quick() else (30, 30)
        for cc in ('/usr/bin/gcc', '/usr/bin/clang'):
            res = sysmon.st.run_fault_histories(sysmon.sysroot(ctx, 'c09'), 'c09' + os.path.basename(cc), cc, ctx.seed * 13, nh if cc.endswith('gcc') else max(1, nh // 2), nr)
            sysmon.feed(ctx, res, findings, f'system faults {os.path.basename(cc)}')
        res = sysmon.st.run_mode_flip(sysmon.sysroot(ctx, 'c09mf'), 'c09mf', '/usr/bin/gcc')
        if not res['flipped']: ctx.broken.append('mode-flip witness: no zip directory entry named obj found in the stored entry (the entry format changed)')
        sysmon.feed(ctx, res, findings, 'system witness: permission bits of a stored output flipped')
        res = sysmon.st.run_evict_undeletable(sysmon.sysroot(ctx, 'c09ev'), 'c09ev', '/usr/bin/gcc')
        sysmon.feed(ctx, res, findings, 'system entry that cannot be evicted')
        # "... the cache being read-only ...": histories against a pre-populated read-only cache (half of them with damaged entries and a header
        # that uses __TIMESTAMP__, whose preprocessor-cache entries want rewriting); whether the cache stays unchanged is C15's business
        res = sysmon.st.run_readonly(sysmon.sysroot(ctx, 'c09ro'), 'c09ro', '/usr/bin/gcc', ctx.seed * 37, 3 if ctx.quick() else 12, 6 if ctx.quick() else 24)
        res['fails'] = [f for f in res['fails'] if not f['kind'].startswith('readonly_cache_modified')]
        sysmon.feed(ctx, res, findings, 'system read-only cache')
    ctx.rules.append('h_l1: prestored x cache control x lookup {inner, miss, error, undecodable} x compile {ok, error, #error} x store {ok, fails} (144 cases, exhaustive) + 7 on-disk faults of the '
                     'preprocessor-cache entry x 2 controls; system: truncate / half / garbage / delete / replace-by-directory / bit-flip on result and preprocessor entries, removed cache directory, 2K size limit')
    ctx.assumptions += ['the 60 s lookup time-out is an input symbol of the decision function, not a clock']

def replay(ctx, path):
    print(open(path).read()); return 0
