"""C16 — processes bounded by the token pool, tokens never leak.  Proof: Props/C16.lean over Model/Tokens.lean; tie: h_tokens (real
jobserver::Client) + modeld tokens; monitor: holders <= N, FIFO, refill; system: real server on K CPUs with an enter/leave ledger."""
import json, os, shutil
from vlib import *
import sys_c16

def run(ctx):
    findings = load_findings('C16')
    lean_props(ctx)
    if cargo_harness(ctx, ['h_tokens']):
        w = ctx.work; e = env_offline(); e['VERIF_SEED'] = str(ctx.seed)
        n = 40 if ctx.quick() else 1500
        rc, out, dt = sh([harness_bin('h_tokens'), 'gen', str(n), f'{w}/trace.txt', f'{w}/sum.json'], env=e, timeout=7200)
        if rc != 0: ctx.broken.append('h_tokens crashed: ' + out[-300:])
        else:
            s = json.load(open(f'{w}/sum.json')); run_modeld(ctx, 'tokens', f'{w}/trace.txt', 'tokens')
            ctx.evaluations += s['steps']; ctx.distinct_nontrivial += s['settle_points_with_waiters']; ctx.samples += s['samples'][:2]
            ctx.cov.update({k: v for k, v in s.items() if k not in ('monitor_failures', 'samples')})
            def rp(fl): return ('monitor-' + fl['kind'], ['trace of h_tokens on the real jobserver::Client (new <N>; request / cancel id / exit id / settle)', 'observed: ' + fl['detail']], '\n'.join(fl['ops']))
            monitor_failures(ctx, s['monitor_failures'], findings, 'h_tokens monitor', rp)
    if cargo_repo_bins(ctx, ('sccache', 'sccache-dist')):
        root = os.path.join(ctx.work, 'sys'); shutil.rmtree(root, ignore_errors=True)
        res = sys_c16.run(root, 'c16', ctx.seed, 2 if ctx.quick() else 12, 2)
        ctx.evaluations += res['compiler_runs_observed']; ctx.samples += res['samples'][:1]; ctx.cov['system'] = {k: v for k, v in res.items() if k not in ('fails', 'samples')}
        def rp2(fl): return ('system-' + fl['kind'], ['real server restricted with taskset, ledger of compiler processes (tools/sys_c16.py)', 'observed: ' + fl['detail']], '\n'.join(fl['ops']))
        monitor_failures(ctx, res['fails'], findings, 'system ledger', rp2)
    ctx.rules.append('h_tokens: pools of 1-3 tokens, histories of 6-21 steps (request / cancel a queued request / release / settle) observed at quiescent points; non-trivial = settle points with '
                     'requests still waiting; system: bursts of 6-11 concurrent clients on a 2-token server with failing compiles and SIGKILLed clients, then a saturating burst')
    ctx.assumptions += ['the helper thread hands over every available token within 36 ms of quiescence (observation window of the harness)', 'jobserver pipe semantics (a dropped Acquired writes the token back)']
    ctx.notes.append('not modelled: helper-thread timing; a Child dropped on a pipe error releases its token while the process may still run (read from the code, recorded)')

def replay(ctx, path):
    print(open(path).read()); return 0
