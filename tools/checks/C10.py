"""C10 — outputs restored from the cache replace files atomically.  Proof: Props/C10.lean (the Atomic invariant read for extraction:
reader_sees_whole, outputs_always_complete, partial_failure_clean); tie: h_extract (real extract_objects as Atomic actions) + modeld atomic;
monitors: old descriptors, inodes, hard links, leftovers in-process and through the real binary."""
import json, os
from vlib import *
import sys_c10

def run(ctx):
    findings = load_findings('C10')
    lean_props(ctx)
    rp = lambda fl: ('monitor-' + fl['kind'], ['actions of Model/Atomic.lean emitted by harness/src/bin/h_extract.rs for one real extract_objects call (or tools/sys_c10.py)', 'observed: ' + fl['detail']], '\n'.join(fl['ops']))
    if cargo_harness(ctx, ['h_extract']):
        w = ctx.work; e = env_offline(); e['VERIF_SEED'] = str(ctx.seed)
        n = 300 if ctx.quick() else 20000
        rc, out, dt = sh([harness_bin('h_extract'), 'gen', str(n), f'{w}/trace.txt', f'{w}/sum.json'], env=e, timeout=7200)
        if rc != 0: ctx.broken.append('h_extract crashed: ' + out[-300:])
        else:
            s = json.load(open(f'{w}/sum.json')); run_modeld(ctx, 'atomic', f'{w}/trace.txt', 'extract')
            ctx.evaluations += s['cases']; ctx.distinct_nontrivial += s['cases_with_failing_member']; ctx.samples += s['samples'][:1]
            ctx.cov.update({k: v for k, v in s.items() if k not in ('monitor_failures', 'samples')})
            monitor_failures(ctx, s['monitor_failures'], findings, 'h_extract monitor', rp)
    if cargo_repo_bins(ctx, ('sccache', 'sccache-dist')):
        res = sys_c10.run(os.path.join(ctx.work, 'sys'), 'c10', 2 if ctx.quick() else 20)
        ctx.evaluations += res['rounds']; ctx.samples += res['samples'][:1]; ctx.cov['system_rounds'] = res['rounds']
        monitor_failures(ctx, res['fails'], findings, 'system hit-over-open-file monitor', rp)
    ctx.rules.append('h_extract: 1-3 outputs, each existing (a regular file or, one in four, a symbolic link to the file with the old bytes; with an open descriptor / a hard link) or absent, entries with a corrupt (CRC) or missing member at a random position, optional flags; '
                     'non-trivial = cases with a failing member; system: a reader in the middle of the old file while a hit restores the path (every second round the path is a symbolic link)')
    ctx.assumptions += ['POSIX rename/unlink semantics on a local file system (NFS-like semantics are outside the model)', 'extract_objects is one blocking call: its intermediate states are reached in the model, observed on the real code only through old descriptors and the final directory']

def replay(ctx, path):
    print(open(path).read()); return 0
