"""C05 — wrapped rustc compiles identical and keyed on all inputs.  Proof: Props/C05.lean over Model/RustKey.lean (permutation invariance,
extern/-L/out-dir paths never enter the argument string, framing injective, extern-alias witness); tie: h_framing (std Hash framing, byte-exact)
+ modeld framing; monitor: real sccache + rustc on a generated crate, each input edit must miss, each reordering must hit, outputs = direct rustc."""
import json, os, re, shutil
from vlib import *
import sys_c05

def run(ctx):
    findings = load_findings('C05')
    translate(ctx, ['rustargs'])
    lean_props(ctx)
    if cargo_harness(ctx, ['h_rustargs']):
        w = ctx.work; e = env_offline(); e['VERIF_SEED'] = str(ctx.seed)
        n = 4000 if ctx.quick() else 150000
        rc, out, dt = sh([harness_bin('h_rustargs'), 'gen', str(n), f'{w}/rustargs.trace', f'{w}/rustargs.json'], env=e, timeout=7200)
        if rc != 0: ctx.broken.append('h_rustargs crashed: ' + out[-300:])
        else:
            s = json.load(open(f'{w}/rustargs.json'))
            with open(f'{w}/rustargs.trace') as f: rc, out, dt = sh([MODELD, 'rustargs'], stdin=f, timeout=7200)
            m = re.search(r'cases: (\d+) mismatches: (\d+)', out)
            if not m: ctx.broken.append('correspondence rustargs: modeld rustargs failed: ' + out[-300:])
            else:
                ctx.cov.setdefault('correspondence', {})['rustargs'] = {'model': 'rustargs', 'cases': int(m.group(1)), 'mismatches': int(m.group(2))}
                if int(m.group(2)):
                    ctx.broken.append('correspondence rustargs: the real rust::parse_arguments and RArgsM.parseArguments differ on %s command lines: %s' % (m.group(2), out[:600].replace('\n', ' ')))
                    open(f'{w}/mismatch-rustargs.txt', 'w').write(out)
            ctx.evaluations += s['cases']; ctx.distinct_nontrivial += s['distinct_nontrivial']; ctx.samples += s['samples'][:1]; ctx.cov['rustargs_verdicts'] = s['histogram']
            monitor_failures(ctx, s['monitor_failures'], findings, 'h_rustargs monitor', lambda fl: ('monitor-' + fl['kind'], ['rustc command line(s) as hex lists; the real rust::parse_arguments through hook H7 (harness/src/bin/h_rustargs.rs one <args>)', fl['detail'][:600]], '\n'.join(fl['ops'])))
            ctx.rules.append('h_rustargs: cargo-like rustc command lines (every table flag in both spellings, shuffled, value alphabets per flag with ordinary values five times in six, a non-UTF-8 byte one time in forty, truncated lines, '
                             'static libraries and <target>.json probes on a real directory) through the real parser vs RArgsM.parseArguments; non-trivial = distinct accepted (cacheable) command lines')
    if cargo_harness(ctx, ['h_rustkey']):
        w = ctx.work; e = env_offline(); e['VERIF_SEED'] = str(ctx.seed)
        n = 120 if ctx.quick() else 3000
        rc, out, dt = sh([harness_bin('h_rustkey'), 'gen', str(n), f'{w}/rustkey.req', f'{w}/rustkey.keys', f'{w}/rustkey.json'], env=e, timeout=7200)
        if rc != 0: ctx.broken.append('h_rustkey crashed: ' + out[-300:])
        else:
            s = json.load(open(f'{w}/rustkey.json'))
            with open(f'{w}/rustkey.req') as f, open(f'{w}/rustkey.pre', 'w') as g: subprocess.run([MODELD, 'rustkey'], stdin=f, stdout=g, timeout=7200)
            rc, out, dt = sh([harness_bin('h_rustkey'), 'cmp', f'{w}/rustkey.keys', f'{w}/rustkey.pre'])
            m = re.search(r'mismatches: (\d+)', out); d = re.search(r'distinct_keys: (\d+)', out); nm = int(m.group(1)) if m else -1
            ctx.cov.setdefault('correspondence', {})['rustkey'] = {'model': 'rustkey', 'mismatches': nm, 'keys_compared': sum(1 for _ in open(f'{w}/rustkey.keys'))}
            if nm != 0: ctx.broken.append('correspondence rustkey: hex(blake3(model pre-image)) differs from the real Rust key on %d requests; first: %s' % (nm, out[:500].replace('\n', ' ')))
            ctx.evaluations += sum(1 for _ in open(f'{w}/rustkey.keys')); ctx.distinct_nontrivial += int(d.group(1)) if d else 0; ctx.samples += s['samples'][:1]
            ctx.cov['rustkey'] = {k: v for k, v in s.items() if k not in ('monitor_failures', 'samples')}
            if s['cases'] and not s['keyed']: ctx.broken.append('h_rustkey: no generated command line was keyed (the tie is vacuous)')
            monitor_failures(ctx, s['monitor_failures'], findings, 'h_rustkey metamorphic monitor', lambda fl: ('monitor-' + fl['kind'], ['rustc command line and environment (pair separated by ||); real RustHasher::generate_hash_key with a real rustc (harness/src/bin/h_rustkey.rs)', fl['detail'][:700]], fl['detail']))
            ctx.rules.append('h_rustkey: a crate on disk (module, include_str!, option_env! of a plain and a CARGO_ variable, two extern rlibs built with the real rustc), shuffled cargo-like command lines and environments; byte-exact: BLAKE3 of the '
                             'model pre-image (model parser + environment filter + encRust, from independently computed digests / dep-info / rustc -vV / sysroot libraries) = the real key; metamorphic pairs (reordering, source edit, env-dep, irrelevant variables, a hashed argument, a CARGO_ variable)')
    if cargo_harness(ctx, ['h_framing']):
        w = ctx.work; e = env_offline(); e['VERIF_SEED'] = str(ctx.seed)
        n = 3000 if ctx.quick() else 200000
        rc, out, dt = sh([harness_bin('h_framing'), str(n), f'{w}/framing.trace'], env=e, timeout=3600)
        if rc != 0: ctx.broken.append('h_framing crashed: ' + out[-300:])
        else:
            with open(f'{w}/framing.trace') as f: rc, out, dt = sh([MODELD, 'framing'], stdin=f)
            m = re.search(r'cases: (\d+) mismatches: (\d+)', out)
            if not m: ctx.broken.append('correspondence framing: modeld framing failed: ' + out[-300:])
            else:
                ctx.cov.setdefault('correspondence', {})['framing'] = {'model': 'framing', 'cases': int(m.group(1)), 'mismatches': int(m.group(2))}
                ctx.evaluations += int(m.group(1))
                if int(m.group(2)): ctx.broken.append('correspondence framing: std Hash framing differs from encArg/encStr/encPath on %s cases: %s' % (m.group(2), out[:400].replace('\n', ' ')))
    rp = lambda fl: ('system-' + fl['kind'], ['tools/sys_c05.py: real sccache + rustc on a generated crate', 'observed: ' + fl['detail']], '\n'.join(fl['ops']))
    if cargo_repo_bins(ctx, ('sccache', 'sccache-dist')):
        for h in range(2 if ctx.quick() else 20):
            res = sys_c05.run(os.path.join(ctx.work, 'sys'), f'c05{h}', ctx.seed * 29 + h, 10 if ctx.quick() else 30, script=sys_c05.ENV_SCRIPT if h == 0 else ())
            ctx.evaluations += res['requests']; ctx.distinct_nontrivial += res['misses']; ctx.samples += res['samples'][:1]
            ctx.cov.setdefault('system', []).append({k: v for k, v in res.items() if k not in ('fails', 'samples')})
            monitor_failures(ctx, res['fails'], findings, 'rustc history monitor', rp)
        res = sys_c05.codegen_options(os.path.join(ctx.work, 'sysg'), 'c05g')
        ctx.evaluations += res['requests']; ctx.cov['codegen_option_scenarios'] = res['codegen_scenarios']; monitor_failures(ctx, res['fails'], findings, 'rustc codegen-option scenarios', rp)
        res = sys_c05.artifact_notifications(os.path.join(ctx.work, 'sysn'), 'c05n')
        ctx.evaluations += res['requests']; monitor_failures(ctx, res['fails'], findings, 'rustc artifact notifications', rp)
        line, fails = sys_c05.extern_alias(os.path.join(ctx.work, 'sysa'), 'c05a')
        ctx.samples.append(line); monitor_failures(ctx, fails, findings, 'extern alias witness replay', rp)
    ctx.rules.append('framing: random OsString / String / PathBuf values through a write-only Hasher; system: histories over a crate with a module, include_str!, env! / option_env! of a plain, a CARGO_PKG_* and a CARGO_REGISTRIES_* variable (set / changed / unset, scripted first), a cfg feature and an extern rlib — '
                     'edit of each input (must miss), reorder --cfg and --extern/-L (must hit), repeat (must hit); every out-dir compared file by file with a direct rustc run; '
                     'codegen options that change what rustc leaves in --out-dir (-g, split-debuginfo packed / unpacked, save-temps, opt-level, strip, embed-bitcode, codegen-units), each twice (miss, hit)')
    ctx.assumptions += ["rustc's dep-info lists every source file and env! variable (assumed complete)", 'the whole Rust key is tied byte-exactly (h_rustkey) for crates without static libraries and json targets; those two digests are covered by the system monitor only']
    ctx.notes.append('not modelled: the outputs computation of the rust hasher (rlib/rmeta/dep-info fix-ups from `rustc --print file-names`); partial')

def replay(ctx, path):
    print(open(path).read()); return 0
