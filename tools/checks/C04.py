"""C04 — direct mode never answers for changed inputs.  Proof: Props/C04.lean (finder_sound over all splits; manifest_hit_sound_partial
over all option combinations and file-system evolutions); tie: h_c04 finder/manifest + modeld finder/manifest; monitors on the real code."""
import json, os
from vlib import *
from checks import sysmon

def to_replay(fl):
    if fl['kind'] in ('macro_missed', 'digest_depends_on_split', 'reader_flags_differ'):
        return ('monitor-' + fl['kind'], ['hex chunks of one file, in read order; replay: ./check C04 --replay <this file>  (real TimeMacroFinder; exit 1 iff a present macro is not found)'], '\n'.join(fl['ops']))
    return ('monitor-' + fl['kind'], ['line of the `modeld manifest` protocol: "<stat ctime ignore> | recorded i:digest:size:rec:mtime:ctime … | current i:digest:size:mtime:ctime:date:time:timestamp … | hit"',
            'the real lookup_result_digest returned a hit although a recorded header changed'], '\n'.join(fl['ops']))

def run(ctx):
    findings = load_findings('C04')
    lean_props(ctx)
    if not cargo_harness(ctx, ['h_c04']): return
    nf, nm = (20000, 1500) if ctx.quick() else (400000, 30000)
    w = ctx.work; e = env_offline(); e['VERIF_SEED'] = str(ctx.seed)
    for mode, n, model in (('finder', nf, 'finder'), ('manifest', nm, 'manifest')):
        rc, out, dt = sh([harness_bin('h_c04'), mode, str(n), f'{w}/{mode}.trace', f'{w}/{mode}.json'], env=e, timeout=7200)
        if rc != 0: ctx.broken.append(f'h_c04 {mode} crashed: ' + out[-300:]); continue
        s = json.load(open(f'{w}/{mode}.json'))
        run_modeld(ctx, model, f'{w}/{mode}.trace', mode)
        ctx.evaluations += s['cases']; ctx.distinct_nontrivial += s['distinct_nontrivial']; ctx.samples += s['samples'][:2]
        ctx.cov[mode] = {k: v for k, v in s.items() if k not in ('monitor_failures', 'samples')}
        monitor_failures(ctx, s['monitor_failures'], findings, f'h_c04 {mode} monitor', to_replay)
    if cargo_repo_bins(ctx, ('sccache', 'sccache-dist')):
        for cc, nh in (('/usr/bin/gcc', 6 if ctx.quick() else 60), ('/usr/bin/clang', 3 if ctx.quick() else 30)):
            res = sysmon.st.run_direct_mode_histories(sysmon.sysroot(ctx, 'c04'), 'c04' + os.path.basename(cc), cc, ctx.seed * 31, nh, 8 if ctx.quick() else 20)
            sysmon.feed(ctx, res, findings, f'system direct mode {os.path.basename(cc)}')
    ctx.rules.append('system: preprocessor-cache mode with random option combinations (stat matching, ctime, skip system headers, hash cwd) through a config file, include directories whose names hold digits / spaces, '
                     '-isystem header; same-size / size-changing / touch / delete+recreate / mtime-restored edits of every header, each request compared with a direct compile; ')
    ctx.rules.append('finder: texts built from whole and broken macro fragments x read splits biased to sizes 1-3, 11-15, 13, 26 (non-trivial = distinct split of a text that holds a macro); '
                     'manifest: 1-3 real header files x 8 option combinations x {none, same-size edit, size edit, edit with restored mtime, touch, delete, rewrite} per header, times recorded or not '
                     '(non-trivial = distinct case in which some header changed)')
    ctx.assumptions += ['a change to a file sets its ctime to the kernel clock, which is monotone (hypothesis EvolvedSince of the theorem)',
                        'kernel timestamp granularity: a header modified in the same clock tick as the compile start is outside the model',
                        'BLAKE3 content digests identify contents (collisions aside)']
    ctx.notes.append('not yet modelled: the include recorder (process_preprocessed_file / remember_include_file) and the line-marker scanner')

def replay(ctx, path):
    if not cargo_harness(ctx, ['h_c04']): return 2
    rc, out, dt = sh([harness_bin('h_c04'), 'replay-finder', path]); print(out); return rc
