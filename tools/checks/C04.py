"""C04 — direct mode never answers for changed inputs.  Proof: Props/C04.lean (finder_sound over all splits; manifest_hit_sound
over all option combinations and file-system evolutions); tie: h_c04 finder/manifest + modeld finder/manifest; monitors on the real code."""
import json, os, re
from vlib import *
from checks import sysmon

def to_replay(fl):
    if fl['kind'] in ('macro_missed', 'digest_depends_on_split', 'reader_flags_differ'):
        return ('monitor-' + fl['kind'], ['hex chunks of one file, in read order; replay: ./check C04 --replay <this file>  (real TimeMacroFinder; exit 1 iff a present macro is not found)'], '\n'.join(fl['ops']))
    return ('monitor-' + fl['kind'], ['line of the `modeld manifest` protocol: "<stat ctime ignore> | recorded i:digest:size:rec:mtime:ctime … | current i:digest:size:mtime:ctime:date:time:timestamp … | hit"',
            'the real lookup_result_digest returned a hit although a recorded header changed'], '\n'.join(fl['ops']))

def run(ctx):
    findings = load_findings('C04')
    translate(ctx, ['key', 'consts'])
    lean_props(ctx)
    if not cargo_harness(ctx, ['h_c04']): return
    nf, nm = (20000, 1500) if ctx.quick() else (400000, 30000)
    w = ctx.work; e = env_offline(); e['VERIF_SEED'] = str(ctx.seed)
    for mode, n, model in (('finder', nf, 'finder'), ('manifest', nm, 'manifest')):
        rc, out, dt = sh([harness_bin('h_c04'), mode, str(n), f'{w}/{mode}.trace', f'{w}/{mode}.json'], env=e, timeout=7200)
        if rc != 0: ctx.broken.append(f'h_c04 {mode} crashed: ' + out[-300:]); continue
        s = json.load(open(f'{w}/{mode}.json'))
        run_modeld(ctx, model, f'{w}/{mode}.trace', mode)
        ctx.evaluations += s['cases']; ctx.distinct_nontrivial += s['distinct_nontrivial']; ctx.samples += s['samples'][:2]
        ctx.cov[mode] = {k: v for k, v in s.items() if k not in ('monitor_failures', 'samples')}
        monitor_failures(ctx, s['monitor_failures'], findings, f'h_c04 {mode} monitor', to_replay)
    # the manifest is looked up under preprocessor_cache_entry_hash_key: byte-exact tie of that key (shared with C02) + metamorphic pairs at that level
    from checks import C02
    C02.key_tie(ctx, findings, 4000 if ctx.quick() else 100000, 1500 if ctx.quick() else 40000, own_property=False, relevant=lambda f: any(o.startswith('pre ') for o in f.get('ops', [])))
    if cargo_harness(ctx, ['h_recorder']):
        # second tier: the include recorder (hook H2) on generated line-marker texts over a real directory tree
        n = 3000 if ctx.quick() else 80000
        rc, out, dt = sh([harness_bin('h_recorder'), str(n), f'{w}/rec', f'{w}/rec.trace', f'{w}/rec.json'], env=e, timeout=7200)
        if rc != 0: ctx.broken.append('h_recorder crashed: ' + out[-300:])
        else:
            s = json.load(open(f'{w}/rec.json'))
            with open(f'{w}/rec.trace') as f: rc, out, dt = sh([MODELD, 'recorder'], stdin=f)
            m = re.search(r'cases: (\d+) mismatches: (\d+)', out)
            if not m: ctx.broken.append('correspondence recorder: modeld recorder failed: ' + out[-300:])
            else:
                ctx.cov.setdefault('correspondence', {})['recorder'] = {'model': 'recorder', 'cases': int(m.group(1)), 'mismatches': int(m.group(2))}
                if int(m.group(2)): ctx.broken.append('correspondence recorder: process_preprocessed_file / remember_include_file differ from RecM.processPreprocessedFile on %s of %s texts: %s' % (m.group(2), m.group(1), out[:700].replace('\n', ' ')))
            ctx.evaluations += s['cases']; ctx.distinct_nontrivial += s['distinct_nontrivial']; ctx.samples += s['samples'][:1]
            ctx.cov['recorder'] = {k: v for k, v in s.items() if k not in ('monitor_failures', 'samples')}
            monitor_failures(ctx, s['monitor_failures'], findings, 'h_recorder monitor', lambda fl: ('monitor-' + fl['kind'], ['preprocessor output text, options, and the `modeld recorder` protocol line (cfg, cwd, input, text, world, result); harness/src/bin/h_recorder.rs', 'observed: ' + fl['detail']], '\n'.join(fl['ops'])))
    if cargo_repo_bins(ctx, ('sccache', 'sccache-dist')):
        for cc in ('/usr/bin/gcc', '/usr/bin/clang'):
            res = sysmon.st.run_direct_mode_layouts(sysmon.sysroot(ctx, 'c04'), 'c04l' + os.path.basename(cc), cc)
            sysmon.feed(ctx, res, findings, f'system direct mode path layouts {os.path.basename(cc)}')
        for cc, nh in (('/usr/bin/gcc', 6 if ctx.quick() else 60), ('/usr/bin/clang', 3 if ctx.quick() else 30)):
            res = sysmon.st.run_direct_mode_histories(sysmon.sysroot(ctx, 'c04'), 'c04' + os.path.basename(cc), cc, ctx.seed * 31, nh, 8 if ctx.quick() else 20)
            sysmon.feed(ctx, res, findings, f'system direct mode {os.path.basename(cc)}')
    ctx.rules.append('system: preprocessor-cache mode with random option combinations (stat matching, ctime, skip system headers, hash cwd) through a config file, include directories whose names hold digits / spaces, '
                     '-isystem header; scripted path layouts first (parent-directory include dir with a shadow file below the cwd, two levels up, `link/../h.h` through a symlinked directory); same-size / size-changing / touch / delete+recreate / mtime-restored edits of every header, each request compared with a direct compile; ')
    ctx.rules.append('finder: texts built from whole and broken macro fragments x read splits biased to sizes 1-3, 11-15, 13, 26 (non-trivial = distinct split of a text that holds a macro); '
                     'manifest: 1-3 real header files x 8 option combinations x {none, same-size edit, size edit, edit with restored mtime, touch, delete, rewrite} per header, times recorded or not '
                     '(non-trivial = distinct case in which some header changed)')
    ctx.assumptions += ['a change to a file sets its ctime to the kernel clock, which is monotone (hypothesis EvolvedSince of the theorem)',
                        'kernel timestamp granularity: a header modified in the same clock tick as the compile start is outside the model',
                        'BLAKE3 content digests identify contents (collisions aside)']
    ctx.rules.append('recorder: 1-7 lines per text from {well-formed line markers x 60 path spellings (relative, ./, //, .., absolute, trailing slash, <pseudo>, missing, non-UTF-8, directory, fifo, too-new, __TIME__) x 9 flag suffixes x 6 line numbers, gcc-6 #31/#32 lines, pch pragma, #line, .incbin, distcc-pump banner, malformed / unterminated markers, noise}; half of the texts well-formed only; 1 in 16 goes through a symlinked directory (monitor only)')
    ctx.notes.append('recorder tie: directory symlinks are outside the model world (F-C04-d is found by the monitor, not by the model); unreadable headers (open failing) cannot be produced as root')

def replay(ctx, path):
    if not cargo_harness(ctx, ['h_c04']): return 2
    rc, out, dt = sh([harness_bin('h_c04'), 'replay-finder', path]); print(out); return rc
