"""C19 — build-server jobs stay inside their private root.  Proof: Props/C19.lean over Model/Paths.lean (confined_all, every_step_inside,
refused_only_when_leaving for the repaired resolve_inside; confined_partial + the pinned escape witness for join_suffix alone);
tie: hook H6 `paths` (real join_suffix, std::path and resolve_inside inside sccache-dist, on a real directory) + modeld paths; monitors: whatever
resolve_inside accepts lies under the build root; crafted jobs against a REAL scheduler + build server (tools/sys_c19.py: host listing and canary
files); adversarial toolchain ids on the real TcCache."""
import json, os, random, re, shutil
from vlib import *
import sys_c19

PARTS = ['a', 'b', '..', '.', '', 'c.o', 'x y', '...', '..a', 'etc', 'passwd']

def mk(rng):
    n = rng.randrange(5); s = ''
    if rng.randrange(2) == 0:
        s += '/'
        if rng.randrange(5) == 0: s += '/'
    s += '/'.join(rng.choice(PARTS) for _ in range(n))
    if rng.randrange(6) == 0: s += '/'
    return s

def resolve(p):
    st = []
    for c in p.split('/'):
        if c in ('', '.'): continue
        if c == '..':
            if st: st.pop()
        else: st.append(c)
    return st

def run(ctx):
    findings = load_findings('C19')
    lean_props(ctx)
    bins_ok = cargo_repo_bins(ctx, ('sccache', 'sccache-dist'))
    if bins_ok:
        rng = random.Random(ctx.seed); n = 4000 if ctx.quick() else 200000
        w = ctx.work
        pairs = [(mk(rng), mk(rng)) for _ in range(n)]
        open(f'{w}/pairs.txt', 'w').write(''.join(f'{a}\t{b}\n' for a, b in pairs))
        shutil.rmtree(f'{w}/root', ignore_errors=True); os.makedirs(f'{w}/root')
        e = env_offline(); e['SCCACHE_DIST_VERIF'] = f'paths:{w}/pairs.txt:{w}/paths.trace:{w}/root'
        rc, out, dt = sh([repo_bin('sccache-dist')], env=e, timeout=3600)
        if rc != 0 or not os.path.exists(f'{w}/paths.trace'): ctx.broken.append('H6 paths driver failed: ' + out[-300:])
        else:
            run_modeld(ctx, 'paths', f'{w}/paths.trace', 'paths')
            fails = []; lexical_escapes = 0; refused = 0; dd = 0; distinct = set()
            root = resolve('/srv/b/t')
            for l in open(f'{w}/paths.trace'):
                f = l.rstrip('\n').split('\t')
                if len(f) < 6: continue
                cwd, p, joined, js, _parent, inside = f[:6]; distinct.add(js)
                has_dd = '..' in (cwd + '/' + p).split('/')
                if has_dd: dd += 1
                esc = resolve(js)[:len(root)] != root
                lexical_escapes += esc; refused += inside == 'err'
                # the statement on the implementation: what the server goes on to use (resolve_inside) is inside the root, and it refuses nothing that stays inside at every step
                if inside.startswith('OUTSIDE'):
                    fails.append({'kind': 'escape', 'detail': f'cwd={cwd!r} path={p!r}: resolve_inside returns {inside!r}, outside the build root', 'ops': [l.rstrip('\n')]})
                elif inside.startswith('ok '):
                    # independent oracle: walk the components, every prefix must stay at or below the root, the end is the returned path
                    st = []; left = False
                    for c in js[len('/srv/b/t'):].split('/'):
                        if c in ('', '.'): continue
                        if c == '..':
                            if not st: left = True; break
                            st.pop()
                        else: st.append(c)
                    if left or '/' + '/'.join(st) != inside[3:]:
                        fails.append({'kind': 'escape', 'detail': f'cwd={cwd!r} path={p!r}: resolve_inside accepted {inside!r} but the path {"leaves the root on the way" if left else "resolves to /" + "/".join(st)}', 'ops': [l.rstrip('\n')]})
                elif inside == 'err' and not esc:
                    st = []; left = False
                    for c in js[len('/srv/b/t'):].split('/'):
                        if c in ('', '.'): continue
                        if c == '..':
                            if not st: left = True; break
                            st.pop()
                        else: st.append(c)
                    if not left: fails.append({'kind': 'harmless_path_refused', 'detail': f'cwd={cwd!r} path={p!r}: resolve_inside refuses a path that never leaves the root', 'ops': [l.rstrip('\n')]})
            ctx.evaluations += n; ctx.distinct_nontrivial += len(distinct); ctx.samples.append(open(f'{w}/paths.trace').readline().rstrip('\n'))
            ctx.cov.update(path_pairs=n, pairs_with_dotdot=dd, join_suffix_alone_would_escape=lexical_escapes, refused_by_resolve_inside=refused)
            def rp(fl): return ('monitor-' + fl['kind'], ['cwd<TAB>path<TAB>Path::join<TAB>join_suffix(/srv/b/t, …)<TAB>parent — from the real code (hook H6)', 'observed: ' + fl['detail']], '\n'.join(fl['ops']))
            monitor_failures(ctx, fails[:50], findings, 'join_suffix confinement monitor', rp)
    if bins_ok and cargo_harness(ctx, ['h_distjob']):
        res = sys_c19.run(os.path.join(ctx.work, 'cluster'), 'c19', ctx.seed, 1 if ctx.quick() else 6)
        ctx.evaluations += res['jobs']; ctx.distinct_nontrivial += res['jobs']; ctx.samples += res['samples'][:1]
        ctx.cov['real_build_server'] = {k: v for k, v in res.items() if k not in ('fails', 'samples')}
        monitor_failures(ctx, res['fails'], findings, 'real build server (crafted jobs)', lambda fl: ('server-' + fl['kind'], ['crafted job sent with the real dist::http::Client to a real scheduler + sccache-dist server (tools/sys_c19.py, harness/src/bin/h_distjob.rs); fake bubblewrap = chroot', fl['detail']], '\n'.join(fl['ops'])))
    if cargo_harness(ctx, ['h_tc']):
        rc, out, dt = sh([harness_bin('h_tc'), 'ids'], timeout=600)
        try: res = json.loads(out.strip().splitlines()[-1])
        except Exception: res = []; ctx.broken.append('h_tc ids failed: ' + out[-200:])
        fails = []
        for r in res:
            if r['panicked']: fails.append({'kind': 'toolchain_id_panic', 'detail': f'toolchain id {r["id"]!r} panics in make_lru_key_path (with the cache mutex held on a server)', 'ops': [json.dumps(r)]})
            if r['outside_root']: fails.append({'kind': 'toolchain_id_escape', 'detail': f'toolchain id {r["id"]!r}: {r["outside_root"]}, outside the toolchain cache directory', 'ops': [json.dumps(r)]})
        ctx.evaluations += len(res); ctx.cov['toolchain_ids_probed'] = len(res)
        # tie of the id check: the real TcCache builds a path for an id exactly when PathsM.validId accepts it
        if res:
            open(f'{ctx.work}/ids.trace', 'w').write(''.join(f'{r["hex"]}\t{"true" if r["accepted"] else "false"}\n' for r in res))
            run_modeld(ctx, 'tcid', f'{ctx.work}/ids.trace', 'toolchain-ids')
        monitor_failures(ctx, fails, findings, 'toolchain id probe', lambda fl: ('monitor-' + fl['kind'], ['real TcCache (harness/src/bin/h_tc.rs ids)', fl['detail']], '\n'.join(fl['ops'])))
    ctx.rules.append('path pairs built from {a, b, .., ., empty, c.o, "x y", ..., ..a, etc, passwd} with 0-4 components, absolute/relative, doubled and trailing slashes; every pair through the real Path::join and '
                     'join_suffix; 10 adversarial toolchain ids (empty, 1 byte, multi-byte char, absolute, ../, hex) + 150 generated ones (hex and not, dots, separators-free, non-ASCII) diffed against PathsM.validId')
    ctx.rules.append('real build server: 22 crafted jobs per round (benign, two-job isolation, toolchain alteration, absolute / doubled-slash / .. cwd and outputs, input members with .. / absolute names / symlink then member below / hard link, '
                     'outputs turned into symlinks to host files by the job or by the inputs archive, toolchain carrying a symlink to a host directory); host listing before/after each job and canary files')
    ctx.assumptions += ["tar's own unpack confinement (exercised on the real server, not modelled)", "symbolic links: resolve_inside resolves them with the kernel's canonicalize and applies the same starts_with(root) test; the Lean model is the link-free world"]
    ctx.notes.append('cannot run here: bubblewrap itself (absent; a chroot stand-in runs the jobs) — namespace isolation of the sandboxed process is not exercised; partial')

def replay(ctx, path):
    print(open(path).read()); return 0
