"""C19 — build-server jobs stay inside their private root.  Proof: Props/C19.lean over Model/Paths.lean (confined_partial + escape witness);
tie: hook H6 `paths` (real join_suffix + std::path inside sccache-dist) + modeld paths; monitor: lexical resolution of every computed path must
stay under the build root; adversarial toolchain ids on the real TcCache."""
import json, os, random, re
from vlib import *

PARTS = ['a', 'b', '..', '.', '', 'c.o', 'x y', '...', '..a', 'etc', 'passwd']

def mk(rng):
    n = rng.randrange(5); s = ''
    if rng.randrange(2) == 0:
        s += '/'
        if rng.randrange(5) == 0: s += '/'
    s += '/'.join(rng.choice(PARTS) for _ in range(n))
    if rng.randrange(6) == 0: s += '/'
    return s

def resolve(p):
    st = []
    for c in p.split('/'):
        if c in ('', '.'): continue
        if c == '..':
            if st: st.pop()
        else: st.append(c)
    return st

def run(ctx):
    findings = load_findings('C19')
    lean_props(ctx)
    if cargo_repo_bins(ctx, ('sccache', 'sccache-dist')):
        rng = random.Random(ctx.seed); n = 4000 if ctx.quick() else 200000
        w = ctx.work
        pairs = [(mk(rng), mk(rng)) for _ in range(n)]
        open(f'{w}/pairs.txt', 'w').write(''.join(f'{a}\t{b}\n' for a, b in pairs))
        e = env_offline(); e['SCCACHE_DIST_VERIF'] = f'paths:{w}/pairs.txt:{w}/paths.trace'
        rc, out, dt = sh([repo_bin('sccache-dist')], env=e, timeout=3600)
        if rc != 0 or not os.path.exists(f'{w}/paths.trace'): ctx.broken.append('H6 paths driver failed: ' + out[-300:])
        else:
            run_modeld(ctx, 'paths', f'{w}/paths.trace', 'paths')
            fails = []; escapes = 0; dd = 0; distinct = set()
            root = resolve('/srv/b/t')
            for l in open(f'{w}/paths.trace'):
                f = l.rstrip('\n').split('\t')
                if len(f) < 4: continue
                cwd, p, joined, js = f[:4]; distinct.add(js)
                has_dd = '..' in (cwd + '/' + p).split('/')
                if has_dd: dd += 1
                if resolve(js)[:len(root)] != root:
                    escapes += 1
                    fails.append({'kind': 'escape', 'detail': f'cwd={cwd!r} path={p!r}: join_suffix gives {js!r}, which resolves outside /srv/b/t' + (' [.. component in cwd or path]' if has_dd else ''), 'ops': [l.rstrip('\n')]})
            ctx.evaluations += n; ctx.distinct_nontrivial += len(distinct); ctx.samples.append(open(f'{w}/paths.trace').readline().rstrip('\n'))
            ctx.cov.update(path_pairs=n, pairs_with_dotdot=dd, escapes_observed=escapes)
            def rp(fl): return ('monitor-' + fl['kind'], ['cwd<TAB>path<TAB>Path::join<TAB>join_suffix(/srv/b/t, …)<TAB>parent — from the real code (hook H6)', 'observed: ' + fl['detail']], '\n'.join(fl['ops']))
            monitor_failures(ctx, fails[:50], findings, 'join_suffix confinement monitor', rp)
    if cargo_harness(ctx, ['h_tc']):
        rc, out, dt = sh([harness_bin('h_tc'), 'ids'], timeout=600)
        try: res = json.loads(out.strip().splitlines()[-1])
        except Exception: res = []; ctx.broken.append('h_tc ids failed: ' + out[-200:])
        fails = []
        for r in res:
            if r['panicked']: fails.append({'kind': 'toolchain_id_panic', 'detail': f'toolchain id {r["id"]!r} panics in make_lru_key_path (with the cache mutex held on a server)', 'ops': [json.dumps(r)]})
            if r['outside_root']: fails.append({'kind': 'toolchain_id_escape', 'detail': f'toolchain id {r["id"]!r}: {r["outside_root"]}, outside the toolchain cache directory', 'ops': [json.dumps(r)]})
        ctx.evaluations += len(res); ctx.cov['toolchain_ids_probed'] = len(res)
        monitor_failures(ctx, fails, findings, 'toolchain id probe', lambda fl: ('monitor-' + fl['kind'], ['real TcCache (harness/src/bin/h_tc.rs ids)', fl['detail']], '\n'.join(fl['ops'])))
    ctx.rules.append('path pairs built from {a, b, .., ., empty, c.o, "x y", ..., ..a, etc, passwd} with 0-4 components, absolute/relative, doubled and trailing slashes; every pair through the real Path::join and '
                     'join_suffix; 10 adversarial toolchain ids (empty, 1 byte, multi-byte char, absolute, ../, hex)')
    ctx.assumptions += ["tar's own unpack confinement; the kernel's resolution of .. is the lexical one (no symlinks created by the job: second tier, not modelled)"]
    ctx.notes.append('cannot run here: bubblewrap / overlayfs (absent) — the sandboxed half of the property is not exercised; partial')

def replay(ctx, path):
    print(open(path).read()); return 0
