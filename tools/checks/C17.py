"""C17 — the toolchain cache only serves content matching the id.  Proof: Props/C17.lean over Model/TcCache.lean;
tie: h_tc (real dist::TcCache) + modeld tc; monitor: digest of whatever is served/reported present equals the id."""
import json, os, re
from vlib import *

def run(ctx):
    findings = load_findings('C17')
    lean_props(ctx)
    if not cargo_harness(ctx, ['h_tc']): return
    n = 400 if ctx.quick() else 20000
    w = ctx.work; e = env_offline(); e['VERIF_SEED'] = str(ctx.seed)
    rc, out, dt = sh([harness_bin('h_tc'), 'gen', str(n), f'{w}/trace.txt', f'{w}/sum.json'], env=e, timeout=7200)
    if rc != 0: ctx.broken.append('h_tc crashed: ' + out[-300:]); return
    s = json.load(open(f'{w}/sum.json'))
    run_modeld(ctx, 'tc', f'{w}/trace.txt', 'tc')
    ctx.evaluations += s['steps']; ctx.distinct_nontrivial += s['distinct_nontrivial']; ctx.samples += s['samples']
    ctx.rules.append('h_tc: histories of 2-10 steps over 4 ids: uploads (half of them with content that does not match the declared id), removals, reopen, capacity 7 bytes '
                     '(LRU evictions) or large; non-trivial = distinct history with at least one dishonest upload')
    ctx.cov.update({k: s[k] for k in ('histories', 'steps', 'dishonest_uploads', 'evictions')})
    def to_replay(fl): return ('monitor-' + fl['kind'], ['"<capacity> <steps…>"; replay: ./check C17 --replay <this file> (real TcCache)'], '\n'.join(fl['ops']))
    monitor_failures(ctx, s['monitor_failures'], findings, 'h_tc monitor', to_replay)
    ctx.assumptions += ['content digests identify contents (BLAKE3 collisions aside)', 'client-side insert_file is private to the crate and is modelled but not driven']

def replay(ctx, path):
    if not cargo_harness(ctx, ['h_tc']): return 2
    rc, out, dt = sh([harness_bin('h_tc'), 'replay', path]); print(out); return rc
