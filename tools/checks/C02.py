"""C02 — key covers every component, without aliasing.  Proof: Props/C02.lean over Model/Key.lean (+ generated constants);
tie: byte-exact pre-image comparison (h_key gen -> modeld key -> h_key cmp) + metamorphic monitor on the real functions."""
import json, os, re, shutil
from vlib import *

def to_replay(fl):
    return ('monitor-' + fl['kind'] + '-' + re.sub(r'\W+', '_', fl['detail'])[:40],
            ['two request lines (protocol of `modeld key`); the real hash_key / preprocessor_cache_entry_hash_key give them '
             + ('the same key although their components differ' if fl['kind'] == 'alias' else 'different keys although their components agree'),
             'replay: ./check C02 --replay <this file>'], '\n'.join(fl['ops']))

def run(ctx):
    findings = load_findings('C02')
    translate(ctx, ['key'])
    lean_props(ctx)
    key_tie(ctx, findings, *((3000, 3000) if ctx.quick() else (100000, 100000)))

def key_tie(ctx, findings, n, npairs, own_property=True, relevant=None):
    """byte-exact key correspondence + metamorphic monitor; also used by C01 / C03 / C12, which rest on the key theorems
    (there the aliasing findings of C02 are not repeated: only unlisted failures count)"""
    if not cargo_harness(ctx, ['h_key']): return
    w = ctx.work; scratch = os.path.join(w, 'scratch'); shutil.rmtree(scratch, ignore_errors=True)
    e = env_offline(); e['VERIF_SEED'] = str(ctx.seed)
    rc, out, dt = sh([harness_bin('h_key'), 'gen', str(n), str(npairs), f'{w}/req.txt', f'{w}/keys.txt', f'{w}/summary.json', scratch], env=e, timeout=7200)
    if rc != 0: ctx.broken.append('h_key gen crashed: ' + out[-300:]); return
    s = json.load(open(f'{w}/summary.json'))
    if os.path.exists(MODELD):
        with open(f'{w}/req.txt') as f, open(f'{w}/pre.txt', 'w') as g:
            subprocess.run([MODELD, 'key'], stdin=f, stdout=g, timeout=3600)
        rc, out, dt = sh([harness_bin('h_key'), 'cmp', f'{w}/req.txt', f'{w}/keys.txt', f'{w}/pre.txt'])
        m = re.search(r'mismatches: (\d+)', out); d = re.search(r'distinct_keys: (\d+)', out)
        nm = int(m.group(1)) if m else -1
        ctx.cov.setdefault('correspondence', {})['key'] = {'model': 'key', 'mismatches': nm, 'keys_compared': sum(1 for _ in open(f'{w}/req.txt'))}
        if nm != 0:
            ctx.broken.append('correspondence key: hex(blake3(model pre-image)) differs from the real key on %d requests; first: %s' % (nm, out[:500].replace('\n', ' ')))
            open(f'{w}/mismatch-key.txt', 'w').write(out)
        ctx.distinct_nontrivial += int(d.group(1)) if d else 0
    else:
        ctx.broken.append('correspondence key: modeld missing')
    # the same request in a fresh process: a key must not depend on per-process state (hash-map seeds, addresses, start-up time)
    reqs = open(f'{w}/req.txt').read().splitlines(); keys = open(f'{w}/keys.txt').read().splitlines(); picked = []
    for i, l in enumerate(reqs):
        t = l.split()      # result keys only: a preprocessor-level key also depends on the scratch input file as it was during the run
        if t and t[0] != 'pre' and len(t) > 5 and t[5].count(',') >= 1: picked.append(i)
    picked = picked[:: max(1, len(picked) // (60 if ctx.quick() else 600))]
    xproc = []
    for i in picked:
        rc, out, dt = sh([harness_bin('h_key'), 'one', reqs[i]], env=e)
        mk = re.search(r'[0-9a-f]{64}', out); k = mk.group(0) if mk else out.strip()[-40:]
        mo = re.search(r'[0-9a-f]{64}', keys[i]); k0 = mo.group(0) if mo else keys[i].strip()[-40:]
        if rc == 0 and (mk is not None or mo is not None) and k != k0:
            xproc.append({'kind': 'unstable', 'detail': f'the same request has key {k0[:16]}… in one process and {k[:16]}… in the next (request line {i} of the h_key run; several environment pairs)', 'ops': [reqs[i]]})
    ctx.cov['keys_recomputed_in_fresh_processes'] = len(picked); ctx.evaluations += len(picked)
    s['monitor_failures'] = xproc[:3] + s['monitor_failures']
    ctx.evaluations += s['requests'] + 2 * s['pairs'] + sum(s.get('populations', {}).values())
    ctx.rules.append('h_key: structured requests (14 languages, 0-4 args incl. empty and non-UTF-8, 0-2 extra digests, 0-4 env pairs with and without allow-listed names, '
                     'preprocessor-like payloads; one third are preprocessor-level keys on real input files) + pair families of the quantifier (single change, split/merge/shift, '
                     'move between lists, all 14x14 language pairs, tag/payload and extras/payload shifts) + populations (every placement of 1-3 separators in one input path, every split of one string into 1-3 arguments, name/value variants of every allow-listed variable: pairwise distinct keys required); distinct_nontrivial = number of distinct keys compared byte-exactly')
    ctx.samples += s['samples']
    ctx.cov.update(requests=s['requests'], pairs=s['pairs'], disabled_keys=s['none_keys'], pair_families=s['families'], populations=s.get('populations', {}))
    def to_fail(f): return dict(f)
    fails = s['monitor_failures']
    if not own_property:
        c02 = load_findings('C02'); fails = [f for f in fails if match_finding(c02, f) is None and (relevant is None or relevant(f))]
    monitor_failures(ctx, fails, findings, 'h_key metamorphic monitor', to_replay)
    ctx.assumptions += ['BLAKE3 is a parameter H of the theorems; collision-freedom is an explicit disjunct, not an axiom', 'Unix byte paths (encode_path is the identity)']

def replay(ctx, path):
    if not cargo_harness(ctx, ['h_key']): return 2
    lines = [l for l in open(path).read().splitlines() if l.strip() and not l.startswith('#')]
    keys = []
    for l in lines:
        rc, out, dt = sh([harness_bin('h_key'), 'one', l]); keys.append(out.strip()); print(l, '\n  real key:', out.strip())
    same = len(set(keys)) == 1
    print('keys equal' if same else 'keys differ'); return 1 if same and len(lines) > 1 else 0
