"""glue: run a system-level monitor from sys_transparency and feed its failures into the check context"""
import os, shutil
from vlib import *
import sys_transparency as st

def to_replay(fl):
    return ('system-' + fl['kind'], ['history of edits and requests against the real sccache server (tools/sys_transparency.py); each line "note: compiler arguments env -> rc class ran_compiler"',
            'observed: ' + fl['detail']], '\n'.join(fl['ops']))

def feed(ctx, res, findings, suite):
    ctx.evaluations += res.get('requests', 0)
    ctx.distinct_nontrivial += res.get('requests', 0) - 0
    ctx.samples += res.get('samples', [])[:1]
    ctx.cov.setdefault('system', {})[suite] = {k: v for k, v in res.items() if k not in ('fails', 'samples')}
    fails = res['fails']
    if ctx.prop != 'C01':   # the permission-bit finding F-C01-d and the dropped driver warning F-C01-e belong to C01 only; the other properties speak neither about mode bits nor about diagnostics
        fails = [f for f in fails if f['kind'] not in ('output_mode_masked_by_server_umask', 'clangxx_c_input_warning_dropped')]
    if ctx.prop != 'C09':   # permission bits taken from a damaged entry (F-C09-c) are a matter of C09 ("correct outputs whatever is wrong with the storage")
        fails = [f for f in fails if f['kind'] != 'output_mode_from_damaged_entry']
    monitor_failures(ctx, fails, findings, suite, to_replay)

def sysroot(ctx, name):
    p = os.path.join(ctx.work, 'sys-' + name); shutil.rmtree(p, ignore_errors=True); return p
