"""C06 — entries appear atomically and survive crashes.  Proof: Props/C06.lean over Model/Atomic.lean;
tie: h_atomic (real LruDiskCache two-phase API, real descriptors, crash = forget handles + reopen) + modeld atomic."""
import json, os
from vlib import *

def to_replay(fl):
    return (f'monitor-{fl["kind"]}', ['replay: ./check C06 --replay <this file>   (harness/src/bin/h_atomic.rs replay on the real LruDiskCache)'],
            'new\n' + '\n'.join(fl['ops']))

def run(ctx):
    findings = load_findings('C06')
    lean_props(ctx)
    if not cargo_harness(ctx, ['h_atomic']): return
    n = 2000 if ctx.quick() else 60000
    trace, summary = os.path.join(ctx.work, 'trace.txt'), os.path.join(ctx.work, 'summary.json')
    e = env_offline(); e['VERIF_SEED'] = str(ctx.seed); e['VERIF_CORPUS'] = os.path.join(VERIF, 'corpus', 'C06')
    rc, out, dt = sh([harness_bin('h_atomic'), 'gen', str(n), trace, summary], env=e, timeout=7200)
    if rc != 0:
        ctx.broken.append('h_atomic crashed: ' + out[-300:]); return
    s = json.load(open(summary))
    run_modeld(ctx, 'atomic', trace, 'atomic')
    ctx.evaluations += s['steps']; ctx.distinct_nontrivial += s['distinct_nontrivial']
    ctx.rules.append('h_atomic: random interleavings (20-80 steps, 6 program counters, 2-4 keys) of two-phase stores, chunked writes, aborts, lookups with delayed reads, '
                     'direct opens, evictions and crash+reopen on the real LruDiskCache; every step diffed against Model/Atomic.lean and every read checked for '
                     'completeness/foreignness; non-trivial = distinct trace with at least one checked read and concurrent writers or a crash')
    ctx.samples += s['samples']
    ctx.cov.update(cases=s['cases'], corpus_cases=s['corpus_cases'], reads_checked=s['reads_checked'], crashes=s['crashes'],
                   cases_with_concurrent_writers=s['cases_with_concurrent_writers'], op_histogram=s['op_histogram'])
    monitor_failures(ctx, s['monitor_failures'], findings, 'h_atomic monitor', to_replay)
    ctx.assumptions += ['every DiskCache path holds the cache mutex around each LruDiskCache call and writes/reads bodies outside it (read from src/cache/disk.rs; stepping one call at a time is then faithful)',
                        'process crash only (no power loss: un-synced data is not modelled)', 'POSIX rename/unlink semantics']
    ctx.notes.append('not modelled: real thread scheduling inside tokio; power-loss durability')

def replay(ctx, path):
    if not cargo_harness(ctx, ['h_atomic']): return 2
    rc, out, dt = sh([harness_bin('h_atomic'), 'replay', path])
    print(out); return rc
