"""C06 — entries appear atomically and survive crashes.  Proof: Props/C06.lean over Model/Atomic.lean;
tie: h_atomic (real LruDiskCache two-phase API, real descriptors, crash = forget handles + reopen) + modeld atomic."""
import json, os
from vlib import *

def to_replay(fl):
    return (f'monitor-{fl["kind"]}', ['replay: ./check C06 --replay <this file>   (harness/src/bin/h_atomic.rs replay on the real LruDiskCache)'],
            'new\n' + '\n'.join(fl['ops']))

def run(ctx):
    findings = load_findings('C06')
    translate(ctx, ['consts'])
    lean_props(ctx)
    if not cargo_harness(ctx, ['h_atomic']): return
    n = 2000 if ctx.quick() else 60000
    trace, summary = os.path.join(ctx.work, 'trace.txt'), os.path.join(ctx.work, 'summary.json')
    e = env_offline(); e['VERIF_SEED'] = str(ctx.seed); e['VERIF_CORPUS'] = os.path.join(VERIF, 'corpus', 'C06')
    rc, out, dt = sh([harness_bin('h_atomic'), 'gen', str(n), trace, summary], env=e, timeout=7200)
    if rc != 0:
        ctx.broken.append('h_atomic crashed: ' + out[-300:]); return
    s = json.load(open(summary))
    run_modeld(ctx, 'atomic', trace, 'atomic')
    ctx.evaluations += s['steps']; ctx.distinct_nontrivial += s['distinct_nontrivial']
    ctx.rules.append('h_atomic: random interleavings (20-80 steps, 6 program counters, 2-4 keys) of two-phase stores, chunked writes, aborts, lookups with delayed reads, '
                     'direct opens, evictions and crash+reopen on the real LruDiskCache; every step diffed against Model/Atomic.lean and every read checked for '
                     'completeness/foreignness; non-trivial = distinct trace with at least one checked read and concurrent writers or a crash')
    ctx.samples += s['samples']
    ctx.cov.update(cases=s['cases'], corpus_cases=s['corpus_cases'], reads_checked=s['reads_checked'], crashes=s['crashes'],
                   cases_with_concurrent_writers=s['cases_with_concurrent_writers'], op_histogram=s['op_histogram'])
    monitor_failures(ctx, s['monitor_failures'], findings, 'h_atomic monitor', to_replay)
    # search with real threads for a literal violation (partial / mixed lookup): 3 writers + 4 readers under the DiskCache locking discipline.
    # Always run briefly; run longer when the correspondence is broken (that is when a concrete failing input is wanted).
    broken_corr = any('correspondence atomic' in b for b in ctx.broken)
    ms = 1500 if ctx.quick() else 20000
    if broken_corr: ms *= 4
    rc, out, dt = sh([harness_bin('h_atomic'), 'stress', str(ms)], timeout=600)
    try: st = json.loads(out.strip().splitlines()[-1])
    except Exception: st = None
    if st is None: ctx.broken.append('h_atomic stress crashed: ' + out[-200:])
    else:
        ctx.cov['threaded_stress'] = {'millis': ms, 'lookups_checked': st['reads'], 'violations': st['violations']}
        ctx.evaluations += st['reads']
        if st['violations']:
            monitor_failures(ctx, [{'kind': 'partial_or_mixed_lookup_under_threads', 'detail': st['first'], 'ops': ['h_atomic stress %d   (3 writer threads, 4 reader threads, 2 keys; lock{prepare_add}; write; lock{commit} / lock{get_file}; read)' % ms, st['first']]}],
                             findings, 'threaded stress search', lambda fl: ('search-' + fl['kind'], ['found by the threaded search of harness/src/bin/h_atomic.rs (non-deterministic schedule; re-run `h_atomic stress <ms>`)', 'observed: ' + fl['detail']], '\n'.join(fl['ops'])))
    # the layer the server really uses: DiskCache::put / get from four threads of a process that is killed with SIGKILL, then a new DiskCache on the directory
    if cargo_harness(ctx, ['h_disk']):
        rounds = 18 if ctx.quick() else 400
        e = env_offline(); e['VERIF_SEED'] = str(ctx.seed)
        rc, out, dt = sh([harness_bin('h_disk'), 'run', str(rounds), os.path.join(ctx.work, 'disk.json')], env=e, timeout=7200)
        if rc != 0: ctx.broken.append('h_disk crashed: ' + out[-300:])
        else:
            d = json.load(open(os.path.join(ctx.work, 'disk.json')))
            ctx.cov['diskcache_kill_rounds'] = {k: v for k, v in d.items() if k not in ('monitor_failures', 'samples')}
            ctx.evaluations += d['lookups_hit'] + d['lookups_miss']; ctx.distinct_nontrivial += d['rounds']; ctx.samples += d['samples'][:1]
            if d['rounds'] >= 16 and d['lookups_hit'] < d['rounds']: ctx.broken.append('h_disk: the killed processes stored almost nothing (%d complete entries in %d rounds): the crash monitor is vacuous' % (d['lookups_hit'], d['rounds']))
            monitor_failures(ctx, d['monitor_failures'], findings, 'DiskCache SIGKILL monitor', lambda fl: ('diskcache-' + fl['kind'], ['real cache::disk::DiskCache: a process storing 2-22 MB entries from four threads is killed with SIGKILL, a new DiskCache then reads every key (harness/src/bin/h_disk.rs run <rounds>; timing-dependent)', 'observed: ' + fl['detail']], '\n'.join(fl['ops'])))
            ctx.rules.append('h_disk: rounds of {start a process that stores 2-22 MB entries and preprocessor entries through the real DiskCache from four threads, SIGKILL it after 20-300 ms (every third round under a 3 MB file-size limit, so larger bodies fail in the middle of their write: EFBIG as a stand-in for ENOSPC / EIO), open the directory with a new DiskCache}: every key a miss or a complete entry of that key with matching stdout, no temporary file after the first access, store + lookup work; rounds share the directory')
    ctx.assumptions += ['every DiskCache path holds the cache mutex around each LruDiskCache call and writes/reads bodies outside it (read from src/cache/disk.rs; stepping one call at a time is then faithful)',
                        'process crash only (no power loss: un-synced data is not modelled)', 'POSIX rename/unlink semantics']
    ctx.notes.append('not modelled: real thread scheduling inside tokio (exercised, not enumerated, by h_disk and the threaded stress search); power-loss durability')

def replay(ctx, path):
    if not cargo_harness(ctx, ['h_atomic']): return 2
    rc, out, dt = sh([harness_bin('h_atomic'), 'replay', path])
    print(out); return rc
