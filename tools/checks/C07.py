"""C07 — size limit, LRU order, never wedges.  Proof: Props/C07.lean over Model/Lru.lean; tie: h_lru + modeld lru."""
import json, os
from vlib import *

def to_replay(fl):
    return (f'monitor-{fl["kind"]}', ['replay: ./check C07 --replay <this file>   (runs harness/src/bin/h_lru.rs replay on the real LruDiskCache)'],
            f'new {fl["cap"]}\n' + '\n'.join(fl['ops']))

def run(ctx):
    findings = load_findings('C07')
    translate(ctx, ['consts'])
    lean_props(ctx)
    lru_tie(ctx, findings)

def lru_tie(ctx, findings, relevant=None):
    """the LruDiskCache correspondence and monitors; also run by C15 (a lookup never changes the entry files), where only the
    failures that are about lookups count"""
    if not cargo_harness(ctx, ['h_lru']): return
    n = 1500 if ctx.quick() else 40000
    trace, summary = os.path.join(ctx.work, 'trace.txt'), os.path.join(ctx.work, 'summary.json')
    e = env_offline(); e['VERIF_SEED'] = str(ctx.seed); e['VERIF_CORPUS'] = os.path.join(VERIF, 'corpus', 'C07')
    rc, out, dt = sh([harness_bin('h_lru'), 'gen', str(n), trace, summary], env=e, timeout=7200)
    if rc != 0:
        ctx.broken.append('h_lru crashed: ' + out[-300:]); return
    s = json.load(open(summary))
    run_modeld(ctx, 'lru', trace, 'lru')
    ctx.evaluations += s['steps']; ctx.distinct_nontrivial += s['distinct_nontrivial']
    ctx.rules.append('h_lru: random op sequences (3-15 ops over 4 keys, capacities 4-16, sizes {0,1,2,cap/2,cap/2+1,cap-1,cap,cap+1}) on the real LruDiskCache, '
                     'each step diffed against the Lean model; a case is non-trivial if it is a distinct trace with an eviction, a panic or a tooLarge refusal')
    ctx.samples += s['samples']
    ctx.cov.update(cases=s['cases'], corpus_cases=s['corpus_cases'], evictions=s['evictions'], panics=s['panics'],
                   op_histogram=s['op_histogram'], result_histogram=s['result_histogram'])
    fails = s['monitor_failures'] if relevant is None else [f for f in s['monitor_failures'] if relevant(f)]
    monitor_failures(ctx, fails, findings, 'h_lru monitor', to_replay)
    ctx.assumptions += ['kernel file timestamps order operations that are more than 10 ms apart (slow-mode recency monitor)',
                        'no other process writes the cache directory (external deletions are explicit harness steps)']

def replay(ctx, path):
    if not cargo_harness(ctx, ['h_lru']): return 2
    rc, out, dt = sh([harness_bin('h_lru'), 'replay', path])
    print(out); return rc
