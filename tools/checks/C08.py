"""C08 — entry encoding round-trips and detects corruption.  Proof: Props/C08.lean over Model/Entry.lean + EntryRead.lean;
tie: writer byte-exact (h_entry gen -> modeld entry -> cmp), reader on exhaustive truncations/substitutions of small entries
(modeld entryread), monitor on the real CacheRead (fail / identical / different)."""
import json, os, re
from vlib import *

def to_replay(fl):
    return ('monitor-' + fl['kind'], ['line 1: archive bytes (hex), line 2: member name (hex, e = empty), line 3: original contents (hex)',
            'replay: ./check C08 --replay <this file>   (real CacheRead::from + get_object; exit 1 iff different contents are returned)'], '\n'.join(fl['ops']))

def run(ctx):
    findings = load_findings('C08')
    lean_props(ctx)
    if not cargo_harness(ctx, ['h_entry']): return
    nw, nf = (60, 8) if ctx.quick() else (600, 80)
    w = ctx.work; e = env_offline(); e['VERIF_SEED'] = str(ctx.seed)
    if not ctx.quick(): e['VERIF_ENTRY_FILE_SIZES'] = ','.join(str(x) for x in [0, 1, 4095, 65536, (1 << 20) + 7, (8 << 20) + 1, (32 << 20) - 1, 32 << 20, (32 << 20) + 11, (64 << 20) + 5, (128 << 20) - 1, 128 << 20, (128 << 20) + 1, (136 << 20) + 3, (200 << 20) + 9, (300 << 20) + 1])
    rc, out, dt = sh([harness_bin('h_entry'), 'gen', str(nw), str(nf), f'{w}/wreq.txt', f'{w}/real.txt', f'{w}/faults.txt', f'{w}/summary.json'], env=e, timeout=7200)
    if rc != 0: ctx.broken.append('h_entry gen crashed: ' + out[-300:]); return
    s = json.load(open(f'{w}/summary.json'))
    if os.path.exists(MODELD):
        with open(f'{w}/wreq.txt') as f, open(f'{w}/model.txt', 'w') as g: subprocess.run([MODELD, 'entry'], stdin=f, stdout=g, timeout=3600)
        rc, out, dt = sh([harness_bin('h_entry'), 'cmp', f'{w}/real.txt', f'{w}/model.txt'])
        m = re.search(r'mismatches: (\d+)', out); nm = int(m.group(1)) if m else -1
        ctx.cov.setdefault('correspondence', {})['entry-writer'] = {'model': 'entry', 'mismatches': nm, 'archives_compared': nw}
        if nm != 0: ctx.broken.append('correspondence entry-writer: the model archive differs from the bytes CacheWrite produced: ' + out[:400].replace('\n', ' '))
        with open(f'{w}/faults.txt') as f: rc, out, dt = sh([MODELD, 'entryread'], stdin=f, timeout=7200)
        m = re.search(r'cases: (\d+) agree-ok: (\d+) agree-fail: (\d+) model-rejects-real-accepts: (\d+) mismatches: (\d+)', out)
        if not m: ctx.broken.append('correspondence entry-reader: modeld entryread failed: ' + out[-300:])
        else:
            ctx.cov['correspondence']['entry-reader'] = dict(model='entryread', cases=int(m.group(1)), agree_ok=int(m.group(2)), agree_fail=int(m.group(3)), model_rejects_real_accepts=int(m.group(4)), mismatches=int(m.group(5)))
            if int(m.group(5)): ctx.broken.append('correspondence entry-reader: model accepts/returns something the real zip reader does not on %s archives: %s' % (m.group(5), ' '.join(l for l in out.splitlines() if l.startswith('MISMATCH') or l.startswith('  real') or l.startswith('  model'))[:500]))
    else: ctx.broken.append('correspondence entry: modeld missing')
    os.remove(f'{w}/faults.txt')
    ctx.evaluations += s['fault_cases'] + s['roundtrip_members'] + s['file_roundtrips']
    ctx.distinct_nontrivial += s['cacheread_fail']     # every faulted archive that the real reader refused is a distinct (archive, member) case
    ctx.rules.append('h_entry: random entries (1-4 members from 9 names incl. empty/non-ASCII/with slash, lengths 0..300 and every tenth up to 200 kB, 6 modes or none, '
                     'optional/empty stdout and stderr) for the writer tie and round-trip monitor; file-level round trips through CacheWrite::from_objects / extract_objects for sizes 0 .. beyond 128 MiB (zeros, periodic, pseudo-random); for small entries every truncation point and 6 substitutions at every byte '
                     'position x every member for the reader tie and the corruption monitor; distinct_nontrivial = faulted (archive, member) pairs refused by the real CacheRead')
    ctx.samples += s['samples']
    ctx.cov.update({k: s[k] for k in ('file_roundtrips', 'file_roundtrip_sizes', 'writer_entries', 'large_entries', 'roundtrip_members', 'fault_entries', 'fault_cases', 'cacheread_fail', 'cacheread_identical', 'cacheread_different', 'inconsistent_with_zip_plus_zstd')})
    if s['inconsistent_with_zip_plus_zstd']: ctx.broken.append('CacheRead is no longer zip-level read + zstd decode on %d cases' % s['inconsistent_with_zip_plus_zstd'])
    monitor_failures(ctx, s['monitor_failures'], findings, 'h_entry monitor', to_replay)
    ctx.assumptions += ['zstd is a parameter (enc, dec) with dec (enc x) = x', 'theorems cover intact entries and substitutions inside member bodies; truncations and header-field substitutions are explored exhaustively on small real entries (search, not proof) — partial']

def replay(ctx, path):
    if not cargo_harness(ctx, ['h_entry']): return 2
    rc, out, dt = sh([harness_bin('h_entry'), 'replay', path]); print(out); return rc
