"""C15 — read-only mode never adds, changes or removes entries.  Proof: Props/C15.lean; tie: h_l1 (store_ok=false rows), h_lru (get/reopen);
monitor: recursive listing with content digests of a pre-populated cache before/after a request history under SCCACHE_LOCAL_RW_MODE=READ_ONLY."""
import json, os
from vlib import *
from checks import sysmon

def run(ctx):
    findings = load_findings('C15')
    lean_props(ctx)
    if cargo_harness(ctx, ['h_l1']):
        w = ctx.work
        rc, out, dt = sh([harness_bin('h_l1'), f'{w}/l1.trace', f'{w}/l1.json'], env=env_offline(), timeout=3600)
        if rc == 0:
            open(f'{w}/l1.model', 'w').write(''.join(l for l in open(f'{w}/l1.trace') if not l.startswith('#')))
            run_modeld(ctx, 'l1', f'{w}/l1.model', 'l1'); ctx.evaluations += 144
    if cargo_repo_bins(ctx, ('sccache', 'sccache-dist')):
        nh, nr = (3, 10) if ctx.quick() else (24, 30)
        res = sysmon.st.run_readonly(sysmon.sysroot(ctx, 'c15'), 'c15', '/usr/bin/gcc', ctx.seed * 17, nh, nr)
        sysmon.feed(ctx, res, findings, 'system read-only gcc')
        for conf in ('rw_mode_only', 'file'):
            res = sysmon.st.run_readonly(sysmon.sysroot(ctx, 'c15'), 'c15' + conf[:2], '/usr/bin/gcc', ctx.seed * 23, 2 if ctx.quick() else 8, 6 if ctx.quick() else 20, conf=conf)
            sysmon.feed(ctx, res, findings, f'system read-only gcc, configuration variant {conf}')
        res = sysmon.st.run_readonly(sysmon.sysroot(ctx, 'c15'), 'c15o', '/usr/bin/gcc', ctx.seed * 19, 1, 6, oversize=True)
        sysmon.feed(ctx, res, findings, 'system read-only, directory larger than its size limit')
    ctx.rules.append('system: three configuration variants (SCCACHE_DIR + SCCACHE_LOCAL_RW_MODE; SCCACHE_LOCAL_RW_MODE as the only disk-cache variable with the cache at its default location; config file with rw_mode = "READ_ONLY"); cache populated read-write (6 requests), half of the histories with damaged entries, server restarted with SCCACHE_LOCAL_RW_MODE=READ_ONLY (one third with SCCACHE_RECACHE=1, half with preprocessor cache mode off), '
                     'history of repeats / edits / failures / restarts; listing of every file with sha256 before and after must be identical and every result must equal the direct compile')
    ctx.assumptions += ['mtimes are touched on every hit (metadata, not part of the statement)', 'proviso of reopen_keeps_files_partial: the directory is within its size limit at first use (F-C15-a otherwise)']

def replay(ctx, path):
    print(open(path).read()); return 0
