"""C15 — read-only mode never adds, changes or removes entries.  Proof: Props/C15.lean; tie: h_l1 (store_ok=false rows), h_lru (get/reopen);
monitor: recursive listing with content digests of a pre-populated cache before/after a request history under SCCACHE_LOCAL_RW_MODE=READ_ONLY."""
import json, os
from vlib import *
from checks import sysmon
from checks import C07 as c07

def run(ctx):
    findings = load_findings('C15')
    translate(ctx, ['consts'])
    lean_props(ctx)
    if cargo_harness(ctx, ['h_l1']):
        w = ctx.work
        rc, out, dt = sh([harness_bin('h_l1'), f'{w}/l1.trace', f'{w}/l1.json'], env=env_offline(), timeout=3600)
        if rc == 0:
            open(f'{w}/l1.model', 'w').write(''.join(l for l in open(f'{w}/l1.trace') if not l.startswith('#')))
            run_modeld(ctx, 'l1', f'{w}/l1.model', 'l1'); ctx.evaluations += 144
    # lookups and the start-up scan on the real LruDiskCache (shared with C07): a lookup never changes the entry files
    c07.lru_tie(ctx, findings, relevant=lambda f: f['kind'] in ('lookup_changed_entries', 'panic'))
    if cargo_harness(ctx, ['h_config']):
        w = ctx.work; n = 2000 if ctx.quick() else 60000
        e = env_offline(); e['VERIF_SEED'] = str(ctx.seed)
        rc, out, dt = sh([harness_bin('h_config'), 'gen', str(n), f'{w}/config.trace', f'{w}/config.json'], env=e, timeout=3600)
        if rc != 0: ctx.broken.append('h_config crashed: ' + out[-300:])
        else:
            s = json.load(open(f'{w}/config.json'))
            run_modeld(ctx, 'config', f'{w}/config.trace', 'config')
            ctx.evaluations += s['cases']; ctx.distinct_nontrivial += s['distinct_nontrivial']; ctx.samples += s['samples'][:2]
            ctx.cov['config_histogram'] = s['histogram']
            def to_replay(fl): return ('monitor-' + fl['kind'], ['one `ld` line: env SCCACHE_DIR, SCCACHE_CACHE_SIZE, SCCACHE_DIRECT, SCCACHE_LOCAL_RW_MODE (hex or -), [cache.disk] of the file, loaded result', 'replay: ./check C15 --replay <this file>   (real Config::load)'], '\n'.join(fl['ops']))
            monitor_failures(ctx, s['monitor_failures'], findings, 'h_config monitor', to_replay)
            ctx.rules.append('h_config: the real Config::load under generated values of the four disk-cache variables (valid, mis-spelt, mixed-case, non-unicode, overflowing sizes) x generated [cache.disk] sections (each field present or absent), '
                             'and parse_size on generated size strings, each diffed against ConfigM.load / parseSize; non-trivial = distinct case with a file section and at least one variable set that loads')
    if cargo_repo_bins(ctx, ('sccache', 'sccache-dist')):
        nh, nr = (3, 10) if ctx.quick() else (24, 30)
        res = sysmon.st.run_readonly(sysmon.sysroot(ctx, 'c15'), 'c15', '/usr/bin/gcc', ctx.seed * 17, nh, nr)
        sysmon.feed(ctx, res, findings, 'system read-only gcc')
        for conf in ('rw_mode_only', 'file'):
            res = sysmon.st.run_readonly(sysmon.sysroot(ctx, 'c15'), 'c15' + conf[:2], '/usr/bin/gcc', ctx.seed * 23, 2 if ctx.quick() else 8, 6 if ctx.quick() else 20, conf=conf)
            sysmon.feed(ctx, res, findings, f'system read-only gcc, configuration variant {conf}')
        res = sysmon.st.run_readonly(sysmon.sysroot(ctx, 'c15'), 'c15fe', '/usr/bin/gcc', ctx.seed * 29, 1 if ctx.quick() else 4, 5 if ctx.quick() else 12, damage=False, conf='file_env_dir')
        sysmon.feed(ctx, res, findings, 'system read-only gcc, rw_mode in the file and SCCACHE_DIR in the environment')
        res = sysmon.st.run_readonly(sysmon.sysroot(ctx, 'c15'), 'c15o', '/usr/bin/gcc', ctx.seed * 19, 1, 6, oversize=True)
        sysmon.feed(ctx, res, findings, 'system read-only, directory larger than its size limit')
        res = sysmon.st.run_readonly(sysmon.sysroot(ctx, 'c15'), 'c15t', '/usr/bin/gcc', ctx.seed * 31, 1 if ctx.quick() else 4, 6 if ctx.quick() else 14, oversize='tight', damage=False)
        sysmon.feed(ctx, res, findings, 'system read-only, size limit 1.25 x the directory (preprocessor cache mode on)')
    ctx.rules.append('system: three configuration variants (SCCACHE_DIR + SCCACHE_LOCAL_RW_MODE; SCCACHE_LOCAL_RW_MODE as the only disk-cache variable with the cache at its default location; config file with rw_mode = "READ_ONLY"); cache populated read-write (6 requests), half of the histories with damaged entries, server restarted with SCCACHE_LOCAL_RW_MODE=READ_ONLY (one third with SCCACHE_RECACHE=1, half with preprocessor cache mode off), '
                     'history of repeats / edits / failures / restarts; listing of every file with sha256 before and after must be identical and every result must equal the direct compile')
    ctx.assumptions += ['mtimes are touched on every hit (metadata, not part of the statement)', 'readonly_session_keeps_files: the directory holds fewer than 2^64 bytes']

def replay(ctx, path):
    if any(l.startswith('ld\t') for l in open(path)):
        if not cargo_harness(ctx, ['h_config']): return 2
        rc, out, dt = sh([harness_bin('h_config'), 'replay', path]); print(out); return rc
    print(open(path).read()); return 0
