"""C13 system monitor: real sccache server with distributed compilation configured, against (1) no scheduler at the
configured address, (2) a real `sccache-dist scheduler` on localhost with no build server (no capacity), (3) a real
scheduler and a wrong client token (HTTP 4xx). In (1) and (2) every request must equal the direct compile (fallback);
in (3) the request must end with a non-zero sccache error and leave no output."""
import os, shutil, subprocess, time, socket
from syslib import *
from vlib import repo_bin

def free_port():
    from syslib import port_for
    return port_for('sched%f' % time.time(), 3)

def run(root, tag, scenarios=('scheduler_down', 'no_capacity', 'wrong_token', 'toolchain_cache_too_small')):
    fails = []; samples = []; n = 0
    for sn in scenarios:
        d = os.path.join(root, sn); shutil.rmtree(d, ignore_errors=True); w = os.path.join(d, 'w'); os.makedirs(w)
        sport = free_port(); sched = None
        conf = os.path.join(d, 'client.conf')
        open(conf, 'w').write(f'[dist]\nscheduler_url = "http://127.0.0.1:{sport}"\ntoolchains = []\ntoolchain_cache_size = {65536 if sn == "toolchain_cache_too_small" else 2000000000}\ncache_dir = "{d}/distcache"\n\n[dist.auth]\ntype = "token"\ntoken = "{"wrong" if sn == "wrong_token" else "goodtoken"}"\n')
        if sn != 'scheduler_down':
            sconf = os.path.join(d, 'scheduler.conf')
            open(sconf, 'w').write(f'public_addr = "127.0.0.1:{sport}"\n\n[client_auth]\ntype = "token"\ntoken = "goodtoken"\n\n[server_auth]\ntype = "jwt_hs256"\nsecret_key = "qJPLVoe4L79dg95Z469TUShX3pDAigAvIKAMPOZA_Mc"\n')
            sched = subprocess.Popen([repo_bin('sccache-dist'), 'scheduler', '--config', sconf], env=dict(os.environ, SCCACHE_NO_DAEMON='1', SCCACHE_LOG='off'), stdout=subprocess.DEVNULL, stderr=subprocess.DEVNULL)
            end = time.time() + 10
            while time.time() < end:
                try: socket.create_connection(('127.0.0.1', sport), timeout=0.2).close(); break
                except OSError: time.sleep(0.1)
        sc = Sc(os.path.join(d, 'sc'), tag + sn); sc.env['SCCACHE_CONF'] = conf
        sc.start()
        try:
            bodies = ['int a(void){return 1;}\n', 'int b(void){return }\n', 'int a(void){return 1;}\n']
            if sn == 'toolchain_cache_too_small': bodies = ['int a(void){return 1;}\n', 'int c(void){return 2;}\n', 'int a(void){return 1;}\n', 'RESTART', 'int d(void){return 4;}\n', 'int a(void){return 1;}\n']
            for i, body in enumerate(bodies):
                if body == 'RESTART': sc.stop(); sc.start(); samples.append(f'{sn}: sccache server restarted'); continue
                src = f't{i}.c'; open(os.path.join(w, src), 'w').write(body)
                t0 = time.time(); r = sc.compile(['/usr/bin/gcc', '-c', src, '-o', src + '.o'], w, timeout=300); dt = time.time() - t0
                got = (r.returncode, file_state(os.path.join(w, src + '.o')) and file_state(os.path.join(w, src + '.o'))[0])
                if os.path.exists(os.path.join(w, src + '.o')): os.remove(os.path.join(w, src + '.o'))
                dr = subprocess.run(['/usr/bin/gcc', '-c', src, '-o', src + '.o'], cwd=w, capture_output=True)
                want = (dr.returncode, file_state(os.path.join(w, src + '.o')) and file_state(os.path.join(w, src + '.o'))[0])
                n += 1; line = f'{sn}: request {i} rc={got[0]} ({dt:.1f}s) direct rc={want[0]} stderr={r.stderr.decode(errors="replace")[:100]!r}'
                samples.append(line)
                if sn == 'wrong_token':
                    # the one class of failure that is reported instead of falling back; never exit 0 without the output
                    if got[0] == 0 and got != want: fails.append({'kind': 'exit0_without_correct_output', 'detail': line, 'ops': [line]})
                    if got[0] != 0 and want[0] == 0 and got[1] is not None: fails.append({'kind': 'partial_output_after_dist_error', 'detail': line, 'ops': [line]})
                elif sn == 'toolchain_cache_too_small':
                    # the other failure that is reported instead of falling back: the packaged toolchain does not fit the local toolchain cache.
                    # Every request says so with a non-zero status (not only the first one) and leaves nothing behind
                    if got[0] == 0: fails.append({'kind': 'toolchain_cache_too_small_not_reported', 'detail': line, 'ops': [l for l in samples if l.startswith(sn)]})
                    elif got[1] is not None: fails.append({'kind': 'partial_output_after_dist_error', 'detail': line, 'ops': [line]})
                elif got != want:
                    fails.append({'kind': 'dist_fallback_differs_from_direct', 'detail': line, 'ops': [line]})
            st = sc.stats() or {}
            samples.append(f'{sn}: dist_errors={st.get("dist_errors")} dist_compiles={st.get("dist_compiles")}')
        finally:
            sc.stop()
            if sched: sched.kill(); sched.wait()
            shutil.rmtree(d, ignore_errors=True)
    return {'requests': n, 'fails': fails, 'samples': samples}
