"""C14: real server + real client request histories (sequential and concurrent, with --zero-stats), counters read from
`--show-stats --stats-format=json`; emits the trace for `modeld stats` and evaluates the conservation laws on the real
counters themselves, plus "a hit did not run the compiler, a miss ran it once" from a compiler invocation log."""
import os, random, shutil, json
from concurrent.futures import ThreadPoolExecutor
from syslib import *

KEYS = ['compile_requests', 'requests_unsupported_compiler', 'requests_not_compile', 'requests_not_cacheable', 'requests_executed',
        'cache_errors', 'cache_hits', 'cache_misses', 'cache_timeouts', 'non_cacheable_compilations', 'forced_recaches',
        'cache_write_errors', 'cache_writes', 'compilations', 'compile_fails']

def tot(x): return sum(x['counts'].values()) if isinstance(x, dict) else x

def run(root, tag, seed, n_hist, trace_path, concurrent_every=3):
    rng = random.Random(seed); fails = []; lines = []; nops = 0; conc = 0; samples = []; opkinds = {}
    for h in range(n_hist):
        recache = (h % 4 == 3); par = (h % concurrent_every == concurrent_every - 1); readonly = (h % 5 == 4)
        d = os.path.join(root, f's{h}'); shutil.rmtree(d, ignore_errors=True); w = os.path.join(d, 'w'); os.makedirs(w)
        log = os.path.join(d, 'cc.log'); cc = os.path.join(d, 'gcc'); wrapper(cc, '/usr/bin/gcc', log)
        env = {}
        if recache: env['SCCACHE_RECACHE'] = '1'
        sc = Sc(os.path.join(d, 'sc'), f'{tag}{h}', env=env)
        sc.start()
        if readonly:
            # populate nothing, then serve read-only: every miss must count as a cache write *error*
            sc.stop(); sc.env['SCCACHE_LOCAL_RW_MODE'] = 'READ_ONLY'; sc.start()
        ops = []; known = []; n = 0; expected_runs = 0
        try:
            for b in range(rng.randint(3, 5) if par else rng.randint(6, 14)):
                batch = []; newly = []
                for j in range(4 if par else 1):
                    k = rng.choice(['new', 'repeat', 'repeat', 'fail', 'pperr', 'dashE', 'version', 'unsupported', 'unreachable', 'fatal'] + ([] if par else ['zero']))
                    if k == 'fatal' and (not known or recache or readonly): k = 'new'
                    if k == 'repeat' and not known: k = 'new'
                    if k == 'new':
                        n += 1; src = f'n{n}.c'; open(f'{w}/{src}', 'w').write(f'int f{n}(void){{return {n};}}\n')
                        batch.append([cc, '-c', src, '-o', src + '.o']); newly.append(src)
                        ops.append(('forcedro' if readonly else 'forced') if recache else ('missro' if readonly else 'miss')); expected_runs += 1
                    elif k == 'repeat':
                        src = rng.choice(known); batch.append([cc, '-c', src, '-o', f'{src}.{j}.o'])
                        if recache: ops.append('forcedro' if readonly else 'forced'); expected_runs += 1
                        elif readonly: ops.append('missro'); expected_runs += 1
                        else: ops.append('hit')
                    elif k == 'fatal':
                        # a hit whose output cannot be installed (the output path is a directory): sccache's internal fatal-error path
                        src = rng.choice(known); n += 1; od = f'dirout{n}.o'; os.makedirs(f'{w}/{od}', exist_ok=True)
                        batch.append([cc, '-c', src, '-o', od]); ops.append('fatal')
                    elif k == 'fail':
                        n += 1; src = f'n{n}.c'; open(f'{w}/{src}', 'w').write('int f(void){return }\n'); batch.append([cc, '-c', src, '-o', src + '.o']); ops.append('fail'); expected_runs += 1
                    elif k == 'pperr':
                        n += 1; src = f'n{n}.c'; open(f'{w}/{src}', 'w').write('#error no\n'); batch.append([cc, '-c', src, '-o', src + '.o']); ops.append('pperr')
                    elif k == 'dashE': batch.append([cc, '-E', '/dev/null']); ops.append('notcacheable')
                    elif k == 'version': batch.append([cc, '--version']); ops.append('notcompile')
                    elif k == 'unsupported': batch.append(['/bin/true', '-c', 'x.c']); ops.append('unsupported')
                    elif k == 'unreachable': batch.append(('raw', '/nonexistent-for-the-server/cc')); ops.append('unsupported')      # a compiler path the server cannot stat (client in another mount namespace)
                    elif k == 'zero': batch.append(None); ops.append('zero')
                def one(a):
                    if a is None: sc.zero(); return
                    if isinstance(a, tuple): sc.raw_compile(a[1], w, ['-c', 'x.c']); return
                    sc.compile(a, w)
                if par:
                    with ThreadPoolExecutor(max_workers=4) as ex: list(ex.map(one, batch))
                    conc += 1
                else:
                    for a in batch: one(a)
                if not readonly: known += newly
                if par and rng.random() < 0.25: sc.zero(); ops.append('zero')
            js = sc.stats()
        finally:
            sc.stop()
        for o in ops: opkinds[o] = opkinds.get(o, 0) + 1
        nops += len(ops)
        vals = [tot(js[k]) for k in KEYS]
        lines.append(' '.join(ops) + '\t' + ' '.join(str(v) for v in vals))
        c = dict(zip(KEYS, vals))
        hist = ' '.join(ops)
        if len(samples) < 2: samples.append(hist + ' => ' + ' '.join(f'{k}={v}' for k, v in c.items() if v))
        # ---- laws on the real counters (quiescent: every client has returned)
        def law(name, ok, detail):
            if not ok: fails.append({'kind': name, 'detail': detail + ' ' + json.dumps(c), 'ops': [hist]})
        law('law_requests', c['compile_requests'] == c['requests_executed'] + c['requests_not_cacheable'] + c['requests_not_compile'] + c['requests_unsupported_compiler'], 'compile_requests != executed + not_cacheable + not_compile + unsupported')
        law('law_writes', c['cache_writes'] + c['cache_write_errors'] == c['cache_misses'], 'cache_writes + cache_write_errors != cache_misses')
        law('law_outcomes', c['cache_hits'] + c['compilations'] <= c['requests_executed'] and c['cache_misses'] <= c['compilations'], 'hits + compilations > executed or misses > compilations')
        for k in ('cache_hits', 'cache_misses', 'cache_errors'):
            law('law_per_language', sum(js[k]['counts'].values()) == sum(js[k]['adv_counts'].values()), f'per-language and per-language-and-compiler breakdowns of {k} differ')
        if 'zero' not in ops:
            runs = loglines(log)
            law('ledger_compiler_runs', runs == expected_runs, f'compiler ran {runs}x, ledger expects {expected_runs}x (a hit must not run it, a miss runs it once)')
            want_hits = ops.count('hit')
            law('ledger_hits', c['cache_hits'] == want_hits, f'cache_hits={c["cache_hits"]} but the ledger has {want_hits} repeated requests')
        shutil.rmtree(d, ignore_errors=True)
    open(trace_path, 'w').write('\n'.join(lines) + '\n')
    return {'histories': n_hist, 'operations': nops, 'concurrent_batches': conc, 'op_kinds': opkinds, 'fails': fails, 'samples': samples}
