#!/bin/sh
# usage: seed_eval.sh <seed-id> <patch> <check ids…> — apply a seeded change to /repo, run the checks, undo it.
ID="$1"; PATCH="$2"; shift 2
cd /verif
git -C /repo diff --quiet || { echo "/repo is dirty"; exit 2; }
git -C /repo apply "$PATCH" || { echo "patch does not apply"; exit 2; }
for c in "$@"; do
  echo "--- $ID: ./check $c"
  ./check "$c" > "work/seed-$ID-$c.log" 2>&1; echo "exit=$?"
  grep -E '^(VIOLATION|KNOWN-FINDING|OK|# )' "work/seed-$ID-$c.log" | cut -c1-260 | head -8
done
git -C /repo checkout -- .
git -C /repo status --short | head -3
