"""Common machinery of `./check`: translator, Lean build + audit, harness build, model replay, known findings,
verdict and evidence.  See DESIGN.md section 1.3."""
import json, os, re, subprocess, sys, time, hashlib, shutil

VERIF = os.path.dirname(os.path.dirname(os.path.abspath(__file__)))
LAKE = os.path.join(VERIF, 'lean', 'SccacheModel')
LEANSRC = os.path.join(LAKE, 'SccacheModel')
HARNESS = os.path.join(VERIF, 'harness')
BUILD = os.path.join(VERIF, '.build')
TARGET = os.path.join(BUILD, 'target')
MODELD = os.path.join(LAKE, '.lake', 'build', 'bin', 'modeld')
REPO = '/repo'
ALLOWED_AXIOMS = {'propext', 'Classical.choice', 'Quot.sound'}
FORBIDDEN = re.compile(r'\b(sorry|admit|native_decide|bv_decide|implemented_by)\b|^\s*axiom\s|\bunsafe\s|maxHeartbeats\s+0')
TRUSTED_BASE = [
    'Lean 4.33 kernel (lake build; thorough tier re-checks the property modules with leanchecker)',
    'axioms allowed in property theorems: propext, Classical.choice, Quot.sound (audited with #print axioms on every run)',
    'tools/translate.py (regenerates Gen/*.lean from /repo on every run)',
    'the correspondence harness (harness/, built against /repo with --cfg sccache_verif) and its generators',
    'hand-written Lean models under lean/SccacheModel/SccacheModel/Model (modelled, not verified; tied by the correspondence run)',
]

def env_offline():
    e = dict(os.environ)
    e.update(CARGO_NET_OFFLINE='true', CARGO_TERM_COLOR='never')
    for k in ('CARGO_TARGET_DIR', 'CARGO_BUILD_TARGET_DIR', 'CARGO_BUILD_TARGET'): e.pop(k, None)      # the checks use their own target directories
    return e

def sh(cmd, cwd=None, timeout=None, env=None, stdin=None):
    t = time.time()
    p = subprocess.run(cmd, cwd=cwd, env=env or env_offline(), stdin=stdin, stdout=subprocess.PIPE, stderr=subprocess.STDOUT,
                       timeout=timeout, text=True, errors='replace', shell=isinstance(cmd, str))
    return p.returncode, p.stdout, time.time() - t

class Ctx:
    def __init__(self, prop, tier, seed):
        self.prop, self.tier, self.seed = prop, tier, seed
        self.t0 = time.time()
        self.work = os.path.join(VERIF, 'work', prop); os.makedirs(self.work, exist_ok=True)
        self.replays = os.path.join(VERIF, 'replays'); os.makedirs(self.replays, exist_ok=True)
        self.violations = []        # dicts: kind, what, replay(optional path), found_input(bool)
        self.known_seen = {}        # finding id -> text
        self.cov = {}               # coverage keys accumulated
        self.assumptions = []
        self.notes = []
        self.theorems = []          # (name, axioms)
        self.broken = []            # names of broken obligations (theorem / correspondence suite / translator)
        self.samples = []
        self.evaluations = 0
        self.distinct_nontrivial = 0
        self.rules = []
        self.log = open(os.path.join(self.work, f'check-{tier}.log'), 'w')
    def say(self, *a):
        msg = ' '.join(str(x) for x in a)
        print(msg, flush=True); self.log.write(msg + '\n'); self.log.flush()
    def quick(self): return self.tier == 'quick'

# ------------------------------------------------------------------------------------------------ known findings
def load_findings(prop):
    p = os.path.join(VERIF, 'known_findings.json')
    if not os.path.exists(p): return []
    return [f for f in json.load(open(p))['findings'] if f['property'] == prop]

def match_finding(findings, fail):
    """fail: dict with kind, detail, ops(list of str, optional). Only `open` findings suppress."""
    for f in findings:
        if f.get('status') != 'open': continue
        for m in f.get('match', []):
            if m.get('kind') != fail.get('kind'): continue
            if 'detail_re' in m and not re.search(m['detail_re'], fail.get('detail', '')): continue
            if 'ops_re' in m and not re.search(m['ops_re'], ';'.join(fail.get('ops', []))): continue
            return f
    return None

# ------------------------------------------------------------------------------------------------ steps
def translate(ctx, which=()):
    rc, out, dt = sh([sys.executable, os.path.join(VERIF, 'tools', 'translate.py'), *which])
    if rc != 0:
        ctx.broken.append('translator: ' + out.strip().splitlines()[-1] if out.strip() else 'translator failed')
        ctx.say('translate: BROKEN', out.strip()[-400:])
        return None
    info = json.loads(out.strip().splitlines()[-1])
    ctx.cov['translated'] = info
    return info

def strip_comments(src):
    src = re.sub(r'/-.*?-/', ' ', src, flags=re.S)
    return '\n'.join(l.split('--')[0] for l in src.split('\n'))

def lean_deps(mod, seen=None):
    """transitive project-local imports of a module name like SccacheModel.Props.C07"""
    seen = seen if seen is not None else set()
    if mod in seen: return seen
    p = os.path.join(LAKE, *mod.split('.')) + '.lean'
    if not os.path.exists(p): return seen
    seen.add(mod)
    for m in re.findall(r'^import\s+(SccacheModel\.\S+)', open(p).read(), flags=re.M): lean_deps(m, seen)
    return seen

def lean_props(ctx, build_modeld=True):
    """build modeld + Props/<id>.lean, audit axioms and forbidden tokens. Returns True when every obligation is discharged."""
    ok = True
    # every generated file is refreshed first: the model driver links all of them, and a table left over from another tree must never be compared
    if 'translated_all' not in ctx.cov:
        if translate(ctx) is None: ok = False
        ctx.cov['translated_all'] = True
    if build_modeld:
        rc, out, dt = sh(['lake', 'build', 'modeld'], cwd=LAKE, timeout=1800)
        if rc != 0:
            ctx.broken.append('model driver does not build against the regenerated tables (lake build modeld)')
            ctx.say('lake build modeld FAILED\n' + '\n'.join(l for l in out.splitlines() if 'error' in l)[:2000]); ok = False
    mod = f'SccacheModel.Props.{ctx.prop}'
    rc, out, dt = sh(['lake', 'build', mod], cwd=LAKE, timeout=3600)
    ctx.cov['lake_build_s'] = round(dt, 1)
    src = open(os.path.join(LEANSRC, 'Props', ctx.prop + '.lean')).read()
    names = re.findall(r'^theorem\s+([A-Za-z0-9_\.]+)', strip_comments(src), flags=re.M)
    ctx.cov['obligations'] = len(names)
    if rc != 0:
        errs = [l for l in out.splitlines() if re.search(r'error', l)]
        ctx.say(f'lake build {mod} FAILED:\n' + '\n'.join(errs[:20]))
        failing = sorted(set(re.findall(r'error: (\S+\.lean):(\d+)', out)))
        ctx.broken.append(f'proof obligations of {mod} no longer check: ' + '; '.join(f'{f}:{l}' for f, l in failing[:8]))
        ctx.cov['discharged'] = 0
        (open(os.path.join(ctx.work, 'lake-error.log'), 'w')).write(out)
        return False
    # forbidden tokens in every project-local module the property depends on
    bad = []
    for m in sorted(lean_deps(mod)):
        p = os.path.join(LAKE, *m.split('.')) + '.lean'
        for i, l in enumerate(strip_comments(open(p).read()).split('\n')):
            if FORBIDDEN.search(l): bad.append(f'{m}:{i+1}: {l.strip()[:80]}')
    if bad:
        ctx.broken.append('forbidden construct in proof sources: ' + '; '.join(bad[:5])); ok = False
    # axioms
    audit = os.path.join(ctx.work, f'Audit_{ctx.prop}.lean')
    with open(audit, 'w') as f:
        f.write(f'import {mod}\n' + ''.join(f'#print axioms {ctx.prop}.{n}\n' for n in names))
    rc, out, dt = sh(['lake', 'env', 'lean', audit], cwd=LAKE, timeout=600)
    axs = {}
    for m in re.finditer(r"'([^']+)' (does not depend on any axioms|depends on axioms: \[([^\]]*)\])", out):
        axs[m.group(1)] = [a.strip() for a in (m.group(3) or '').replace('\n', ' ').split(',') if a.strip()]
    discharged = 0
    for n in names:
        full = f'{ctx.prop}.{n}'
        if full not in axs:
            ctx.broken.append(f'audit: no #print axioms output for {full}'); ok = False; continue
        extra = set(axs[full]) - ALLOWED_AXIOMS
        if extra:
            ctx.broken.append(f'{full} depends on non-allowed axioms {sorted(extra)}'); ok = False; continue
        discharged += 1
        ctx.theorems.append((full, axs[full]))
    ctx.cov['discharged'] = discharged
    ctx.cov['theorems'] = [t for t, _ in ctx.theorems]
    ctx.cov['axioms'] = sorted(set(a for _, ax in ctx.theorems for a in ax))
    ctx.cov['partial_theorems'] = [t for t, _ in ctx.theorems if t.endswith('_partial')]
    ctx.cov['negative_theorems'] = [t for t, _ in ctx.theorems if re.search(r'witness|alias|_false|counterexample', t)]
    ctx.cov['checker_cmd'] = f'cd lean/SccacheModel && lake build {mod} && lake env lean work/{ctx.prop}/Audit_{ctx.prop}.lean'
    if ctx.tier == 'thorough':
        rc, out, dt = sh(['lake', 'env', 'leanchecker', mod], cwd=LAKE, timeout=3600)
        ctx.cov['leanchecker'] = 'ok' if rc == 0 else 'FAILED'
        ctx.cov['checker_cmd'] += f' && lake env leanchecker {mod}'
        if rc != 0: ctx.broken.append(f'leanchecker rejects {mod}: {out[-300:]}'); ok = False
    return ok and discharged == len(names)

def cargo_harness(ctx, bins):
    if not os.path.exists(os.path.join(HARNESS, 'Cargo.lock')) or open(os.path.join(HARNESS, 'Cargo.lock')).read() != open(os.path.join(REPO, 'Cargo.lock')).read():
        shutil.copy(os.path.join(REPO, 'Cargo.lock'), os.path.join(HARNESS, 'Cargo.lock'))
    cmd = ['cargo', 'build', '--offline', '--target-dir', os.path.join(BUILD, 'target')] + sum((['--bin', b] for b in bins), [])
    rc, out, dt = sh(cmd, cwd=HARNESS, timeout=3600)
    ctx.cov['cargo_build_s'] = round(dt, 1)
    if rc != 0:
        errs = '\n'.join(l for l in out.splitlines() if l.startswith('error'))[:1500]
        ctx.say('cargo build of the harness FAILED:\n' + errs)
        ctx.broken.append('correspondence harness no longer builds against /repo (an API the harness drives changed): ' + errs[:300])
        return False
    return True

def harness_bin(name): return os.path.join(TARGET, 'debug', name)

def cargo_repo_bins(ctx, bins=('sccache',), features='dist-client,dist-server'):
    """build real binaries of /repo's current tree (hooks on) into .build/target-repo"""
    cmd = ['cargo', 'build', '--offline', '--manifest-path', os.path.join(REPO, 'Cargo.toml'), '--target-dir', os.path.join(BUILD, 'target-repo'),
           '--no-default-features', '--features', features] + sum((['--bin', b] for b in bins), [])
    e = env_offline(); e['RUSTFLAGS'] = '--cfg sccache_verif'; e['CARGO_PROFILE_DEV_DEBUG'] = '0'
    rc, out, dt = sh(cmd, cwd=REPO, timeout=3600, env=e)
    ctx.cov['cargo_repo_build_s'] = round(dt, 1)
    if rc != 0:
        ctx.say('cargo build of /repo binaries FAILED:\n' + out[-1500:])
        ctx.broken.append('/repo no longer builds with hooks enabled')
        return False
    return True

def repo_bin(name): return os.path.join(BUILD, 'target-repo', 'debug', name)

def run_modeld(ctx, model, trace_path, suite):
    """replay a harness trace on the Lean model; returns number of mismatches (None if the driver cannot run)"""
    if not os.path.exists(MODELD):
        ctx.broken.append(f'correspondence {suite}: modeld missing'); return None
    with open(trace_path) as f:
        rc, out, dt = sh([MODELD, model], stdin=f, timeout=3600)
    m = re.search(r'mismatches: (\d+)', out)
    if rc != 0 or not m:
        ctx.broken.append(f'correspondence {suite}: modeld {model} failed: {out[-300:]}'); return None
    n = int(m.group(1))
    ctx.cov.setdefault('correspondence', {})[suite] = {'model': model, 'mismatches': n, 'trace_lines': sum(1 for _ in open(trace_path))}
    if n:
        first = [l for l in out.splitlines() if 'MISMATCH' in l or l.startswith('   ') or l.startswith('  ')][:6]
        ctx.broken.append(f'correspondence {suite}: model and implementation disagree on {n} steps; first: ' + ' '.join(first)[:600])
        open(os.path.join(ctx.work, f'mismatch-{suite}.txt'), 'w').write(out)
    return n

# ------------------------------------------------------------------------------------------------ verdict
def write_replay(ctx, name, header, body):
    p = os.path.join(ctx.replays, f'{ctx.prop}-{name}.txt')
    with open(p, 'w') as f:
        for h in header: f.write('# ' + h + '\n')
        f.write(body if body.endswith('\n') else body + '\n')
    return p

def monitor_failures(ctx, fails, findings, suite, to_replay):
    """fails: list of dicts (kind, detail, ops...). Known open findings are reported once; others become violations.
    to_replay(fail) -> (name, header, body) of the replay file."""
    for fl in fails:
        f = match_finding(findings, fl)
        if f is not None:
            ctx.known_seen.setdefault(f['id'], f['what']); continue
        name, header, body = to_replay(fl)
        sig = fl.get('kind', 'fail')
        if any(v.get('sig') == sig for v in ctx.violations): continue   # one replay per kind is enough
        p = write_replay(ctx, name, [f'property {ctx.prop}: implementation-vs-property monitor failure ({suite})', f'kind={fl.get("kind")} detail={fl.get("detail")}'] + header, body)
        ctx.violations.append({'sig': sig, 'what': f'{suite}: {fl.get("kind")}: {fl.get("detail")}', 'replay': p, 'found_input': True})

def finish(ctx, level='proof'):
    # a broken obligation / correspondence with no concrete failing input found
    if ctx.broken and not any(v['found_input'] for v in ctx.violations):
        p = write_replay(ctx, 'broken-obligation', [f'property {ctx.prop}: no longer shown to hold; no concrete failing input was found by the search',
                                                    'obligations / correspondences that no longer check:'], '\n'.join(ctx.broken))
        ctx.violations.append({'sig': 'broken', 'what': '; '.join(ctx.broken)[:300], 'replay': p, 'found_input': False})
    elif ctx.broken:
        # the concrete inputs are the replay; record what else broke next to them
        for v in ctx.violations:
            with open(v['replay'], 'a') as f: f.write('# also broken in this run: ' + ' | '.join(ctx.broken)[:1000] + '\n')
    for fid, what in sorted(ctx.known_seen.items()):
        ctx.say(f'KNOWN-FINDING: property={ctx.prop} {fid} {what}')
    cov = dict(ctx.cov)
    cov.setdefault('obligations', 0); cov.setdefault('discharged', 0); cov.setdefault('checker_cmd', 'n/a')
    cov['trusted_base'] = TRUSTED_BASE
    cov['evaluations'] = ctx.evaluations
    cov['distinct_nontrivial'] = ctx.distinct_nontrivial
    cov['rule'] = ' | '.join(ctx.rules)
    cov['samples'] = ctx.samples[:6] if ctx.samples else ['(no sample recorded)']
    cov['known_findings_seen'] = sorted(ctx.known_seen)
    cov['broken_obligations'] = ctx.broken
    ev = {'property_id': ctx.prop, 'tier': ctx.tier, 'seed': ctx.seed, 'level': level, 'coverage': cov,
          'assumptions': ctx.assumptions, 'wall_s': round(time.time() - ctx.t0, 1), 'violations': len(ctx.violations), 'notes': ctx.notes}
    os.makedirs(os.path.join(VERIF, 'evidence'), exist_ok=True)
    with open(os.path.join(VERIF, 'evidence', ctx.prop + '.json'), 'w') as f: json.dump(ev, f, indent=1)
    for v in ctx.violations:
        tail = '' if v['found_input'] else ' no-failing-input-found'
        ctx.say(f'# {v["what"][:400]}')
        ctx.say(f'VIOLATION property={ctx.prop} replay={v["replay"]}{tail}')
    if not ctx.violations:
        ctx.say(f'OK property={ctx.prop} tier={ctx.tier} obligations={cov["obligations"]} discharged={cov["discharged"]} evaluations={ctx.evaluations} wall={ev["wall_s"]}s')
    return 1 if ctx.violations else 0
