#!/usr/bin/env python3
"""usage: seed_note.py <seed-id> <change> <needs_to_manifest> <caught_by>  — complete seeded/<id>/meta.json and add the row to seeded/INDEX.md"""
import json, sys, os
sid, change, needs, caught = sys.argv[1:5]
d = os.path.join(os.path.dirname(os.path.dirname(os.path.abspath(__file__))), 'seeded')
p = os.path.join(d, sid, 'meta.json'); m = json.load(open(p))
m.update(seed_id=sid, change=change, caught_by=caught,
         confirmed='demo re-run by the main session in the scratch worktree (tools/seed_round.sh): fails with the patch, passes with it reversed (rebuilt in between)')
if needs: m['needs_to_manifest_short'] = needs
json.dump(m, open(p, 'w'), indent=1)
idx = os.path.join(d, 'INDEX.md'); t = open(idx).read()
row = f'| {sid} | {m["property"]} | {change} | {needs} | {caught} |\n'
t = ''.join(l for l in t.splitlines(True) if not l.startswith(f'| {sid} |')) + row
open(idx, 'w').write(t)
