"""C19 on the REAL build server: crafted jobs (tools/jobtool.c as the "compiler", harness/src/bin/h_distjob.rs as the client,
the real dist::http::Client underneath) against a real scheduler + `sccache-dist server` with its OverlayBuilder.
Only bubblewrap is replaced (tools/fake_bwrap.c: chroot, no namespaces), so what is observed is what the *server* does
with client-supplied cwd / output paths / input member names / toolchain contents:
  * escape_write   — a file or directory appears or changes on the host outside the toolchain cache and the job's private root
  * escape_read    — a job output returned to the client carries the contents of a host file outside the job's root (canaries)
  * toolchain_altered / job_sees_other_job — the unpacked toolchain differs for a later job; a job reads another job's inputs or outputs
  * benign jobs must complete with exactly their own outputs (otherwise the harness observes nothing)."""
import os, shutil, subprocess, json, hashlib, random
from syslib import *
from vlib import VERIF, BUILD, harness_bin
import sys_dist

def jobtool_bin():
    p = os.path.join(BUILD, 'bin', 'jobtool'); src = os.path.join(VERIF, 'tools', 'jobtool.c')
    if not os.path.exists(p) or os.path.getmtime(p) < os.path.getmtime(src):
        os.makedirs(os.path.dirname(p), exist_ok=True); subprocess.run(['gcc', '-O1', '-static', '-o', p, src], check=True)
    return p

def tree(d, skip):
    out = {}
    for r, ds, fs in os.walk(d, followlinks=False):
        rel = os.path.relpath(r, d)
        rel = '' if rel == '.' else rel
        if any(rel == s or rel.startswith(s + '/') for s in skip): ds[:] = []; continue
        for x in ds: out[os.path.join(rel, x) + '/'] = 'dir'
        for f in fs:
            p = os.path.join(r, f)
            try: out[os.path.join(rel, f)] = 'link:' + os.readlink(p) if os.path.islink(p) else hashlib.sha256(open(p, 'rb').read()).hexdigest()[:16]
            except OSError: out[os.path.join(rel, f)] = 'unreadable'
    return out

def run(root, tag, seed, rounds=1):
    rng = random.Random(seed); fails = []; samples = []; njobs = 0; completed = 0; refused = 0
    for rd in range(rounds):
        d = os.path.join(root, f'r{rd}'); shutil.rmtree(d, ignore_errors=True); os.makedirs(d)
        cl = sys_dist.Cluster(os.path.join(d, 'cluster'), f'{tag}{rd}')
        try:
            if not cl.start_scheduler() or not cl.start_server():
                fails.append({'kind': 'cluster_did_not_start', 'detail': 'scheduler or build server did not come up', 'ops': []}); continue
            C = cl.root; B = os.path.join(C, 'build')
            # canaries: host files outside every job root whose contents must never come back as a job output
            canaries = {}
            for rel in ('canary-root.txt', 'build/canary-build.txt', 'build/builds/canary-builds.txt', 'tc/canary-tc.txt'):
                os.makedirs(os.path.dirname(os.path.join(C, rel)), exist_ok=True)
                txt = f'CANARY {rel} {rng.randrange(10**9)}'; open(os.path.join(C, rel), 'w').write(txt); canaries[txt] = rel
            os.makedirs(os.path.join(C, 'victim-dir', 'sub')); open(os.path.join(C, 'victim-dir', 'sub', 'kept.txt'), 'w').write('KEPT')
            good = {'marker': f'good{rd}'}
            base = {'toolchain': good, 'cwd': '/w', 'outputs': ['out.o'], 'args': ['C', 'in.txt', 'out.o'], 'inputs': [{'kind': 'file', 'name': 'w/in.txt', 'data': 'INPUT-0'}]}
            def J(note, expect=None, **kw): j = dict(base); j.update(kw); j['note'] = note; j['expect'] = expect; return j
            abs_canary = os.path.join(C, 'canary-root.txt')
            jobs = [
                J('benign: copy an input to the output', expect={'out.o': 'INPUT-0'}),
                J('job A leaves an input and an output behind', expect={'out.o': 'A-OUT'}, args=['W', 'out.o', 'A-OUT', 'W', 'keep.txt', 'A-KEEP'], inputs=[{'kind': 'file', 'name': 'w/secretA.txt', 'data': 'SECRET-A'}]),
                J('job B looks for job A\'s input', expect={'out.o': 'ABSENT'}, args=['C', 'secretA.txt', 'out.o'], inputs=[]),
                J('job B looks for job A\'s outputs', expect={'out.o': 'ABSENT'}, args=['C', 'keep.txt', 'out.o'], inputs=[]),
                J('job overwrites a toolchain file', expect={'out.o': 'x'}, args=['W', '/bin/marker', 'EVIL', 'W', 'out.o', 'x'], inputs=[]),
                J('later job reads that toolchain file', expect={'out.o': good['marker']}, args=['C', '/bin/marker', 'out.o'], inputs=[]),
                J('absolute output path', expect={}, outputs=['/etc/hostname'], args=['W', 'out.o', 'x'], inputs=[]),
                J('cwd with repeated slashes', expect={'out.o': 'INPUT-0'}, cwd='//w', inputs=[{'kind': 'file', 'name': 'w/in.txt', 'data': 'INPUT-0'}]),
                J('cwd with .. (3 levels: lands in build/builds)', cwd='/w/../../../esc-cwd', args=['W', 'out.o', 'x'], inputs=[]),
                J('output path with .. reaching a host file', outputs=['../../../canary-builds.txt'], args=['W', 'out.o', 'x'], inputs=[]),
                J('output directory with .. (created on the host)', outputs=['../../../esc-outdir/o.o'], args=['W', 'out.o', 'x'], inputs=[]),
                J('input member name with ..', expect_refused=True, inputs=[{'kind': 'file', 'name': '../../esc-input.txt', 'data': 'ESC'}], args=['W', 'out.o', 'x']),
                J('absolute input member name', expect={'out.o': 'ABS'}, inputs=[{'kind': 'file', 'name': '/w/abs.txt', 'data': 'ABS'}], args=['C', 'abs.txt', 'out.o']),
                J('input symlink member pointing out of the root, then a member below it', expect_refused=True, inputs=[{'kind': 'dir', 'name': 'w'}, {'kind': 'symlink', 'name': 'w/lnk', 'target': '../../..'}, {'kind': 'file', 'name': 'w/lnk/esc-via-symlink.txt', 'data': 'ESC'}], args=['W', 'out.o', 'x']),
                J('input symlink member with an absolute target, then a member below it', expect_refused=True, inputs=[{'kind': 'dir', 'name': 'w'}, {'kind': 'symlink', 'name': 'w/abs', 'target': C}, {'kind': 'file', 'name': 'w/abs/esc-via-abs-symlink.txt', 'data': 'ESC'}], args=['W', 'out.o', 'x']),
                J('input hard link member to a host file', inputs=[{'kind': 'dir', 'name': 'w'}, {'kind': 'hardlink', 'name': 'w/out.o', 'target': abs_canary}], args=[]),
                J('the job makes its output a symlink to a host file (absolute)', args=['S', abs_canary, 'out.o'], inputs=[]),
                J('the job makes its output a symlink to a host file (relative)', args=['S', '../../../canary-builds.txt', 'out.o'], inputs=[]),
                J('the inputs archive makes the output a symlink to a host file', args=[], inputs=[{'kind': 'dir', 'name': 'w'}, {'kind': 'symlink', 'name': 'w/out.o', 'target': abs_canary}]),
                J('the job swaps the output directory the server created for a symlink to a host directory (absolute)', outputs=['sub/canary-tc.txt'], args=['D', 'sub', 'S', os.path.join(C, 'tc'), 'sub'], inputs=[]),
                J('the job swaps the output directory the server created for a symlink out of the root (relative)', outputs=['sub2/canary-builds.txt'], args=['D', 'sub2', 'S', '../../..', 'sub2'], inputs=[]),
                J('the job swaps its working directory for a symlink to a host directory', cwd='/w/inner', outputs=['canary-tc.txt'], args=['D', '../inner', 'S', os.path.join(C, 'tc'), '../inner'], inputs=[]),
                J('toolchain with a symlink to a host directory, cwd below it', toolchain={'marker': 'lnk', 'links': [['hostdir', os.path.join(C, 'tc')]]}, cwd='/hostdir/esc-via-toolchain-link', args=['W', 'out.o', 'x'], inputs=[]),
                J('toolchain with a symlink to a host directory, output below it', toolchain={'marker': 'lnk', 'links': [['hostdir', os.path.join(C, 'tc')]]}, outputs=['/hostdir/canary-tc.txt'], args=['W', 'out.o', 'x'], inputs=[]),
                # two links: an absolute one (which means "below the job root" to the job) naming a second, relative one that leads out of the root
                J('inputs: absolute symlink to a relative symlink out of the root, output read through both', outputs=['a/canary-builds.txt'], args=[], inputs=[{'kind': 'dir', 'name': 'w'}, {'kind': 'symlink', 'name': 'w/a', 'target': '/w/b'}, {'kind': 'symlink', 'name': 'w/b', 'target': '../../..'}]),
                J('inputs: absolute symlink to a relative symlink out of the root, output directory created through both', outputs=['a/esc-nested/o.o'], args=['W', 'out.o', 'x'], inputs=[{'kind': 'dir', 'name': 'w'}, {'kind': 'symlink', 'name': 'w/a', 'target': '/w/b'}, {'kind': 'symlink', 'name': 'w/b', 'target': '../../..'}]),
                J('inputs: absolute symlink to a relative symlink out of the root, cwd below both', cwd='/w/a/esc-nested-cwd', args=['W', 'out.o', 'x'], inputs=[{'kind': 'dir', 'name': 'w'}, {'kind': 'symlink', 'name': 'w/a', 'target': '/w/b'}, {'kind': 'symlink', 'name': 'w/b', 'target': '../../..'}]),
                J('the job creates the two links itself (absolute to relative, out of the root)', outputs=['a/canary-builds.txt'], args=['S', '../../..', 'b', 'S', '/w/b', 'a'], inputs=[]),
                # crafted toolchain identifiers (alloc_job, a refused raw submit_toolchain, run_job): relative with `..`, absolute, below an unpacked toolchain, empty
                J('toolchain id with .. (names a directory outside the builder directory)', toolchain_id='../../esc-tcid', args=['W', 'out.o', 'x'], inputs=[]),
                J('absolute toolchain id', toolchain_id=os.path.join(C, 'esc-abs-tcid'), args=['W', 'out.o', 'x'], inputs=[]),
                J('toolchain id naming a directory inside an unpacked toolchain', toolchain_id='@GOOD@/bin/esc-in-toolchain', args=['W', 'out.o', 'x'], inputs=[]),
                J('toolchain id naming the builds directory', toolchain_id='../builds/esc-builds', args=['W', 'out.o', 'x'], inputs=[]),
                J('toolchain id naming an existing host directory', toolchain_id='../../victim-dir', args=['W', 'out.o', 'x'], inputs=[]),
                J('toolchain id naming an existing directory of an unpacked toolchain', toolchain_id='@GOOD@/bin', args=['W', 'out.o', 'x'], inputs=[]),
                J('later job reads the toolchain after the crafted ids', expect={'out.o': good['marker']}, args=['C', '/bin/marker', 'out.o'], inputs=[]),
                J('empty toolchain id', toolchain_id='', args=['W', 'out.o', 'x'], inputs=[]),
                J('benign again after all of that', expect={'out.o': 'INPUT-1'}, inputs=[{'kind': 'file', 'name': 'w/in.txt', 'data': 'INPUT-1'}]),
            ]
            skip = ['distcache', 'build/builds/__live__']
            tc_state = {}
            for j in jobs:
                if '@GOOD@' in j.get('toolchain_id', ''):
                    # the directory name of the first toolchain that was unpacked
                    tcs = sorted(os.listdir(os.path.join(B, 'toolchains'))) if os.path.isdir(os.path.join(B, 'toolchains')) else []
                    j = dict(j); j['toolchain_id'] = j['toolchain_id'].replace('@GOOD@', tcs[0] if tcs else 'none')
                before = tree(C, skip)
                spec = {'scheduler': f'http://127.0.0.1:{cl.sport}', 'token': 'goodtoken', 'cache_dir': os.path.join(C, 'distcache'), 'jobtool': jobtool_bin(), 'jobs': [j]}
                sp = os.path.join(d, 'spec.json'); json.dump(spec, open(sp, 'w'))
                p = subprocess.run([harness_bin('h_distjob'), sp], capture_output=True, text=True, timeout=120)
                try: res = json.loads(p.stdout.strip().splitlines()[-1])
                except Exception: res = {'result': 'harness_error', 'detail': (p.stdout + p.stderr)[-300:]}
                after = tree(C, skip); njobs += 1
                line = f'{j["note"]}: cwd={j["cwd"]} outputs={j["outputs"]} args={j["args"]} inputs={[(m["kind"], m["name"], m.get("target", "")) for m in j["inputs"]]} toolchain={j["toolchain"] if "toolchain_id" not in j else "id " + repr(j["toolchain_id"])} -> {res.get("result")} status={res.get("status")} outputs={res.get("outputs")} {res.get("detail", "")[:160]} stdout={res.get("stdout", "")!r}'
                if len(samples) < 3: samples.append(line[:400])
                completed += res.get('result') == 'complete'; refused += res.get('result') == 'error'
                # ---- host file system: nothing outside the toolchain cache and the private root may appear or change
                changed = sorted(k for k in set(before) | set(after) if before.get(k) != after.get(k))
                def allowed(k):
                    if k.endswith('.log') or k.startswith('client-') or k.startswith('distcache'): return True     # the client's own toolchain cache lives here too
                    parts = k.rstrip('/').split('/')
                    if parts[:2] == ['tc', 'tc'] and len(parts) <= 5 and all(len(x) == 1 for x in parts[2:4]) and (len(parts) < 5 or len(parts[4]) == 64): return True   # the toolchain cache: tc/tc/<a>/<b>/<archive id>
                    if k.startswith('build/toolchains/') and k not in tc_state: return True    # first unpack of a toolchain
                    return False
                bad = [k for k in changed if not allowed(k)]
                alt = [k for k in bad if k.startswith('build/toolchains/')]
                esc = [k for k in bad if not k.startswith('build/toolchains/')]
                for k in after:
                    if k.startswith('build/toolchains/'): tc_state.setdefault(k, after[k])
                if esc: fails.append({'kind': 'escape_write', 'detail': f'{j["note"]}: created or changed on the host outside the job root and the toolchain cache: {esc[:4]}', 'ops': [line]})
                if alt: fails.append({'kind': 'toolchain_altered', 'detail': f'{j["note"]}: the unpacked toolchain that later jobs use changed: {alt[:4]}', 'ops': [line]})
                # ---- returned outputs: never the contents of a host file
                for name, content in (res.get('outputs') or {}).items():
                    if content in canaries: fails.append({'kind': 'escape_read', 'detail': f'{j["note"]}: output {name!r} returned to the client carries the contents of the host file {canaries[content]}', 'ops': [line]})
                # ---- expectations of the benign / isolation jobs
                if j.get('expect') is not None:
                    if res.get('result') != 'complete' or (res.get('outputs') or {}) != j['expect']:
                        kind = 'job_sees_other_job' if 'job B' in j['note'] else ('toolchain_altered' if 'later job reads' in j['note'] else 'benign_job_failed')
                        fails.append({'kind': kind, 'detail': f'{j["note"]}: expected outputs {j["expect"]}, got {res.get("result")} {res.get("outputs")} {res.get("detail", "")[:200]}', 'ops': [line]})
                if j.get('expect_refused') and res.get('result') == 'complete' and 'esc' in json.dumps(sorted(after)):
                    pass    # the listing check above reports what was created
                # remove what an escape created so that the next job starts from the same host state
                for k in sorted(esc, reverse=True):
                    p_ = os.path.join(C, k.rstrip('/'))
                    if k not in before:
                        try: shutil.rmtree(p_) if os.path.isdir(p_) and not os.path.islink(p_) else os.remove(p_)
                        except OSError: pass
        finally:
            cl.stop(); shutil.rmtree(d, ignore_errors=True)
    return {'jobs': njobs, 'completed': completed, 'refused_or_failed': refused, 'fails': fails, 'samples': samples}
