"""Real distributed-compilation cluster on localhost (C13, C19): the real `sccache-dist scheduler`, the real
`sccache-dist server` with its OverlayBuilder (toolchain unpack, overlay mount in a private mount namespace, input unpack,
output directories, output collection) and the real `sccache` client/server with `[dist]` configured.  Only bubblewrap
is replaced: `tools/fake_bwrap.c` runs the job chroot-ed into the job root with exactly the environment it is given.

run_histories: request histories (edits, flags, several outputs, failing compiles, repeats) through the cluster, every
request compared with a direct run of the same command line; faults: build server killed, scheduler killed, build
server restarted; the monitor also insists that the requests it believes were distributed really ran on the build server
(invocation log of the fake bwrap), so a silent fallback cannot make the comparison vacuous."""
import os, shutil, subprocess, time, socket, json, random, signal
from syslib import *
from vlib import repo_bin, VERIF, BUILD

KEY = 'qJPLVoe4L79dg95Z469TUShX3pDAigAvIKAMPOZA_Mc'

def bwrap_bin():
    p = os.path.join(BUILD, 'bin', 'bwrap'); src = os.path.join(VERIF, 'tools', 'fake_bwrap.c')
    if not os.path.exists(p) or os.path.getmtime(p) < os.path.getmtime(src):
        os.makedirs(os.path.dirname(p), exist_ok=True)
        subprocess.run(['gcc', '-O1', '-o', p, src], check=True)
    return p

def wait_port(port, t=10.0):
    end = time.time() + t
    while time.time() < end:
        try: socket.create_connection(('127.0.0.1', port), timeout=0.2).close(); return True
        except OSError: time.sleep(0.05)
    return False

class Cluster:
    """scheduler + one build server under `root`; `client_conf()` is the SCCACHE_CONF of a dist-enabled client"""
    def __init__(self, root, tag):
        self.root = root; os.makedirs(root, exist_ok=True); self.tag = tag
        self.sport = port_for(tag + 'sched', 1); self.bport = port_for(tag + 'build', 2)
        while self.bport == self.sport: self.bport = port_for(tag + 'build', random.randrange(3, 99))
        self.sched = self.server = None
        self.bwlog = os.path.join(root, 'bwrap.log')
        self.env = dict(os.environ, SCCACHE_NO_DAEMON='1', SCCACHE_LOG=os.environ.get('VERIF_DIST_LOG', 'off'), VERIF_BWRAP_LOG=self.bwlog)
    def start_scheduler(self):
        conf = os.path.join(self.root, 'scheduler.conf')
        open(conf, 'w').write(f'public_addr = "127.0.0.1:{self.sport}"\n\n[client_auth]\ntype = "token"\ntoken = "goodtoken"\n\n[server_auth]\ntype = "jwt_hs256"\nsecret_key = "{KEY}"\n')
        self.sched = subprocess.Popen([repo_bin('sccache-dist'), 'scheduler', '--config', conf], env=dict(self.env, SCCACHE_LOG='sccache_dist=info'), stdout=open(os.path.join(self.root, 'scheduler.log'), 'ab'), stderr=subprocess.STDOUT)
        return wait_port(self.sport)
    def start_server(self, toolchain_cache_size=2_000_000_000):
        tok = subprocess.run([repo_bin('sccache-dist'), 'auth', 'generate-jwt-hs256-server-token', '--secret-key', KEY, '--server', f'127.0.0.1:{self.bport}'], capture_output=True, text=True, env=self.env).stdout.strip()
        conf = os.path.join(self.root, 'server.conf')
        open(conf, 'w').write(f'cache_dir = "{self.root}/tc"\npublic_addr = "127.0.0.1:{self.bport}"\nscheduler_url = "http://127.0.0.1:{self.sport}"\ntoolchain_cache_size = {toolchain_cache_size}\n\n'
                              f'[builder]\ntype = "overlay"\nbuild_dir = "{self.root}/build"\nbwrap_path = "{bwrap_bin()}"\n\n[scheduler_auth]\ntype = "jwt_token"\ntoken = "{tok}"\n')
        self.server = subprocess.Popen([repo_bin('sccache-dist'), 'server', '--config', conf], env=self.env, stdout=open(os.path.join(self.root, 'server.log'), 'ab'), stderr=subprocess.STDOUT)
        if not wait_port(self.bport): return False
        self.registrations = getattr(self, 'registrations', 0) + 1
        return self.wait_servers(self.registrations)
    def wait_servers(self, n, t=15.0):
        """the build server registers with its first heartbeat (the scheduler logs it at info level)"""
        end = time.time() + t; log = os.path.join(self.root, 'scheduler.log')
        while time.time() < end:
            try:
                if open(log, 'rb').read().count(b'Registered new server') >= n: return True
            except OSError: pass
            time.sleep(0.05)
        return False
    def client_conf(self, token='goodtoken'):
        conf = os.path.join(self.root, f'client-{token}.conf')
        open(conf, 'w').write(f'[dist]\nscheduler_url = "http://127.0.0.1:{self.sport}"\ntoolchains = []\ntoolchain_cache_size = 2000000000\ncache_dir = "{self.root}/distcache"\n\n[dist.auth]\ntype = "token"\ntoken = "{token}"\n')
        return conf
    def jobs_run(self):
        try: return [l.rstrip('\n').split('\t') for l in open(self.bwlog)]
        except OSError: return []
    def kill_server(self):
        if self.server: self.server.kill(); self.server.wait(); self.server = None
    def kill_scheduler(self):
        if self.sched: self.sched.kill(); self.sched.wait(); self.sched = None
    def stop(self):
        self.kill_server(); self.kill_scheduler()
        # overlay mounts live in private namespaces of threads that are gone with the server; leftovers are plain directories
        shutil.rmtree(os.path.join(self.root, 'build'), ignore_errors=True)

def elf_sections(path):
    """{section name: bytes} of an ELF64 little-endian relocatable object (no external tool: objcopy refuses to drop a section that relocations refer to)"""
    import struct
    b = open(path, 'rb').read()
    if b[:4] != b'\x7fELF' or b[4] != 2 or b[5] != 1: return None
    shoff, = struct.unpack_from('<Q', b, 0x28); shentsize, shnum, shstrndx = struct.unpack_from('<HHH', b, 0x3a)
    hdrs = [struct.unpack_from('<IIQQQQIIQQ', b, shoff + i * shentsize) for i in range(shnum)]
    stroff = hdrs[shstrndx][4]
    out = {}
    for i, (name, typ, flags, addr, off, size, link, info, align, entsize) in enumerate(hdrs):
        n = b[stroff + name:b.index(b'\0', stroff + name)].decode(errors='replace')
        out[f'{i}:{n}'] = (typ, flags, b'' if typ == 8 else b[off:off + size])
    return out

def same_without_debug_line(a, b):
    """every section of the two objects except .debug_line is byte-identical"""
    sa, sb = elf_sections(a), elf_sections(b)
    if sa is None or sb is None or set(sa) != set(sb): return False
    diff = [k for k in sa if sa[k] != sb[k]]
    return bool(diff) and all(k.split(':', 1)[1] == '.debug_line' for k in diff)

SRC = '#include "h.h"\nint f{k}(int x) {{ return x * {k} + H; }}\n'

def run_histories(root, tag, seed, n_hist, n_req):
    rng = random.Random(seed); fails = []; samples = []; reqs = remote = hits = fallbacks = 0
    for h in range(n_hist):
        d = os.path.join(root, f'h{h}'); shutil.rmtree(d, ignore_errors=True); w = os.path.join(d, 'w'); os.makedirs(w)
        cl = Cluster(os.path.join(d, 'cluster'), f'{tag}{h}')
        trace = []
        sc = None
        try:
            if not cl.start_scheduler() or not cl.start_server():
                fails.append({'kind': 'cluster_did_not_start', 'detail': 'scheduler or build server did not come up', 'ops': [open(os.path.join(cl.root, 'server.log'), errors='replace').read()[-400:]]}); continue
            sc = Sc(os.path.join(d, 'sc'), f'{tag}c{h}'); sc.env['SCCACHE_CONF'] = cl.client_conf(); sc.start()
            open(os.path.join(w, 'h.h'), 'w').write('#define H 1\n')
            k = 1; flags = ['-O1']; out = 'a.o'; server_up = True; sched_up = True; seen = set(); broken = False
            for i in range(n_req):
                x = rng.random(); note = 'repeat'
                if x < 0.18: k += 1; note = 'edit source'
                elif x < 0.28: open(os.path.join(w, 'h.h'), 'w').write(f'#define H {rng.randrange(2, 99)}\n'); note = 'edit header'
                elif x < 0.38: flags = [rng.choice(['-O0', '-O1', '-O2']), *(['-g'] if rng.random() < 0.3 else []), *([f'-DX={rng.randrange(3)}'] if rng.random() < 0.5 else [])]; note = 'change flags'
                elif x < 0.46: flags = [f for f in flags if f not in ('-g', '-gsplit-dwarf')] + (['-g', '-gsplit-dwarf'] if '-gsplit-dwarf' not in flags else []); note = 'toggle split dwarf'
                elif x < 0.54: flags = [f for f in flags if not f.startswith('-M')] + (['-MD', '-MF', 'a.d'] if '-MD' not in flags else []); note = 'toggle -MD'
                elif x < 0.62: broken = not broken; note = 'break the source' if broken else 'repair the source'
                elif x < 0.67 and server_up: cl.kill_server(); server_up = False; note = 'build server killed'
                elif x < 0.72 and not server_up and sched_up: server_up = bool(cl.start_server()); note = 'build server restarted'
                elif x < 0.75 and sched_up and i > n_req // 2: cl.kill_scheduler(); sched_up = False; note = 'scheduler killed'
                elif x < 0.80: out = rng.choice(['a.o', 'sub/b.o', 'other.o']); note = 'change output path'
                body = SRC.format(k=k) + ('int broken( { return }\n' if broken else '')
                open(os.path.join(w, 'a.c'), 'w').write(body)
                os.makedirs(os.path.join(w, 'sub'), exist_ok=True)
                argv = ['/usr/bin/gcc', *flags, '-c', 'a.c', '-o', out]
                extra = [out[:-2] + '.dwo'] if '-gsplit-dwarf' in flags else []
                extra += ['a.d'] if '-MD' in flags else []
                stale = rng.random() < 0.5
                for p_ in [out] + extra:
                    try: os.remove(os.path.join(w, p_))
                    except OSError: pass
                    # half of the time a (much larger) file from an earlier build sits at every output path: the new output replaces it whole
                    if stale: open(os.path.join(w, p_), 'wb').write(b'STALE OUTPUT OF AN EARLIER BUILD\n' * 3000)
                note += ' (stale larger outputs in place)' if stale else ''
                before = counts(sc.stats() or {}); jobs0 = len(cl.jobs_run())
                r = sc.compile(argv, w, timeout=300)
                after = counts(sc.stats() or {}); jobs1 = len(cl.jobs_run())
                got = (r.returncode,) + tuple(file_state(os.path.join(w, p_)) and file_state(os.path.join(w, p_))[0] for p_ in [out] + extra)
                got_obj = None
                if os.path.isfile(os.path.join(w, out)): got_obj = os.path.join(d, 'wrapped.o'); shutil.copy(os.path.join(w, out), got_obj)
                for p_ in [out] + extra:
                    try: os.remove(os.path.join(w, p_))
                    except OSError: pass
                    if stale: open(os.path.join(w, p_), 'wb').write(b'STALE OUTPUT OF AN EARLIER BUILD\n' * 3000)     # the direct compile starts from the same state
                dr = subprocess.run(argv, cwd=w, capture_output=True)
                want = (dr.returncode,) + tuple(file_state(os.path.join(w, p_)) and file_state(os.path.join(w, p_))[0] for p_ in [out] + extra)
                dh = after.get('cache_hits', 0) - before.get('cache_hits', 0)
                cls = 'hit' if dh else ('remote' if jobs1 > jobs0 else 'local')
                reqs += 1; hits += dh; remote += (cls == 'remote'); fallbacks += (cls == 'local')
                line = f'{note}: gcc {" ".join(argv[1:])} -> rc={r.returncode} {cls} (cluster: scheduler {"up" if sched_up else "DOWN"}, build server {"up" if server_up else "DOWN"})'
                trace.append(line)
                if got != want:
                    names = ['exit status', out] + extra
                    what = [n for n, a, b in zip(names, got, want) if a != b]
                    if what == [out] and '-g' in flags and got_obj is not None and same_without_debug_line(got_obj, os.path.join(w, out)):
                        # F-C13-b: the build server compiles the *preprocessed* unit, so the column numbers gcc records in .debug_line are those of the
                        # macro-expanded text; everything else in the object is identical
                        fails.append({'kind': 'dist_debug_line_columns_differ', 'detail': f'-g: the object differs from the direct compile in .debug_line only ({cls})', 'ops': list(trace)})
                    else: fails.append({'kind': 'dist_result_differs_from_local', 'detail': f'{"/".join(what)} differ from the direct compile after [{note}] ({cls}); stderr {r.stderr.decode(errors="replace")[:160]!r}', 'ops': list(trace)})
                if not stale and r.returncode != 0 and any(g is not None for g in got[1:]) and all(w_ is None for w_ in want[1:]):
                    fails.append({'kind': 'partial_output_after_failed_job', 'detail': f'a failed request left output files behind after [{note}] ({cls})', 'ops': list(trace)})
                fp = (k, open(os.path.join(w, 'h.h')).read(), tuple(f for f in flags if not f.startswith('-M') and f != 'a.d'), broken, out if '-gsplit-dwarf' in flags else None)
                if want[0] == 0:
                    if fp in seen and cls != 'hit': fails.append({'kind': 'dist_result_not_served_from_cache', 'detail': f'an identical request compiled ({cls}) although its result was stored earlier', 'ops': list(trace)})
                    seen.add(fp)
                if server_up and sched_up and cls == 'local' and want[0] == 0 and i > 0 and not note.startswith('build server restarted'):
                    # with a healthy cluster a cacheable miss is expected to be distributed; a silent local fallback would make every comparison here vacuous
                    fails.append({'kind': 'healthy_cluster_not_used', 'detail': f'request compiled locally although scheduler and build server are up: stderr {r.stderr.decode(errors="replace")[:160]!r}', 'ops': list(trace)})
            if len(samples) < 2: samples.append(' ; '.join(trace[:6]))
        finally:
            if sc: sc.stop()
            cl.stop(); shutil.rmtree(d, ignore_errors=True)
    return {'requests': reqs, 'distributed': remote, 'hits': hits, 'local_fallbacks': fallbacks, 'fails': fails, 'samples': samples}


def run_burst(root, tag, rounds=1, clients=6):
    """the first wave against a freshly started build server: `clients` concurrent distributed compiles of different sources (the
    toolchain has never been unpacked by this server process), each compared with a direct compile; then the same wave again after a
    build-server restart"""
    import threading
    fails = []; samples = []; reqs = remote = 0
    for rd in range(rounds):
        d = os.path.join(root, f'b{rd}'); shutil.rmtree(d, ignore_errors=True); w = os.path.join(d, 'w'); os.makedirs(w)
        cl = Cluster(os.path.join(d, 'cluster'), f'{tag}b{rd}'); sc = None
        try:
            if not cl.start_scheduler() or not cl.start_server():
                fails.append({'kind': 'cluster_did_not_start', 'detail': 'scheduler or build server did not come up', 'ops': []}); continue
            sc = Sc(os.path.join(d, 'sc'), f'{tag}bc{rd}'); sc.env['SCCACHE_CONF'] = cl.client_conf(); sc.start()
            for wave in range(2):
                if wave == 1: cl.kill_server(); cl.start_server()          # a restarted build server has to unpack the toolchain again
                srcs = []
                for i in range(clients):
                    n = f'w{wave}c{i}'; open(os.path.join(w, n + '.c'), 'w').write(f'int {n}(int x) {{ return x + {i * 7 + wave}; }}\n'); srcs.append(n)
                jobs0 = len(cl.jobs_run()); res = {}
                def one(n): res[n] = sc.compile(['/usr/bin/gcc', '-O1', '-c', n + '.c', '-o', n + '.o'], w, timeout=300)
                ts = [threading.Thread(target=one, args=(n,)) for n in srcs]
                for t in ts: t.start()
                for t in ts: t.join()
                jobs1 = len(cl.jobs_run()); remote += jobs1 - jobs0
                bad = []
                for n in srcs:
                    got = (res[n].returncode, file_state(os.path.join(w, n + '.o')) and file_state(os.path.join(w, n + '.o'))[0])
                    subprocess.run(['/usr/bin/gcc', '-O1', '-c', n + '.c', '-o', n + '.direct.o'], cwd=w)
                    want = (0, file_state(os.path.join(w, n + '.direct.o'))[0]); reqs += 1
                    if got != want: bad.append(f'{n}: rc={got[0]} object {"differs" if got[1] else "missing"} stderr {res[n].stderr.decode(errors="replace")[:100]!r}')
                line = f'wave {wave} ({"fresh" if wave == 0 else "restarted"} build server): {clients} concurrent requests, {jobs1 - jobs0} jobs ran on the build server, {len(bad)} differ from the direct compile'
                samples.append(line)
                if bad: fails.append({'kind': 'dist_result_differs_from_local', 'detail': line + ': ' + '; '.join(bad[:3]), 'ops': [line] + bad})
        finally:
            if sc: sc.stop()
            cl.stop(); shutil.rmtree(d, ignore_errors=True)
    return {'requests': reqs, 'distributed': remote, 'fails': fails, 'samples': samples}
