#!/bin/sh
# usage: seed_confirm.sh <worktree> — re-run the sub-agent's demonstration with the patch applied and reversed
# (prints the two exit codes; the worktree is left with the patch applied)
W="$1"; cd "$W" || exit 2
export CARGO_TARGET_DIR="$W/target" CARGO_NET_OFFLINE=true
sh SEEDED/demo/run.sh > "$W/demo_with.log" 2>&1; A=$?
git apply -R SEEDED/patch.diff || { echo "cannot reverse patch"; exit 2; }
sh SEEDED/demo/run.sh > "$W/demo_without.log" 2>&1; B=$?
git apply SEEDED/patch.diff
echo "with_patch_exit=$A without_patch_exit=$B"
