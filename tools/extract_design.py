#!/usr/bin/env python3
"""One-time extraction (round 1) of the `file=`-tagged code fences of DESIGN.md (round 0) into the lake project.
Kept for provenance only; the files under lean/ are the source of truth from now on."""
import re, os, sys
ROOT = '/verif/lean/SccacheModel/SccacheModel'
MOD = {  # scratch module -> (new module, namespace)
 'Sk.Basic': 'Model.TimeMacro', 'Sk.FinderProofs': 'Proofs.TimeMacro',
 'Sk.Key': 'Model.Key', 'Sk.KeyProofs': 'Proofs.Key', 'Sk.KeyLangSep': 'Proofs.KeyLangSep',
 'Sk.Lru': 'Model.Lru', 'Sk.LruProofs': 'Proofs.Lru', 'Sk.LruRo': 'Proofs.LruReadOnly',
 'Sk.Sched': 'Model.Sched', 'Sk.SchedProofs': 'Proofs.SchedWitness', 'Sk.SchedProofs2': 'Proofs.Sched',
 'Sk.Atomic': 'Model.Atomic', 'Sk.AtomicProofs': 'Proofs.Atomic',
 'Sk.Args': 'Model.Args', 'Sk.GenArgs': 'Gen.Args', 'Sk.ArgsProofs': 'Proofs.Args',
 'Sk.Crc': 'Proofs.Crc', 'Sk.Entry': 'Model.Entry', 'Sk.EntryRead': 'Model.EntryRead', 'Sk.EntryProofs': 'Proofs.Entry',
 'Sk.Paths': 'Model.Paths', 'Sk.PathsProofs': 'Proofs.Paths', 'Sk.Manifest': 'Model.Manifest',
 'Sk.Tokens': 'Model.Tokens', 'Sk.Stats': 'Model.Stats', 'Sk.Client': 'Model.Client', 'Sk.Dist': 'Model.Dist',
 'Sk.Memo': 'Model.Memo', 'Sk.Startup': 'Model.Startup', 'Sk.ServerL1': 'Model.ServerL1', 'Sk.Spec': 'Model.Spec',
 'Sk.RustKey': 'Model.RustKey', 'Sk.TcCache': 'Model.TcCache',
}
NS = {
 'Model/TimeMacro': 'TM', 'Proofs/TimeMacro': 'TM', 'Model/Key': 'CK', 'Proofs/Key': 'CK', 'Proofs/KeyLangSep': 'CK',
 'Model/Lru': 'LruM', 'Proofs/Lru': 'LruM', 'Proofs/LruReadOnly': 'LruM',
 'Model/Sched': 'SchedM', 'Props/C18_witness': 'SchedM', 'Proofs/Sched': 'SchedM',
 'Model/Atomic': 'AtomicM', 'Proofs/Atomic': 'AtomicM',
 'Model/Args': 'ArgsM', 'Proofs/Args': 'ArgsM', 'Proofs/ArgsPolicy': 'ArgsM',
 'Proofs/Crc': 'EntryM', 'Model/Entry': 'EntryM', 'Model/EntryRead': 'EntryM', 'Proofs/Entry': 'EntryM',
 'Model/Paths': 'PathsM', 'Proofs/Paths': 'PathsM', 'Model/Manifest': 'ManifestM', 'Model/Tokens': 'TokensM',
 'Model/Stats': 'StatsM', 'Model/Client': 'ClientM', 'Model/Dist': 'DistM', 'Model/Memo': 'MemoM',
 'Model/Startup': 'StartupM', 'Model/ServerL1': 'L1', 'Model/Spec': 'L0', 'Model/RustKey': 'RustKeyM', 'Model/TcCache': 'TcM',
}
RENAME = {'Props/C18_witness': 'Proofs/SchedWitness'}
lines = open('/verif/DESIGN.md').read().split('\n')
i = 0
while i < len(lines):
    m = re.match(r'^```lean file=(\S+)\.lean', lines[i])
    if m:
        j = i + 1
        while not lines[j].startswith('```'): j += 1
        rel = m.group(1); body = lines[i+1:j]
        if rel.startswith('Driver/'):
            i = j + 1; continue
        ns = NS[rel]
        imps = [l for l in body if l.startswith('import ')]
        rest = [l for l in body if not l.startswith('import ')]
        imps = ['import SccacheModel.' + MOD[l.split()[1]] for l in imps]
        out = imps + ([''] if imps else []) + ['namespace ' + ns, ''] + rest + ['', 'end ' + ns, '']
        rel = RENAME.get(rel, rel)
        p = os.path.join(ROOT, rel + '.lean'); os.makedirs(os.path.dirname(p), exist_ok=True)
        open(p, 'w').write('\n'.join(out)); print('wrote', p)
        i = j
    i += 1
