/* The "compiler" of the crafted build-server jobs of C19 (statically linked, packaged as /bin/jobtool of a tiny toolchain).
 * Arguments are a script executed inside the job's root, relative to the job's cwd:
 *     W <path> <text>     write <text> to <path> (creating parent directories is the server's business, not ours)
 *     C <src> <dst>       copy <src> to <dst>; if <src> cannot be read, write "ABSENT" to <dst>
 *     S <target> <link>   create a symbolic link <link> -> <target>
 *     M <dir>             mkdir
 *     D <dir>             rmdir (an empty directory the server created for an output)
 * It prints one line per step ("ok"/"fail <errno text>") so the client sees what happened inside the sandbox.  */
#include <stdio.h>
#include <string.h>
#include <errno.h>
#include <unistd.h>
#include <sys/stat.h>

static int put(const char *path, const char *data, size_t n) {
    FILE *f = fopen(path, "w"); if (!f) return -1;
    fwrite(data, 1, n, f); fclose(f); return 0;
}
int main(int argc, char **argv) {
    static char buf[1 << 16];
    for (int i = 1; i < argc; ) {
        const char *op = argv[i]; int r = -1;
        if (!strcmp(op, "W") && i + 2 < argc) { r = put(argv[i + 1], argv[i + 2], strlen(argv[i + 2])); i += 3; }
        else if (!strcmp(op, "C") && i + 2 < argc) {
            FILE *f = fopen(argv[i + 1], "r");
            if (f) { size_t n = fread(buf, 1, sizeof buf, f); fclose(f); r = put(argv[i + 2], buf, n); }
            else r = put(argv[i + 2], "ABSENT", 6);
            i += 3; }
        else if (!strcmp(op, "S") && i + 2 < argc) { r = symlink(argv[i + 1], argv[i + 2]); i += 3; }
        else if (!strcmp(op, "M") && i + 1 < argc) { r = mkdir(argv[i + 1], 0755); i += 2; }
        else if (!strcmp(op, "D") && i + 1 < argc) { r = rmdir(argv[i + 1]); i += 2; }
        else { printf("bad-op %s\n", op); return 3; }
        if (r == 0) printf("ok %s\n", op); else printf("fail %s %s\n", op, strerror(errno));
    }
    return 0;
}
