"""C20 system monitor: N clients started at the same moment against an address with no server (TCP port / Unix
socket): census of server processes carrying this run's cache dir, every client's result, requests seen by the one
server; graceful stop with an in-flight compile; idle exit not before the configured period.  Also replays the model's
Unix-socket witness (`--start-server` twice) on the real binary."""
import os, shutil, subprocess, time, json
from concurrent.futures import ThreadPoolExecutor
from syslib import *

def cold_start(root, tag, n, uds):
    d = os.path.join(root, f'{"uds" if uds else "tcp"}{n}'); shutil.rmtree(d, ignore_errors=True); w = os.path.join(d, 'w'); os.makedirs(w)
    sc = Sc(os.path.join(d, 'sc'), f'{tag}{n}{uds}', uds=uds)
    for i in range(n): open(f'{w}/c{i}.c', 'w').write(f'int f{i}(void){{return {i};}}\n')
    def client(i): return sc.compile(['/usr/bin/gcc', '-c', f'c{i}.c', '-o', f'c{i}.o'], w, timeout=120)
    fails = []
    try:
        with ThreadPoolExecutor(max_workers=n) as ex: rs = list(ex.map(client, range(n)))
        time.sleep(0.6)
        sv = sc.server_pids(); st = sc.stats() or {}
        ok = sum(r.returncode == 0 for r in rs); objs = sum(os.path.exists(f'{w}/c{i}.o') for i in range(n))
        good = 0
        for i in range(n):
            got = file_state(f'{w}/c{i}.o'); subprocess.run(['/usr/bin/gcc', '-c', f'c{i}.c', '-o', f'd{i}.o'], cwd=w); want = file_state(f'{w}/d{i}.o')
            good += bool(got and want and got[0] == want[0])
        line = f'{"unix" if uds else "tcp"} cold start: clients={n} exit0={ok} correct_objects={good} servers_alive={len(sv)} requests_seen_by_reachable_server={st.get("compile_requests")}'
        if ok != n or good != n: fails.append({'kind': 'client_failed_at_cold_start', 'detail': line + ' stderr=' + ' | '.join(r.stderr.decode(errors="replace")[:80] for r in rs if r.returncode != 0)[:300], 'ops': [line]})
        if len(sv) != 1: fails.append({'kind': 'extra_server_unix' if uds else 'extra_server_tcp', 'detail': line, 'ops': [line]})
        elif st.get('compile_requests') != n: fails.append({'kind': 'requests_not_on_one_server', 'detail': line, 'ops': [line]})
        return line, fails
    finally:
        sc.stop(); sc.kill(); shutil.rmtree(d, ignore_errors=True)

def unix_witness(root, tag):
    """the model's two-client witness: the second server unlinks the first one's socket and both keep running"""
    d = os.path.join(root, 'udsw'); shutil.rmtree(d, ignore_errors=True); os.makedirs(d)
    sc = Sc(os.path.join(d, 'sc'), tag + 'w', uds=True)
    try:
        sc.run(['--start-server']); time.sleep(0.3); sc.run(['--start-server']); time.sleep(0.5)
        sv = sc.server_pids()
        line = f'unix socket: --start-server twice -> {len(sv)} server processes alive'
        fails = [{'kind': 'extra_server_unix', 'detail': line + ' [deterministic witness: second server unlinks and rebinds the socket]', 'ops': [line]}] if len(sv) != 1 else []
        # a socket left behind by a server that was killed must not keep the next one from starting
        sc.kill(); time.sleep(0.2); r = sc.run(['--start-server']); time.sleep(0.4); sv2 = sc.server_pids()
        line2 = f'unix socket: server killed (socket file stays), --start-server again -> rc={r.returncode}, {len(sv2)} server processes alive'
        if r.returncode != 0 or len(sv2) != 1: fails.append({'kind': 'stale_socket_blocks_start', 'detail': line2, 'ops': [line, line2]})
        return line + ' ; ' + line2, fails
    finally:
        sc.stop(); sc.kill(); shutil.rmtree(d, ignore_errors=True)

def shutdown_and_idle(root, tag):
    fails = []; lines = []
    # ---- stop request while a compile is in flight: the compile finishes (or the client falls back) with the right output
    d = os.path.join(root, 'stop'); shutil.rmtree(d, ignore_errors=True); w = os.path.join(d, 'w'); os.makedirs(w)
    cc = os.path.join(d, 'gcc'); open(cc, 'w').write('#!/bin/sh\ncase " $* " in *" -E "*|*" -v "*|*" --version "*) ;; *) sleep 0.8 ;; esac\nexec /usr/bin/gcc "$@"\n'); os.chmod(cc, 0o755)
    open(f'{w}/s.c', 'w').write('int s(void){return 5;}\n')
    sc = Sc(os.path.join(d, 'sc'), tag + 'stop'); sc.start()
    try:
        p = subprocess.Popen([sc.bin, cc, '-c', 's.c', '-o', 's.o'], cwd=w, env=sc.env, stdout=subprocess.PIPE, stderr=subprocess.PIPE)
        time.sleep(0.4); t0 = time.time(); sc.run(['--stop-server']); gone = sc.wait_gone(15); dt = time.time() - t0
        out, err = p.communicate(timeout=60)
        got = file_state(f'{w}/s.o'); subprocess.run(['/usr/bin/gcc', '-c', 's.c', '-o', 'd.o'], cwd=w); want = file_state(f'{w}/d.o')
        line = f'stop during an in-flight compile: client rc={p.returncode} object_correct={bool(got and want and got[0] == want[0])} server_gone={gone} after {dt:.1f}s'
        lines.append(line)
        if p.returncode != 0 or not (got and want and got[0] == want[0]): fails.append({'kind': 'inflight_request_lost_at_stop', 'detail': line + ' ' + err.decode(errors='replace')[:100], 'ops': [line]})
        if not gone: fails.append({'kind': 'server_did_not_stop', 'detail': line, 'ops': [line]})
    finally:
        sc.kill(); shutil.rmtree(d, ignore_errors=True)
    # ---- idle exit: after T seconds without requests, and not before
    d = os.path.join(root, 'idle'); shutil.rmtree(d, ignore_errors=True); w = os.path.join(d, 'w'); os.makedirs(w)
    open(f'{w}/i.c', 'w').write('int i;\n')
    sc = Sc(os.path.join(d, 'sc'), tag + 'idle', env={'SCCACHE_IDLE_TIMEOUT': '3'}); sc.start()
    try:
        time.sleep(1.5); sc.compile(['/usr/bin/gcc', '-c', 'i.c', '-o', 'i.o'], w); t_last = time.time()
        early = None; end = t_last + 12
        while time.time() < end:
            if not sc.server_pids(): early = time.time() - t_last; break
            time.sleep(0.1)
        line = f'idle timeout 3 s: server exited {early if early is None else round(early, 1)} s after the last request'
        lines.append(line)
        if early is None: fails.append({'kind': 'idle_server_did_not_exit', 'detail': line, 'ops': [line]})
        elif early < 2.8: fails.append({'kind': 'idle_exit_too_early', 'detail': line, 'ops': [line]})
    finally:
        sc.kill(); shutil.rmtree(d, ignore_errors=True)
    return lines, fails

def stop_then_successor(root, tag, uds):
    """a stop request with a compile in flight, a new client during the drain window (it may have to start a successor), the old server
    exits, then a further client: every client gets its object, and exactly one server serves the address afterwards"""
    fails = []; tr = 'unix' if uds else 'tcp'
    d = os.path.join(root, 'succ' + tr); shutil.rmtree(d, ignore_errors=True); w = os.path.join(d, 'w'); os.makedirs(w)
    cc = os.path.join(d, 'gcc'); open(cc, 'w').write('#!/bin/sh\ncase " $* " in *" -E "*|*" -v "*|*" --version "*) ;; *slow.c*) sleep 1.5 ;; esac\nexec /usr/bin/gcc "$@"\n'); os.chmod(cc, 0o755)
    for n in ('slow', 'b', 'c'): open(f'{w}/{n}.c', 'w').write(f'int {n}(void){{return {len(n)};}}\n')
    sc = Sc(os.path.join(d, 'sc'), tag + 'succ' + tr, uds=uds); sc.start()
    try:
        s1 = sc.server_pids()
        pa = subprocess.Popen([sc.bin, cc, '-c', 'slow.c', '-o', 'slow.o'], cwd=w, env=sc.env, stdout=subprocess.PIPE, stderr=subprocess.PIPE)
        time.sleep(0.6); sc.run(['--stop-server'])
        rb = sc.compile([cc, '-c', 'b.c', '-o', 'b.o'], w, timeout=120)          # during the drain window
        pa.communicate(timeout=60)
        end = time.time() + 15
        while time.time() < end and any(p in sc.server_pids() for p in s1): time.sleep(0.1)
        rc_ = sc.compile([cc, '-c', 'c.c', '-o', 'c.o'], w, timeout=120)         # after the old server is gone
        time.sleep(0.3); alive = sc.server_pids(); st = sc.stats() or {}
        ok = []
        for n, r in (('slow', pa), ('b', rb), ('c', rc_)):
            subprocess.run(['/usr/bin/gcc', '-c', f'{n}.c', '-o', f'{n}.direct.o'], cwd=w)
            ok.append(r.returncode == 0 and file_state(f'{w}/{n}.o') is not None and file_state(f'{w}/{n}.o')[0] == file_state(f'{w}/{n}.direct.o')[0])
        line = f'{tr}: stop with a compile in flight, client during the drain, client after the old server left: objects correct={ok} old server gone={not any(p in alive for p in s1)} servers alive afterwards={len(alive)} reachable server saw {st.get("compile_requests")} request(s)'
        if not all(ok): fails.append({'kind': 'request_lost_around_stop', 'detail': line, 'ops': [line]})
        if len(alive) != 1: fails.append({'kind': 'extra_server_after_stop_' + tr, 'detail': line, 'ops': [line]})
        elif not st.get('compile_requests'): fails.append({'kind': 'surviving_server_unreachable', 'detail': line, 'ops': [line]})
    finally:
        sc.kill(); shutil.rmtree(d, ignore_errors=True)
    return line, fails

def run(root, tag, sizes=(2, 8), uds_sizes=(4,)):
    fails = []; samples = []
    for n in sizes:
        l, f = cold_start(root, tag, n, False); samples.append(l); fails += f
    for n in uds_sizes:
        l, f = cold_start(root, tag, n, True); samples.append(l); fails += f
    l, f = unix_witness(root, tag); samples.append(l); fails += f
    for uds in (False, True):
        l, f = stop_then_successor(root, tag, uds); samples.append(l); fails += f
    ls, f = shutdown_and_idle(root, tag); samples += ls; fails += f
    return {'scenarios': len(samples), 'clients_started': sum(sizes) + sum(uds_sizes), 'fails': fails, 'samples': samples}
