#!/usr/bin/env python3
"""Writes MANIFEST.json from the table below (kept in one place so the manifest stays valid)."""
import json, os, subprocess
V = os.path.dirname(os.path.dirname(os.path.abspath(__file__)))
props = [json.loads(l) for l in open(os.path.join(V, 'properties.jsonl'))]
CLAIMED = {
 'C07': dict(technique='Lean 4 proof (invariant by induction over all op sequences of the LruDiskCache model) + differential correspondence (h_lru vs modeld lru) + implementation monitor',
    text='size_limit, no_panic and oversize_refused are proved for every sequence of public operations of the Lean model of LruDiskCache; the model is replayed step by step against the real LruDiskCache on random op sequences (0 disagreements required) and the property is monitored on the real object after every step. Index=disk and LRU-order are monitored, not yet theorems.',
    note='Trusted: Lean kernel, hand-written model Model/Lru.lean (tied by h_lru), harness generators. F-C07-a/b were genuine defects repaired by fix: commits; F-C07-c (leaked reservations) is an open known finding.',
    ref='DESIGN.md section 4 C07, Appendix A.3, B.13'),

 'C06': dict(technique='Lean 4 proof (one invariant preserved by every step of every thread in every interleaving, incl. crash+reopen) + differential correspondence (h_atomic vs modeld atomic) + read monitor on the real LruDiskCache',
    text='get_complete and crash_safe are proved for all interleavings, any number of threads and steps, of the inode-level model of the two-phase store; the model is replayed against the real LruDiskCache (real descriptors kept open across later steps, crash = abandoned temp files + reopen) and every read on the real code is checked for completeness and foreignness.',
    note='Trusted: Lean kernel, Model/Atomic.lean (tied by h_atomic), the reading of DiskCache::put/get as lock{prepare};write;lock{commit} (src/cache/disk.rs); process crash only, no power loss.',
    ref='DESIGN.md section 4 C06, Appendix A.5, B.2'),

 'C02': dict(technique='Lean 4 proof (injectivity of the key pre-image in its components for all pairs of requests, tag separation, determinism; constants regenerated from the Rust sources) + byte-exact correspondence with the real hash_key/preprocessor_cache_entry_hash_key + metamorphic monitor',
    text='encHash_components_inj, encHash_lang_sep, key_sound/key_complete (iff modulo an explicit hash collision), any_component_change_detected, redistribution_detected and the encPre versions are proved for all pairs of well-formed requests; language tags, CACHE_VERSION, FORMAT_VERSION and both allow-lists are regenerated from /repo on every run; the model pre-image is hashed with BLAKE3 by the harness and must equal the real key byte for byte on thousands of structured requests; langTags_distinct_except_cudaFE is decided over the regenerated tag table (after the fix of F-C02-d: the objc++ / objc++ header alias was real); the three remaining aliasing defects are kernel-checked witnesses and known findings.',
    note='Trusted: Lean kernel, translator for the constants, Model/Key.lean layout (tied byte-exactly), BLAKE3 is a parameter (collisions are an explicit disjunct). WF hypotheses: hex digests, NUL-free arguments < 2^56 bytes, payload not starting with 64 hex bytes / a tag extension.',
    ref='DESIGN.md section 4 C02, Appendix A.2, B.3, B.20'),

 'C08': dict(technique='Lean 4 proof (byte-level zip writer/reader model: roundtrip for all member lists, CRC-32 single-byte theorem, payload substitution detected) + byte-exact writer correspondence + exhaustive truncation/substitution correspondence and monitor on small real entries',
    text='roundtrip, codec_roundtrip, crc_single_byte and payload_substitution_detected are proved for every well-formed member list; the writer model reproduces the real CacheWrite archives byte for byte; the reader model is compared with the real zip reader on every truncation point and substitutions at every byte of small entries, and the real CacheRead is monitored for returning different contents. Truncations and header-field substitutions are covered by that exhaustive search only (partial), which found F-C08-b.',
    note='Trusted: Lean kernel, Model/Entry.lean + EntryRead.lean (tied by h_entry), zstd as a parameter (dec (enc x) = x). Known findings F-C08-a (zip64 locator in a name), F-C08-b (name aliasing through a substituted central-directory name).',
    ref='DESIGN.md section 4 C08, Appendix A.7, B.4, B.21'),

 'C04': dict(technique='Lean 4 proof (state-machine invariant of the time-macro finder over all read splits; induction over the recorded include list for the manifest check, all option combinations and file-system evolutions) + differential correspondence on the real finder and on real files + stale-hit monitor',
    text='finder_sound holds for every split of a file into non-empty reads; manifest_hit_sound shows that a manifest hit implies unchanged contents of every recorded header for all option combinations and all file-system evolutions (after the fixes of F-C04-a and F-C04-b: headers with time-macro text are content-compared too), time_macro_header_hit that __DATE__ / __TIME__ headers never hit and a __TIMESTAMP__ header hits only at its recorded mtime; recorder_sound covers the include recorder. Both models are replayed against the real TimeMacroFinder / chunked Digest and the real PreprocessorCacheEntry on real files.',
    note='Trusted: Lean kernel, Model/TimeMacro.lean, Model/Manifest.lean (tied by h_c04), kernel ctime monotonicity (theorem hypothesis). Open: F-C04-d (lexical .. normalisation through a symlinked directory).',
    ref='DESIGN.md section 4 C04, Appendix A.1, B.1, B.11'),

 'C18': dict(technique='Lean 4 proof (invariant over all message sequences with the allocation handler split at its unlock points; transition-table theorem) + differential correspondence on the real Scheduler through an in-crate driver with nested handler calls + invariant monitor on the private maps',
    text='scheduler_consistent (attribution, fresh ids, capacity cpus+1+cpus/8, no poisoning, no panicking update) is proved for every message sequence in which any message may occur inside an allocation window, for the handler as repaired by the fix: commit; transitions_only and in_progress_eq for every state. The model is replayed against the real Scheduler (allocation choices acceptance-checked) and the invariants are monitored on its private maps.',
    note='Trusted: Lean kernel, Model/Sched.lean (tied by hook H6), time frozen (time-outs excluded as in the property). F-C18-a was a genuine defect, repaired by a fix: commit; the pinned behaviour is kept as a kernel-checked witness.',
    ref='DESIGN.md section 4 C18, Appendix A.4, B.17'),

 'C17': dict(technique='Lean 4 proof (invariant over all histories with evictions as arbitrary steps) + differential correspondence on the real dist::TcCache + digest monitor',
    text='tc_sound is proved for every history of uploads (matching or not), insert-file, removals, evictions at any moment and reopenings, for insert_with as repaired by the fix: commit; the model is replayed against the real TcCache (small capacities force real LRU evictions) and every id reported present or served is re-hashed.',
    note='Trusted: Lean kernel, Model/TcCache.lean (tied by h_tc). F-C17-a was a genuine defect repaired by a fix: commit (kept as a kernel-checked witness of the pinned behaviour).',
    ref='DESIGN.md section 4 C17, Appendix B.18'),

 'C01': dict(technique='Lean 4 proof over regenerated argument tables and key constants (partition of the re-synthesised command line, hashed coverage, unhashed policy by decide over the whole table, L1 decision table, L0 transparency over all histories) + differential correspondence (real parse_arguments / generate_compile_commands, real get_cached_or_compile) + end-to-end monitor against direct gcc/clang runs',
    text='regen_partition, hashed_covers, regen_complete (every parse), unhashed_policy and tables_names_distinct (decide over the tables regenerated from gcc.rs/clang.rs on every run), hit_runs_nothing (whole L1 alphabet), transparent (all histories, under A1) and never_replayed_for_different_request (via C02) are proved; the parser model is diffed against the real gcc/clang parsers on 20 000 command lines per run, the decision table against the real get_cached_or_compile exhaustively, and real sccache+gcc/clang histories are compared with direct compiles.',
    note='Trusted: Lean kernel, translator, Model/Args.lean, ServerL1.lean, Spec.lean (tied by h_args/h_l1), A1 (compilers are functions of the hashed components: tested by the system monitor, not proved). Known findings F-C01-b (lossy non-UTF-8 values), F-C01-e, F-C01-k, F-C01-r, F-C01-s; F-C01-d (server umask 027) is fixed. Not modelled: -Xclang second pass.',
    ref='DESIGN.md section 4 C01, Appendix A.6, B.12, B.14, B.15'),
 'C03': dict(technique='Lean 4 proof (key determinism, allow-list filter, L0 repeat_hits over all histories, reopen keeps files, rustc key permutation invariance) + byte-exact key correspondence + end-to-end repeat monitor with server restarts',
    text='key_deterministic, unrelated_env_irrelevant, repeat_hits (any history of other requests, faults, restarts), reopen_preserves and rust_key_perm are proved; real-server histories with reverts, output-path and unrelated-env changes and restarts must classify every repeated successful request as a hit with zero compiler runs; after an entry was damaged behind the server (truncated, overwritten, deleted, flipped byte) the next request recompiles and stores and the one after that must hit again.',
    note='Trusted: Lean kernel, models tied by h_key / h_lru; the end-to-end monitor samples histories (gcc, clang; rustc in C05). Evictions excluded as in the statement.',
    ref='DESIGN.md section 4 C03, Appendix B.14'),
 'C09': dict(technique='Lean 4 proof (total decision functions over the finite fault alphabet, L0 over all fault histories, refinement L1 -> L0) + exhaustive enumeration of that alphabet on the real get_cached_or_compile + on-disk fault histories on the real server',
    text='storage_fault_total, failed_not_stored, store_outcome_irrelevant, ppsection_total (after the fix of F-C09-a), transparent_under_faults, failed_never_cached, repopulates and decide1_refines_estep are proved; the L1 table is enumerated exhaustively (144 + 14 cases) on the real code with a fault-injecting Storage and corrupted preprocessor-cache files, and real-server histories with on-disk faults must equal direct compiles.',
    note='Trusted: Lean kernel, Model/ServerL1.lean and Spec.lean (tied by h_l1). F-C09-a was a genuine defect repaired by a fix: commit.',
    ref='DESIGN.md section 4 C09, Appendix B.12, D.1, D.2'),
 'C15': dict(technique='Lean 4 proof (L0: no history changes a cache whose stores are all refused; L1: store outcome irrelevant; L2: the start-up scan of a read-only cache and every sequence of lookups keep every file, for every configured size) + correspondence (h_l1, h_lru) + before/after digest listing of a real read-only cache',
    text='readonly_unchanged, readonly_serves_and_compiles, store_outcome_irrelevant, get_keeps_files and readonly_session_keeps_files (after the fix of F-C15-a a read-only index is opened without a size limit) are proved; a pre-populated real cache served under READ_ONLY is listed with content digests before and after mixed request histories (also with SCCACHE_RECACHE and preprocessor cache mode off) and every result is compared with a direct compile. Size limits of 1 KiB and of 1.25 x the directory are among the variants. Open: rw_mode in the config file is dropped when a disk-cache variable is set (F-C15-b, kernel-checked witness).',
    note='Trusted: Lean kernel, models tied by h_l1 / h_lru; mtime touches are outside the statement.',
    ref='DESIGN.md section 4 C15, Appendix B.19'),

 'C14': dict(technique='Lean 4 proof (conservation laws by induction over any request list, interleaving invariance by commutation of increments) over an increment table regenerated from server.rs by the translator + real-server histories (sequential, concurrent, zeroed) diffed against the fold',
    text='law_requests, law_writes, law_compilations, ledger_hits, zero_quiescent (any history) and stats_interleaving_invariant (any two schedules of the same increments) are proved against the per-outcome increment table extracted from check_compiler/start_compile_task on every run; the 15 counters of a real server after real client histories must equal the fold, and the laws and a compiler-run ledger are evaluated on the real counters.',
    note='Trusted: Lean kernel, translator (regex extraction of stats increments), quiescence assumption. Per-language breakdown law is monitored on the real JSON, not modelled.',
    ref='DESIGN.md section 4 C14, Appendix B.6'),

 'C16': dict(technique='Lean 4 proof (conservation invariant over all interleavings of request/cancel/grant/spawn/exit steps) + differential correspondence on the real jobserver::Client at quiescent points + process-ledger monitor on a real CPU-restricted server',
    text='token_bound, token_conservation, token_no_leak, token_progress and cancelled_head_returns_token are proved for every sequence of pool steps and any number of requests; the real jobserver::Client (helper thread, oneshot hand-off, cancellation by dropping the future) is compared with the model at quiescent points, and a real server pinned to 2 CPUs is observed with an enter/leave ledger under failing compiles and killed clients followed by a saturating burst.',
    note='Trusted: Lean kernel, Model/Tokens.lean (tied by h_tokens), quiescence window of the harness. Real thread timing is not modelled (partial).',
    ref='DESIGN.md section 4 C16, Appendix B.5'),

 'C19': dict(technique='Lean 4 proof (confinement of the textual path arithmetic under explicit hypotheses, kernel-checked escape witness) + differential correspondence with the real join_suffix / std::path inside the sccache-dist crate + lexical-resolution monitor and toolchain-id probe on the real code',
    text='confined_all / every_step_inside (whatever the repaired resolve_inside accepts lies under the job root, every intermediate directory included, for every client-supplied remainder), refused_only_when_leaving, toolchain_path_confined and overlay_dir_confined (for every client-supplied toolchain id, the file the toolchain cache uses and the directory the overlay builder creates are exactly <root>/<a>/<b>/<id> and <builder>/toolchains/<id>; every other id is refused before a path is built) are proved; the pinned escape witnesses of F-C19-a/b/c (all fixed) are kernel-checked; the path model is diffed against the real join_suffix / Path::join / resolve_inside on thousands of adversarial pairs, and a real scheduler + build server (bubblewrap replaced by a chroot stand-in) runs ~30 crafted jobs per round — cwd, outputs, tar members, symlinks, toolchain contents, crafted toolchain ids — with a host listing before and after each. Partial: bubblewrap\'s namespace isolation itself cannot run here; symbolic links are outside the Lean model.',
    note='Trusted: Lean kernel, Model/Paths.lean + Proofs/Paths.lean definitions (tied by hook H6 and by the real build server). F-C19-a, F-C19-b and F-C19-c were genuine defects repaired by fix: commits.',
    ref='DESIGN.md section 4 C19, Appendix A.8, B.22'),

 'C12': dict(technique='Lean 4 proof (induction over swap histories of the memo model; key separation through C02) + differential correspondence on the real compiler_info + end-to-end swap histories against direct runs',
    text='memo_fresh holds for every history of binaries at a path in which equal mtime implies equal contents, and different_binaries_different_keys (via the C02 theorems) separates results of different binaries; the real SccacheService::compiler_info is compared with the model (digest used per request, re-detection) on swap histories, and a live server is driven through copy- and symlink-swaps of wrapper compilers with every result compared to a direct run; equal-length wrapper variants installed by rename and by in-place overwrite must get distinct keys from fresh servers of one process.',
    note='Trusted: Lean kernel, Model/Memo.lean (tied by h_memo). A replacement restoring an earlier mtime with new contents is outside the statement (kernel-checked witness, recorded).',
    ref='DESIGN.md section 4 C12, Appendix B.9'),

 'C11': dict(technique='Lean 4 proof (total decision function of the client over the finite alphabet of server behaviours) + exhaustive enumeration of that alphabet with the real client binary against a scripted fake server + kill / garbage-frame monitors on the real server',
    text='exit0_only_if_true_result, deliver_only_after_finished, ack_then_eof_local, lost_before_ack and ignore_io_error_always_local are proved over the whole alphabet of handle_compile_response; the real client binary is run against a fake server for every symbol (34 cases, 0 disagreements required); the real server is SIGKILLed during detection, preprocessing and compilation and bombarded with malformed frames while another client compiles.',
    note='Trusted: Lean kernel, Model/Client.lean (tied exhaustively by the fake-server run), bincode frame layout of the fake server. TCP half-open timing is not modelled.',
    ref='DESIGN.md section 4 C11, Appendix B.7, D.4'),

 'C13': dict(technique='Lean 4 proof (total decision function of dist_or_local_compile over stages x error classes; exit-status round trip for all codes) + exhaustive enumeration of that alphabet on the real get_cached_or_compile with a scripted dist::Client + real scheduler scenarios',
    text='fallback_total, other_failures_fall_back, remote_only_without_failure, cleanup_complete and exit_status_roundtrip (all codes 0..255, after the fix of F-C13-a) are proved; the real dist_or_local_compile is driven by an own dist::Client failing at every stage with every error class (20 cases, exhaustive over the model alphabet), too_small_reported_every_time (ClientTcM: over every request history with restarts, each request whose packaged toolchain does not fit the local toolchain cache is reported) and dist_command_shape (the argument vector that travels) are proved too; a real server with dist configured is run against a missing scheduler, a real scheduler without capacity, a wrong token and a toolchain cache that is too small, and against a real scheduler + build server (bubblewrap replaced by a chroot stand-in) with request histories compared to direct compiles. Partial: bubblewrap / docker isolation itself cannot run here.',
    note='Trusted: Lean kernel, Model/Dist.lean (tied by h_dist), Model/ClientTc.lean (tied at statement level by the system scenario). F-C13-a was a genuine defect repaired by a fix: commit; F-C13-b is open.',
    ref='DESIGN.md section 4 C13, Appendix B.8'),

 'C10': dict(technique='Lean 4 proof (the inode-level two-phase-store invariant of C06 read for output extraction: every interleaving of extraction and reader steps) + differential correspondence of the real extract_objects expressed as model actions + descriptor/inode/hard-link monitors',
    text='reader_sees_whole and outputs_always_complete hold in every interleaving of any number of extractions and readers; partial_failure_clean shows that a member failing part-way leaves every output path bound as before and no temporary name. The real CacheRead::extract_objects is run over existing outputs with descriptors opened beforehand, hard links and corrupt/missing later members, its effect is replayed on the model, and the real binary is observed restoring a path while a reader is in the middle of the old file.',
    note='Trusted: Lean kernel, Model/Atomic.lean (tied by h_extract and h_atomic), POSIX rename semantics.',
    ref='DESIGN.md section 4 C10, Appendix A.5, B.2'),

 'C20': dict(technique='Lean 4 proof (invariant over all interleavings of the client/server start-up protocol for TCP; inactivity-timer invariant over all event sequences; kernel-checked Unix-socket witness) + process census of real cold starts and witness replay on the real binary',
    text='tcp_singleton (any number of clients, any interleaving), idle_not_before and idle_disabled_never_exits (any sequence of arrivals and polls) are proved; unix_second_server is a kernel-checked witness that the property fails for Unix-socket addresses (finding F-C20-a), replayed on the real binary. Real cold starts with 2..N simultaneous clients are censused (one server, every request correct), a stop request with a compile in flight and the idle exit time are measured. Partial: real process schedules cannot be enumerated; no line-protocol correspondence for this model.',
    note='Trusted: Lean kernel, Model/Startup.lean and Idle.lean (hand-read from commands.rs / server.rs; tied only by census and witness replay), OS bind semantics.',
    ref='DESIGN.md section 4 C20, Appendix B.10'),

 'C05': dict(technique='Lean 4 proof (permutation invariance of the rustc key pre-image, filtered argument classes, framing injectivity, kernel-checked alias witness) + byte-exact framing correspondence + end-to-end rustc histories against direct runs',
    text='rust_key_perm, rust_key_ignores_extern_paths and encArg_inj are proved; extern_alias_witness is a kernel-checked counterexample to full sensitivity (finding F-C05-a) replayed on the real binary and rustc. The framing of OsString/String/PathBuf is compared byte-exactly with std Hash; real sccache+rustc histories over a generated crate must miss on every input edit, hit on every reordering, and equal a direct rustc run file by file. Partial: argument parsing and output computation of rust.rs are not modelled; the component order is hand-read.',
    note='Trusted: Lean kernel, Model/RustKey.lean (framing tied byte-exactly, layout hand-read), completeness of rustc dep-info.',
    ref='DESIGN.md section 4 C05, Appendix B.16'),
}
NA_REASON = 'not claimed'
def hooks():
    try:
        out = subprocess.run(['git', '-C', '/repo', 'log', '--format=%H %s'], capture_output=True, text=True).stdout
        return [l.split()[0] for l in out.splitlines() if 'verif hook' in l]
    except Exception: return []
m = {
 'version': 1,
 'setup_cmd': './setup.sh',
 'hooks': {'guard': '--cfg sccache_verif', 'enable': 'RUSTFLAGS="--cfg sccache_verif" (set in harness/.cargo/config.toml and by tools/vlib.py for /repo binaries)',
           'baseline_off_cmd': 'cd /repo && cargo nextest run --workspace --no-fail-fast --test-threads 8 --offline || cargo test --workspace --no-fail-fast --offline',
           'source_commits': hooks(), 'add_only': True},
 'engines': [{'name': 'lean-model', 'path': 'lean/SccacheModel', 'serves_properties': sorted(CLAIMED), 'kind_free_text': 'Lean 4 models, theorems (Props/*.lean) and the modeld line-protocol driver'},
             {'name': 'harness', 'path': 'harness', 'serves_properties': sorted(CLAIMED), 'kind_free_text': 'Rust correspondence harness calling the real sccache code in-process'},
             {'name': 'translator', 'path': 'tools/translate.py', 'serves_properties': ['C01', 'C14'], 'kind_free_text': 'regenerates Gen/*.lean from /repo sources'}],
 'checks': [], 'not_applicable': [],
 'notes': 'Every check: ./check <id> --tier quick|thorough. Proof level = Lean theorems re-checked on every run + checked tie to /repo (translator and/or correspondence).',
}
for p in props:
    i = p['id']
    if i in CLAIMED:
        c = CLAIMED[i]
        m['checks'].append({'property_id': i, 'quick_cmd': f'./check {i} --tier quick', 'thorough_cmd': f'./check {i} --tier thorough',
            'evidence_file': f'evidence/{i}.json', 'replay_cmd_template': f'./check {i} --replay {{path}}', 'engine': 'lean-model+harness',
            'level_claimed': {'category': 'proof', 'text': c['text'], 'design_ref': c['ref']}, 'level_note': c['note'], 'technique': c['technique']})
    else:
        m['not_applicable'].append({'property_id': i, 'reason': NA_REASON})
json.dump(m, open(os.path.join(V, 'MANIFEST.json'), 'w'), indent=1)
print('claimed', len(m['checks']), 'not_applicable', len(m['not_applicable']))
